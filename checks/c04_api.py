"""C04, API tier -- nothing is served past its lifetime; composed answers inherit the
shortest part; a late refresh never overwrites newer data.

Lease.tla, answer half (SpecAnswer):
  * TLC exhaustive on MC_LeaseAnswer_quick.cfg (exact entries, both chases, request-tree
    cut, prefetch CAS, purge) and MC_LeaseAnswer_cut.cfg (subtree cut + denial proof
    RRsets) -- ServedLive, TTLShown, TTLMonotone, ComposedMin, LateWriteLoses
  * -simulate behaviours (Sim_LeaseAnswer.cfg: three-hop alias chain, negative and scoped
    keys, RRSIG / SOA-minimum TTL sources, TTLs above the 24 h cap, two queries in
    flight) replayed 1:1 on the real Cache.ServeDNS (message-born, byte path, wire-born),
    Store.SetFromResponseWithCut/Scoped, GetWithContext, ReplaceIfCurrent,
    RecordNXDomainCut/RecordDenialProof, Purge, with the overlay timestamp shifter as Tick
  * the recorded runs are validated by Trace_Lease.tla (TraceSpecA): the property
    predicates evaluated on the observed replies and stored lifetimes at every step.

The full-pipeline tier is built separately and merged by checks/c04.py.
"""
import glob
import os
import re

import vf

NOCUT = 1000000
_STATE_RE = re.compile(
    r"\\\* <(.*?) line \d+, col \d+ to line \d+, col \d+ of module \w+>\s*\nSTATE_\d+ ==\s*\n(.*?)(?=\n\n|\Z)", re.S)


def parse_label(label):
    m = re.match(r"^(\w+)(?:\((.*)\))?$", label.strip(), re.S)
    if not m:
        raise vf.MachineryError("bad action label %r" % label)
    args = []
    if m.group(2) is not None and m.group(2).strip() != "":
        args = vf.unset(vf.parse_tla_value("<<" + m.group(2) + ">>"))
    name = m.group(1)
    if name == "TickBigS":
        return "TickA", args
    if name == "TickBigDS":
        return "TickD", args
    if name.endswith("S") and name[:-1] in SIM_VARIANTS:
        name = name[:-1]          # the rarely-enabled simulation variant of the same action
    return name, args


SIM_VARIANTS = {"Lease", "CacheWrite", "SubQueryWrite", "PrefetchComplete", "CutWrite", "ProofWrite", "Purge",
                "ParentWithdraw", "ParentRepoint", "ParentRetime", "ServeAnswer", "SelfReferral", "TickD"}


def fn_items(f):
    """TLC function value -> list of (key, value); a sequence has keys 1..n."""
    if isinstance(f, list):
        return [(i + 1, v) for i, v in enumerate(f)]
    return list(f.items())


def parse_state_vars(text, wanted):
    st = {}
    for part in re.split(r"(?:^|\n)\s*/\\ ", "\n" + text.strip()):
        part = part.strip()
        m = re.match(r"([A-Za-z_][A-Za-z0-9_]*)\s*=\s*", part)
        if not m or m.group(1) not in wanted:
            continue
        st[m.group(1)] = vf.unset(vf.parse_tla_value(part[m.end():]))
    return st


def sim_behaviours(ctx, spec, cfg, num, depth, wanted, timeout=900):
    """-simulate file=...: behaviours as [(label, {wanted vars})]; only the variables a
    driver needs are parsed (a Lease state prints ~100 lines)."""
    d = ctx.spec_dir("Lease")
    pref = os.path.join(d, "sim_%d_%s" % (len(ctx.cov["tlc_runs"]), cfg.replace(".cfg", "")))
    r = ctx.tlc("Lease", spec, cfg, workers=1, timeout=timeout,
                args=["-simulate", "file=%s,num=%d" % (pref, num), "-depth", str(depth), "-seed", str(ctx.seed)],
                must_pass=False, tag="simulate", count=False, heap="4g")
    if r.rc != 0:
        raise vf.MachineryError("TLC simulate failed rc=%d\n%s" % (r.rc, "\n".join(r.out.splitlines()[-40:])))
    behs = []
    for fn in sorted(glob.glob(pref + "_*")):
        with open(fn) as f:
            text = f.read()
        behs.append([(m.group(1).strip(), parse_state_vars(m.group(2), wanted)) for m in _STATE_RE.finditer(text)])
        os.remove(fn)
    return behs


def answer_behaviours(behs, chain, prefix):
    out = []
    for bi, b in enumerate(behs):
        if len(b) < 2:
            continue
        steps = []
        pre = b[0][1]["nextId"]
        for lab, st in b[1:]:
            op, args = parse_label(lab)
            rep = dict(st["reply"])
            if rep.get("kind") == "reply":
                rep = {"kind": "reply", "answered": rep["answered"],
                       "pieces": [{"key": p["key"], "id": p["id"], "shown": p["shown"], "lvl": p["lvl"]}
                                  for p in rep["pieces"]]}
            parked = {}
            for r, rq in fn_items(st["req"]):
                if rq["st"] == "down":
                    path = chain[chain.index(rq["q"]):] if rq["q"] in chain else [rq["q"]]
                    parked[str(r)] = path[rq["k"] - 1]
            steps.append({"op": op, "args": args, "pre": pre, "exp": {"reply": rep, "parked": parked}})
            pre = st["nextId"]
        out.append({"id": "%s%d" % (prefix, bi), "steps": steps})
    return out


def validate_trace(ctx, cfg, trace, nb, what, driver_violations, base_inp=None, driver=None):
    nlines = sum(1 for _ in open(trace))
    ok, r = ctx.tlc_trace("Lease", "Trace_Lease.tla", cfg, trace, timeout=900)
    info = {"trace_lines": nlines, "trace_matched": max(0, r.depth - 1), "trace_behaviours": nb}
    if r.violated and r.violated != "TraceAccepted":
        lines = open(trace).read().splitlines()[: r.depth + 1]
        replay = {"trace_prefix": lines[-40:]}
        if base_inp is not None:
            # the behaviour the failing line belongs to, so --replay re-executes it on the code
            idx = sum(1 for ln in lines[: r.depth] if '"ev":"Reset"' in ln) - 1
            if 0 <= idx < len(base_inp["behaviours"]):
                one = dict(base_inp, behaviours=[base_inp["behaviours"][idx]])
                one.pop("traceOut", None)
                replay.update({"driver": driver, "input": one})
        ctx.violation("%s/trace/%s" % (what, r.violated),
                      "[%s] %s is false on a recorded execution of the real code (trace line %d)"
                      % (what, r.violated, r.depth), replay)
    elif not ok:
        if driver_violations:
            ctx.log("trace rejected after %d of %d lines (driver already reported a violation)" % (r.depth - 1, nlines))
        else:
            ctx.cov["drift"] += 1
            ctx.log("DRIFT: recorded execution not explained by Trace_Lease (%s) after %d of %d lines; "
                    "no property predicate failed" % (cfg, r.depth - 1, nlines))
            info["trace_rejected_tail"] = r.out.splitlines()[-15:]
    else:
        ctx.cov["traces_validated_against_impl"] += nb
    return info


ANSWER_ACTIONS = ("HitMsg", "HitWire", "Chase", "GetEntry", "HitScoped", "Lease", "CacheWrite", "NoAnswer",
                  "SubQueryWrite", "CutWrite", "ProofWrite", "HitCut", "HitDenial", "PrefetchStart",
                  "PrefetchComplete", "Purge", "TickA")
SIM_CHAIN = ["al", "md", "tg"]
NEG_CHAIN = ["al", "md", "ng"]


def run_api(ctx):
    thorough = ctx.tier == "thorough"
    ctx.assumptions += [
        "C04 API tier: the clock moves only between completed calls (timestamp shifter); a request parked in the "
        "scripted downstream handler holds only lease deadlines, which the driver re-folds shifted",
        "the 5 s floor is taken to apply to the minimum over record TTLs, RRSIG time-to-expiry and the SOA minimum "
        "(what dnsutil.CalculateCacheTTL does); only the delegation lease and the ECS cap undercut it",
        "failure-cache (RFC 9520) entries are not shifted: the drivers never produce SERVFAIL",
    ]
    # ---- the model alone ----------------------------------------------------
    cov = ["-coverage", "1"] if thorough else []
    runs = [ctx.tlc("Lease", "MC_LeaseAnswer.tla", "MC_LeaseAnswer_quick.cfg", workers=6, timeout=900, heap="6g",
                    tag="answer-quick", args=cov),
            ctx.tlc("Lease", "MC_LeaseAnswer.tla", "MC_LeaseAnswer_cut.cfg", workers=6, timeout=900, heap="6g",
                    tag="answer-cut", args=cov)]
    if thorough:
        runs.append(ctx.tlc("Lease", "MC_LeaseAnswer.tla", "MC_LeaseAnswer_scoped.cfg", workers=2, timeout=600,
                            heap="4g", tag="answer-scoped", args=cov))
        # two client queries in flight; a three-hop alias chain (outer-loop chase retry)
        ctx.tlc("Lease", "MC_LeaseAnswer.tla", "MC_LeaseAnswer_two.cfg", workers=8, timeout=2400, heap="12g", tag="answer-two")
        ctx.tlc("Lease", "MC_LeaseAnswer.tla", "MC_LeaseAnswer_full.cfg", workers=8, timeout=2400, heap="12g", tag="answer-full")
        never = set(ANSWER_ACTIONS)
        for r in runs:
            never &= set(r.zero_coverage())
        if never:
            raise vf.MachineryError("vacuous model check: actions never taken in any configuration: %s" % sorted(never))
    # ---- shifter self-test ----------------------------------------------------
    res = ctx.go_driver("./c04", "TestShifterSelfTest", {}, name="c04_selftest", timeout=900)
    if res.get("skipped"):
        raise vf.MachineryError("C04 shifter self-test failed: %s" % res["skipped"][:3])
    # ---- spec -> code ---------------------------------------------------------
    num = 8000 if thorough else 1500
    behs = sim_behaviours(ctx, "MC_LeaseAnswer.tla", "Sim_LeaseAnswer.cfg", num, 40, {"now", "reply", "req", "nextId"})
    bl = answer_behaviours(behs, SIM_CHAIN, "a")
    if len(bl) < num // 2:
        raise vf.MachineryError("only %d behaviours generated" % len(bl))
    trace = os.path.join(ctx.scratch, "c04_api.ndjson")
    inp = {"chain": SIM_CHAIN, "negKey": "ng", "scopedKey": "sc", "ecsCap": 3, "cutMax": 600,
           "behaviours": bl, "traceOut": trace}
    res = ctx.go_driver("./c04", "TestLeaseReplay", inp, name="c04_api", timeout=1500)
    ctx.take_driver_result(res, "[C04 API] ")
    if res.get("skipped"):
        raise vf.MachineryError("C04 replay skipped: %s" % res["skipped"][:3])
    cnt = res.get("counters", {})
    steps = cnt.get("steps", 0)
    if steps < 8 * len(bl):
        raise vf.MachineryError("C04 replay executed only %d steps of %d behaviours" % (steps, len(bl)))
    # wire_byte_served: a wire-born request answered from the entry's stored bytes while still undecoded
    # (serveHitFromWire -> serveWireIntoRequest); wire_byte_rehit_later: a second such hit on the same stored entry
    # at a later instant (what a reply-TTL patch leaking into the stored bytes needs to show)
    for need in ("served_via_msg", "served_via_msgw", "served_via_wire", "served_via_get", "op_PrefetchComplete",
                 "op_HitCut", "op_HitDenial", "op_Chase", "op_TickA", "wire_byte_served", "wire_byte_rehit_later"):
        if cnt.get(need, 0) == 0:
            raise vf.MachineryError("vacuous replay: %s never happened" % need)
    info = {"behaviours": len(bl), "steps": steps, "drift": res["drift"], "drift_notes": res.get("drift_notes", []),
            "counters": cnt}
    # ---- code -> spec ---------------------------------------------------------
    info.update(validate_trace(ctx, "Trace_LeaseAnswer.cfg", trace, len(bl), "C04 API", res.get("violations"), inp, "c04-lease"))
    ctx.cov["replay"]["c04_api"] = info
    # ---- the same with an alias chain that ends in a name that does not exist: composed NXDOMAIN replies,
    # every third one a bare denial without SOA (the lineage of the terminal hop has no record to ride on)
    ctx.tlc("Lease", "MC_LeaseAnswer.tla", "MC_LeaseAnswer_negchain.cfg", workers=6, timeout=900, heap="6g", tag="answer-negchain")
    numn = num // 3
    behn = sim_behaviours(ctx, "MC_LeaseAnswer.tla", "Sim_LeaseAnswerNeg.cfg", numn, 40, {"now", "reply", "req", "nextId"})
    bln = answer_behaviours(behn, NEG_CHAIN, "n")
    if len(bln) < numn // 2:
        raise vf.MachineryError("only %d negative-chain behaviours generated" % len(bln))
    tracen = os.path.join(ctx.scratch, "c04_api_neg.ndjson")
    inpn = {"chain": NEG_CHAIN, "negKey": "ng", "scopedKey": "sc", "ecsCap": 3, "cutMax": 600,
            "behaviours": bln, "traceOut": tracen}
    resn = ctx.go_driver("./c04", "TestLeaseReplay", inpn, name="c04_api_neg", timeout=1500)
    ctx.take_driver_result(resn, "[C04 API, negative chain] ")
    if resn.get("skipped"):
        raise vf.MachineryError("C04 negative-chain replay skipped: %s" % resn["skipped"][:3])
    cn = resn.get("counters", {})
    if cn.get("op_Chase", 0) == 0 or cn.get("steps", 0) < 8 * len(bln):
        raise vf.MachineryError("vacuous negative-chain replay: %s" % cn)
    infon = {"behaviours": len(bln), "steps": cn.get("steps", 0), "drift": resn["drift"],
             "drift_notes": resn.get("drift_notes", []), "counters": cn}
    infon.update(validate_trace(ctx, "Trace_LeaseAnswerNeg.cfg", tracen, len(bln), "C04 API negative chain",
                                resn.get("violations"), inpn, "c04-lease"))
    ctx.cov["replay"]["c04_api_negchain"] = infon
    return info


def run_replay(ctx, path):
    """bin/check --replay: re-execute exactly the recorded behaviour on the code under test (driver
    predicates + trace monitor).  Returns False if the file is not an API-tier replay."""
    import json
    with open(path) as f:
        rep = json.load(f)
    body = rep.get("replay", {})
    if not (isinstance(body, dict) and body.get("driver") == "c04-lease" and "input" in body):
        return False
    ctx.tlc("Lease", "MC_LeaseAnswer.tla", "MC_LeaseAnswer_tiny.cfg", workers=4, timeout=600, heap="4g", tag="replay-sanity")
    trace = os.path.join(ctx.scratch, "replay.ndjson")
    inp = dict(body["input"], traceOut=trace)
    res = ctx.go_driver("./c04", "TestLeaseReplay", inp, name="replay", timeout=900)
    ctx.take_driver_result(res, "[C04 API replay] ")
    info = {"behaviour": body.get("behaviour"), "steps": res.get("counters", {}).get("steps", 0)}
    info.update(validate_trace(ctx, "Trace_LeaseAnswer.cfg", trace, 1, "C04 API replay", res.get("violations"), inp, "c04-lease"))
    ctx.cov["replay"]["replayed"] = info
    ctx._distinct.update(["replay:" + path, "replay-steps:%d" % info["steps"]])
    return True


def run_ad_focus(ctx, num):
    """C06/C01 clause on composed replies, on the same driver: AD=1 only when every piece of a reply (alias hops
    served from separate entries on the message path, the byte path and the wire-born path) was validated.
    The lifetime predicates are C04's and count as drift here."""
    tot = {}
    for cfg, chain, tag in (("Sim_LeaseAnswer.cfg", SIM_CHAIN, "ad"), ("Sim_LeaseAnswerNeg.cfg", NEG_CHAIN, "adn")):
        behs = sim_behaviours(ctx, "MC_LeaseAnswer.tla", cfg, num, 40, {"now", "reply", "req", "nextId"})
        bl = answer_behaviours(behs, chain, tag)
        if len(bl) < num // 2:
            raise vf.MachineryError("only %d behaviours generated for the AD pass" % len(bl))
        inp = {"chain": chain, "negKey": "ng", "scopedKey": "sc", "ecsCap": 3, "cutMax": 600, "behaviours": bl,
               "traceOut": os.path.join(ctx.scratch, "c06_%s.ndjson" % tag), "focus": "ad"}
        res = ctx.go_driver("./c04", "TestLeaseReplay", inp, name="c06_" + tag, timeout=1500)
        ctx.take_driver_result(res, "[composed AD, chain %s] " % "-".join(chain))
        cnt = res.get("counters", {})
        if cnt.get("replies_with_ad", 0) < 50 or cnt.get("op_Chase", 0) == 0:
            raise vf.MachineryError("vacuous AD pass: %s" % {k: cnt.get(k) for k in ("replies_with_ad", "op_Chase", "steps")})
        tot[tag] = {"behaviours": len(bl), "replies_with_ad": cnt.get("replies_with_ad", 0), "chases": cnt.get("op_Chase", 0),
                    "served_via_wire": cnt.get("served_via_wire", 0), "served_via_msgw": cnt.get("served_via_msgw", 0)}
        for b in bl:
            ctx._distinct.add("c06-ad:%s:%s" % (tag, b["id"]))
    ctx.cov["replay"]["composed_ad"] = tot
    return tot
