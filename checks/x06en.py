"""X06EN -- Serve.tla histories through the REAL UDP and TCP engine listeners (an extension module under C06 / C05).

ServeEngine.tla  EXTENDS Serve.tla (the same packets, configurations, upstream contents, the same two transcriptions of
                 the entry half and their properties) with what the owned engines keep BETWEEN two queries on one
                 transport job (slab): the job-owned edns writer slot handed out by StrictSlots, the TX region a TCP
                 rejection is stamped into, the admission-time byte-serving verdict of a cache entry.  Three constants
                 say whether the code performs the scrub that hides each of them (TRUE = the code as read).
  - TLC exhaustive: three packet menus (slot / reject / negcache), every history up to MaxQueries; the Serve.tla
    properties plus CookieOwn, BareIsBare, DnssecAsked (C06 on what the engine returned) and EngineAgrees (C05);
    negative configs that must violate their property: one scrub switched off each (CookieOwn, BareIsBare, DnssecAsked),
    all three off on the wide menu (EngineAgrees), the pre-fix CancelWithRcode on the wide menu (ReplyContract).
  - spec -> code (harness/x06en TestEngineReplay): an edge cover of each state graph -- every (state, packet) pair,
    the state including the ghosts "whose cookie was last in this slab's slot", "the TCP slab's TX has held a reply",
    "who owns the open connection" -- is replayed as histories of real packets from loopback sockets against running
    server.Server instances whose engines are sized to ONE slab (batched UDP reader: inline pass + replay on one worker;
    portable UDP reader: ServeRaw on the worker; TCP: one small-class token), next to a decoded-entry twin.  Judged
    with the byte-level reply contract of the other Serve entries (the same Go functions) and the listeners' own
    clauses; the model's outcome per edge is compared for drift.  Thorough adds the 4-query graphs and simulated
    histories over the wide menu.

Verdict classes.  `C06/*`: the reply contract and the listener clauses of the C06 statement.  `C05/*`: the engine entry
agrees with the decoded entry (decision, upstream invocations, decoded reply, follow-up).  `ONLY` restricts which class
is a violation when a property check runs this tier for its own statement; the other class is logged as drift.
"""
import json
import os
import threading

import vf

MOD = "ServeEngine"
SPEC = "MC_ServeEngine.tla"
ONLY = None          # None | "C06" | "C05"
NO_DIRECTED = os.environ.get("X06EN_NO_DIRECTED", "") not in ("", "0")   # mutation trials: generated histories only
FAMILIES = ["slot", "reject", "neg"]
NEGATIVES = [("MC_Eng_mut_slot.cfg", "CookieOwn"), ("MC_Eng_mut_txhdr.cfg", "BareIsBare"), ("MC_Eng_mut_auth.cfg", "DnssecAsked"),
             ("MC_Eng_mut_agree.cfg", "EngineAgrees"), ("MC_Eng_regress.cfg", "ReplyContract")]
ORDERS = ["order_cookie_then_bare_opt_udp", "order_cookie_then_bare_opt_tcp", "order_reply_then_reject_same_conn",
          "order_reply_then_reject_new_conn", "order_signed_denial_then_plain_client_udp", "order_signed_denial_then_plain_client_tcp"]
PARTS = [["A", "cd"], ["A", "nocd"], ["RRSIG", "cd"], ["RRSIG", "nocd"], ["unknown", "cd"], ["unknown", "nocd"]]


def counts(key):
    return ONLY is None or key.startswith(ONLY + "/")


# ---------------------------------------------------------------------------------------------------
# TLC output -> histories
# ---------------------------------------------------------------------------------------------------
def canon(v):
    return json.dumps(v, sort_keys=True)


def state_key(st):
    cached = st["cached"]
    return {"cfg": st["cfg"], "content": st["content"], "cached": [cached[canon(p)] for p in PARTS], "n": st["n"],
            "su": st["slot"]["udp"], "st": st["slot"]["tcp"], "txd": st["txd"], "conn": st["conn"]}


def graph_histories(ctx, fam, cfg, max_len):
    """Exhaustive run of one family with the labelled state graph (this IS the exhaustive check of the family: the cfg
    lists every property) and one printed line per edge with the model's outcome; returns histories covering every
    edge."""
    r, nodes, edges, inits = ctx.tlc_graph(MOD, SPEC, cfg, workers=1, timeout=600, heap="3g", tag="graph+exhaustive")
    exp = {}
    for rec in r.printed():
        if isinstance(rec, dict) and "key" in rec and "pkt" in rec:
            exp[(canon(rec["key"]), canon(rec["pkt"]))] = rec["exp"]
    if not exp:
        raise vf.MachineryError("graph %s: TLC printed no edge outcomes" % cfg)
    out = []
    for k, path in enumerate(vf.cover_paths(nodes, edges, inits, max_len)):
        first = nodes[path[0][0]]
        steps = []
        for (u, _, lab) in path:
            lab = lab.replace('\\"', '"')
            if not lab.startswith("GStep("):
                raise vf.MachineryError("graph %s: unexpected edge label %s" % (cfg, lab[:40]))
            pkt = vf.unset(vf.parse_tla_value(lab[len("GStep("):-1]))
            x = exp.get((canon(state_key(nodes[u])), canon(pkt)))
            if x is None:
                raise vf.MachineryError("graph %s: no printed outcome for an edge of the graph" % cfg)
            steps.append({"pkt": pkt, "exp": x})
        out.append({"name": "%s-%d" % (fam, k), "fam": fam, "cfg": first["cfg"], "content": first["content"], "steps": steps})
    ctx.cov["replay"]["x06en_graph_" + fam] = {"states": r.distinct, "edges": len(edges), "histories": len(out)}
    return out


def sim_histories(ctx, num, depth):
    """Simulated histories over the wide menu; the outcome of every step is read from the state (no view here)."""
    behs = ctx.tlc_behaviours(MOD, SPEC, "Sim_Eng_mixed.cfg", num=num, depth=depth)
    out, seen = [], set()
    for k, b in enumerate(behs):
        if len(b) < 2:
            continue
        steps = []
        prev = b[0][1]
        for _, st in b[1:]:
            eo = st["eout"]
            if not eo.get("valid"):
                break
            o, p = eo["o"], eo["pkt"]
            base = o.get("base", {})
            steps.append({"pkt": p, "exp": {
                "kind": o["kind"], "rcode": o.get("rcode", base.get("rcode", "")), "opt": bool(base.get("opt", False)),
                "tc": bool(base.get("tc", False)), "ad": bool(base.get("ad", False)), "cookie": bool(o.get("cookieFrom")),
                "dnssec": bool(o.get("dnssec", False)), "tail": bool(st["out"]["wire"]["tail"]),
                "same": p["proto"] == "tcp" and not p["newconn"] and prev["conn"] == p["client"]}})
            prev = st
        key = canon([b[0][1]["cfg"], b[0][1]["content"], [s["pkt"] for s in steps]])
        if steps and key not in seen:
            seen.add(key)
            out.append({"name": "sim-%d" % k, "fam": "mixed", "cfg": b[0][1]["cfg"], "content": b[0][1]["content"], "steps": steps})
    return out


# ---------------------------------------------------------------------------------------------------
# directed histories (in addition to the generated ones; they also warm the slabs of a --replay run)
# ---------------------------------------------------------------------------------------------------
BASE = dict(qr=False, opcode=0, qd=1, an=0, rd=True, ad=False, cd=False, qtype="A", qclass="IN", opt="ok", do=False,
            size=1232, cookie="none", nsid=False, keepalive=False, ecs="none", pad=False, unk=False, proto="udp",
            client=1, newconn=False)
PLAIN = {"nsid": False, "ratelimit": False, "ecs": "off"}


def pk(**kw):
    d = dict(BASE)
    d.update(kw)
    return d


def ex(**kw):
    d = dict(kind="reply", rcode="noerror", opt=True, tc=False, ad=False, cookie=False, dnssec=False, tail=False, same=False)
    d.update(kw)
    return d


def directed():
    none = ex(kind="none", rcode="", opt=False)
    notimp = ex(kind="bare", rcode="notimp", opt=False)
    formerr = ex(kind="bare", rcode="formerr", opt=False)
    d1 = [(pk(cookie="c8"), ex(cookie=True, tail=True)), (pk(client=2), ex()),
          (pk(proto="tcp", cookie="c8"), ex(cookie=True)), (pk(proto="tcp", client=2), ex()),
          (pk(proto="tcp", client=2, opcode=2), dict(notimp, same=True)), (pk(proto="tcp", client=2, opcode=2, newconn=True), notimp),
          (pk(proto="tcp", client=2, opt="badrdlen"), dict(formerr, same=True)), (pk(qr=True), none),
          (pk(proto="tcp", qr=True, client=2), dict(none, same=True)), (pk(proto="tcp", client=2, qd=2), dict(formerr, same=True))]
    d2 = [(pk(do=True), ex(rcode="nxdomain", dnssec=True, ad=True, tail=True)), (pk(client=2), ex(rcode="nxdomain")),
          (pk(client=2, opt="none"), ex(rcode="nxdomain", opt=False)), (pk(client=2, proto="tcp"), ex(rcode="nxdomain"))]
    d3 = [(pk(do=True, proto="tcp"), ex(dnssec=True, ad=True, tail=True)), (pk(client=2, opt="none", proto="tcp", newconn=True), ex(opt=False)),
          (pk(client=2), ex()), (pk(client=2, cd=True), ex(tail=True))]
    return [{"name": "directed-%d" % (i + 1), "fam": "directed", "cfg": PLAIN, "content": c,
             "steps": [{"pkt": p, "exp": x} for p, x in d]} for i, (c, d) in enumerate([("pos", d1), ("nxsig", d2), ("nodatasig", d3)])]


# ---------------------------------------------------------------------------------------------------
def fold(ctx, res, prefix):
    keep = []
    for v in res.get("violations", []):
        if not counts(v.get("key", "")):
            ctx.cov["drift"] += 1
            ctx.log("DRIFT (class %s is not this check's to judge): %s" % (v.get("key", "").split("/")[0], v.get("what", "")[:300]))
        else:
            keep.append(v)
    res["violations"] = keep
    ctx.take_driver_result(res, prefix)
    for n in res.get("drift_notes", [])[:6]:
        ctx.log("DRIFT: " + n[:400])


def parallel(jobs, width=4):
    results, errs = [None] * len(jobs), []
    sem = threading.Semaphore(width)

    def one(i, f):
        with sem:
            if errs:
                return
            try:
                results[i] = f()
            except BaseException as ex:  # noqa: BLE001
                errs.append(ex)

    ts = [threading.Thread(target=one, args=(i, f)) for i, f in enumerate(jobs)]
    for t in ts:
        t.start()
    for t in ts:
        t.join()
    if errs:
        raise errs[0]
    return results


def negative(ctx, cfg, inv):
    r = ctx.tlc(MOD, SPEC, cfg, workers=1, timeout=300, heap="2g", must_pass=False, tag="negative", count=False)
    if r.violated != inv:
        raise vf.MachineryError("negative config %s did not violate %s (got %s)" % (cfg, inv, r.violated))


def select(behs, cap, seed):
    """Quick tier: the whole cover when it fits, else a seeded sample that keeps every family represented."""
    if len(behs) <= cap:
        return behs
    import random
    rng = random.Random(seed * 6007 + 5)
    byfam = {}
    for b in behs:
        byfam.setdefault(b["fam"], []).append(b)
    out = []
    share = max(1, cap // len(byfam))
    for fam in sorted(byfam):
        lst = byfam[fam]
        rng.shuffle(lst)
        out += lst[:share]
    return out


def drive(ctx, behs, variants, budget, name):
    res = ctx.go_driver("./x06en", "TestEngineReplay", {"behaviours": behs, "variants": variants, "budget_s": budget, "only": ONLY or ""},
                        name=name, timeout=budget + 600)
    fold(ctx, res, "[engine replay] ")
    return res


def verdict(ctx, res, nbeh, variants):
    cnt = res.get("counters", {})
    ctx.cov["replay"]["x06en_engine"] = {"behaviours": nbeh, "variants": variants, "cases": res.get("cases", 0), "drift": res.get("drift", 0),
                                         "counters": cnt, "drift_notes": res.get("drift_notes", [])[:5]}
    if res.get("violations"):
        return
    if res.get("skipped"):
        raise vf.MachineryError("engine replay skipped work: %s" % res["skipped"][:3])
    stalled = sum(v for k, v in cnt.items() if k.startswith("eng_stalled_"))
    if stalled > max(2, nbeh // 20):
        raise vf.MachineryError("engine replay: %d histories stalled (machine too loaded for a verdict)" % stalled)
    ran = cnt.get("eng_histories", 0)
    if ran + stalled + cnt.get("eng_behaviours_over_budget", 0) * variants < nbeh * variants or ran < min(nbeh, 20):
        raise vf.MachineryError("engine replay ran %d of %d histories" % (ran, nbeh * variants))
    if cnt.get("eng_replies_judged", 0) < 100:
        raise vf.MachineryError("engine replay judged %d replies (vacuous)" % cnt.get("eng_replies_judged", 0))
    for eng in (["portable"] if cnt.get("eng_batch_unavailable") else ["batch", "portable"]):
        reused, changed = cnt.get("eng_udp_slab_reused_" + eng, 0), cnt.get("eng_udp_slab_changed_" + eng, 0)
        if reused < 20 or changed > reused // 10:
            raise vf.MachineryError("engine replay: consecutive datagrams met the same slab %d times, another %d times on the %s "
                                    "engine (the histories did not run on one slab)" % (reused, changed, eng))
    miss = [k for k in ORDERS if not cnt.get(k)]
    if miss:
        raise vf.MachineryError("engine replay: order never executed: %s (vacuous)" % miss)
    other = {k[len("other_class_"):]: v for k, v in cnt.items() if k.startswith("other_class_")}
    if other:
        ctx.log("DRIFT: verdicts of the class this check does not judge: %s" % other)
    if cnt.get("eng_drift_steps", 0) > max(10, res.get("cases", 0) // 5):
        raise vf.MachineryError("engine replay: %d of %d steps drifted from the model -- ServeEngine.tla no longer describes this "
                                "tree (no predicate failed)" % (cnt.get("eng_drift_steps", 0), res.get("cases", 0)))


def prepare(ctx):
    ctx.overlay_tags.update(["c10", "x06en"])
    ov = os.path.join(ctx.scratch, "overlay.json")
    if os.path.exists(ov):
        os.remove(ov)


def run_tier(ctx):
    thorough = ctx.tier == "thorough"
    ctx.cov["rule"] = (ctx.cov["rule"] + " | " if ctx.cov.get("rule") else "") + (
        "X06EN: cases = (configuration, upstream content, history of abstract packets with client and connection choice) "
        "covering every edge of the ServeEngine.tla state graphs, concretised to bytes and sent over loopback sockets to "
        "running servers whose UDP and TCP engines hold one slab; distinct = (configuration, packet, content, position)")
    ctx.assumptions += [
        "X06EN: loopback clients are exempt from the client rate limiter, so the engine families run with the limiter "
        "configured off (cookies are still issued by the edns layer); the limiter on the three in-process entries is X06RL's",
        "X06EN: the UDP slab cap is forced to 1 (batched reader) / 2 with steering datagrams (portable reader) and the TCP "
        "small class to one token, so that consecutive packets meet one slab; DoT shares the TCP engine code and is not driven",
        "X06EN: the scripted tail stands in the resolver's place; the chain above it (recovery .. cache) is the real one",
    ]
    prepare(ctx)
    ctx.spec_dir(MOD)
    graphs = [(fam, "Graph_Eng_%s.cfg" % fam, 3) for fam in FAMILIES]
    if thorough:
        graphs += [(fam + "4", "Graph_Eng_%s4.cfg" % fam, 4) for fam in FAMILIES]
    jobs = [(lambda f=f, c=c, m=m: graph_histories(ctx, f, c, m)) for f, c, m in graphs]
    jobs += [(lambda c=c, i=i: negative(ctx, c, i)) for c, i in NEGATIVES]
    if thorough:
        jobs.append(lambda: ctx.tlc(MOD, SPEC, "MC_Eng_mixed.cfg", workers=4, timeout=1200, heap="6g", tag="exhaustive"))
    results = parallel(jobs, width=6 if not thorough else 4)
    behs = [b for r in results[:len(graphs)] for b in r]
    if thorough:
        behs += sim_histories(ctx, 1500, 6)
    else:
        behs = select(behs, 420, ctx.seed)
    if not NO_DIRECTED:
        behs = directed() + behs
    for b in behs:
        ctx._distinct.add("x06en:%s:%s" % (b["fam"], canon([b["cfg"], b["content"], [s["pkt"] for s in b["steps"]]])))
    variants = 2 if thorough else 1
    res = drive(ctx, behs, variants, 330 if thorough else 28, "engine")
    verdict(ctx, res, len(behs), variants)


def run(ctx, replay_file):
    if replay_file:
        with open(replay_file) as f:
            rec = json.load(f)
        rp = rec.get("replay", rec)
        beh = rp.get("behaviour")
        if beh:
            # the recorded history behind the directed ones (a slab remembers the histories before it)
            prepare(ctx)
            res = drive(ctx, directed() + [beh], 2, 0, "replay_file")
            ctx.cov["states"] = max(1, ctx.cov["states"])
            ctx.cov["transitions"] = max(1, ctx.cov["transitions"])
            ctx.cov["replay"]["replayed_file"] = replay_file
            if ctx.violations:
                return
            ctx.log("the recorded history alone does not reproduce; re-running the tier with the recorded seed")
    run_tier(ctx)
