"""XAPI -- the HTTP management API as a state machine (system coverage beyond the listed properties).

Not tied to one of C01..C20.  The statement is the code's own documentation: /repo/api/README.md (Authentication, Endpoints,
Blocklist, Bulk operations, Cache purge), the doc comments of blocklist.BlockList / Exists / SetBatch / RemoveBatch and of
middleware.Purger.

Part A  tla/Api/Api.tla   blocklist (abstract keys: a domain, its sub-domain, a wildcard key, an unrelated name, a whitelisted
        name), cache (abstract <<name, type>> pairs), token configured or not; one action per endpoint (block set / remove /
        exists / get, set/batch, remove/batch, purge with a known / unknown type, metrics) with the spelling of the name (plain,
        trailing dot, upper case) and the Authorization header (none / good / bad / malformed / basic) as arguments, plus the DNS
        query through the chain (blocked | cache | upstream); `res` holds the last request's outcome.
  - TLC exhaustive: MC_Doc / MC_DocTok (the documented behaviour), MC_AsBuilt / MC_AsBuiltTok (as the code answers),
    MC_DocWide (thorough); 17 negative twins (model mutants that must each violate their named property);
    AsBuilt_SetDup / AsBuilt_BatchDup: AS BUILT the model violates SetSaysDuplicate / BatchAddedExcludesDup (README:
    "set returns success:false when the key was already present", "added excludes duplicates") -- reproduced on the real
    code (known finding); Obs_GetWildcard: block/get never finds a wildcard entry (observation).
  - spec -> code (harness/xapi TestXApi): TLC-simulated walks (Sim_Replay: all spellings, all header shapes, both token
    settings) replayed against the REAL api.API -- routes registered by the real Run(), requests through
    net/http/httptest into the real Router -- wired to the REAL default chain (blocklist ... cache, pipe.NewServer) with a
    scripted upstream.  After every step: status + JSON body judged against the README, the real blocklist projected
    through BlockList.Exists for every name of the universe and compared with the documented effect; DNS query steps are
    classified blocked / cache / upstream by the upstream's call counter; a closing sweep asks every name over DNS.
Part B  tla/ApiRouter/Router.tla   the router (api/router.go, api/tree.go) as a pure function: registered patterns x request
        path -> serving pattern + bound parameters | none.  TLC enumerates every (route set, path) as an initial state, checks
        Sound / UniqueRouted / NoMatchNone / ParamOneSegment on the model's answer (3 negative twins) and prints the case;
        each is replayed on a fresh real api.Router (both registration orders, plus the trailing-slash variant).
  - MC_Readme: the README's own endpoint table, paths = instantiations of its rows and their mutants: VERDICT-BEARING
    (a path that matches exactly one documented pattern reaches it with the documented parameters; a path that matches
    none gets 404).
  - MC_Tiny2 / MC_Tiny3 (thorough): every set of <= 2 / 3 patterns over {a, b, :p, :q, *}, every path of <= 3 segments over
    {a, b, c}: the tree does not backtrack and leaks parameters of abandoned branches on OVERLAPPING sets -- no document
    promises otherwise and the API registers no such set, so differences are OBSERVATIONS (router-*), never verdicts.

Verdict classes (digest keys) `api/<class>`: auth-open, auth-closed, auth-mutates, set-reply, set-success/<shape>, set-exists,
remove-reply, remove-success, exists, exists-reply, get, get-reply, batch-reply, batch-added/duplicate, batch-removed,
batch-empty, purge-reply, purge-badtype, purge-kept, purge-overreach, query-not-blocked, query-blocked, effect/<op>, sweep,
metrics, probe/<name>, route/<class>.  XAPI_STRICT=1 turns observations into violations.
"""
import json
import os
from concurrent.futures import ThreadPoolExecutor

import vf

MOD = "Api"
SPEC = "MC_Api.tla"
TAG = "x00api"
STRICT = os.environ.get("XAPI_STRICT", "") not in ("", "0")

POSITIVE_QUICK = [("MC_Doc.cfg", 2), ("MC_DocTok.cfg", 4), ("MC_AsBuilt.cfg", 2)]
POSITIVE_THOROUGH = [("MC_AsBuiltTok.cfg", 4), ("MC_DocWide.cfg", 8)]
NEGATIVE = [
    ("Neg_AuthSkip.cfg", "Unauth"), ("Neg_AuthSkipPurge.cfg", "Unauth"), ("Neg_UnauthMutates.cfg", "Unauth"),
    ("Neg_SetNoStore.cfg", "SetEffect"), ("Neg_SetNoStoreB.cfg", "SetThenBlocked"), ("Neg_RemoveFamily.cfg", "RemoveEffect"),
    ("Neg_RemoveNoop.cfg", "RemoveEffect"), ("Neg_ExistsExact.cfg", "ExistsHonest"), ("Neg_BatchCount.cfg", "BatchSetEffect"),
    ("Neg_BatchCountDup.cfg", "BatchAddedExcludesDup"), ("Neg_BatchPartial.cfg", "BatchSetEffect"),
    ("Neg_PurgeAllTypes.cfg", "PurgeExact"), ("Neg_PurgeNoop.cfg", "PurgeExact"), ("Neg_BadTypePurges.cfg", "PurgeBadRejected"),
    ("Neg_BadTypePurgesRO.cfg", "ReadOnlyCache"), ("Neg_CacheFirst.cfg", "QueryHonest"), ("Neg_NoFill.cfg", "QueryHonest"),
]
AS_BUILT_FAILS = [
    ("AsBuilt_SetDup.cfg", "SetSaysDuplicate", "finding api/set-success/duplicate"),
    ("AsBuilt_BatchDup.cfg", "BatchAddedExcludesDup", "finding api/batch-added/duplicate"),
    ("Obs_GetWildcard.cfg", "GetWildcard", "observation get-wildcard"),
]


def ensure_overlay(ctx):
    ctx.overlay_tags.add(TAG)
    ov = os.path.join(ctx.scratch, "overlay.json")
    if os.path.exists(ov) and "verif_%s_shim.go" % TAG not in open(ov).read():
        os.remove(ov)


def parallel(jobs, par=8):
    with ThreadPoolExecutor(max_workers=par) as ex:
        futs = [ex.submit(j) for j in jobs]
        return [f.result() for f in futs]


def model_jobs(ctx, thorough):
    pos = POSITIVE_QUICK + (POSITIVE_THOROUGH if thorough else [])
    jobs = [lambda c=c, w=w: ctx.tlc(MOD, SPEC, c, workers=w, timeout=1200, heap="3g") for c, w in pos]
    jobs += [lambda c=c: ctx.tlc(MOD, SPEC, c, workers=1, timeout=300, heap="2g", must_pass=False, count=False, tag="mutant-must-fail")
             for c, _ in NEGATIVE]
    jobs += [lambda c=c: ctx.tlc(MOD, SPEC, c, workers=1, timeout=300, heap="2g", must_pass=False, count=False, tag="as-built-must-fail")
             for c, _, _ in AS_BUILT_FAILS]

    def post(out):
        info = {"exhaustive": {c: {"distinct": r.distinct, "generated": r.generated, "wall_s": round(r.wall, 1)}
                               for (c, _), r in zip(pos, out)}, "mutants_refute": {}, "as_built_refutes": {}}
        k = len(pos)
        for (c, want), r in zip(NEGATIVE, out[k:]):
            if r.violated != want:
                raise vf.MachineryError("%s: the model mutant must violate %s, TLC says %r (vacuous property?)\n%s"
                                        % (c, want, r.violated, "\n".join(r.out.splitlines()[-15:])))
            info["mutants_refute"][c] = want
        k += len(NEGATIVE)
        for (c, want, cls), r in zip(AS_BUILT_FAILS, out[k:]):
            if r.violated != want:
                raise vf.MachineryError("%s: as built the model must violate %s, TLC says %r" % (c, want, r.violated))
            info["as_built_refutes"][c] = "%s (%s)" % (want, cls)
        ctx.cov["replay"]["model"] = info
    return jobs, post


def listify(v):
    v = vf.unset(v)
    if isinstance(v, (list, tuple)):
        return [listify(x) for x in v]
    return v


def histories_of(behs, prefix):
    hs = []
    for n, beh in enumerate(behs):
        if not beh:
            continue
        steps = []
        tok = bool(beh[0][1]["tok"])
        for _, st in beh[1:]:
            r = st["res"]
            steps.append({"op": r["op"], "arg": listify(r["arg"]), "sp": r["sp"], "au": r["au"], "ok": bool(r["ok"]),
                          "status": int(r["status"]), "flag": listify(r["flag"]), "bl": sorted(listify(st["bl"])),
                          "cache": sorted(listify(st["cache"]))})
        hs.append({"id": "%s%d" % (prefix, n), "tok": tok, "steps": steps})
    return hs


def sim_histories(ctx, num, depth):
    behs = ctx.tlc_behaviours(MOD, SPEC, "Sim_Replay.cfg", num, depth, timeout=600)
    return histories_of(behs, "s")


def fold(ctx, res, prefix):
    ctx.take_driver_result(res, prefix)
    if res.get("skipped"):
        raise vf.MachineryError("driver gave up: %s" % res["skipped"][:3])
    return res.get("counters", {})


def run_tier(ctx):
    thorough = ctx.tier == "thorough"
    ensure_overlay(ctx)
    ctx.assumptions += [
        "XAPI: the statement is the API's documentation (api/README.md, doc comments of blocklist.BlockList and middleware.Purger); "
        "behaviour it does not cover is reported as OBSERVATION, not judged",
        "XAPI: requests enter through net/http/httptest into the router the real API.Run() populated (no socket); the chain is the "
        "real default chain up to the resolver, whose place a scripted upstream takes (every answer TTL 3600)",
        "XAPI: names come from a 7-name universe (domain, sub-domain, wildcard key, its apex, a name below it, an unrelated name, a "
        "whitelisted name); spellings plain / trailing dot / upper case; sequential requests only (no concurrency)",
    ]
    ctx.spec_dir(MOD)
    nsim, depth = (60, 48) if not thorough else (600, 80)
    mjobs, mpost = model_jobs(ctx, thorough)
    warm = [lambda: ctx.go_test("./xapi", "^TestXApiNothing$", timeout=900)]
    out = parallel(mjobs + [lambda: sim_histories(ctx, nsim, depth)] + warm + router_jobs(ctx, thorough))
    mpost(out[:len(mjobs)])
    hist = out[len(mjobs)]
    wrc, wout = out[len(mjobs) + 1]
    if wrc != 0:
        raise vf.MachineryError("the harness does not build:\n" + "\n".join(wout.splitlines()[-40:]))
    rcases = router_collect(ctx, out[len(mjobs) + 2:])
    if not hist:
        raise vf.MachineryError("no walk came out of Sim_Replay")
    inp = {"histories": hist, "probes": True, "strict": STRICT, "router": rcases}
    obs_path = os.path.join(ctx.scratch, "observations.tsv")
    res = ctx.go_driver("./xapi", "TestXApi", inp, name="xapi", timeout=1200, env={"XAPI_OBS_OUT": obs_path})
    c = fold(ctx, res, "[Api] ")
    report_observations(ctx, obs_path)
    info = {k: v for k, v in c.items()}
    info["drift"] = res["drift"]
    info["drift_notes"] = res.get("drift_notes", [])[:20]
    ctx.cov["replay"]["replay"] = info
    ctx.cov["traces_validated_against_impl"] += c.get("histories", 0)
    if not res.get("violations") or ctx.known_hits:
        vac = []
        need = {"steps": 1500, "steps_set": 50, "steps_remove": 50, "steps_purge": 50, "steps_query": 200, "unauthenticated": 50,
                "query_blocked": 20, "query_cache": 10, "query_upstream": 50, "purged_then_upstream": 3, "projections_equal": 1000,
                "outcome_equals_model": 1000, "probes": 5, "sweep_queries": 100}
        if res.get("violations"):
            need = {"steps": 300, "outcome_equals_model": 200}   # histories are cut at a (known) finding
        for k, n in need.items():
            if c.get(k, 0) < n:
                vac.append("%s=%d < %d" % (k, c.get(k, 0), n))
        nr = sum(len(s["cases"]) for s in rcases)
        if c.get("router_cases", 0) < nr or nr < 1000 or c.get("router_unique_routed", 0) < 500 or c.get("router_none", 0) < 200:
            vac.append("router cases %d of %d, unique matches routed %d, none %d" % (c.get("router_cases", 0), nr,
                                                                                      c.get("router_unique_routed", 0), c.get("router_none", 0)))
        if vac:
            raise vf.MachineryError("XAPI was vacuous: " + "; ".join(vac))
    ctx.log("replay: %d histories, %d steps; model = code on %d outcomes, differs on %d; %d projections equal; queries blocked/cache/upstream "
            "%d/%d/%d; purged-then-upstream %d; unauthenticated calls %d; router cases %d (equal %d, differing on overlapping sets %d)"
            % (c.get("histories", 0), c.get("steps", 0), c.get("outcome_equals_model", 0), c.get("outcome_differs_from_model", 0),
               c.get("projections_equal", 0), c.get("query_blocked", 0), c.get("query_cache", 0), c.get("query_upstream", 0),
               c.get("purged_then_upstream", 0), c.get("unauthenticated", 0), c.get("router_cases", 0), c.get("router_equal", 0), c.get("router_differs", 0)))


# ---------------------------------------------------------------------------------------------------
# Part B: the router tree (filled in only when tla/ApiRouter exists)
# ---------------------------------------------------------------------------------------------------
RMOD = "ApiRouter"
RSPEC = "MC_Router.tla"
R_NEGATIVE = [("Neg_WildEmpty.cfg", "Sound"), ("Neg_DropWild.cfg", "UniqueRouted"), ("Neg_Phantom.cfg", "NoMatchNone")]


def router_enumerate(ctx, cfg, judged):
    """TLC enumerates (route set, path) as initial states and prints each with the model's answer."""
    r = ctx.tlc(RMOD, RSPEC, cfg, workers=1, timeout=900, heap="3g")
    sets = {}
    n = 0
    for ln in r.out.splitlines():
        if not ln.startswith('"{') or "CASE" not in ln:
            continue
        rec = json.loads(json.loads(ln))
        key = json.dumps(rec["routes"])
        o = rec["out"]
        sets.setdefault(key, {"routes": rec["routes"], "judged": judged, "cases": []})["cases"].append(
            {"path": rec["path"], "route": o["route"], "params": o["params"], "rest": o["rest"], "n": o["n"]})
        n += 1
    if n == 0 or n != r.distinct:
        raise vf.MachineryError("%s: %d cases printed, %d states" % (cfg, n, r.distinct))
    return list(sets.values())


def router_jobs(ctx, thorough):
    ctx.spec_dir(RMOD)
    jobs = [lambda: router_enumerate(ctx, "MC_Readme.cfg", True),
            lambda: router_enumerate(ctx, "MC_Tiny3.cfg" if thorough else "MC_Tiny2.cfg", False)]
    jobs += [lambda c=c: ctx.tlc(RMOD, RSPEC, c, workers=1, timeout=300, heap="2g", must_pass=False, count=False, tag="mutant-must-fail")
             for c, _ in R_NEGATIVE]
    return jobs


def router_collect(ctx, outs):
    sets = outs[0] + outs[1]
    info = {"route_sets": len(sets), "cases": sum(len(s["cases"]) for s in sets), "mutants_refute": {}}
    for (c, want), r in zip(R_NEGATIVE, outs[2:]):
        if r.violated != want:
            raise vf.MachineryError("%s: the model mutant must violate %s, TLC says %r" % (c, want, r.violated))
        info["mutants_refute"][c] = want
    ctx.cov["replay"]["router_model"] = info
    return sets


def report_observations(ctx, obs_path):
    obs = {}
    if os.path.exists(obs_path):
        for ln in open(obs_path).read().splitlines():
            if "\t" in ln:
                c, w = ln.split("\t", 1)
                obs[c] = w
    for c in sorted(obs):
        print("OBSERVATION property=%s api/%s: %s" % (ctx.pid, c, obs[c]), flush=True)
    ctx.cov["replay"]["observations"] = obs
    return obs


def run(ctx, replay):
    if replay:
        return replay_file(ctx, replay)
    ctx.cov["rule"] = ("TLC-simulated walks of Api.tla (every endpoint, spelling, header shape, both token settings) replayed on the real "
                       "api.API + default chain; distinct = (endpoint, argument, spelling, header, status, body) and (question, outcome) cases")
    run_tier(ctx)


def replay_file(ctx, path):
    """bin/check XAPI --replay <file>: re-run exactly the recorded case."""
    with open(path) as f:
        rec = json.load(f)
    rp = rec.get("replay", rec)
    ensure_overlay(ctx)
    ctx.tlc(MOD, SPEC, "MC_AsBuilt.cfg", workers=2, timeout=600, heap="3g")
    drv = rp.get("driver")
    inp = {"histories": [], "probes": False, "strict": STRICT or "wildcard" in rec.get("digest_key", ""), "router": []}
    if drv == "replay":
        inp["histories"] = [rp["history"]]
    elif drv == "probes":
        inp["probes"] = True
    elif drv == "router":
        inp["router"] = [rp["case"]]
    else:
        raise vf.MachineryError("replay file %s: unknown driver %r" % (path, drv))
    obs_path = os.path.join(ctx.scratch, "observations.tsv")
    res = ctx.go_driver("./xapi", "TestXApi", inp, name="replay_xapi", timeout=900, env={"XAPI_OBS_OUT": obs_path})
    fold(ctx, res, "[replay Api] ")
    report_observations(ctx, obs_path)
    ctx.cov["rule"] = "replay of %s" % path
    ctx.sample({"replayed": path, "driver": drv})
    ctx._distinct.update(["replay", path])
