"""C13Z -- the zone-failure pipeline tier of C13 on its own (`bin/check C13Z`); checks/c13.py runs it as part of C13."""
import json

import c13_zone


def run(ctx, replay):
    ctx.cov["rule"] = ("states/transitions = TLC exhaustive runs of ZoneFail.tla over all server-behaviour vectors; evaluations = "
                       "vectors played by scripted authorities against the real full pipeline; distinct = distinct vectors")
    if replay:
        with open(replay) as f:
            doc = json.load(f)
        return c13_zone.replay_zone(ctx, doc["replay"])
    c13_zone.run_zone(ctx)
