"""X13ZB -- the circuit breaker and the RFC 9520 zone failure as state SHARED by a history of request trees
(serves C11, C12, C13; `bin/check X13ZB` runs it alone).

tla/ZoneFail/ZoneBrk.tla   the history level ZoneFail.tla leaves out: a zone with N <= 2 servers lives through a sequence of
             request trees of several clients (patient, impatient = own deadline, hangup = cancelled, deep = the tree's own
             outbound-query budget is spent on the way), the adversary changes the servers' behaviour in between (fast, late =
             healthy but slower than an impatient client waits, garbage, servfail) and 32 s pass.  Every upstream attempt ENDS
             as answer | rcode | upfail | deadline | hangup | peer (cancelled by a faster peer) | budget (refused by the tree's
             ledger before anything is sent) | refused (the breaker did not admit it); Counts = the endings that reach
             recordFailure.  The rule: only upstream failures count.
  - TLC exhaustive (N = 1 with the code's threshold 5; N = 2 with threshold 3, 5 and longer histories in thorough; rfc9520 off): OnlyUpstreamCounts,
    OthersNotFailed (C11), RefusedOnlyIfFailed, ZoneOnlyIfAllFailed (C13), LocalNeverShared (C12 / C13), KillSwitch.
  - every other ending put into Counts is a model mutant that must refute a named invariant (client deadline, hang-up, faster
    peer, budget refusal; against OthersNotFailed, ZoneOnlyIfAllFailed, LocalNeverShared, OnlyUpstreamCounts); reachability
    twins show legitimate refusals, legitimate zone failures and re-admission after the cool-down are not vacuous.
  - spec -> code: the counter-examples of the mutants (the shortest histories on which "this ending counts" differs from the
    rule), the witnesses of the reachability twins and simulated histories are played request by request on the real full
    pipeline against scripted authorities (harness/x13zb), a zone of its own per history; the verdict comes from the scripted
    servers' own record and the clients' replies only (OthersNotFailed, OnlyWhatFailed); the model's predicted verdict per
    request is compared too (drift).
"""
import json
import os
import re
from concurrent.futures import ThreadPoolExecutor

import vf

MOD = "ZoneFail"
SPEC = "ZoneBrk.tla"
PKG, TEST = "./x13zb", "TestZoneBreaker"
ONLY = None   # "C11" | "C12" | "C13": the property the tier is run for (None: the check's own id, else everything)

LATE_MS = 600          # a healthy answer an impatient client does not wait for ...
IMPATIENT_MS = 200     # ... its own deadline / hang-up
UP_TIMEOUT_MS = 3000   # per upstream attempt: 5 x the late answer (no scripted behaviour ever times out)
QUERY_TIMEOUT_MS = 20000
BACKOFF_S = 120        # failure_cache_min_ttl: longer than any history incl. its 32 s jump
BUDGET = 7             # max_outbound_queries of a request tree (enforce mode): room for two servers x (udp, udp, tcp)
TRIP = 5               # circuit_breaker.go

POSITIVE_QUICK = [("MC_B1", 2), ("MC_B2", 3), ("MC_BKill", 2)]
POSITIVE_THOROUGH = [("MC_B2full", 4), ("MC_B2deep", 6)]
# model mutants: (config, invariant that must be refuted, property families whose binding replays the counter-example)
NEGATIVE = [
    ("Neg_Deadline", "OthersNotFailed", ("C11", "C13")),
    ("Neg_DeadlineZone", "ZoneOnlyIfAllFailed", ("C11", "C13")),
    ("Neg_Budget", "OthersNotFailed", ("C12", "C13")),
    ("Neg_BudgetZone", "ZoneOnlyIfAllFailed", ("C12", "C13")),
    ("Neg_Hangup", "OthersNotFailed", ("C11", "C13")),
    ("Neg_Peer", "HealthyNotRefused", ("C11", "C13")),
    ("Neg_DeadlineLocal", "LocalNeverShared", ()),
    ("Neg_BudgetLocal", "LocalNeverShared", ()),
    ("Neg_DeadlineRule", "OnlyUpstreamCounts", ()),
]
REACH = [("Reach_LegitRefusal", "NeverLegitRefusal"), ("Reach_LegitZoneFailure", "NeverLegitZoneFailure"),
         ("Reach_Readmitted", "NeverReadmitted")]

ASSUMPTIONS = [
    "X13ZB: a late server answers after %d ms, an impatient client's own deadline / hang-up comes after %d ms (on the request "
    "context handed to Server.ServeMsg), the upstream attempt timeout is %d ms; the over-budget tree is a CNAME chain over healthy "
    "zones whose length is calibrated so that exactly the attempt aimed at the zone under test is refused by the ledger "
    "(max_outbound_queries = %d, enforce)" % (LATE_MS, IMPATIENT_MS, UP_TIMEOUT_MS, BUDGET),
    "X13ZB: the breaker's clock is moved by shifting the lastFailure of the history's own server addresses (overlay shim); the "
    "failure cache's back-off (%d s) outlasts every history; the exploration probe, N > 2 fan-outs and exchange's per-attempt "
    "retries are outside ZoneBrk.tla (ZoneFail.tla / Breaker.tla)" % BACKOFF_S,
    "X13ZB: 'legitimately skipped' is generous (a server that answered garbage in >= %d earlier trees, no reset, no cool-down); a "
    "history whose healthy scripted answers left more than 400 ms late is not judged; a flagged history is re-run alone on a "
    "fresh zone and only a reproduced predicate failure is reported" % TRIP,
]


def ensure_overlay(ctx):
    ctx.overlay_tags.add("x13zb")
    ov = os.path.join(ctx.scratch, "overlay.json")
    if os.path.exists(ov):
        with open(ov) as f:
            if "verif_x13zb_shim.go" not in f.read():
                os.remove(ov)


# --------------------------------------------------------------------------- TLC behaviours -> histories
def seq(v):
    """TLC prints a function over 1..n as a tuple."""
    if isinstance(v, dict):
        return [v[k] for k in sorted(v, key=lambda x: int(x))]
    return list(v)


def label_parts(lab):
    lab = lab.strip().replace('\\"', '"')
    m = re.match(r"^(\w+)(?:\((.*)\))?$", lab, re.S)
    if not m:
        raise vf.MachineryError("bad action label %r" % lab)
    args = []
    if m.group(2) is not None and m.group(2).strip():
        args = vf.unset(vf.parse_tla_value("<<" + m.group(2) + ">>"))
    return m.group(1), args


def history_of(beh, hid, src, expect=True):
    """[(label, state)] -> the harness's history; the model's prediction rides along unless the behaviour is a mutant's."""
    init = None
    steps = []
    for lab, st in beh:
        if init is None:
            init = seq(st["mode"])
            if not lab.startswith("Request") and not lab.startswith("SetMode") and not lab.startswith("Tick"):
                continue
        op, args = label_parts(lab)
        if op == "Request":
            s = {"op": "req", "kind": args[0]}
            if expect:
                s["exp"] = {"verdict": st["last"]["verdict"], "end": seq(st["last"]["end"]), "cnt": seq(st["cnt"]), "open": seq(st["open"])}
            steps.append(s)
        elif op == "SetMode":
            steps.append({"op": "mode", "s": int(args[0]), "m": args[1]})
        elif op == "Tick":
            steps.append({"op": "tick"})
        else:
            raise vf.MachineryError("unknown action %r in a ZoneBrk behaviour" % lab)
    if init is None or not any(s["op"] == "req" for s in steps):
        return None
    return {"id": hid, "n": len(init), "init": init, "steps": steps, "src": src}


def counterexample(r):
    parts = re.split(r"\nState (\d+): <(.*?) line \d+, col \d+ to line \d+, col \d+ of module \w+>\n", r.out)
    out = [(parts[i + 1].strip(), vf.parse_tla_state(parts[i + 2].split("\n\n")[0])) for i in range(1, len(parts) - 2, 3)]
    if not out:
        raise vf.MachineryError("could not read TLC's error trace")
    return out


def negative(ctx, cfg, want, fams):
    """A model mutant must refute `want`; its counter-example becomes a history for the real code."""
    r = ctx.tlc(MOD, SPEC, cfg + ".cfg", workers=1, timeout=300, heap="2g", must_pass=False, count=False, tag="mutant-must-fail")
    if r.violated != want:
        raise vf.MachineryError("%s: the model mutant must refute %s, TLC says %r (vacuous invariant?)" % (cfg, want, r.violated))
    if not fams:
        return None
    h = history_of(counterexample(r), cfg + "#cex", "mutant", expect=False)
    if h is None:
        raise vf.MachineryError("the counter-example of %s has no request" % cfg)
    # the request the mutant refuses is the victim: every kind is refused alike, the binding plays it as a patient client
    last = [s for s in h["steps"] if s["op"] == "req"][-1]
    last["kind"] = "patient"
    if cfg == "Neg_Peer":
        # the refused server is the slow healthy one a faster peer kept cancelling: its refusal shows once the fast one fails
        h["steps"] += [{"op": "mode", "s": i + 1, "m": "garbage"} for i, m in enumerate(h["init"]) if m == "fast"]
    # the forced part, then two more patient clients on names never asked before: the first meets whatever the breaker kept
    # of the earlier clients' endings, the second whatever was published for the zone
    h["steps"] += [{"op": "req", "kind": "patient"}, {"op": "req", "kind": "patient"}]
    h["fams"] = list(fams)
    return h


def reach(ctx, cfg, want):
    r = ctx.tlc(MOD, SPEC, cfg + ".cfg", workers=1, timeout=300, heap="2g", must_pass=False, count=False, tag="reach-must-fail")
    if r.violated != want:
        raise vf.MachineryError("%s: ZoneBrk.tla never reaches the situation (%s holds): vacuous" % (cfg, want))
    h = history_of(counterexample(r), cfg + "#witness", "witness")
    if h is None:
        raise vf.MachineryError("the witness of %s has no request" % cfg)
    h["steps"] += [{"op": "req", "kind": "patient"}]
    h["fams"] = ["C11", "C13"]
    return h


def simulated(ctx, cfg, num, depth):
    behs = ctx.tlc_behaviours(MOD, SPEC, cfg + ".cfg", num=num, depth=depth, timeout=600)
    out, seen = [], set()
    for bi, b in enumerate(behs):
        h = history_of(b, "%s#%d" % (cfg, bi), "simulate")
        if h is None:
            continue
        key = json.dumps([h["init"], [{k: v for k, v in s.items() if k != "exp"} for s in h["steps"]]])
        if key in seen:
            continue
        seen.add(key)
        kinds = {s.get("kind") for s in h["steps"] if s["op"] == "req"}
        h["fams"] = ["C13"] + (["C12"] if "deep" in kinds else []) + (["C11"] if "deep" not in kinds else [])
        out.append(h)
    return out


def params(hists, prop, parallel, confirm=False):
    return {"histories": hists, "prop": prop, "lateMs": LATE_MS, "impatientMs": IMPATIENT_MS, "upTimeoutMs": UP_TIMEOUT_MS,
            "queryTimeoutMs": QUERY_TIMEOUT_MS, "backoffS": BACKOFF_S, "budget": BUDGET, "trip": TRIP, "parallel": parallel,
            "confirm": confirm}


def family(ctx):
    if ONLY or os.environ.get("X13ZB_FAMILY"):      # (the environment variable: development / mutation trials of one family)
        return ONLY or os.environ["X13ZB_FAMILY"]
    return ctx.pid if ctx.pid in ("C11", "C12", "C13") else None


# --------------------------------------------------------------------------- tier
def run_tier(ctx):
    thorough = ctx.tier == "thorough"
    fam = family(ctx)
    ensure_overlay(ctx)
    ctx.assumptions += ASSUMPTIONS
    ctx.spec_dir(MOD)
    pos = POSITIVE_QUICK + (POSITIVE_THOROUGH if thorough else [])
    negs, reaches = NEGATIVE, REACH
    if fam in ("C11", "C12") and not thorough:
        # run as one tier of a larger check: the family's own mutants (the whole set runs in C13 and in X13ZB alone)
        pos = POSITIVE_QUICK[:2]
        negs = [a for a in NEGATIVE if fam in a[2]] + [a for a in NEGATIVE if a[0] == "Neg_DeadlineRule"]
        reaches = REACH if fam == "C11" else []
    bg = ThreadPoolExecutor(max_workers=2)
    posf = [bg.submit(lambda c=c, w=w: ctx.tlc(MOD, SPEC, c + ".cfg", workers=w, timeout=1500, heap="4g")) for c, w in pos]
    # the sample of free histories follows the family: the budget histories for C12, the deadline / hang-up / peer ones for C11
    nsim = {None: (10, 10), "C13": (10, 10), "C11": (8, 8), "C12": (12, 12)}[fam] if not thorough else (60, 80)
    jobs = [lambda a=a: negative(ctx, *a) for a in negs]
    jobs += [lambda a=a: reach(ctx, *a) for a in reaches]
    # (Sim_T*: the kinds that end on the client's clock -- no budget trees; Sim_W*: the budget trees among patient / impatient ones)
    simcfg = {"C11": ("Sim_T1", "Sim_T2"), "C12": ("Sim_W1", "Sim_W2")}.get(fam, ("Sim_B1", "Sim_B2"))
    jobs += [lambda: simulated(ctx, simcfg[0], nsim[0], 14), lambda: simulated(ctx, simcfg[1], nsim[1], 14)]
    try:
        with ThreadPoolExecutor(max_workers=6) as ex:
            out = [f.result() for f in [ex.submit(j) for j in jobs]]
    except BaseException:
        bg.shutdown(wait=True, cancel_futures=True)
        raise
    cex = [h for h in out[:len(negs)] if h]
    wit = out[len(negs):len(negs) + len(reaches)]
    sims = out[-2] + out[-1]
    hists = [h for h in cex + wit + sims if fam is None or fam in h["fams"]]
    for h in hists:
        ctx._distinct.add("zonebrk-history:" + json.dumps([h["init"], [{k: v for k, v in s.items() if k != "exp"} for s in h["steps"]]]))
    try:
        ctx.harness_prepare()
        res = ctx.go_driver(PKG, TEST, params(hists, fam or "X13ZB", 16 if not thorough else 24), name="zonebrk", timeout=900)
    finally:
        for f in posf:
            f.result()
        bg.shutdown(wait=True)
    conclude(ctx, res, hists, cex, wit, fam, negs)


def conclude(ctx, res, hists, cex, wit, fam, negs):
    ctx.take_driver_result(res, "[zone / breaker histories] ")
    cnt = res.get("counters", {})
    info = {"family": fam or "all", "histories": len(hists), "counter_examples_of_model_mutants": [h["id"] for h in cex if h in hists],
            "witnesses": [h["id"] for h in wit if h in hists], "replays": res["cases"], "drift": res["drift"],
            "drift_notes": res.get("drift_notes", []), "skipped": res.get("skipped", []), "counters": cnt,
            "mutants_refute": {c: w for c, w, _ in negs}}
    ctx.cov["replay"]["zone_breaker_histories"] = info
    ctx.cov["traces_validated_against_impl"] += cnt.get("histories_judged", 0)
    if res.get("skipped"):
        raise vf.MachineryError("zone / breaker history driver: %s" % res["skipped"][:3])
    judged = cnt.get("histories_judged", 0)
    if res["cases"] < len(hists) or judged < 0.7 * len(hists):
        raise vf.MachineryError("zone / breaker history driver judged only %d of %d histories (%s)" % (judged, len(hists), cnt))
    if not res.get("violations"):
        need = ["req_patient", "reply_answer"]
        if fam in (None, "C11", "C13"):
            need += ["req_impatient", "impatient_expired_in_flight", "played_late"]
        if fam in (None, "C12", "C13"):
            need += ["req_deep", "deep_refused_before_send"]
        if fam in (None, "C13"):
            need += ["played_garbage", "reply_cached"]
        missing = [k for k in need if not cnt.get(k)]
        if missing:
            raise vf.MachineryError("zone / breaker history replay is vacuous: %s missing in %s" % (missing, cnt))
    ctx.log("zone / breaker histories (%s): %d histories (%d mutant counter-examples, %d witnesses), judged=%d flagged=%d not-reproduced=%d "
            "starved=%d; requests patient=%d impatient=%d (expired in flight %d) hangup=%d deep=%d (refused before send %d); "
            "verdict as model=%d other=%d drift=%d" % (
                fam or "all", len(hists), len(info["counter_examples_of_model_mutants"]), len(info["witnesses"]), judged,
                cnt.get("histories_flagged", 0), cnt.get("flags_not_reproduced", 0), cnt.get("histories_starved_not_judged", 0),
                cnt.get("req_patient", 0), cnt.get("req_impatient", 0), cnt.get("impatient_expired_in_flight", 0), cnt.get("req_hangup", 0),
                cnt.get("req_deep", 0), cnt.get("deep_refused_before_send", 0), cnt.get("verdict_as_model", 0),
                cnt.get("verdict_not_in_model", 0), res["drift"]))


def replay_file(ctx, path):
    """bin/check <ID> --replay <file>: re-run exactly the recorded history, alone, and judge it."""
    with open(path) as f:
        rec = json.load(f)
    rp = rec.get("replay", rec)
    if rp.get("driver") != TEST or "history" not in rp:
        raise vf.MachineryError("replay file %s names no X13ZB history" % path)
    ensure_overlay(ctx)
    ctx.seed = int(rec.get("seed", ctx.seed))
    ctx.spec_dir(MOD)
    ctx.tlc(MOD, SPEC, "MC_B1.cfg", workers=2, timeout=600, heap="2g")
    ctx.harness_prepare()
    inp = params([rp["history"]], family(ctx) or "X13ZB", 1, confirm=True)
    for k, v in rp.get("params", {}).items():
        inp[k] = v
    res = ctx.go_driver(PKG, TEST, inp, name="zonebrk_replay", timeout=600)
    ctx.take_driver_result(res, "[replay zone / breaker history %s] " % rp["history"].get("id"))
    if res.get("skipped"):
        raise vf.MachineryError("zone / breaker history replay: %s" % res["skipped"][:3])
    ctx.cov["rule"] = "replay of %s" % path
    ctx.sample({"replayed": rp["history"], "violations": len(res.get("violations", []))})
    ctx._distinct.update(["replay", path])


def is_replay(path):
    try:
        with open(path) as f:
            rec = json.load(f)
    except (OSError, ValueError):
        return False
    return (rec.get("replay") or {}).get("driver") == TEST


def run(ctx, replay):
    ctx.cov["rule"] = ("states/transitions = TLC exhaustive runs of ZoneBrk.tla; evaluations = histories (counter-examples of the "
                       "model mutants, witnesses, simulated) played on the real full pipeline; distinct = distinct histories")
    if replay:
        return replay_file(ctx, replay)
    run_tier(ctx)
