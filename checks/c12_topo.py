"""C12, pipeline tier -- adversarial topologies through the real resolver pipeline.

run_topo(ctx):
  1. TLC checks ResolveWork.tla exhaustively (every topology of the bound is an Init choice):
     Terminates (<>AllDone and a strictly decreasing natural measure), WithinBudget,
     OverBudgetIsPrivate, ShadowEqualsOff, EnforceIsPrefix; three model mutants must fail.
  2. every finished behaviour prints its topology and the model's outcome; a seeded, stratified
     subset is concretised into authkit zones by harness/c12topo and resolved through the full
     default chain in modes off / shadow / enforce with budgets down to 1, qname-minimisation
     on and off; the scripted servers count the packets they receive per client query.
  3. DNSSEC-budget decorations (many DNSKEYs, same-tag keys, many RRSIGs per RRset,
     high-iteration NSEC3) ride on small topologies.
  4. ipv6access is a model dimension (v6 in ResolveWork.tla: detached helper jobs that outlive the reply
     and debit the same ledger; mutant DetachedFresh must violate WithinBudget / OneLedgerPerTree).
     Topologies with v6 = TRUE (incl. glue-less multi-NS referrals, N=3 fan-out 3) are replayed with
     ipv6access on; the harness counts one request tree until the resolver instance has no detached
     helper job left and judges WithinBudget on that total (their own driver process, side by side
     with the first chunk, because every run has to wait out the jobs' two-second start delay).
Predicates false on the real code -> ctx.violation (through the driver result).
"""
import json
import os
import random
import threading

import vf

MOD = "ResolveWork"


def _summaries(res, v6=False):
    """Deduplicated model summaries printed by the spec: topology key -> {t, runs{budget: r}}
    (only the behaviours of one value of the ipv6access dimension)."""
    topos = {}
    for v in res.printed():
        if not isinstance(v, dict) or "t" not in v or bool(v.get("v6")) != v6:
            continue
        key = json.dumps(v["t"], sort_keys=True)
        e = topos.setdefault(key, {"t": v["t"], "runs": {}})
        e["runs"]["%d/%d" % tuple(v["b"])] = v["r"]
    return topos


def _has_cycle(t):
    n = len(t)
    color = [0] * (n + 1)

    def dfs(u):
        color[u] = 1
        for w in t[u - 1]["tgt"]:
            if color[w] == 1 or (color[w] == 0 and dfs(w)):
                return True
        color[u] = 2
        return False
    return dfs(1)


def _stratum(t):
    kinds = sorted(set(x["kind"] for x in t))
    return "%s|%s" % ("cyc" if _has_cycle(t) else "dag", ",".join(kinds))


def _select(topos, want, rnd):
    """Stratified pick: round-robin over (cycle?, kind set) strata so rare shapes are not drowned."""
    strata = {}
    for k in sorted(topos):
        strata.setdefault(_stratum(topos[k]["t"]), []).append(k)
    for s in strata.values():
        rnd.shuffle(s)
    order = sorted(strata, key=lambda s: (not s.startswith("cyc"), s))
    rnd.shuffle(order)
    order.sort(key=lambda s: not s.startswith("cyc"))
    out = []
    while len(out) < want and any(strata.values()):
        for s in order:
            if strata[s] and len(out) < want:
                out.append(strata[s].pop())
    return out


def _case(cid, entry, rnd, idx):
    t = entry["t"]
    runs = entry["runs"]
    any_run = runs[sorted(runs)[0]]
    exp = "answer" if any_run["off"]["reply"] == "answer" else "servfail"
    nodes = [{"kind": x["kind"], "tgt": sorted(x["tgt"]), "fan": x["fan"]} for x in t]
    vs = [{"label": "off", "mode": "off"},
          {"label": "sh1", "mode": "shadow", "maxOut": 1, "maxInt": 1},
          {"label": "en1", "mode": "enforce", "maxOut": 1, "maxInt": 1}]
    for b in sorted(runs):
        o, i = (int(x) for x in b.split("/"))
        if (o, i) != (1, 1) and o <= 9:
            vs.append({"label": "en%d_%d" % (o, i), "mode": "enforce", "maxOut": o, "maxInt": i})
    vs += [{"label": "enU", "mode": "enforce", "rel": "under", "maxInt": 4000},
           {"label": "enX", "mode": "enforce", "rel": "exact", "maxInt": 4000},
           {"label": "enI", "mode": "enforce", "rel": "underInt"},
           {"label": "endef", "mode": "enforce"}]
    if idx % 3 == 0:
        vs += [{"label": "offq", "mode": "off", "qmin": 3},
               {"label": "shq", "mode": "shadow", "maxOut": 2, "maxInt": 1, "qmin": 3},
               {"label": "enUq", "mode": "enforce", "rel": "under", "maxInt": 4000, "qmin": 3},
               {"label": "en3q", "mode": "enforce", "maxOut": 3, "maxInt": 2, "qmin": 3}]
    if idx % 5 == 1:
        vs += [{"label": "offn", "mode": "off", "noEdns": True},
               {"label": "shn", "mode": "shadow", "maxOut": 1, "maxInt": 1, "noEdns": True},
               {"label": "en2n", "mode": "enforce", "maxOut": 2, "maxInt": 1, "noEdns": True}]
    if idx % 4 == 2:
        vs += [{"label": "offd", "mode": "off", "maxdepth": 6},
               {"label": "shd", "mode": "shadow", "maxOut": 1, "maxInt": 1, "maxdepth": 6},
               {"label": "enUd", "mode": "enforce", "rel": "under", "maxInt": 4000, "maxdepth": 6}]
    return {"id": cid, "nodes": nodes, "signed": False, "exp": exp, "variants": vs, "model": runs}


def _multi_ns(t):
    """A glue-less referral with several NS names (the NXNS shape the detached AAAA jobs walk)."""
    return any(x["kind"] == "NS" and len(x["tgt"]) >= 2 for x in t)


def _case_v6(cid, entry):
    """ipv6access on: no budget relative to another run (the variants of one case run side by side)."""
    t = entry["t"]
    runs = entry["runs"]
    any_run = runs[sorted(runs)[0]]
    exp = "answer" if any_run["off"]["reply"] == "answer" else "servfail"
    nodes = [{"kind": x["kind"], "tgt": sorted(x["tgt"]), "fan": x["fan"]} for x in t]
    vs = [{"label": "off", "mode": "off"},
          {"label": "sh1", "mode": "shadow", "maxOut": 1, "maxInt": 1},
          {"label": "en1", "mode": "enforce", "maxOut": 1, "maxInt": 1},
          {"label": "en4_2", "mode": "enforce", "maxOut": 4, "maxInt": 2},
          {"label": "en9_3", "mode": "enforce", "maxOut": 9, "maxInt": 3},
          {"label": "endef", "mode": "enforce"}]
    return {"id": cid, "nodes": nodes, "signed": False, "exp": exp, "ipv6": True, "variants": vs}


def _need_shims(ctx):
    """harness/c12topo reads the per-instance detached-job count through the c12 overlay shims; a check
    with another id (bin/check C12T) has to ask for them, and the overlay list is built only once."""
    if ctx.pid != "C12" and "c12" not in ctx.overlay_tags:
        ctx.overlay_tags.add("c12")
        ov = os.path.join(ctx.scratch, "overlay.json")
        if os.path.exists(ov):
            os.remove(ov)
    ctx.overlay_file()      # built here, before several driver threads could race to write it


SHADOW_ALL1 = {"label": "sh1", "mode": "shadow", "maxOut": 1, "maxInt": 1, "maxSig": 1, "maxKeys": 1, "maxRRSig": 1, "maxN3": 1}


def _signed_variant(case):
    """The same topology in a fully signed namespace (DS / DNSKEY sub-queries = internal budget)."""
    c = dict(case)
    c["id"] = case["id"] + "s"
    c["signed"] = True
    c["exp"] = "any"
    c["variants"] = [{"label": "off", "mode": "off"}, dict(SHADOW_ALL1),
                     {"label": "en1", "mode": "enforce", "maxOut": 1, "maxInt": 1},
                     {"label": "en6_2", "mode": "enforce", "maxOut": 6, "maxInt": 2},
                     {"label": "enU", "mode": "enforce", "rel": "under", "maxInt": 4000},
                     {"label": "enX", "mode": "enforce", "rel": "exact", "maxInt": 4000},
                     {"label": "endef", "mode": "enforce"}]
    return c


def _stress_cases(thorough):
    chain = [{"kind": "CNAME", "tgt": [2], "fan": 0}, {"kind": "A", "tgt": [], "fan": 0}]
    one = [{"kind": "A", "tgt": [], "fan": 0}]
    base = [{"label": "off", "mode": "off"}, dict(SHADOW_ALL1), {"label": "endef", "mode": "enforce"}]
    cs = [
        {"id": "st-keys6", "nodes": chain, "signed": True, "exp": "answer", "stress": {"keys": 6},
         "variants": base + [{"label": "enk1", "mode": "enforce", "maxKeys": 1}, {"label": "ens2", "mode": "enforce", "maxSig": 2},
                             {"label": "end1", "mode": "enforce", "maxSig": 1, "maxKeys": 1, "maxRRSig": 1}]},
        {"id": "st-sametag", "nodes": one, "signed": True, "exp": "answer", "stress": {"keys": 3, "sameTag": True},
         "variants": base + [{"label": "enk1", "mode": "enforce", "maxKeys": 1}, {"label": "enk2", "mode": "enforce", "maxKeys": 2}]},
        {"id": "st-sigs12", "nodes": one, "signed": True, "exp": "answer", "stress": {"sigs": 12, "keys": 1},
         "variants": base + [{"label": "enr1", "mode": "enforce", "maxRRSig": 1}, {"label": "ens3", "mode": "enforce", "maxSig": 3},
                             {"label": "enr16", "mode": "enforce", "maxRRSig": 16, "maxSig": 64}]},
        {"id": "st-n3hi", "nodes": one, "signed": True, "exp": "any", "stress": {"n3iter": 100, "nxQuery": True},
         "variants": base + [{"label": "enn1", "mode": "enforce", "maxN3": 1}, {"label": "enn3", "mode": "enforce", "maxN3": 3}]},
        {"id": "st-n3max", "nodes": one, "signed": True, "exp": "any", "stress": {"n3iter": 600, "nxQuery": True}, "variants": base},
    ]
    gen = [{"kind": "REFGEN", "tgt": [], "fan": 0}]
    cs += [
        # minimisation given up half-way (the root mishandles minimised probes): the restarted descent is the same
        # request tree; an ever-deeper referral generator below makes every unmetered attempt visible upstream
        {"id": "st-minfb", "nodes": gen, "signed": False, "exp": "any", "stress": {"minFallback": True},
         "variants": [{"label": "off", "mode": "off", "qmin": 5}, {"label": "sh1", "mode": "shadow", "maxOut": 1, "maxInt": 1, "qmin": 5},
                      {"label": "en6", "mode": "enforce", "maxOut": 6, "maxInt": 8, "qmin": 5}, {"label": "en3", "mode": "enforce", "maxOut": 3, "maxInt": 8, "qmin": 5},
                      {"label": "endef", "mode": "enforce", "qmin": 5}]},
    ]
    cs += [
        {"id": "st-manyns7", "nodes": one, "signed": False, "exp": "answer", "stress": {"manyNS": 7},
         "variants": [{"label": "off", "mode": "off"}, {"label": "sh1", "mode": "shadow", "maxOut": 1, "maxInt": 1},
                      {"label": "en4", "mode": "enforce", "maxOut": 4, "maxInt": 2}, {"label": "en9", "mode": "enforce", "maxOut": 9, "maxInt": 2},
                      {"label": "enU", "mode": "enforce", "rel": "under"}, {"label": "endef", "mode": "enforce"}]},
    ]
    if thorough:
        cs += [
            {"id": "st-manyns13", "nodes": chain, "signed": False, "exp": "answer", "stress": {"manyNS": 13},
             "variants": [{"label": "off", "mode": "off"}, {"label": "sh1", "mode": "shadow", "maxOut": 1, "maxInt": 1},
                          {"label": "en12", "mode": "enforce", "maxOut": 12, "maxInt": 2}, {"label": "enU", "mode": "enforce", "rel": "under"}]},
            {"id": "st-sigs5chain", "nodes": chain, "signed": True, "exp": "answer", "stress": {"sigs": 5, "keys": 2},
             "variants": base + [{"label": "enr2", "mode": "enforce", "maxRRSig": 2}, {"label": "ens4", "mode": "enforce", "maxSig": 4}]},
            {"id": "st-n3chain", "nodes": chain, "signed": True, "exp": "any", "stress": {"n3iter": 50, "nxQuery": True},
             "variants": base + [{"label": "enn2", "mode": "enforce", "maxN3": 2}]},
            {"id": "st-keys12", "nodes": one, "signed": True, "exp": "answer", "stress": {"keys": 12},
             "variants": base + [{"label": "enk3", "mode": "enforce", "maxKeys": 3}]},
        ]
    return cs


def _v6_model(ctx, thorough, out, errors):
    """The ipv6access configurations that are not part of MC_RW_n2 (run beside MC_RW_n3)."""
    try:
        cfg = "MC_RW_v6n3.cfg" if thorough else "MC_RW_v6n3q.cfg"
        r = ctx.tlc(MOD, "MC_RW.tla", cfg, workers=4, timeout=1800, heap="6g")
        out["t3"] = _summaries(r, v6=True)
        for cfg, want in (("MC_RW_reg_v6fresh.cfg", ("WithinBudget",)), ("MC_RW_reg_v6book.cfg", ("OneLedgerPerTree",))):
            rr = ctx.tlc(MOD, "MC_RW.tla", cfg, workers=2, timeout=300, heap="2g", must_pass=False, count=False, tag="regression-must-fail")
            if rr.violated not in want:
                raise vf.MachineryError("model mutant %s (detached job on a stray ledger) no longer violates %s (got %s): vacuous model?" % (cfg, want, rr.violated))
    except Exception as ex:  # noqa: BLE001 - re-raised by the caller
        errors["v6model"] = ex


def _drive(ctx, name, cases, workers, results, errors):
    try:
        inp = {"cases": cases, "workers": workers, "queryTimeoutMs": 3000, "netTimeoutMs": 300, "marginMs": 8000, "treeMs": 12000}
        results[name] = ctx.go_driver("./c12topo", "TestTopologies", inp, name=name, timeout=1500)
    except Exception as ex:  # noqa: BLE001 - re-raised by the caller
        errors[name] = ex


def run_topo(ctx):
    thorough = ctx.tier == "thorough"
    rnd = random.Random(ctx.seed)
    ctx.cov["rule"] += (" | C12 pipeline tier: topologies = Init choices of ResolveWork.tla (exhaustive N<=3, N=4 cycle family, "
                        "simulated N=4), each replayed on the full pipeline in off/shadow/enforce x budgets x qmin; "
                        "distinct = topology/variant/reply signature")
    ctx.assumptions += [
        "C12 pipeline: the model uses the code's caps (queryer 32, chase 10, DNAME 10, 3 attempts per tuple) except the referral-generator depth (3 for Maxdepth 30); the replay uses the real configuration",
        "C12 pipeline: upstream work is what the scripted servers receive (root priming '. NS' excluded, trust-anchor refresh awaited before the window)",
        "C12 pipeline: internal sub-queries are observed as cross-zone alias hops in the reply; DNSSEC operation counts are not observable at the pipeline",
        "C12 pipeline: OverBudgetIsPrivate is judged only on topologies whose firewall-off reply is a positive answer (no genuine failure to cache)",
        "C12 pipeline, ipv6access on: one request tree = everything the namespace's own scripted servers receive from the client query until the (single-client) resolver instance has no detached helper job left (IPv6 enrichment slots + exploration probes, at most 12 s); internal sub-queries are observed as distinct nameserver-address / alias questions other than the client's own (a lower bound)",
    ]
    # ---- 1. the model ---------------------------------------------------------------------
    topos = {}
    r = ctx.tlc(MOD, "MC_RW.tla", "MC_RW_n2.cfg", workers=4, timeout=600, heap="4g")   # both values of ipv6access
    t2 = _summaries(r)
    t2v6 = _summaries(r, v6=True)
    v6m, v6err = {}, {}
    v6th = threading.Thread(target=_v6_model, args=(ctx, thorough, v6m, v6err))
    v6th.start()
    try:
        r = ctx.tlc(MOD, "MC_RW.tla", "MC_RW_n3.cfg", workers=8, timeout=1200, heap="8g")
    finally:
        v6th.join()
    for ex in v6err.values():
        raise ex
    t3 = _summaries(r)
    t3v6 = v6m.get("t3") or {}
    if not t2 or not t3 or not t2v6 or not t3v6:
        raise vf.MachineryError("ResolveWork printed no behaviour summaries")
    for cfg, want in (("MC_RW_reg_tcp.cfg", ("WithinBudget",)), ("MC_RW_reg_shadow.cfg", ("ShadowEqualsOff", "OverBudgetIsPrivate")),
                      ("MC_RW_reg_leak.cfg", ("OverBudgetIsPrivate",))):
        rr = ctx.tlc(MOD, "MC_RW.tla", cfg, workers=2, timeout=300, heap="2g", must_pass=False, count=False, tag="regression-must-fail")
        if rr.violated not in want:
            raise vf.MachineryError("model mutant %s no longer violates %s (got %s): vacuous model?" % (cfg, want, rr.violated))
    t4 = {}
    if thorough:
        ctx.tlc(MOD, "MC_RW.tla", "MC_RW_n3full.cfg", workers=8, timeout=2400, heap="12g")
        ctx.tlc(MOD, "MC_RW.tla", "MC_RW_n4cycle.cfg", workers=8, timeout=2400, heap="12g")
        rs = ctx.tlc_simulate(MOD, "MC_RW.tla", "Sim_RW_n4.cfg", num=160, depth=400, timeout=1200)
        t4 = _summaries(rs)
    # ---- 2. selection ---------------------------------------------------------------------
    n2, n3, n4 = (20, 14, 0) if not thorough else (len(t2), 110, 60)
    picks = [("a", t2, k) for k in _select(t2, n2, rnd)] + [("b", t3, k) for k in _select(t3, n3, rnd)] + \
            [("c", t4, k) for k in _select(t4, n4, rnd)]
    cases = []
    for idx, (fam, src, k) in enumerate(picks):
        cases.append(_case("%s%03d" % (fam, idx), src[k], rnd, idx))
    signed = [_signed_variant(c) for i, c in enumerate(cases) if i % (4 if not thorough else 3) == 0]
    for c in cases + signed:
        c.pop("model", None)
    stress = _stress_cases(thorough)
    allc = cases + signed + stress
    # ipv6access on: a seeded, stratified pick of its own (the picks above stay what they were), the N=3 family
    # restricted to glue-less referrals with several NS names
    rnd6 = random.Random(ctx.seed * 7919 + 6)
    m3 = {k: e for k, e in t3v6.items() if _multi_ns(e["t"])}
    w2, w3 = (5, 4) if not thorough else (14, 18)
    v6cases = [_case_v6("v%03d" % i, src[k]) for i, (src, k) in enumerate(
        [(t2v6, k) for k in _select(t2v6, w2, rnd6)] + [(m3, k) for k in _select(m3, w3, rnd6)])]
    if len(v6cases) < 4 or not any(_multi_ns(c["nodes"]) for c in v6cases):
        raise vf.MachineryError("no ipv6access topologies with a glue-less multi-NS referral to replay (%d cases)" % len(v6cases))
    _need_shims(ctx)
    v6res, v6errs = {}, {}
    v6drv = threading.Thread(target=_drive, args=(ctx, "c12topo_v6", v6cases, 12, v6res, v6errs))
    v6drv.start()
    ctx.log("C12 pipeline: %d ipv6access topologies (%d N=2, %d N=3 multi-NS available) replayed beside the first chunk" % (len(v6cases), len(t2v6), len(m3)))
    ctx.log("C12 pipeline: %d topologies from TLC (%d N=2, %d N=3, %d N=4 available), %d signed twins, %d DNSSEC-stress cases" % (
        len(cases), len(t2), len(t3), len(t4), len(signed), len(stress)))
    # ---- 3. replay (a few driver processes so one process never holds too many resolvers) --
    chunk = 40
    chunks = [allc[i:i + chunk] for i in range(0, len(allc), chunk)]
    tot = {"cases": 0, "drift": 0, "counters": {}, "drift_notes": [], "skipped": []}
    par = 2 if thorough else 1
    for i in range(0, len(chunks), par):
        results, errors, ths = {}, {}, []
        for j, ch in enumerate(chunks[i:i + par]):
            th = threading.Thread(target=_drive, args=(ctx, "c12topo_%d" % (i + j), ch, 8 if par == 1 else 5, results, errors))
            th.start()
            ths.append(th)
        for th in ths:
            th.join()
        for ex in errors.values():
            raise ex
        for name in sorted(results):
            res = results[name]
            ctx.take_driver_result(res, "[C12 topologies] ")
            tot["cases"] += res["cases"]
            tot["drift"] += res["drift"]
            tot["drift_notes"] += res.get("drift_notes") or []
            tot["skipped"] += res.get("skipped") or []
            for k, v in (res.get("counters") or {}).items():
                tot["counters"][k] = tot["counters"].get(k, 0) + v
    v6drv.join()
    for ex in v6errs.values():
        raise ex
    res6 = v6res["c12topo_v6"]
    ctx.take_driver_result(res6, "[C12 topologies, ipv6access] ")
    c6 = res6.get("counters") or {}
    ctx.cov["replay"]["c12_topologies_ipv6"] = {
        "topologies": len(v6cases), "variant_runs": res6["cases"], "drift": res6["drift"], "drift_notes": (res6.get("drift_notes") or [])[:8],
        "skipped": (res6.get("skipped") or [])[:8], "counters": c6}
    # vacuity guards: the runs were made, the detached jobs really ran (and were waited for) where no budget stops
    # them, and small budgets were driven over
    if res6["cases"] < len(v6cases) * 5 or c6.get("v6_enforce_runs", 0) < len(v6cases) * 3:
        raise vf.MachineryError("C12 ipv6access replay ran only %d variant runs for %d cases (skipped: %s)" % (res6["cases"], len(v6cases), (res6.get("skipped") or [])[:3]))
    if c6.get("v6_free_packets_after_reply", 0) < len(v6cases):
        raise vf.MachineryError("C12 ipv6access replay: no detached helper lookup reached the servers after a reply (%s): jobs not waited for?" % c6)
    if c6.get("over_budget_replies", 0) < 2:
        raise vf.MachineryError("C12 ipv6access replay never drove the firewall over budget (%s)" % c6)
    ctx.cov["replay"]["c12_topologies"] = {
        "topologies": len(cases), "signed_twins": len(signed), "stress": len(stress), "variant_runs": tot["cases"],
        "drift": tot["drift"], "drift_notes": tot["drift_notes"][:8], "skipped": tot["skipped"][:8], "counters": tot["counters"]}
    # vacuity guards
    c = tot["counters"]
    if tot["cases"] < len(allc) * 3:
        raise vf.MachineryError("C12 pipeline replay ran only %d variant runs for %d cases (skipped: %s)" % (tot["cases"], len(allc), tot["skipped"][:3]))
    if len(tot["skipped"]) > max(3, tot["cases"] // 20):
        raise vf.MachineryError("C12 pipeline replay skipped too much: %s" % tot["skipped"][:5])
    if c.get("over_budget_replies", 0) < 5 or c.get("private_checked", 0) < 3:
        raise vf.MachineryError("C12 pipeline replay never drove the firewall over budget (%s)" % c)
    if c.get("upstream_packets", 0) < tot["cases"]:
        raise vf.MachineryError("C12 pipeline replay saw no upstream traffic (%s)" % c)
    return tot


def replay_topo(ctx, path):
    """Focused replay of one recorded violation (the recorded topology with all its variants).
    Returns False when the file is not a C12 pipeline replay."""
    with open(path) as f:
        rec = json.load(f)
    case = (rec.get("replay") or {}).get("case")
    if not isinstance(case, dict) or "nodes" not in case:
        return False
    ctx.tlc(MOD, "MC_RW.tla", "MC_RW_n2.cfg", workers=4, timeout=600, heap="4g")   # the property statement the replay is judged by
    _need_shims(ctx)
    inp = {"cases": [case], "workers": 1, "queryTimeoutMs": 3000, "netTimeoutMs": 300, "marginMs": 8000, "treeMs": 12000}
    res = ctx.go_driver("./c12topo", "TestTopologies", inp, name="c12topo_replay", timeout=900)
    ctx.take_driver_result(res, "[C12 topologies, replay] ")
    ctx.note_case("replay:" + str(case.get("id")))
    ctx.note_case("replay-file:" + path)
    ctx.cov["replay"]["c12_topologies_replay"] = {"case": case.get("id"), "variant_runs": res["cases"], "counters": res.get("counters", {})}
    return True
