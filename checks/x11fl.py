"""X11FL -- shared upstream lookups and resolver capacity slots (serves C10; slot side C11).

tla/Flight/Flight.tla   SingleflightWrapper + x/sync singleflight + Resolver.groupLookup (leader closure, regroup
             loop, per-caller copy) + resolutionSlots / zoneInflight / maxConcurrent
  - TLC exhaustive, every critical section / atomic of the code one action; mutant configs (no copy when shared,
    leader's id kept, retire by key, slot not released on the refusal path, no ctx arm in the select) must each
    violate their named property; liveness under fairness with an answering and with a silent upstream.
  - spec->code: Coarse behaviours (environment steps at quiescent states = the schedules the code's seams can
    force) simulated by TLC and forced on the real Resolver.groupLookup through a gated scripted upstream, the
    callers' contexts and the wrapper API; projection compared after every step, predicates on what the code did.
  - code->spec: free-running concurrent callers; the recorded history (one harness-side sequence number per
    invocation / response / upstream event) is (a) judged by the property monitor Monitor_Flight.tla (verdict
    bearing) and (b) explained by the implementation model through Trace_Flight.tla (acceptance / drift).
tla/Flight/Breaker.tla  circuitBreaker (closed -> open after 5 consecutive failures, 30 s cool-down, the first
             canQuery after it closes, success resets), every atomic one action; every transition of the
             sequential one-server model + simulated two-server call orders replayed on the real breaker with a
             shifted clock; concurrent histories validated against Trace_Breaker.tla.
tla/Flight/Pool.tla     try-acquire pools (probeSlots, v6LookupSlots): acquire-or-shed, release exactly once; every
             edge replayed on the real queryServer (probing) / Resolve with IPv6 enrichment.
"""
import glob
import json
import os
import re
from concurrent.futures import ThreadPoolExecutor

import vf

ENV_ACTS = ("Invoke", "Cancel", "Reply", "ForgetKey", "StuckScan")
PAR = 4  # small TLC jobs run side by side (1-2 workers each)


def label_parts(lab):
    lab = lab.strip().replace('\\"', '"')
    if "(" not in lab:
        return lab, []
    name, rest = lab.split("(", 1)
    return name, [a.strip().strip('"') for a in rest.rstrip(")").split(",")]


def fn(v, key, default=None):
    """TLC prints a function over 1..n as a tuple."""
    if isinstance(v, list):
        i = int(key) - 1
        return v[i] if 0 <= i < len(v) else default
    return v.get(key, v.get(str(key), default))


def items(v):
    if isinstance(v, list):
        return [(i + 1, x) for i, x in enumerate(v)]
    return [(int(k) if str(k).isdigit() else k, x) for k, x in v.items()]


def parallel(jobs):
    """jobs: list of zero-argument callables; returns their results in order (first exception re-raised)."""
    with ThreadPoolExecutor(max_workers=PAR) as ex:
        futs = [ex.submit(j) for j in jobs]
        return [f.result() for f in futs]


SIM_RE = re.compile(r"\\\* <(.*?) line \d+, col \d+ to line \d+, col \d+ of module \w+>\s*\nSTATE_\d+ ==\s*\n(.*?)(?=\n\n|\Z)", re.S)


class LazyState:
    """A TLC state printed by -simulate, parsed only when looked at (the printed states of Flight are large)."""
    __slots__ = ("text", "_v")

    def __init__(self, text):
        self.text, self._v = text, None

    def get(self):
        if self._v is None:
            self._v = vf.parse_tla_state(self.text)
        return self._v


def lazy_behaviours(ctx, module_dir, spec, cfg, num, depth, timeout=600):
    """ctx.tlc_behaviours with unparsed states: [(label, LazyState), ...] per behaviour."""
    d = ctx.spec_dir(module_dir)
    pref = os.path.join(d, "lsim_%s" % cfg.replace(".cfg", ""))
    r = ctx.tlc(module_dir, spec, cfg, workers=1, timeout=timeout,
                args=["-simulate", "file=%s,num=%d" % (pref, num), "-depth", str(depth), "-seed", str(ctx.seed)],
                must_pass=False, tag="simulate", count=False, heap="3g")
    if r.rc != 0:
        raise vf.MachineryError("TLC simulate failed rc=%d\n%s" % (r.rc, "\n".join(r.out.splitlines()[-40:])))
    behs = []
    for fnm in sorted(glob.glob(pref + "_*")):
        with open(fnm) as f:
            text = f.read()
        behs.append([(m.group(1).strip(), LazyState(m.group(2))) for m in SIM_RE.finditer(text)])
        os.remove(fnm)
    return behs


# ---------------------------------------------------------------------------------------------
# Flight: model state -> observable projection
# ---------------------------------------------------------------------------------------------
def flight_busy(st, max_c):
    for f, x in items(st["fl"]):
        ph = x["phase"]
        if ph in ("spawn", "res", "zadd", "zback", "relzone", "relres", "retire", "sfdone"):
            return True
        if ph == "mc" and (st["mcUsed"] < max_c or x["cancel"]):
            return True
        if ph == "lookup" and (x["reply"] != "none" or x["cancel"]):
            return True
        if x["hMC"] and ph not in ("mc", "lookup"):
            return True
    for c, x in items(st["cl"]):
        if x["pc"] in ("dochan", "post"):
            return True
        if x["pc"] == "wait" and (x["box"]["o"] != "none" or x["ctx"]):
            return True
    return any(v != 0 for _, v in items(st["scan"]))


def flight_projection(st):
    callers = {}
    for c, x in items(st["cl"]):
        la = fn(st["last"], c)
        if x["pc"] == "idle":
            callers[str(c)] = {"st": "idle", "o": la["o"], "f": la["f"], "lead": False}
        else:
            callers[str(c)] = {"st": "wait", "o": "none", "f": x["fl"], "lead": bool(x["lead"])}
    gate = [{"f": f, "k": x["key"], "leader": x["leader"]} for f, x in items(st["fl"]) if x["phase"] == "lookup"]
    m = dict(items(st["m"]))
    dups = {k: fn(st["fl"], f)["dups"] for k, f in m.items() if f != 0}
    return {"callers": callers, "gate": gate, "res": st["resUsed"], "mc": st["mcUsed"], "zone": dict(items(st["zb"])),
            "inflight": sorted(k for k, f in m.items() if f != 0),
            "current": sorted(k for k, g in items(st["cur"]) if g != 0),
            "tracked": sorted(k for k, g in items(st["track"]) if g != 0),
            "dups": dups}


def flight_steps(beh, max_c):
    """A Coarse behaviour -> the environment steps with the model's quiescent post-state."""
    steps, cur = [], None
    for i in range(1, len(beh)):
        lab, post = beh[i]
        name, a = label_parts(lab)
        if name in ENV_ACTS:
            if cur is not None:
                steps.append(cur)
            cur = {"act": name, "c": 0, "k": "", "f": 0, "o": ""}
            if name == "Invoke":
                cur.update(c=int(a[0]), k=a[1])
            elif name == "Cancel":
                cur.update(c=int(a[0]))
            elif name == "Reply":
                cur.update(f=int(a[0]), o=a[1])
            else:
                cur.update(k=a[0])
        if cur is None:
            raise vf.MachineryError("flight behaviour: internal step %s before any environment step" % lab)
        cur["post"] = post
    if cur is not None:
        steps.append(cur)
    for s in steps:
        s["post"] = s["post"].get()
    while steps and flight_busy(steps[-1]["post"], max_c):   # drain cut by the depth bound
        steps.pop()
    for s in steps:
        if flight_busy(s["post"], max_c):
            raise vf.MachineryError("flight behaviour: environment step taken in a busy state (Coarse not honoured)")
        s["post"] = flight_projection(s["post"])
    return steps


SIMS = {
    # name: (cfg, ResCap, ZoneCap, MaxC, zoneOf)
    "CoarseJ": ("Sim_CoarseJ.cfg", 3, 3, 3, {"k1": "z1"}),
    "Coarse": ("Sim_Coarse.cfg", 2, 1, 1, {"k1": "z1", "k2": "z1"}),
    "CoarseZ": ("Sim_CoarseZ.cfg", 1, 2, 2, {"k1": "z1", "k2": "z2"}),
}


def flight_inputs(ctx, thorough):
    plan = [("CoarseJ", 40, 120), ("Coarse", 30, 110), ("CoarseZ", 20, 110)]
    if thorough:
        plan = [(n, num * 20, depth + 30) for n, num, depth in plan]
    jobs = [(lambda n=n, num=num, depth=depth: lazy_behaviours(
        ctx, "Flight", "MC_Flight.tla", SIMS[n][0], num=num, depth=depth, timeout=600)) for n, num, depth in plan]
    return jobs, lambda sims: flight_inputs_post(plan, sims)


def flight_inputs_post(plan, sims):
    inputs, infos = [], {}
    all_acts, all_out = {}, {}
    for (name, num, depth), behs in zip(plan, sims):
        cfg, res_cap, zone_cap, max_c, zone_of = SIMS[name]
        uniq, acts, outcomes = {}, {}, {}
        for b in behs:
            steps = flight_steps(b, max_c)
            if len(steps) < 2:
                continue
            key = ";".join("%s%s%s%s%s" % (s["act"], s["c"], s["k"], s["f"], s["o"]) for s in steps)
            if key in uniq:
                continue
            uniq[key] = {"id": "%s-%d" % (name, len(uniq)), "steps": steps}
            prev = None
            for s in steps:
                acts[s["act"]] = acts.get(s["act"], 0) + 1
                if any(v >= 1 for v in s["post"]["dups"].values()):
                    acts["_joined"] = acts.get("_joined", 0) + 1
                if any(v >= 2 for v in s["post"]["dups"].values()):
                    acts["_joined2"] = acts.get("_joined2", 0) + 1
                if s["act"] == "Cancel" and prev is not None:
                    pc = prev["callers"][str(s["c"])]
                    if pc["lead"] and any(x["st"] == "wait" and x["f"] == pc["f"] and not x["lead"]
                                          for x in prev["callers"].values()):
                        acts["_leader_cancelled_with_followers"] = acts.get("_leader_cancelled_with_followers", 0) + 1
                for c, x in s["post"]["callers"].items():
                    was_waiting = prev is not None and prev["callers"][c]["st"] == "wait"
                    if x["st"] == "idle" and x["o"] != "none" and (was_waiting or (s["act"] == "Invoke" and str(s["c"]) == c)):
                        outcomes[x["o"]] = outcomes.get(x["o"], 0) + 1
                prev = s["post"]
        if len(uniq) < 10:
            raise vf.MachineryError("flight replay %s: only %d distinct behaviours (vacuous)" % (name, len(uniq)))
        for k, v in acts.items():
            all_acts[k] = all_acts.get(k, 0) + v
        for k, v in outcomes.items():
            all_out[k] = all_out.get(k, 0) + v
        inputs.append({"name": name, "resCap": res_cap, "zoneCap": zone_cap, "maxC": max_c, "callers": [1, 2, 3],
                       "keys": sorted(zone_of), "zoneOf": zone_of, "behaviours": list(uniq.values())})
        infos[name] = {"tlc_behaviours": len(behs), "distinct": len(uniq), "env_steps": acts, "model_returns": outcomes}
    miss = [a for a in ENV_ACTS + ("_joined", "_joined2", "_leader_cancelled_with_followers") if not all_acts.get(a)]
    miss += [o for o in ("ok", "fail", "ctx", "capZone", "capRes") if not all_out.get(o)]
    if miss:
        raise vf.MachineryError("flight replay: the behaviours never contain %s (vacuous)" % miss)
    return inputs, infos


def flight_replay_result(ctx, res, infos):
    cnt = res.get("counters", {})
    for name, info in infos.items():
        info.update(replayed=cnt.get("behaviours_" + name, 0), complete=cnt.get("behaviours_complete_" + name, 0),
                    code_returns={k[4:-len(name) - 1]: v for k, v in cnt.items() if k.startswith("ret_") and k.endswith("_" + name)},
                    leader_symmetry_resolved=cnt.get("leader_symmetry_resolved_" + name, 0))
        ctx.cov["replay"]["flight_replay_" + name] = info
        if not res.get("violations"):
            if info["replayed"] != info["distinct"]:
                raise vf.MachineryError("flight replay %s ran %d of %d behaviours" % (name, info["replayed"], info["distinct"]))
            if info["complete"] * 2 < info["distinct"]:
                raise vf.MachineryError("flight replay %s: only %d of %d behaviours were followed to the end by the code "
                                        "(binding lost): %s" % (name, info["complete"], info["distinct"], res.get("drift_notes", [])[:3]))
        ctx.log("flight replay %s: %d behaviours, %d followed to the end" % (name, info["distinct"], info["complete"]))


# ---------------------------------------------------------------------------------------------
# Flight: free-running stress, monitor, trace
# ---------------------------------------------------------------------------------------------
STRESS = {
    # name: (trace cfg or None, run parameters)
    "T3": ("Trace_T3.cfg", {"procs": 3, "ops": 2, "keys": ["k1", "k2"], "zoneOf": {"k1": "z1", "k2": "z1"},
                            "resCap": 1, "zoneCap": 2, "maxC": 1, "cancelPct": 30, "failMax": 3}),
    "T4": ("Trace_T4.cfg", {"procs": 4, "ops": 3, "keys": ["k1", "k2", "k3"], "zoneOf": {"k1": "z1", "k2": "z1", "k3": "z2"},
                            "resCap": 2, "zoneCap": 1, "maxC": 1, "cancelPct": 30, "failMax": 3}),
    "B32": (None, {"procs": 32, "ops": 20, "keys": ["k1", "k2", "k3", "k4", "k5", "k6"],
                   "zoneOf": {"k1": "z1", "k2": "z1", "k3": "z2", "k4": "z2", "k5": "z3", "k6": "z3"},
                   "resCap": 4, "zoneCap": 1, "maxC": 2, "cancelPct": 25, "failMax": 4}),
}


def stress_rounds(thorough):
    return {"T3": 60, "T4": 30, "B32": 20} if thorough else {"T3": 6, "T4": 4, "B32": 2}


def stress_input(ctx, thorough):
    rounds = stress_rounds(thorough)
    runs, traces = [], {}
    for name, (cfg, par) in STRESS.items():
        traces[name] = os.path.join(ctx.scratch, "flight_%s.ndjson" % name)
        runs.append(dict(par, name=name, rounds=rounds[name], traceOut=traces[name]))
    return {"runs": runs}, traces


def flight_stress_result(ctx, res, traces, thorough):
    rounds = stress_rounds(thorough)
    cnt = res.get("counters", {})
    infos = {}
    for name, (cfg, par) in STRESS.items():
        info = {"rounds": cnt.get("rounds_" + name, 0), "calls": cnt.get("calls_" + name, 0),
                "shared_results": cnt.get("shared_results_" + name, 0), "trace_lines": cnt.get("trace_lines_" + name, 0),
                "returns": {k[4:-len(name) - 1]: v for k, v in cnt.items() if k.startswith("ret_") and k.endswith("_" + name)}}
        infos[name] = info
        ctx.cov["replay"]["flight_stress_" + name] = info
        if info["rounds"] != rounds[name]:
            raise vf.MachineryError("flight stress %s ran %d of %d rounds" % (name, info["rounds"], rounds[name]))
    # vacuity: the recorded histories must contain shared lookups.  Judged over all stress families together: since
    # followers of a capacity-refused leader regroup instead of sharing its refusal (fix 1d56406) a small family under
    # an unlucky seed shares only a handful of results (seed 7, T3: 7 in one run, fewer than 4 in another)
    if sum(i["shared_results"] for i in infos.values()) < 4:
        raise vf.MachineryError("flight stress: no shared lookups in the recorded histories (vacuous): %s" % {
            n: i["shared_results"] for n, i in infos.items()})

    def replay_obj(name):
        return {"driver": "flight-stress", "run": dict(STRESS[name][1], name=name, rounds=rounds[name]), "seed": ctx.seed,
                "trace": open(traces[name]).read().splitlines()[:600]}

    # one monitor run over every recorded history (verdict-bearing)
    allpath = os.path.join(ctx.scratch, "flight_all.ndjson")
    with open(allpath, "w") as f:
        for i, name in enumerate(STRESS):
            if i:
                f.write(json.dumps({"ev": "Reset"}) + "\n")
            f.write(open(traces[name]).read())

    def monitor():
        return ctx.tlc_trace("Flight", "Monitor_Flight.tla", "Monitor.cfg", allpath, timeout=900, deque=False)

    budget = {}

    def explain(name):
        cfg = STRESS[name][0]
        if thorough and name == "T4":
            cfg = "Trace_T4t.cfg"
        mb = re.search(r"SearchBudget = (\d+)", open(os.path.join(ctx.spec_dir("Flight"), cfg)).read())
        budget[name] = int(mb.group(1))
        return ctx.tlc_trace("Flight", "Trace_Flight.tla", cfg, traces[name], timeout=900, deque=True)

    # binding demonstration (thorough): a T3 history with a response taken from another key's flight
    tampered = None
    if thorough:
        lines = [json.loads(x) for x in open(traces["T3"])]
        keys_by_tag = {ln["tag"]: ln["k"] for ln in lines if ln.get("ev") == "upq"}
        for ln in lines:
            if ln.get("ev") == "Reset":
                break
            if ln.get("ev") == "ret" and ln.get("kind") == "ok":
                other = [t for t, k in keys_by_tag.items() if k != keys_by_tag.get(ln["tag"])]
                if other:
                    ln["tag"] = other[0]
                    tampered = os.path.join(ctx.scratch, "flight_T3_tampered.ndjson")
                    with open(tampered, "w") as f:
                        for x in lines:
                            f.write(json.dumps(x) + "\n")
                    break
    traced = [n for n in STRESS if STRESS[n][0]]
    jobs = [monitor] + [lambda n=n: explain(n) for n in traced]
    if tampered:
        jobs += [lambda: ctx.tlc_trace("Flight", "Monitor_Flight.tla", "Monitor.cfg", tampered, timeout=300, deque=False),
                 lambda: ctx.tlc_trace("Flight", "Trace_Flight.tla", "Trace_T3.cfg", tampered, timeout=300, deque=True)]
    out = parallel(jobs)
    accepted = 0
    ok, r = out[0]
    if r.violated and r.violated != "Consumed" and not counts("flight/monitor/" + r.violated):
        ctx.cov["drift"] += 1
        ctx.log("DRIFT (not this check's to judge): %s is false on a recorded concurrent history of groupLookup" % r.violated)
    elif r.violated and r.violated != "Consumed":
        ctx.violation("flight/monitor/" + r.violated,
                      "[flight stress] %s is false on a recorded concurrent history of Resolver.groupLookup" % r.violated,
                      {"driver": "flight-stress", "seed": ctx.seed, "trace": open(allpath).read().splitlines()[:600]})
    elif not ok:
        raise vf.MachineryError("Monitor_Flight did not consume the histories\n%s" % "\n".join(r.out.splitlines()[-15:]))
    else:
        ctx.cov["replay"]["flight_monitor"] = {"lines": r.depth - 1}
        ctx.cov["traces_validated_against_impl"] += sum(i["rounds"] for i in infos.values())
    for name, got in zip(traced, out[1:1 + len(traced)]):
        _, r = got
        if r.violated is None and r.distinct >= budget[name] - 1000 and name != "T3":
            infos[name]["model_trace"] = "inconclusive (search budget of %d states exhausted)" % budget[name]
            ctx.log("flight stress %s: depth-first explanation search exhausted its budget; inconclusive" % name)
            continue
        if r.violated == "NotDone":
            accepted += 1
            infos[name]["model_trace"] = "accepted"
            infos[name]["model_trace_states"] = r.distinct
        elif r.violated and counts("flight/trace/" + r.violated):
            ctx.violation("flight/trace/" + r.violated,
                          "[flight stress %s] invariant %s is false on a recorded concurrent history of Resolver.groupLookup" % (name, r.violated),
                          replay_obj(name))
        else:
            ctx.cov["drift"] += 1
            infos[name]["model_trace"] = "not explained"
            ctx.log("DRIFT: recorded groupLookup history (%s) is not explained by Flight.tla; no property predicate failed" % name)
    if tampered and not ctx.violations:
        (_, rm), (_, rt) = out[-2], out[-1]
        if rm.violated != "OwnQuestion":
            raise vf.MachineryError("tamper test: Monitor_Flight did not flag a response taken from another key's flight (got %s)" % rm.violated)
        if rt.violated == "NotDone":
            raise vf.MachineryError("tamper test: Trace_Flight accepted a history in which a caller was served by another key's flight (binding lost)")
        infos["T3"]["tamper_rejected"] = True
    if accepted == 0 and not ctx.violations:
        raise vf.MachineryError("no recorded groupLookup history was accepted by Trace_Flight (binding lost)")


# ---------------------------------------------------------------------------------------------
# Breaker
# ---------------------------------------------------------------------------------------------
def breaker_ops(beh, servers):
    """A sequential (Atomic) Breaker behaviour -> calls / clock steps with model result and post-state."""
    ops, cur = [], None
    for i in range(1, len(beh)):
        lab, post = beh[i]
        name, a = label_parts(lab)
        rec = {s: {"ex": bool(fn(post["ex"], s)), "cnt": fn(post["cnt"], s), "dis": bool(fn(post["dis"], s))} for s in servers}
        if name == "Tick":
            ops.append({"op": "tick", "s": "", "d": int(a[0]), "res": "", "post": rec})
            continue
        if name == "Cleanup":
            ops.append({"op": "cleanup", "s": "", "d": 0, "res": "", "post": rec})
            continue
        if name in ("Start", "CanQuery", "RecordFailure", "RecordSuccess"):
            if cur is not None:
                raise vf.MachineryError("breaker behaviour is not sequential at %s" % lab)
            # TLC labels the instantiated definition Start(p, s, name, first)
            cur = {"op": a[2] if name == "Start" else {"CanQuery": "can", "RecordFailure": "fail", "RecordSuccess": "succ"}[name],
                   "s": a[1], "d": 0, "p": int(a[0])}
        if cur is None:
            raise vf.MachineryError("breaker behaviour: internal step %s outside a call" % lab)
        if fn(post["pc"], cur["p"]) == "idle":
            cur["res"] = fn(post["lastRes"], cur["p"])
            cur["post"] = rec
            ops.append(cur)
            cur = None
    return ops


def breaker_inputs(ctx, thorough):
    def cover():
        return ctx.tlc_graph("Flight", "Breaker.tla", "MC_BrkCover.cfg", workers=1, timeout=300, heap="4g", tag="exhaustive")

    def sim():
        return ctx.tlc_behaviours("Flight", "Breaker.tla", "Sim_Brk.cfg", num=40 if not thorough else 600, depth=300, timeout=600)

    return [cover, sim], lambda out: breaker_inputs_post(out[0], out[1])


def breaker_inputs_post(graph, behs):
    r, nodes, edges, inits = graph
    paths = vf.cover_paths(nodes, edges, inits, max_len=90)
    cover_behs = []
    for p in paths:
        b = [("Init", nodes[p[0][0]])] + [(lab, nodes[dst]) for (_, dst, lab) in p]
        cover_behs.append(b)
    inputs, infos = [], {}
    for name, servers, source in (("Cover", ["s1"], cover_behs), ("Sim2", ["s1", "s2"], behs)):
        uniq, kinds = {}, {}
        for b in source:
            ops = breaker_ops(b, servers)
            if not ops:
                continue
            key = ";".join("%s%s%s" % (o["op"], o["s"], o["d"]) for o in ops)
            if key in uniq:
                continue
            uniq[key] = {"id": "%s-%d" % (name, len(uniq)), "ops": ops}
            for o in ops:
                k = o["op"] + ":" + str(o["res"])
                kinds[k] = kinds.get(k, 0) + 1
                if any(v["dis"] for v in o["post"].values()):
                    kinds["_open"] = kinds.get("_open", 0) + 1
        if name == "Cover":
            miss = [k for k in ("can:true", "can:false", "fail:done", "succ:done", "tick:", "cleanup:", "_open") if not kinds.get(k)]
            if miss:
                raise vf.MachineryError("breaker cover: no call with outcome %s (vacuous)" % miss)
            infos[name] = {"graph_states": len(nodes), "graph_edges": len(edges), "paths": len(paths)}
        else:
            infos[name] = {"tlc_behaviours": len(behs)}
        infos[name].update(distinct=len(uniq), outcomes=kinds)
        inputs.append({"name": name, "servers": servers, "behaviours": list(uniq.values())})
    return inputs, infos


def breaker_result(ctx, res, infos, trace, thorough):
    cnt = res.get("counters", {})
    total = sum(i["distinct"] for i in infos.values())
    info = {"sources": infos, "replayed": cnt.get("brk_behaviours", 0), "complete": cnt.get("brk_behaviours_complete", 0),
            "calls": {k[4:]: v for k, v in cnt.items() if k.startswith("brk_") and k[4:] in ("can", "fail", "succ", "tick", "cleanup")}}
    ctx.cov["replay"]["breaker_replay"] = info
    if res.get("violations"):
        return
    if info["replayed"] != total:
        raise vf.MachineryError("breaker replay ran %d of %d call orders" % (info["replayed"], total))
    if info["complete"] * 10 < total * 9:
        raise vf.MachineryError("breaker replay: only %d of %d call orders matched the model to the end (binding lost): %s"
                                % (info["complete"], total, res.get("drift_notes", [])[:3]))
    # code -> spec
    lines = [json.loads(x) for x in open(trace)]
    openp, overlap = set(), 0
    for ln in lines:
        if ln["ev"] == "inv":
            overlap += 1 if openp else 0
            openp.add(ln["p"])
        elif ln["ev"] == "res":
            openp.discard(ln["p"])
    sinfo = {"rounds": cnt.get("brk_stress_rounds", 0), "lines": len(lines), "overlapping_calls": overlap}
    ctx.cov["replay"]["breaker_stress"] = sinfo
    if overlap < 3:
        raise vf.MachineryError("breaker stress: the recorded histories contain no overlapping calls (vacuous)")
    # a corrupted history (an admitted query turned into a refusal while nothing is open) must be rejected
    bad = os.path.join(ctx.scratch, "breaker_tampered.ndjson")
    tampered = False
    for ln in (lines if thorough else ()):
        if ln["ev"] == "res" and ln.get("op") == "can" and ln.get("res") == "true":
            ln["res"] = "false"
            tampered = True
            break
        if ln["ev"] == "Reset":
            break
    jobs = [lambda: ctx.tlc_trace("Flight", "Trace_Breaker.tla", "Trace_Brk.cfg", trace, timeout=300, deque=True)]
    if tampered:
        with open(bad, "w") as f:
            for x in lines:
                f.write(json.dumps(x) + "\n")
        jobs.append(lambda: ctx.tlc_trace("Flight", "Trace_Breaker.tla", "Trace_Brk.cfg", bad, timeout=300, deque=True))
    out = parallel(jobs)
    _, r = out[0]
    if r.violated == "NotDone":
        sinfo["model_trace"] = "accepted"
        ctx.cov["traces_validated_against_impl"] += sinfo["rounds"]
    elif r.violated is None and r.distinct >= 1500000 - 1000:
        sinfo["model_trace"] = "inconclusive (search budget exhausted)"
        ctx.log("breaker stress: depth-first explanation search exhausted its budget; inconclusive")
    elif r.violated and not counts("breaker/trace/" + r.violated):
        ctx.cov["drift"] += 1
        ctx.log("DRIFT (no listed statement speaks about the breaker's thresholds): %s is false on a recorded history" % r.violated)
    elif r.violated:
        ctx.violation("breaker/trace/" + r.violated, "[breaker stress] %s is false on a recorded concurrent history of the "
                      "circuit breaker" % r.violated, {"driver": "breaker-stress", "seed": ctx.seed, "trace": lines[:400]})
    else:
        ctx.cov["drift"] += 1
        sinfo["model_trace"] = "not explained"
        ctx.log("DRIFT: recorded circuit-breaker history is not explained by Breaker.tla; no property predicate failed")
    if tampered and len(out) > 1 and out[1][1].violated == "NotDone":
        raise vf.MachineryError("tamper test: Trace_Breaker accepted a history with a refusal while the breaker was closed (binding lost)")
    sinfo["tamper_rejected"] = tampered


# ---------------------------------------------------------------------------------------------
# Pool
# ---------------------------------------------------------------------------------------------
def pool_input(ctx, thorough):
    def graph():
        return ctx.tlc_graph("Flight", "Pool.tla", "MC_Pool.cfg", workers=1, timeout=120, heap="3g", tag="exhaustive")
    return [graph], lambda out: pool_input_post(out[0], thorough)


def pool_input_post(graph, thorough):
    r, nodes, edges, inits = graph
    paths = vf.cover_paths(nodes, edges, inits, max_len=12)
    behs = []
    for i, p in enumerate(paths):
        steps = []
        for (_, dst, lab) in p:
            name, a = label_parts(lab)
            st = nodes[dst]
            steps.append({"act": name, "j": int(a[0]), "used": st["used"], "st": {str(j): v for j, v in items(st["st"])}})
        behs.append({"id": "pool-%d" % i, "steps": steps})
    if len(behs) < 5 or not any(s["st"].get(str(s["j"])) == "shed" for b in behs for s in b["steps"]):
        raise vf.MachineryError("pool cover: no shed job among the paths (vacuous)")
    info = {"graph_states": len(nodes), "graph_edges": len(edges), "paths": len(behs)}
    return {"cap": 2, "jobs": [1, 2, 3, 4], "behaviours": behs, "v6": True, "v6Cap": 2, "v6Jobs": 4 if thorough else 3}, info


def pool_result(ctx, res, info):
    cnt = res.get("counters", {})
    info.update(replayed=cnt.get("pool_behaviours", 0), complete=cnt.get("pool_behaviours_complete", 0), steps=cnt.get("pool_steps", 0),
                v6_resolutions=cnt.get("v6_resolutions", 0), v6_peak=cnt.get("v6_peak", 0), v6_drained=cnt.get("v6_drained", 0))
    ctx.cov["replay"]["pool_replay"] = info
    if res.get("violations"):
        return
    if info["replayed"] != info["paths"] or info["complete"] * 10 < info["paths"] * 9:
        raise vf.MachineryError("pool replay: %d of %d paths run, %d complete: %s" % (info["replayed"], info["paths"], info["complete"],
                                                                                     res.get("drift_notes", [])[:3]))
    if not info["v6_drained"] or info["v6_peak"] < 2:
        raise vf.MachineryError("v6 pool driver did not fill the pool (peak %d) or did not finish" % info["v6_peak"])


# ---------------------------------------------------------------------------------------------
# exhaustive model checking
# ---------------------------------------------------------------------------------------------
NEGATIVE = [
    # spec, cfg, acceptable violated names, quick?
    ("MC_Flight.tla", "MC_NegNoCopy.cfg", ("OwnCopy",), True),
    ("MC_Flight.tla", "MC_NegRefusal.cfg", ("HoldersRunning", "RefusalHoldsNothing", "SlotsBalanced", "SlotAccounting"), True),
    ("MC_Flight.tla", "MC_NegCapShared.cfg", ("CapacityPrivate",), True),
    ("MC_Flight.tla", "MC_NegCapSharedZone.cfg", ("CapacityPrivate",), False),
    ("MC_Flight.tla", "MC_NegId.cfg", ("OwnId_",), False),
    ("MC_Flight.tla", "MC_NegRetire.cfg", ("LiveRegistered",), False),
    ("MC_Flight.tla", "MC_NegWedge.cfg", ("CancelledLeaves", "temporal"), False),
    ("Breaker.tla", "MC_BrkNegGe.cfg", ("OpenIffStreak", "SequentialMeaning"), True),
    ("Breaker.tla", "MC_BrkNegCool.cfg", ("SequentialMeaning", "RefusalNeedsOpen"), False),
    ("Breaker.tla", "MC_BrkNegReset.cfg", ("SequentialMeaning", "OpenIffStreak"), False),
    ("Pool.tla", "MC_PoolNegLeak.cfg", ("Accounting", "Balanced"), True),
    ("Pool.tla", "MC_PoolNegShed.cfg", ("Accounting", "Bounded", "ReleasedOnce"), False),
]


def model_check_jobs(ctx, thorough):
    flight_q = ["MC_Forget2.cfg", "MC_Slots2.cfg", "MC_CapPrivRes.cfg"]
    flight_t = ["MC_CapPrivZone.cfg", "MC_Cancel2s.cfg", "MC_SlotsZ2.cfg", "MC_Cancel2.cfg", "MC_SlotsZ2c.cfg", "MC_All3.cfg", "MC_Live2.cfg", "MC_LiveSilent2.cfg"]
    brk_q, brk_t = ["MC_BrkSeqS.cfg", "MC_BrkConcS.cfg"], ["MC_BrkSeq.cfg", "MC_BrkConc.cfg"]

    def mc(spec, cfg, w, cov):
        return lambda: ctx.tlc("Flight", spec, cfg, workers=w, timeout=600, heap="4g", tag="exhaustive",
                               args=["-coverage", "1"] if cov else [])

    # action coverage (vacuity of the exhaustive configs) is measured in the thorough tier; the model does not
    # depend on the code, so the quick tier does not pay for it again
    jobs = [mc("MC_Flight.tla", c, 1, thorough) for c in flight_q] + [mc("Breaker.tla", c, 1, thorough) for c in brk_q]
    negs = [n for n in NEGATIVE if thorough or n[3]]
    jobs += [(lambda s=s, c=c: ctx.tlc("Flight", s, c, workers=1, timeout=300, heap="3g", must_pass=False, tag="negative", count=False))
             for s, c, _, _ in negs]
    nf, nb = len(flight_q), len(brk_q)

    zero = {"Flight": None, "Breaker": None}

    def note(group, r):
        z = set(r.zero_coverage())
        zero[group] = z if zero[group] is None else (zero[group] & z)

    def post(out):
        if thorough:
            for r in out[:nf]:
                note("Flight", r)
            for r in out[nf:nf + nb]:
                note("Breaker", r)
        for (s, c, want, _), r in zip(negs, out[nf + nb:]):
            got = r.violated
            mt = re.search(r"Temporal property (\S+) was violated", r.out)
            if got is None and mt:
                got = mt.group(1)
            if got not in want:
                raise vf.MachineryError("negative config %s did not violate %s (got %s)" % (c, "/".join(want), got))

    def heavy():
        # the heavy configurations one at a time (thorough), then action coverage over all exhaustive configs
        for c in flight_t:
            live = c.startswith("MC_Live")
            r = ctx.tlc("Flight", "MC_Flight.tla", c, workers=4, timeout=1200, heap="8g", tag="exhaustive",
                        args=[] if live else ["-coverage", "1"])
            if not live:
                note("Flight", r)
        for c in brk_t:
            note("Breaker", ctx.tlc("Flight", "Breaker.tla", c, workers=4, timeout=1200, heap="8g", tag="exhaustive",
                                    args=["-coverage", "1"]))
        for group, z in zero.items():
            never = sorted(a for a in (z or ()) if a[0].isupper())
            if never:
                raise vf.MachineryError("%s actions never taken in any exhaustive config: %s" % (group, never))
    return jobs, post, heavy


# Which listed property a verdict class of this tier belongs to.  A property check that runs the tier sets ONLY to its
# own id ("C10" / "C11"): the other property's classes, and the classes no listed statement speaks about (the circuit
# breaker's thresholds), are then logged as drift.  None = standalone: everything counts.
ONLY = None
CLASS_OF = {
    # C10: the reply a caller gets out of a shared lookup is its own (id, question) and a private copy
    "own-reply": "C10", "deep-copy": "C10", "nil-result": "C10", "OwnQuestion": "C10", "OwnReply": "C10", "PrivateCopy": "C10",
    # C11: exactly one outcome in time, cancellation/capacity refusal private to the caller, nothing leaks
    "caller-never-returned": "C11", "cancelled-caller-wedged": "C11", "foreign-cancellation": "C11",
    "slots-not-released": "C11", "waiter-not-served": "C11", "stale-flight": "C11", "flight-not-forgotten": "C11",
    "attempt-without-slot": "C11", "zone-negative": "C11", "Answered": "C11", "FreshFlight": "C11", "CtxPrivate": "C11",
    "SlotsBalanced": "C11", "Forgotten": "C11", "CapacityPrivate": "C11",
}


def counts(key):
    if ONLY is None:
        return True
    parts = key.split("/")
    if parts[0] == "pool":
        return ONLY == "C11"
    if parts[0] == "breaker":
        return False
    return CLASS_OF.get(parts[-1], "C11") == ONLY


def filter_result(ctx, res):
    keep = []
    for v in res.get("violations", []):
        if counts(v.get("key", "")):
            keep.append(v)
        else:
            ctx.cov["drift"] += 1
            ctx.log("DRIFT (class %s is not this check's to judge): %s" % (v.get("key"), v.get("what")))
    res["violations"] = keep


def run_tier(ctx):
    thorough = ctx.tier == "thorough"
    ctx.cov["rule"] = (ctx.cov.get("rule", "") + " | X11FL: behaviours = TLC-simulated Coarse behaviours of Flight.tla forced on the "
                       "real groupLookup through a gated upstream (distinct = distinct environment step sequences), "
                       "transition-cover / simulated call orders of Breaker.tla and Pool.tla on the real breaker / pools, "
                       "concurrent histories judged by Monitor_Flight.tla and explained by Trace_Flight.tla / "
                       "Trace_Breaker.tla").strip(" |")
    ctx.assumptions += [
        "X11FL: one upstream server per lookup (one attempt, one maxConcurrent slot per flight); the multi-server fan-out "
        "of Resolver.lookup is not modelled",
        "X11FL: a panic inside the leader closure is not exercised: x/sync singleflight re-panics on a fresh goroutine, "
        "which ends the process by design",
        "X11FL: steps inside one critical section cannot be scheduled from outside; their interleavings are exhausted "
        "by TLC and matched against recorded concurrent histories, not forced",
        "X11FL: breaker time is the overlay shim moving lastFailure into the past in 16 s ticks; cleanupOnce is not raced "
        "against calls in flight",
    ]
    ctx.spec_dir("Flight")
    # every TLC job that does not depend on the code's answers goes into one batch
    mc_jobs, mc_post, heavy = model_check_jobs(ctx, thorough)
    groups = [(mc_jobs, mc_post), flight_inputs(ctx, thorough), breaker_inputs(ctx, thorough), pool_input(ctx, thorough)]
    out = parallel([j for jobs, _ in groups for j in jobs])
    results, at = [], 0
    for jobs, post in groups:
        results.append(post(out[at:at + len(jobs)]))
        at += len(jobs)
    _, (fl_inputs, fl_infos), (br_inputs, br_infos), (pl_input, pl_info) = results
    if thorough:
        heavy()
    st_input, traces = stress_input(ctx, thorough)
    brk_trace = os.path.join(ctx.scratch, "breaker.ndjson")
    inp = {"flight": fl_inputs, "stress": st_input, "breaker": br_inputs, "pool": pl_input,
           "breakerStress": {"rounds": 6 if not thorough else 60, "procs": 4, "ops": 20, "traceOut": brk_trace}}
    res = ctx.go_driver("./x11fl", "TestAll", inp, name="x11fl_all", timeout=2400)
    filter_result(ctx, res)
    ctx.take_driver_result(res, "")
    capacity_private(ctx, thorough)
    ctx.cov["replay"]["drivers"] = {"drift": res["drift"], "drift_notes": res.get("drift_notes", []), "skipped": res.get("skipped", [])}
    if res.get("skipped"):
        raise vf.MachineryError("drivers skipped: %s" % res["skipped"][:3])
    flight_replay_result(ctx, res, fl_infos)
    pool_result(ctx, res, pl_info)
    if res.get("violations"):
        return
    breaker_result(ctx, res, br_infos, brk_trace, thorough)
    flight_stress_result(ctx, res, traces, thorough)


def capacity_private(ctx, thorough, variants=("res", "zone")):
    """Directed histories = TLC's counter-examples to CapacityPrivate under the as-built reading (MC_NegCapShared /
    MC_NegCapSharedZone), forced on the real groupLookup through the repository's gate at the start of the leader
    closure: a follower joins before the leader's slot check, the leader is refused."""
    res = ctx.go_driver("./x11fl", "TestCapacityPrivate", {"variants": list(variants), "rounds": 6 if thorough else 2},
                        name="x11fl_cappriv", timeout=600)
    filter_result(ctx, res)
    ctx.take_driver_result(res, "")
    c = res.get("counters", {})
    if res.get("skipped"):
        raise vf.MachineryError("capacity-privacy histories did not happen: %s" % res["skipped"][:3])
    for v in variants:
        if c.get("cappriv_leader_refused_" + v, 0) == 0:
            raise vf.MachineryError("capacity-privacy stage is vacuous: the leader was never refused a %s slot (%s)" % (v, c))
    if c.get("cappriv_follower_joined_before_slot_check", 0) == 0:
        raise vf.MachineryError("capacity-privacy stage is vacuous: no follower joined before the slot check (%s)" % c)
    ctx.log("capacity privacy: follower joined before the slot check %d times, regrouped %d, answered after regrouping %d" % (
        c.get("cappriv_follower_joined_before_slot_check", 0), c.get("cappriv_follower_regrouped", 0),
        c.get("cappriv_follower_answered_after_regroup", 0)))


def run(ctx, replay):
    if replay:
        replay_file(ctx, replay)
        return
    run_tier(ctx)


def replay_file(ctx, path):
    """bin/check X11FL --replay <file>: re-run exactly the recorded failing case."""
    with open(path) as f:
        rec = json.load(f)
    rp = rec.get("replay", rec)
    drv = rp.get("driver")
    if drv == "flight-replay":
        inp = {"name": rp.get("config", "replay"), "resCap": rp["resCap"], "zoneCap": rp["zoneCap"], "maxC": rp["maxC"],
               "callers": [1, 2, 3], "keys": sorted(rp["zoneOf"]), "zoneOf": rp["zoneOf"], "behaviours": [rp["behaviour"]]}
        res = ctx.go_driver("./x11fl", "TestFlightReplay", inp, name="replay_flight", timeout=600)
    elif drv == "flight-stress":
        # the generators are seeded: the same (tier, seed) plan re-runs the same schedule attempts
        ctx.seed = int(rp.get("seed", ctx.seed))
        st_input, _ = stress_input(ctx, ctx.tier == "thorough")
        res = ctx.go_driver("./x11fl", "TestFlightStress", st_input, name="replay_stress", timeout=1200)
    elif drv == "breaker-replay":
        inp = {"name": rp.get("config", "replay"), "servers": ["s1", "s2"], "behaviours": [rp["behaviour"]]}
        res = ctx.go_driver("./x11fl", "TestBreakerReplay", inp, name="replay_breaker", timeout=300)
    elif drv in ("pool-replay", "v6-pool"):
        inp = {"cap": rp.get("cap", 2), "jobs": rp.get("jobs", [1, 2, 3, 4]) if drv == "pool-replay" else [],
               "behaviours": [rp["behaviour"]] if drv == "pool-replay" else [], "v6": drv == "v6-pool",
               "v6Cap": rp.get("v6Cap", 2), "v6Jobs": rp.get("jobs", 3) if drv == "v6-pool" else 0}
        res = ctx.go_driver("./x11fl", "TestPoolReplay", inp, name="replay_pool", timeout=300)
    elif drv == "cappriv":
        res = ctx.go_driver("./x11fl", "TestCapacityPrivate", {"variants": [rp.get("variant", "res")], "rounds": 1},
                            name="replay_cappriv", timeout=300)
    else:
        raise vf.MachineryError("replay file %s: unknown driver %r" % (path, drv))
    ctx.take_driver_result(res, "[replay] ")
    ctx.cov["states"] = max(1, ctx.cov["states"])
    ctx.cov["transitions"] = max(1, ctx.cov["transitions"])
    ctx.cov["replay"]["replayed_file"] = path
