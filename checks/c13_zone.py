"""C13, zone-failure pipeline tier (run_zone is called by checks/c13.py; checks/c13z.py runs it alone).

ZoneFail.tla models how the resolver comes to publish an RFC 9520 ZONE failure: Resolver.lookup's fan-out over the
N servers of a delegation (two at once, the next on the fallback timer or on a failure, the early exits),
Resolver.exchange's retries per server (udp, udp, tcp; once more without EDNS on FORMERR), pickFallbackResponse and the
publication of the zone in Resolver.resolve / handleLookupError.  Every server plays a script chosen in Init, so TLC
enumerates every server-behaviour vector: exhaustive for N <= 4 over the whole behaviour alphabet (N = 5 in thorough),
with per-attempt scripts for N <= 3, a TLD-level and a kill-switch config, and a mutant config (the early exit
without its parentheses) that must violate OnlyWhatFailed.  The behaviour alphabet includes the bogus (non-progressing)
referral, whose resolutions end on the resolver's ERROR path (a question failure, no zone failure): the follow-up under the
other CD value must not be answered by it (Containment; mutant config MUT_ZCD: the error-path reply filed under the CD value
forced for the upstream walk).

Binding (spec -> code): vectors sampled by TLC -simulate plus every "k failing fast, one healthy slow" corner
(TLC's enumeration of the Init set of the corner configs) are played by authkit servers against the real full
pipeline (harness/c13zone); the oracle is the scripted servers' own record and the client-visible replies.
"""
import os
from concurrent.futures import ThreadPoolExecutor

import vf

MOD = "ZoneFail"
SPEC = "MC_ZoneFail.tla"
SLOW_MS = 200          # healthy-slow: inside 150..300 ms
UP_TIMEOUT_MS = 1500   # per upstream attempt: 7.5 x the slow answer
QUERY_TIMEOUT_MS = 20000
BACKOFF_S = 120        # failure_cache_min_ttl: every follow-up of a case falls inside the first back-off
ZPOOL = ThreadPoolExecutor(max_workers=3)

USEFUL = ("fast", "slow", "nxdomain")


def final(script, once=False):
    """What one server's script comes to under exchange's retry rules (ZoneFail.tla Final; once = exploration probe)."""
    i, r, e = 0, 0, True
    for _ in range(8):
        b = script[min(i, len(script) - 1)]
        if b in USEFUL:
            return "useful"
        if b in ("servfail", "refused", "badref") or once:
            return "failed"
        if b == "formerr":
            if not e:
                return "failed"
            e = False
        elif r < 2:
            r += 1
        else:
            return "failed"
        i += 1
    return "failed"


def as_script(v):
    """TLC prints [1..N -> Seq] as a tuple of tuples."""
    if isinstance(v, dict):
        v = [v[k] for k in sorted(v, key=lambda x: int(x))]
    return [list(s) for s in v]


def model_check(ctx, thorough):
    # N <= 3: the whole behaviour alphabet; N = 4 (5): one representative per behaviour class of the model
    # ("slow" = "fast", "refused" = "servfail", "garbage" = "drop" step for step), the whole alphabet in thorough
    cfgs = ["MC_Z1", "MC_Z2", "MC_Z3", "MC_Z4", "MC_ZRetry2", "MC_ZTld3", "MC_ZKill3", "MC_ZCorner4", "MC_ZCD2"]
    if thorough:
        cfgs += ["MC_Z4full", "MC_Z5", "MC_ZRetry3", "MC_ZCorner5"]

    def one(c):
        return ctx.tlc(MOD, SPEC, c + ".cfg", workers=3 if not thorough else 4, timeout=2400, heap="8g", deadlock=False)

    def mutant():
        # the model must be able to see defect (A): the early exit without its parentheses
        r = ctx.tlc(MOD, SPEC, "MUT_Z4.cfg", workers=2, timeout=600, heap="4g", deadlock=False, must_pass=False,
                    tag="mutant", count=False)
        if r.violated != "OnlyWhatFailed":
            raise vf.MachineryError("ZoneFail mutant config MUT_Z4 did not violate OnlyWhatFailed (violated=%r)" % r.violated)
        ctx.cov["replay"]["zone_model_mutant"] = {"cfg": "MUT_Z4", "violated": r.violated}

    def mutant_cd():
        # ... and the error-path reply filed under the forced CD value: the other-CD follow-up is answered by it
        r = ctx.tlc(MOD, SPEC, "MUT_ZCD.cfg", workers=1, timeout=600, heap="2g", deadlock=False, must_pass=False,
                    tag="mutant", count=False)
        if r.violated != "Containment":
            raise vf.MachineryError("ZoneFail mutant config MUT_ZCD did not violate Containment (violated=%r)" % r.violated)
        ctx.cov["replay"]["zone_model_mutant_cd"] = {"cfg": "MUT_ZCD", "violated": r.violated}
    return [ZPOOL.submit(one, c) for c in cfgs] + [ZPOOL.submit(mutant), ZPOOL.submit(mutant_cd)]


def sim_vectors(ctx, n, num):
    behs = ctx.tlc_behaviours(MOD, "Sim_ZoneFail.tla", "Sim_Z%d.cfg" % n, num=num, depth=90, timeout=600)
    out, seen = [], set()
    for bi, b in enumerate(behs):
        last = b[-1][1]
        if int(last.get("cs", 0)) != n:
            continue
        sc = as_script(last["script"])
        key = repr(sc)
        if key in seen:
            continue
        seen.add(key)
        pred = last["ret"] if last.get("pc") == "done" else ""
        pr = int(last.get("probe", 0))
        want = "useful" if any(final(x, once=(i + 1 == pr)) == "useful" for i, x in enumerate(sc)) else "failed"
        if pred and (pred in ("answer", "nxdomain")) != (want == "useful"):
            raise vf.MachineryError("ZoneFail simulate: verdict %s for %s contradicts the scripts" % (pred, sc))
        out.append({"id": "Sim_Z%d#%d" % (n, bi), "script": sc, "pred": pred, "src": "simulate"})
    return out


def corner_vectors(ctx, n):
    """The Init set of Enum_Corner<n>.cfg, enumerated by TLC: the vectors over {servfail, refused, slow}."""
    r, nodes, edges, inits = ctx.tlc_graph(MOD, SPEC, "Enum_Corner%d.cfg" % n, timeout=600, workers=1, heap="4g",
                                           deadlock=False, count=False, tag="enumerate")
    out, seen = [], set()
    for k in sorted(nodes):
        sc = as_script(nodes[k]["script"])
        flat = [s[0] for s in sc]
        if flat.count("slow") != 1 or tuple(flat) in seen:
            continue
        seen.add(tuple(flat))   # exactly one healthy (slow) server, the others fail at once
        out.append({"id": "Corner%d/%s" % (n, "".join(x[0] for x in flat)), "script": sc, "pred": "answer", "src": "corner"})
    if len(out) != n * 2 ** (n - 1):
        raise vf.MachineryError("corner enumeration for N=%d gave %d vectors" % (n, len(out)))
    return out


def directed():
    """Corners every run plays whatever the sample: the all-failing vectors (a zone failure must be served at all)."""
    out = []
    for n in (1, 2, 3, 4, 5):
        for kinds in (["servfail"], ["refused", "servfail"], ["formerr", "refused"]):
            sc = [[kinds[i % len(kinds)]] for i in range(n)]
            out.append({"id": "AllFail%d/%s" % (n, kinds[0]), "script": sc, "pred": "rcodefail", "src": "directed"})
    out.append({"id": "AllFail2/drop", "script": [["drop"], ["garbage"]], "pred": "netfail", "src": "directed"})
    out.append({"id": "AllFail3/mixed", "script": [["drop"], ["servfail"], ["garbage", "drop", "refused"]], "pred": "rcodefail",
                "src": "directed"})
    # resolutions that end on the resolver's ERROR path (a bogus referral is all that came back): a question failure and
    # nothing for the zone; the CD = 1 follow-up of these is where "exactly that CD value" is judged
    for n in (1, 2, 3):
        out.append({"id": "BadRef%d" % n, "script": [["badref"]] * n, "pred": "badref", "src": "directed"})
    out.append({"id": "BadRef2/garbage", "script": [["badref"], ["garbage"]], "pred": "badref", "src": "directed"})
    out.append({"id": "BadRef2/late", "script": [["garbage", "badref"], ["badref"]], "pred": "badref", "src": "directed"})
    out.append({"id": "Late3/tcp", "script": [["drop", "drop", "fast"], ["refused"], ["servfail"]], "pred": "answer", "src": "directed"})
    out.append({"id": "Late4/formerr", "script": [["formerr", "slow"], ["refused"], ["servfail"], ["formerr"]], "pred": "answer",
                "src": "directed"})
    return out


def params(cases, kill, parallel):
    return {"cases": cases, "killCases": kill, "slowMs": SLOW_MS, "upTimeoutMs": UP_TIMEOUT_MS,
            "queryTimeoutMs": QUERY_TIMEOUT_MS, "parallel": parallel, "backoffS": BACKOFF_S, "confirm": False}


def prepare(ctx):
    """TLC side: model checks (futures) and the vectors for the binding."""
    thorough = ctx.tier == "thorough"
    ctx.spec_dir(MOD)
    per_n = {1: 4, 2: 10, 3: 16, 4: 24, 5: 16} if not thorough else {1: 8, 2: 60, 3: 200, 4: 400, 5: 400}
    sims = {n: ZPOOL.submit(sim_vectors, ctx, n, num) for n, num in per_n.items()}
    corners = {n: ZPOOL.submit(corner_vectors, ctx, n) for n in (2, 3, 4, 5)}
    mc = model_check(ctx, thorough)   # queued behind the vector runs: the binding starts while these check the model
    cases = directed()
    for n in (2, 3, 4, 5):
        cv = corners[n].result()
        if not thorough and n == 5:
            # quick: every position of the healthy server, failing kinds rotated (the full set runs in thorough)
            cv = [c for i, c in enumerate(cv) if i % 3 == ctx.seed % 3]
        cases += cv
    for n in sorted(sims):
        cases += sims[n].result()
    kill = [c for c in cases if c["src"] == "directed"][:8]
    return mc, cases, kill


def drive(ctx, cases, kill, name="zone"):
    inp = params(cases, kill, 24 if ctx.tier != "thorough" else 32)
    return ctx.go_driver("./c13zone", "TestZoneFailure", inp, name=name, timeout=1500)


def conclude(ctx, res, cases, mc):
    ctx.take_driver_result(res, "[zone-failure pipeline] ")
    cnt = res.get("counters", {})
    info = {"vectors": len(cases), "replays": res["cases"], "drift": res["drift"], "drift_notes": res.get("drift_notes", []),
            "skipped": res.get("skipped", []), "counters": cnt}
    ctx.cov["replay"]["zone_pipeline"] = info
    ctx.cov["traces_validated_against_impl"] += res["cases"]
    if res.get("skipped"):
        raise vf.MachineryError("zone-failure pipeline driver: %s" % res["skipped"][:3])
    judged = cnt.get("cases_on", 0) - cnt.get("cases_starved_not_judged", 0)
    if res["cases"] < len(cases) or judged < 0.7 * len(cases):
        raise vf.MachineryError("zone-failure pipeline driver judged only %d of %d vectors (%s)" % (judged, len(cases), cnt))
    if not res.get("violations"):
        # vacuity: zone failures must have been served, healthy-slow corners must have been played, all behaviours seen
        need = ["zone_failure_served", "question_failure_served", "q1_some_server_healthy", "played_slow", "played_drop",
                "played_garbage", "played_formerr", "played_refused", "played_servfail", "played_nxdomain", "played_over_tcp",
                "cases_off", "n4", "n5", "played_badref", "cd_followups", "cd_partition_seen", "cd_zone_failure_covers_both"]
        missing = [k for k in need if not cnt.get(k)]
        if missing:
            raise vf.MachineryError("zone-failure pipeline replay is vacuous: %s missing in %s" % (missing, cnt))
    ctx.log("zone-failure pipeline: %d vectors, every-server-failed=%d zone failures served=%d (wire-born %d) healthy=%d "
            "flagged=%d not-reproduced=%d starved=%d drift=%d" % (
                len(cases), cnt.get("q1_every_server_failed", 0), cnt.get("zone_failure_served", 0),
                cnt.get("zone_failure_served_wire", 0), cnt.get("q1_some_server_healthy", 0), cnt.get("cases_flagged", 0),
                cnt.get("flags_not_reproduced", 0), cnt.get("cases_starved_not_judged", 0), res["drift"]))
    for f in mc:
        f.result()


ASSUMPTIONS = [
    "zone tier: healthy-slow = %d ms, upstream attempt timeout %d ms, client deadline %d ms; a case in which a scripted answer "
    "left its server more than 400 ms late is not judged; a flagged case is re-run alone on fresh zones and only a reproduced "
    "predicate failure is reported" % (SLOW_MS, UP_TIMEOUT_MS, QUERY_TIMEOUT_MS),
    "zone tier: 'healthy' = an attempt that reached the server was scripted to get a usable answer (NOERROR / NXDOMAIN), or "
    "the server was never asked and its script starts with one; a bogus (non-progressing) referral is neither (the resolution "
    "ends on the error path: a question failure, nothing for the zone); the circuit breaker and request-local exits across a "
    "history of request trees are ZoneBrk.tla's (checks/x13zb.py), not ZoneFail.tla's",
    "zone tier: the CD = 1 follow-up is judged against the sibling asked right after it: a cached failure served to a CD value "
    "nobody failed under is legal only while a zone failure is being served",
]


def run_zone(ctx):
    """Sequential form (checks/c13z.py)."""
    ctx.assumptions += ASSUMPTIONS
    mc, cases, kill = prepare(ctx)
    res = drive(ctx, cases, kill)
    conclude(ctx, res, cases, mc)


def replay_zone(ctx, rep):
    case = rep["case"]
    inp = params([case] if rep.get("rfc9520", True) else [], [] if rep.get("rfc9520", True) else [case], 1)
    for k, v in rep.get("params", {}).items():
        inp[k] = v
    inp["confirm"] = True
    res = ctx.go_driver("./c13zone", "TestZoneFailure", inp, name="replay_zone", timeout=600)
    ctx.take_driver_result(res, "[replay zone-failure pipeline %s] " % case.get("id"))
    if res.get("skipped"):
        raise vf.MachineryError("zone replay: %s" % res["skipped"][:3])
    ctx.cov["states"] = ctx.cov["transitions"] = 1
    ctx.sample({"replayed": case, "violations": len(res.get("violations", []))})
