"""C05 -- wire fast path and decoded path are observationally equivalent (Serve.tla)."""
import os

import serve_common as sc
import x06en
import x06rl


def run(ctx, replay):
    thorough = ctx.tier == "thorough"
    ctx.cov["rule"] = ("cases = behaviours of Serve.tla (configuration, history of abstract packets, upstream content), "
                       "concretised to bytes and served by three identically configured real servers through "
                       "ServeRaw (strict slots), ServeMsg, and ServeRawInline+ServeRawReplay; replies compared as decoded "
                       "messages, plus upstream invocations and a follow-up query for later-visible state")
    ctx.assumptions += ["TTL comparison tolerates 1 s (the twins are served milliseconds apart)",
                        "record order inside a section is not compared (sections compared as multisets)"]
    if os.environ.get("C05_ONLY") == "ladder":   # development aid: the ladder family alone
        sc.ladder(ctx, "C05", thorough)
        return
    sc.run_family_models(ctx, sc.FAMILIES, thorough)
    sc.regression_model(ctx)
    sc.replay(ctx, "C05", sc.FAMILIES, num=400 if not thorough else 5000, variants=2 if not thorough else 4)
    # the cache ladder over histories with more than one name and with time passing (family "ladder" of Serve.tla: a
    # sibling's validated NXDOMAIN cuts the subtree above a still-cached name; failure back-offs run out; the upstream
    # recovers): exact entry > cut > cached failure inside its back-off > miss, on the wire ladder as on the Msg ladder
    sc.ladder(ctx, "C05", thorough)
    # the side effects both paths must agree on, as a state machine (RateLimit.tla): one token per question whatever entry
    # serves it (wire, decoded, inline pass then replay), client limiter and per-entry cache limiter alike; the same
    # history through ServeMsg only gives the same outcome
    x06rl.C06_ONLY = False
    ctx.overlay_tags.add("x06rl")
    ov = os.path.join(ctx.scratch, "overlay.json")
    if os.path.exists(ov):
        os.remove(ov)
    x06rl.run_tier(ctx)
    # a fourth and fifth entry: the running UDP and TCP listeners (batched reader: inline pass + replay; portable reader:
    # ServeRaw on the worker; one slab each, so a packet meets what the previous one left) against the decoded entry
    # (ServeEngine.tla); the tier's C06 class (reply contract on the bytes) is drift here
    x06en.ONLY = "C05"
    x06en.run_tier(ctx)
