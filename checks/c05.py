"""C05 -- wire fast path and decoded path are observationally equivalent (Serve.tla)."""
import serve_common as sc


def run(ctx, replay):
    thorough = ctx.tier == "thorough"
    ctx.cov["rule"] = ("cases = behaviours of Serve.tla (configuration, history of abstract packets, upstream content), "
                       "concretised to bytes and served by three identically configured real servers through "
                       "ServeRaw (strict slots), ServeMsg, and ServeRawInline+ServeRawReplay; replies compared as decoded "
                       "messages, plus upstream invocations and a follow-up query for later-visible state")
    ctx.assumptions += ["TTL comparison tolerates 1 s (the twins are served milliseconds apart)",
                        "record order inside a section is not compared (sections compared as multisets)"]
    sc.run_family_models(ctx, sc.FAMILIES, thorough)
    sc.regression_model(ctx)
    sc.replay(ctx, "C05", sc.FAMILIES, num=400 if not thorough else 5000, variants=2 if not thorough else 4)
