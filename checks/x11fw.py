"""X11FW -- forwarder and failover upstream selection (Forward.tla), bound to the real default chain.

Forward.tla   middleware/forwarder (ServeDNS), middleware/failover (ResponseWriter.WriteMsg),
              internal/dnsclient (Client.Exchange: UDP, TC -> TCP), the request tree's attempt guard and work ledger
  - TLC exhaustive: the selection / retry ladder over 1..3 forwarders and 0..2 fallbacks, the behaviour of every
    attempt chosen by TLC (answer, SERVFAIL, REFUSED, silence, late, wrong id, stray datagram, garbage, wrong
    question, TC then TCP answer / stall / reset / wrong id / SERVFAIL), firewall off / shadow / enforce with small
    budgets, pre-exhausted attempt-guard tuples, a clock that may tick between any two steps; termination under
    weak fairness; three negative configs (no debit, no question check, no deadline) that must break the named
    invariant.
  - spec -> code: simulated behaviours and an edge cover of a small state graph are played by scripted upstreams
    on loopback (UDP + TCP, DoT, DoH) against the real default chain configured with forwarderservers and
    fallbackservers; the packets the upstreams receive (with the request tree's ledger read at the moment each
    arrives), what the forwarder hands to failover, what failover hands up, and the client's replies are compared
    with the model step by step (drift) and judged by the predicates of C11 / C12 / C19 (violation).
  - code -> spec: a free-running concurrent load with harness-chosen scripts is recorded (one harness-side sequence
    number per packet / reply) and validated by TLC against Trace_Forward.tla, invariants on.

  - two dimensions beyond the walk: `prework` (the primary resolution below failover is rejected on one of the seven
    NON-outbound budgets of the request tree while outbound budget is left: only failover's guard on the latched tree
    keeps the fallback pool out; MC_F1B2_work, Sim_F2B2_work, negative MC_NegNoLatchGuard) and `id` (whose transaction
    ID the message handed up carries: a retained fallback failure was asked under an ID of the server's own;
    ReplyEchoesClientId, negative MC_NegLateStamp).  The replay spends the budget on the real ledger below failover.

run_tier(ctx, families) is the entry for a merging check (families = which predicate families are judged as
violations there: "c06", "c11", "c12", "c13", "c19"; the others are logged); `bin/check X11FW` runs it alone, all
judged.  run_echo(ctx) is the short entry of C06: the reply contract (ID / question / OPT echo, nothing of the
upstream's reflected) on every terminal outcome of the forwarder / failover state machine.
"""
import json
import os
import random
from concurrent.futures import ThreadPoolExecutor

import vf

UNIT_MS = 250        # one model time unit
T_UNITS = 2          # cfg.Timeout      = 500 ms
QT_UNITS = 5         # cfg.QueryTimeout = 1250 ms
MARGIN_MS = 1500     # generous on purpose: the machine is shared; a timing oracle must never flake
FAMILIES = ("c06", "c11", "c12", "c13", "c19")
WORK_KINDS = ("internal", "dnskey", "rrsig", "signature", "dsdigest", "nsec3", "crypto")


def tlc_jobs(ctx, thorough):
    """Every TLC run of the tier (exhaustive, negative, simulation) on a small thread pool; the big ones alone."""
    main = "MC_F2B1_q.cfg" if not thorough else "MC_F2B1.cfg"
    jobs = [("mc", main, 3, ["-coverage", "1"]), ("mc", "MC_F2B1_stream.cfg", 1, []),
            ("mc", "MC_F1B1_live_q.cfg" if not thorough else "MC_F1B1_live.cfg", 1, []),
            ("neg", "MC_NegNoDebit.cfg", "DebitBeforeSend"), ("neg", "MC_NegNoMatch.cfg", "NoMismatchRelayed"),
            ("neg", "MC_NegNoDeadline.cfg", "InTime"),
            # prework / id dimensions: exhaustive (with ticks in the thorough tier), the two guards of failover switched off
            ("mc", "MC_F1B2_work_q.cfg" if not thorough else "MC_F1B2_work.cfg", 1 if not thorough else 3, []),
            ("neg", "MC_NegNoLatchGuard.cfg", "OverBudgetReplyIsWorkFail"), ("neg", "MC_NegLateStamp.cfg", "ReplyEchoesClientId"),
            ("sim", "Sim_F2B2_work.cfg", 500 if not thorough else 6000),
            ("sim", "Sim_F3B2.cfg", 1200 if not thorough else 30000), ("sim", "Sim_F2B0.cfg", 300 if not thorough else 4000),
            ("sim", "Sim_F2B1_dot.cfg", 400 if not thorough else 6000),
            ("sim", "Sim_F2B1_doh.cfg", 400 if not thorough else 6000), ("graph", "MC_Graph_F2B1.cfg")]
    if thorough:
        jobs.append(("sim", "Sim_F1B1.cfg", 4000))
    big = [("mc", "MC_F2B2_focap.cfg", 4, []), ("mc", "MC_F3B2.cfg", 4, []), ("mc", "MC_F2B2_live.cfg", 4, [])] if thorough else []
    ctx.spec_dir("Forward")
    out = {}

    def run(job):
        kind, cfg = job[0], job[1]
        if kind == "mc":
            r = ctx.tlc("Forward", "MC_Forward.tla", cfg, workers=job[2], timeout=1500, heap="6g", tag="exhaustive", args=job[3])
            if cfg == main:
                zero = [a for a in r.zero_coverage() if a != "Tick"]
                if zero:
                    raise vf.MachineryError("Forward actions never taken in %s: %s" % (cfg, zero))
        elif kind == "neg":
            r = ctx.tlc("Forward", "MC_Forward.tla", cfg, workers=1, timeout=300, heap="2g", must_pass=False, tag="negative",
                        count=False)
            if r.violated != job[2]:
                raise vf.MachineryError("negative config %s did not violate %s (got %s)" % (cfg, job[2], r.violated))
        elif kind == "sim":
            out[cfg] = simulate(ctx, cfg, job[2])
        elif kind == "graph":
            out[cfg] = graph_cases(ctx)

    with ThreadPoolExecutor(max_workers=6) as ex:
        for f in [ex.submit(run, j) for j in jobs]:
            f.result()
    for j in big:
        run(j)
    return out


def beh_key(b):
    return json.dumps([b["nf"], b["nb"], b["mode"], b["cap"], b["script"], sorted(map(json.dumps, b["pre"])), b.get("prework", "none")],
                      sort_keys=True)


def simulate(ctx, cfg, num, depth=80):
    r = ctx.tlc_simulate("Forward", "MC_Forward.tla", cfg, num=num, depth=depth, timeout=600, tag="simulate " + cfg)
    out, seen = [], set()
    for v in r.printed():
        if not isinstance(v, dict) or "script" not in v:
            continue
        k = beh_key(v)
        if k in seen:
            continue
        seen.add(k)
        out.append(v)
    if not out:
        raise vf.MachineryError("simulation of %s printed no behaviour" % cfg)
    return out


def pick(behs, n, rng):
    """Stratified by length (number of packets): long walks are rare under uniform fault choice."""
    by = {}
    for b in behs:
        by.setdefault(min(b["nsent"], 6), []).append(b)
    for v in by.values():
        rng.shuffle(v)
    out = []
    while len(out) < n and any(by.values()):
        for k in sorted(by, reverse=True):
            if by[k] and len(out) < n:
                out.append(by[k].pop())
    return out


def to_case(b, cid, rng, dup=0):
    exp = {"sent": b["sent"], "reply": b["reply"], "m": b["m"], "debits": b["debits"], "passes": b["passes"],
           "latched": b["latched"], "engaged": b["engaged"], "replyAt": b["replyAt"]}
    # upopts: a concretisation variant, not a model dimension - the upstreams add AD and EDNS options of their own
    return {"id": cid, "script": b["script"], "pre": b["pre"], "expect": None if dup else exp, "dup": dup,
            "client": rng.randrange(16), "prework": b.get("prework", "none"), "upopts": rng.random() < 0.4}


def pick_work(behs, per_enforce, per_other, rng):
    """Sim_F2B2_work: every non-outbound budget, rejected (enforce) and merely counted (shadow / off)."""
    by = {}
    for b in behs:
        if b.get("prework", "none") != "none":
            by.setdefault((b["prework"], b["mode"]), []).append(b)
    out = []
    for (kind, mode), v in sorted(by.items()):
        rng.shuffle(v)
        v.sort(key=lambda b: -b["nsent"])       # shadow / off: the longer walks first
        out += v[:per_enforce if mode == "enforce" else per_other]
    missing = [k for k in WORK_KINDS if (k, "enforce") not in by]
    if missing:
        raise vf.MachineryError("Sim_F2B2_work produced no enforce behaviour rejected on %s" % missing)
    return out


def group_cases(behs, transport, rng, prefix, ecs_every=0, dup_every=0):
    groups = {}
    for i, b in enumerate(behs):
        mode, cap = b["mode"], b["cap"]
        if mode == "off":
            cap = 0
        ecs = bool(ecs_every) and (i % ecs_every == 0)
        gk = (b["nf"], b["nb"], mode, cap, ecs)
        g = groups.get(gk)
        if g is None:
            g = {"name": "%s_f%db%d_%s%d%s" % (prefix, b["nf"], b["nb"], mode, cap, "_ecs" if ecs else ""), "nf": b["nf"],
                 "nb": b["nb"], "mode": mode, "cap": cap, "ecs": ecs, "transport": transport, "cases": []}
            groups[gk] = g
        dup = 2 if dup_every and i % dup_every == dup_every - 1 else 0
        g["cases"].append(to_case(b, "%s%d" % (prefix, i), rng, dup))
    return list(groups.values())


def lab(label):
    label = label.strip()
    if "(" not in label:
        return label, []
    name, rest = label.split("(", 1)
    return name, [a.replace("\\", "").strip().strip('"') for a in rest.rstrip(")").split(",")]


def graph_cases(ctx):
    """Every edge of the small graph on at least one complete behaviour, rebuilt from the edge labels."""
    r, nodes, edges, inits = ctx.tlc_graph("Forward", "MC_Forward.tla", "MC_Graph_F2B1.cfg", workers=1, timeout=300,
                                           heap="2g", tag="graph")
    paths = vf.cover_paths(nodes, edges, inits)
    out_edges = {}
    for e in edges:
        out_edges.setdefault(e[0], []).append(e)
    behs, seen, covered = [], set(), set()
    for p in paths:
        p = list(p)
        guard = 0
        while nodes[p[-1][1]]["pc"] != "done":
            nxt = out_edges.get(p[-1][1])
            guard += 1
            if not nxt or guard > 100:
                raise vf.MachineryError("graph path does not reach pc = done")
            p.append(nxt[0])
        first = nodes[p[0][0]]
        n = len(first["wire"]) // 2
        script = ["none"] * n
        sent = []
        for src, dst, label in p:
            covered.add((src, dst, label))
            name, a = lab(label)
            st = nodes[src]
            if name == "Recv" and st["proto"] == "udp":
                script[st["cur"] - 1] = a[1]
            elif name == "Send":
                sent.append([int(a[1]), a[2], nodes[dst]["debits"]])
        fin = nodes[p[-1][1]]
        b = {"mode": fin["mode"], "cap": fin["cap"], "pre": fin["pre"], "script": script, "sent": sent, "reply": fin["reply"],
             "m": fin["m"], "debits": fin["debits"], "passes": fin["passes"], "latched": fin["latched"],
             "engaged": fin["engaged"], "replyAt": fin["replyAt"], "nsent": fin["nsent"], "nf": 2, "nb": 1}
        k = beh_key(b)
        if k not in seen:
            seen.add(k)
            behs.append(b)
    if len(covered) != len(set(edges)):
        raise vf.MachineryError("edge cover of MC_Graph_F2B1 covers %d of %d edges" % (len(covered), len(set(edges))))
    return behs, len(set(edges)), len(nodes)


def run_replay_driver(ctx, groups, name, followup=True, parallel=64, trace_out=""):
    inp = {"groups": groups, "unitMs": UNIT_MS, "t": T_UNITS, "qt": QT_UNITS, "marginMs": MARGIN_MS, "parallel": parallel,
           "followup": followup, "traceOut": trace_out}
    res = ctx.go_driver("./x11fw", "TestForwardReplay", inp, name=name, timeout=1500)
    if res.get("skipped"):
        raise vf.MachineryError("forward replay could not run: %s" % res["skipped"][:3])
    return res


def fold(ctx, res, families, prefix):
    """Violations of a family outside `families` are reported, not judged (the merging check decides)."""
    keep, other = [], []
    for v in res.get("violations", []):
        fam = v.get("key", "").split("/", 1)[0]
        (keep if fam in families else other).append(v)
    res = dict(res, violations=keep)
    ctx.take_driver_result(res, prefix)
    for v in other:
        ctx.log("OFF-PROPERTY predicate false (not judged here): %s" % v.get("what"))
    ctx.cov["replay"].setdefault("off_property_failures", []).extend(v.get("what") for v in other)
    return res


def replay(ctx, thorough, families, tl):
    rng = random.Random(ctx.seed)
    n_main, n_side, n_stream = (70, 28, 22) if not thorough else (1500, 350, 300)
    main = pick(tl["Sim_F3B2.cfg"], n_main, rng)
    f2b0 = pick(tl["Sim_F2B0.cfg"], n_side, rng)
    f1b1 = pick(tl["Sim_F1B1.cfg"], n_side, rng) if "Sim_F1B1.cfg" in tl else []
    dot = pick(tl["Sim_F2B1_dot.cfg"], n_stream, rng)
    doh = pick(tl["Sim_F2B1_doh.cfg"], n_stream, rng)
    # the small stream samples must hold a forwarder that answers over its stream (the vacuity check below asks for it;
    # a sample without one is a property of the draw, not of the run)
    for sample, cfg in ((dot, "Sim_F2B1_dot.cfg"), (doh, "Sim_F2B1_doh.cfg")):
        answered = lambda b: any(ev[0] <= b["nf"] and b["script"][ev[0] - 1] == "answer" for ev in b["sent"])
        if not any(answered(b) for b in sample):
            sample += [b for b in tl[cfg] if answered(b)][:2]
    gbehs, n_edges, n_nodes = tl["MC_Graph_F2B1.cfg"]
    work = pick_work(tl["Sim_F2B2_work.cfg"], 2 if not thorough else 12, 1 if not thorough else 8, rng)
    groups = []
    groups += group_cases(main, "", rng, "m", ecs_every=5, dup_every=9)
    groups += group_cases(f2b0, "", rng, "a", dup_every=11)
    groups += group_cases(f1b1, "", rng, "b")
    groups += group_cases(gbehs, "", rng, "g")
    groups += group_cases(dot, "dot", rng, "t")
    groups += group_cases(doh, "doh", rng, "h", ecs_every=6)
    # corner cases that must always be played, whatever the sample
    corner = [
        {"nf": 3, "nb": 2, "mode": "enforce", "cap": 6, "script": ["drop", "drop", "drop", "drop", "drop"]},
        {"nf": 3, "nb": 2, "mode": "enforce", "cap": 2, "script": ["tcStall", "tcAnswer", "answer", "answer", "answer"]},
        {"nf": 3, "nb": 2, "mode": "shadow", "cap": 1, "script": ["servfail", "garbage", "wrongQuestion", "tcReset", "answer"]},
        {"nf": 3, "nb": 2, "mode": "off", "cap": 0, "script": ["wrongId", "delay", "strayAnswer", "none", "none"]},
    ]
    cg = {}
    for i, c in enumerate(corner):
        g = cg.setdefault((c["mode"], c["cap"]), {"name": "corner_%s%d" % (c["mode"], c["cap"]), "nf": c["nf"], "nb": c["nb"],
                                                  "mode": c["mode"], "cap": c["cap"], "ecs": False, "transport": "", "cases": []})
        g["cases"].append({"id": "k%d" % i, "script": c["script"], "pre": [], "expect": None, "dup": 0, "client": i})
    groups += list(cg.values())
    groups += group_cases(work, "", rng, "w")
    groups += echo_corner_groups()
    # free-running load with harness-chosen scripts (not TLC's): judged by the predicates and by Trace_Forward.tla
    n_stress = 24 if not thorough else 400
    sgroups = stress_groups(rng, n_stress)
    groups += sgroups
    for g in groups:
        g["trace"] = g["nf"] == 3 and g["nb"] == 2 and not g["transport"] and g["name"].startswith(("s_", "m_"))
    trace_path = os.path.join(ctx.scratch, "forward_traces.ndjson")
    ncases = sum(len(g["cases"]) for g in groups)
    n_nomodel = len(corner) + sum(len(g["cases"]) for g in sgroups) + sum(len(g["cases"]) for g in echo_corner_groups())
    ctx.log("forward replay: %d groups, %d cases (%d from the edge cover of a %d-node / %d-edge graph)" % (
        len(groups), ncases, len(gbehs), n_nodes, n_edges))
    res = run_replay_driver(ctx, groups, "forward_replay", trace_out=trace_path)
    res = fold(ctx, res, families, "[forward replay] ")
    c = res.get("counters", {})
    info = {"groups": len(groups), "cases": ncases, "graph_edges": n_edges, "graph_behaviours": len(gbehs),
            "cases_exact": c.get("cases_exact", 0), "drift_cases": c.get("drift_cases", 0), "drift_notes": res.get("drift_notes", []),
            "followups": c.get("followups", 0), "followups_fresh": c.get("followups_fresh", 0),
            "packets_with_ledger": c.get("packets_with_ledger", 0), "model_failover_walks": c.get("model_failover_walks", 0),
            "model_latched": c.get("model_latched", 0), "dup_cases": c.get("dup_cases", 0), "ecs_forwarded": c.get("ecs_forwarded", 0),
            "prework_rejected": c.get("prework_rejected", 0), "echo_judged": c.get("echo_judged", 0),
            "overbudget_edns": [c.get("overbudget_edns_ede", 0), c.get("overbudget_edns", 0)],
            "prework": {k[8:]: v for k, v in c.items() if k.startswith("prework_") and k != "prework_rejected"},
            "outcomes": {k[8:]: v for k, v in c.items() if k.startswith("outcome_")},
            "played": {k[7:]: v for k, v in c.items() if k.startswith("played_")},
            "replies": {k[6:]: v for k, v in c.items() if k.startswith("reply_")},
            "rcodes": {k[6:]: v for k, v in c.items() if k.startswith("rcode_")}}
    ctx.cov["replay"]["forward_replay"] = info
    ctx.cov["traces_validated_against_impl"] += c.get("cases_total", 0)
    ctx.log("forward replay: exact=%d drift=%d followups=%d/%d ledger-packets=%d rcodes=%s" % (
        info["cases_exact"], info["drift_cases"], info["followups_fresh"], info["followups"], info["packets_with_ledger"],
        info["rcodes"]))
    if res.get("violations"):
        return
    # vacuity: the run must really have exercised the ladder
    compared = ncases - info["dup_cases"] - n_nomodel
    if c.get("cases_total", 0) != ncases:
        raise vf.MachineryError("forward replay ran %d of %d cases" % (c.get("cases_total", 0), ncases))
    if info["cases_exact"] < 0.6 * compared:
        raise vf.MachineryError("only %d of %d played behaviours matched the model step by step (timing too noisy or the "
                                "model has drifted from the code): %s" % (info["cases_exact"], compared, info["drift_notes"][:4]))
    need = ["answer_udp", "drop_udp", "servfail_udp", "garbage_udp", "wrongQuestion_udp", "tcAnswer_tcp", "tcStall_tcp",
            "tcReset_tcp", "answer_tcp-tls", "answer_doh"]
    miss = [k for k in need if not info["played"].get(k)]
    if miss:
        raise vf.MachineryError("forward replay never played %s (vacuous)" % miss)
    if not info["ecs_forwarded"]:
        raise vf.MachineryError("forward replay: no clamped client subnet reached an upstream in the ECS-enabled groups (vacuous)")
    if not info["model_failover_walks"] or not info["model_latched"] or not info["packets_with_ledger"] or not info["followups"]:
        raise vf.MachineryError("forward replay: no failover walk / over-budget run / ledger observation / follow-up (vacuous): %s"
                                % {k: info[k] for k in ("model_failover_walks", "model_latched", "packets_with_ledger", "followups")})
    check_dimensions(info)
    validate_traces(ctx, trace_path, c.get("traces", 0), families)


def check_dimensions(info, work=True):
    """vacuity of the prework / id dimensions: every budget really refused below failover, every terminal outcome played"""
    if work:
        miss = [k for k in WORK_KINDS if not info["prework"].get(k + "_enforce")]
        if miss or info["prework_rejected"] < len(WORK_KINDS):
            raise vf.MachineryError("forward replay: no request tree rejected on the %s budget(s) below failover (%s, %d refused) (vacuous)"
                                    % (miss, info["prework"], info["prework_rejected"]))
        if not any(k.endswith(("_shadow", "_off")) for k in info["prework"]):
            raise vf.MachineryError("forward replay: no shadow / off run with non-outbound work (vacuous)")
    need = ["relay_none", "relay_none_fallback", "upfail_none", "upfail_none_fallback", "workfail_none", "fail_none"]
    miss = [k for k in need if not info["outcomes"].get(k)]
    if miss or not info["echo_judged"]:
        raise vf.MachineryError("forward replay: terminal outcomes never handed up by failover: %s of %s (vacuous)" % (miss, info["outcomes"]))


def echo_corner_groups():
    """Terminal outcomes of the failover walk that must be played whatever the sample: every fallback fails too (the
    retained failure of the FIRST one is handed up), a fallback recovers, nobody answers at all."""
    scripts = [["servfail", "servfail", "servfail"], ["tcServfail", "servfail", "tcServfail"], ["servfail", "drop", "servfail"],
               ["servfail", "servfail", "answer"], ["servfail", "nxdomain", "answer"], ["servfail", "garbage", "wrongQuestion"],
               ["servfail", "refused", "servfail"], ["refused", "answer", "answer"]]
    cases = [{"id": "e%d" % i, "script": sc, "pre": [], "expect": None, "dup": 0, "client": (5 * i + 3) % 16, "prework": "none",
              "upopts": i % 2 == 0} for i, sc in enumerate(scripts)]
    return [{"name": "echo_corner", "nf": 1, "nb": 2, "mode": "shadow", "cap": 4, "ecs": False, "transport": "", "cases": cases}]


def outcome_class(b):
    r, m = b["reply"], b["m"]
    return (m["kind"], r["kind"], r["mark"], b["engaged"], r["from"] > b["nf"], b["latched"], b.get("prework", "none") != "none")


def run_echo(ctx):
    """C06's entry: the reply contract on every terminal outcome of the forwarder / failover state machine.  TLC: the small
    exhaustive config with ReplyEchoesClientId, its negative twin, two simulations; the replay plays up to three
    behaviours per outcome class (what the forwarder wrote, what failover handed up, mark, walked or not, which pool,
    latched, prework), every client shape, with and without upstream-side options."""
    thorough = ctx.tier == "thorough"
    ctx.cov["rule"] = (ctx.cov.get("rule", "") + " | X11FW/echo: behaviours of Forward.tla covering every terminal outcome of the "
                       "forwarder / failover walk, played by scripted upstreams against the real default chain; the reply "
                       "contract is evaluated on the raw bytes of every reply").strip(" |")
    ctx.spec_dir("Forward")
    jobs = [("mc", "MC_F1B2_work_q.cfg" if not thorough else "MC_F1B2_work.cfg"), ("neg", "MC_NegLateStamp.cfg", "ReplyEchoesClientId"),
            ("sim", "Sim_F3B2.cfg", 700 if not thorough else 12000), ("sim", "Sim_F2B2_work.cfg", 300 if not thorough else 4000)]
    tl = {}

    def run(job):
        if job[0] == "mc":
            ctx.tlc("Forward", "MC_Forward.tla", job[1], workers=1 if not thorough else 3, timeout=900, heap="4g", tag="exhaustive")
        elif job[0] == "neg":
            r = ctx.tlc("Forward", "MC_Forward.tla", job[1], workers=1, timeout=300, heap="2g", must_pass=False, tag="negative", count=False)
            if r.violated != job[2]:
                raise vf.MachineryError("negative config %s did not violate %s (got %s)" % (job[1], job[2], r.violated))
        else:
            tl[job[1]] = simulate(ctx, job[1], job[2])

    with ThreadPoolExecutor(max_workers=4) as ex:
        for f in [ex.submit(run, j) for j in jobs]:
            f.result()
    rng = random.Random(ctx.seed)
    per = 3 if not thorough else 40
    chosen = []
    for cfg in ("Sim_F3B2.cfg", "Sim_F2B2_work.cfg"):
        by = {}
        behs = list(tl[cfg])
        rng.shuffle(behs)
        for b in behs:
            by.setdefault(outcome_class(b), []).append(b)
        for k in sorted(by, key=repr):
            chosen += by[k][:per]
    groups = group_cases(chosen, "", rng, "o", ecs_every=7) + echo_corner_groups()
    ncases = sum(len(g["cases"]) for g in groups)
    ctx.log("forward echo replay: %d groups, %d cases, %d outcome classes" % (len(groups), ncases, len({outcome_class(b) for b in chosen})))
    res = run_replay_driver(ctx, groups, "forward_echo", followup=False)
    res = fold(ctx, res, ("c06",), "[forward echo] ")
    c = res.get("counters", {})
    info = {"groups": len(groups), "cases": ncases, "cases_exact": c.get("cases_exact", 0), "drift_cases": c.get("drift_cases", 0),
            "drift_notes": res.get("drift_notes", [])[:8], "echo_judged": c.get("echo_judged", 0),
            "prework_rejected": c.get("prework_rejected", 0),
            "prework": {k[8:]: v for k, v in c.items() if k.startswith("prework_") and k != "prework_rejected"},
            "outcomes": {k[8:]: v for k, v in c.items() if k.startswith("outcome_")},
            "rcodes": {k[6:]: v for k, v in c.items() if k.startswith("rcode_")}}
    ctx.cov["replay"]["forward_echo"] = info
    ctx.cov["traces_validated_against_impl"] += c.get("cases_total", 0)
    ctx.log("forward echo replay: exact=%d drift=%d replies judged=%d outcomes=%s" % (
        info["cases_exact"], info["drift_cases"], info["echo_judged"], info["outcomes"]))
    if res.get("violations"):
        return
    if c.get("cases_total", 0) != ncases:
        raise vf.MachineryError("forward echo replay ran %d of %d cases" % (c.get("cases_total", 0), ncases))
    check_dimensions(info, work=False)


def replay_file(ctx, path, families):
    """bin/check X11FW --replay <file>: re-run exactly the recorded failing case."""
    with open(path) as f:
        rec = json.load(f)
    rp = rec.get("replay", rec)
    if rp.get("driver") != "forward-replay" or "group" not in rp or "case" not in rp:
        raise vf.MachineryError("replay file %s does not hold a forward-replay case; re-run the tier with seed %s"
                                % (path, rec.get("seed")))
    g = rp["group"]
    case = dict(rp["case"])
    case["id"] = "r0"
    group = {"name": "replay", "nf": g["nf"], "nb": g["nb"], "mode": g["mode"], "cap": g["cap"], "ecs": g.get("ecs", False),
             "transport": g.get("transport", ""), "cases": [case]}
    res = run_replay_driver(ctx, [group], "forward_replay_one", parallel=4)
    fold(ctx, res, families, "[replay] ")
    ctx.cov["states"] = max(1, ctx.cov["states"])
    ctx.cov["transitions"] = max(1, ctx.cov["transitions"])
    ctx.cov["replay"]["replayed_file"] = path


ALL_FAULTS = ["answer", "strayAnswer", "nxdomain", "refused", "servfail", "drop", "delay", "wrongId", "garbage", "wrongQuestion",
              "tcAnswer", "tcStall", "tcReset", "tcWrongId", "tcServfail"]


def stress_groups(rng, n):
    """Scripts drawn by the harness: every server plays something, up to two tuples exhausted."""
    out = []
    for mode, cap in (("enforce", 3), ("shadow", 2), ("off", 0)):
        cases = []
        for i in range(n // 3):
            script = [rng.choice(ALL_FAULTS) for _ in range(5)]
            tuples = [[s, pr] for s in range(1, 6) for pr in ("udp", "tcp")]
            pre = rng.sample(tuples, rng.choice([0, 0, 1, 2]))
            cases.append({"id": "s%s%d" % (mode[0], i), "script": script, "pre": sorted(pre), "expect": None, "dup": 0,
                          "client": rng.randrange(16), "prework": rng.choice(WORK_KINDS) if i % 6 == 5 else "none",
                          "upopts": i % 4 == 1})
        out.append({"name": "s_f3b2_%s%d" % (mode, cap), "nf": 3, "nb": 2, "mode": mode, "cap": cap, "ecs": False, "transport": "",
                    "cases": cases})
    return out


def split_traces(path):
    traces = []
    with open(path) as f:
        for line in f:
            ln = json.loads(line)
            if ln["ev"] == "reset":
                traces.append([])
            traces[-1].append(ln)
    return traces


def write_traces(path, traces):
    with open(path, "w") as f:
        for t in traces:
            for ln in t:
                f.write(json.dumps(ln) + "\n")


def highwater(r):
    import re
    m = None
    for m in re.finditer(r'<<"highwater", (\d+), (\d+)>>', r.out):
        pass
    return (int(m.group(1)), int(m.group(2))) if m else (0, 0)


def validate_traces(ctx, path, expected, families):
    """code -> spec: the recorded histories against Trace_Forward.tla (conformance) and its monitor (predicates)."""
    traces = split_traces(path)
    if len(traces) != expected or len(traces) < 20:
        raise vf.MachineryError("trace file holds %d histories, the driver recorded %d" % (len(traces), expected))
    info = {"histories": len(traces), "lines": sum(len(t) for t in traces)}
    ctx.cov["replay"]["forward_traces"] = info
    # the predicates on the observed counters alone
    with ThreadPoolExecutor(max_workers=2) as ex:
        fm = ex.submit(ctx.tlc_trace, "Forward", "Trace_Forward.tla", "Trace_Monitor.cfg", path, timeout=600, deque=False)
        fc = ex.submit(ctx.tlc_trace, "Forward", "Trace_Forward.tla", "Trace_Forward.cfg", path, timeout=900, deque=False)
        (ok, r), first = fm.result(), fc.result()
    if not ok:
        if r.violated in ("ObsAtMostOneReply", "ObsDebitFirst", "ObsWithinBudget", "ObsOverBudgetServfail"):
            fam = "c11" if r.violated == "ObsAtMostOneReply" else "c12"
            hw, _ = highwater(r)
            if fam in families:
                ctx.violation("forward/trace/" + r.violated, "[%s] %s is false on a recorded history of the forwarder / failover "
                              "(monitor of Trace_Forward.tla)" % (fam, r.violated), {"driver": "forward-trace", "trace": open(path).read().splitlines()[:400]})
            else:
                ctx.log("OFF-PROPERTY predicate false (not judged here): %s" % r.violated)
            return
        raise vf.MachineryError("trace monitor did not consume the recorded histories:\n%s" % "\n".join(r.out.splitlines()[-15:]))
    # conformance: strict first, then with a clock that may tick anywhere; a history the model cannot follow is drift
    cur, dropped, cfg = path, [], "Trace_Forward.cfg"
    for attempt in range(8):
        ok, r = first if attempt == 0 else ctx.tlc_trace("Forward", "Trace_Forward.tla", cfg, cur, timeout=900, deque=False)
        if ok:
            break
        if r.violated and r.violated != "TraceAccepted":
            raise vf.MachineryError("model invariant %s failed while matching recorded histories (the trace spec left the "
                                    "model's reachable states)" % r.violated)
        if cfg == "Trace_Forward.cfg":
            cfg = "Trace_Forward_ticks.cfg"
            continue
        hw, total = highwater(r)
        n, k = 0, None
        for i, t in enumerate(traces):
            n += len(t)
            if hw <= n:          # line hw+1 .. could not be consumed: it lies in trace i (or is its first line)
                k = i if hw < n else i + 1
                break
        if k is None or k >= len(traces):
            raise vf.MachineryError("trace validation rejected the file at line %d of %d and the history cannot be located" % (hw, total))
        bad = traces.pop(k)
        dropped.append(bad)
        ctx.cov["drift"] += 1
        ctx.log("DRIFT: recorded history %s is not a behaviour of Forward.tla (no predicate failed): %s" % (
            bad[0].get("c"), json.dumps(bad)[:600]))
        cur = os.path.join(ctx.scratch, "forward_traces_%d.ndjson" % attempt)
        write_traces(cur, traces)
    else:
        raise vf.MachineryError("more than a handful of recorded histories are not behaviours of Forward.tla: %s"
                                % [b[0].get("c") for b in dropped])
    info.update(accepted=len(traces), rejected=len(dropped), with_ticks=cfg.endswith("_ticks.cfg"), trace_states=r.distinct)
    ctx.cov["traces_validated_against_impl"] += len(traces)
    if len(dropped) > max(2, len(traces) // 10):
        raise vf.MachineryError("%d of %d recorded histories rejected (binding lost or timing too noisy)" % (len(dropped), len(dropped) + len(traces)))
    # binding: a corrupted history must be rejected, and the monitor must see an undebited packet
    lines = [ln for t in traces for ln in t]
    idx = [i for i, ln in enumerate(lines) if ln["ev"] == "send" and ln.get("ledger") and ln.get("debits", 0) >= 2]
    if not idx:
        raise vf.MachineryError("tamper test: no second packet with a visible ledger in the recorded histories")
    bad = [dict(ln) for ln in lines]
    bad[idx[0]]["debits"] = 0
    bpath = os.path.join(ctx.scratch, "forward_traces_tampered.ndjson")
    with open(bpath, "w") as f:
        for ln in bad:
            f.write(json.dumps(ln) + "\n")
    with ThreadPoolExecutor(max_workers=2) as ex:
        fm = ex.submit(ctx.tlc_trace, "Forward", "Trace_Forward.tla", "Trace_Monitor.cfg", bpath, timeout=600, deque=False)
        fc = ex.submit(ctx.tlc_trace, "Forward", "Trace_Forward.tla", cfg, bpath, timeout=600, deque=False)
        (okb, rb), (okc, rc) = fm.result(), fc.result()
    if okb or rb.violated != "ObsDebitFirst":
        raise vf.MachineryError("tamper test: the monitor accepted a history with an undebited packet (binding lost)")
    if okc:
        raise vf.MachineryError("tamper test: Trace_Forward accepted a history with a corrupted ledger reading (binding lost)")
    info["tamper_rejected"] = True


def run_tier(ctx, families=FAMILIES):
    thorough = ctx.tier == "thorough"
    ctx.cov["rule"] = (ctx.cov.get("rule", "") + " | X11FW: behaviours = TLC simulated / edge-covering runs of Forward.tla played by "
                       "scripted upstreams against the real default chain in forwarder mode (distinct = distinct "
                       "(configuration, fault script, exhausted tuples)); free-running load validated against "
                       "Trace_Forward.tla").strip(" |")
    ctx.assumptions += [
        "X11FW: a query counts as admitted when it is well-formed and enters Server.ServeMsg / ServeRaw from a non-loopback "
        "client; timing oracle = querytimeout 1.25 s + margin 1.5 s",
        "X11FW: the C12 / C19 predicates are judged on the forwarder's and failover's own upstream traffic only "
        "(families judged: %s)" % ", ".join(families),
        "X11FW: the ledger is read at the moment a packet arrives at the scripted upstream (the code is blocked in its "
        "read): 'debited before it is made' = the k-th packet sees a counter >= k",
    ]
    tl = tlc_jobs(ctx, thorough)
    replay(ctx, thorough, families, tl)


def run(ctx, replay_path):
    if replay_path:
        return replay_file(ctx, replay_path, FAMILIES)
    if os.environ.get("X11FW_ONLY") == "echo":      # C06's short entry alone
        return run_echo(ctx)
    run_tier(ctx)
