"""C13 -- cached failures (RFC 9520) suppress only what failed, for a bounded time.

FailureCache.tla (middleware/cache/failure_cache.go + the request-level routing of
cache.go / store.go / resolver.go):
  * TLC exhaustive over the bounded configs (envelope, containment, admission filter,
    probe election, kill switch);
  * spec -> code: every labelled edge of two small state graphs and simulated deep
    behaviours replayed on the real exported FailureCache (Now hook); simulated request
    histories replayed through cache.New + ServeDNS with a scripted downstream that fails
    in every way (message-born and wire-born requests, kill switch, concurrent followers of
    an expired generation held at gates);
  * code -> spec: every call is recorded (arguments, verdict, projection of the retained
    states) and checked by the property monitor Trace_FailureCache.tla.

Zone-failure pipeline tier (checks/c13_zone.py): ZoneFail.tla (the resolver's server fan-out and the
admission of a zone failure) exhaustive over all server-behaviour vectors, the vectors played by scripted
authorities against the real full pipeline, judged from the scripted servers' own record.
"""
import json
import os
import re
from concurrent.futures import ThreadPoolExecutor

import vf
import c13_zone
import x13fe
import x13zb
import x13lp

MOD = "FailureCache"
MCSPEC = "MC_FailureCache.tla"
PARENT = {"1": 0, "2": 1, "3": 2, "4": 2, "5": 1}

INVS = "TypeOK Envelope LocalNeverShared SingleProbe KillSwitch"
PROPS = ("EnvelopeStep EnvelopeStepProp Containment LocalNoTrace OnlyWhatFailed ProbeFollowersWait "
         "SuccessResets KillSwitchStep NoUpstreamOnHit")
TRACE_INVS = "Envelope LocalNeverShared KillSwitch"
TRACE_PROPS = "EnvelopeStepProp TContainment LocalNoTrace OnlyWhatFailed SuccessResets KillSwitchStep NoUpstreamOnHit"


# --------------------------------------------------------------------------- cfg handling
def read_cfg(name):
    """Constants of tla/FailureCache/<name>.cfg as python values."""
    out = {}
    with open(os.path.join(vf.VERIF, "tla", MOD, name + ".cfg")) as f:
        for line in f:
            m = re.match(r"\s*(\w+)\s*=\s*(.+?)\s*$", line)
            if m:
                out[m.group(1)] = vf.unset(vf.parse_tla_value(m.group(2)))
    return out


def driver_cfg(c):
    return {"min": c["Min"], "max": c["Max"], "cap": c["Cap"], "enabled": bool(c["Enabled"]), "parent": PARENT}


def keyspace(c):
    return {"qnames": c["QNames"], "znames": c["ZNames"], "types": c["Types"], "classes": c["Classes"],
            "cds": c["CDs"], "scopes": c["Scopes"]}


def write_trace_cfg(ctx, base, cap=None, suffix=""):
    """Trace cfg with the constants of <base>.cfg (written into the scratch copy of the spec dir)."""
    d = ctx.spec_dir(MOD)
    lines = []
    with open(os.path.join(d, base + ".cfg")) as f:
        for line in f:
            if re.match(r"\s*(INIT|NEXT|VIEW|INVARIANTS?|PROPERTIES|PROPERTY|CHECK_DEADLOCK|SPECIFICATION)\b", line):
                continue
            if cap is not None and re.match(r"\s*Cap\s*=", line):
                line = "  Cap = %d\n" % cap
            lines.append(line)
    name = "Trace_%s%s.cfg" % (base, suffix)
    with open(os.path.join(d, name), "w") as f:
        f.write("".join(lines))
        f.write("SPECIFICATION TraceSpec\nINVARIANTS %s\nPROPERTIES %s\nPOSTCONDITION TraceAccepted\nCHECK_DEADLOCK FALSE\n"
                % (TRACE_INVS, TRACE_PROPS))
    return name


# --------------------------------------------------------------------------- TLC -> driver steps
def parse_label(label):
    label = label.replace('\\"', '"').strip()
    m = re.match(r"^(\w+)(?:\((.*)\))?$", label, re.S)
    if not m:
        raise vf.MachineryError("bad action label %r" % label)
    args = []
    if m.group(2) is not None and m.group(2).strip():
        args = vf.unset(vf.parse_tla_value("<<" + m.group(2) + ">>"))
    return m.group(1), args


def conv_step(op, a):
    if op in ("RecordQuestion",):
        return {"op": op, "k": a[0], "cause": a[1]}
    if op == "RecordZone":
        return {"op": op, "zk": a[0], "cause": a[1]}
    if op in ("Lookup", "RetryKey", "ResetQuestion", "ResetMatching"):
        return {"op": op, "k": a[0]}
    if op == "LookupWire":
        return {"op": op, "k": [a[0], a[1], a[2], a[3], 0]}
    if op == "ResetZone":
        return {"op": op, "zk": a[0]}
    if op == "Purge":
        return {"op": op, "p": [a[0], a[1], a[2]]}
    if op == "Tick":
        return {"op": op, "d": a[0]}
    if op == "Request":
        return {"op": op, "k": a[0], "o": a[1], "z": a[2]}
    if op == "Begin":
        return {"op": op, "r": a[0], "k": a[1]}
    if op == "Finish":
        return {"op": op, "r": a[0], "o": a[1], "z": a[2]}
    if op == "Wake":
        return {"op": op, "r": a[0]}
    raise vf.MachineryError("unknown action %r" % op)


def conv_ents(f):
    out = []
    if isinstance(f, dict):
        for k, e in f.items():
            if e["streak"] != 0:
                out.append({"key": json.loads(k), "streak": e["streak"], "rel": e["rel"], "bo": e["bo"], "cause": e["cause"]})
    return out


def seq_get(f, i):
    if isinstance(f, list):
        return f[i - 1]
    return f.get(i, f.get(str(i)))


def conv_state(st, reqs=()):
    out = {"q": conv_ents(st["fq"]), "z": conv_ents(st["fz"])}
    if reqs:
        out["reqs"] = {str(r): {"pc": seq_get(st["pc"], r), "q": seq_get(st["rq"], r), "rg": seq_get(st["rg"], r),
                                "ld": seq_get(st["ld"], r)} for r in reqs}
    return out


def conv_last(l):
    return {"hit": l["hit"], "kind": l["kind"], "src": l["src"], "streak": l["streak"], "rel": l["rel"],
            "n": l["n"], "down": l["down"], "res": l["res"]}


STATE_RE = re.compile(r"\\\* <(.*?) line \d+, col \d+ to line \d+, col \d+ of module \w+>\s*\nSTATE_\d+ ==\s*\n(.*?)(?=\n\n|\Z)", re.S)
ENT_RE = re.compile(r'<<([-\d, ]+)>> :>\s*\[\s*streak \|-> (\d+),\s*rel \|-> (-?\d+),\s*bo \|-> (\d+),\s*cause \|-> "([^"]*)"\s*\]')


def fast_state(text):
    """The parts of a printed TLC state the drivers use (vf.parse_tla_state is too slow for
    thousands of 50-key states)."""
    q, z = [], []
    for m in ENT_RE.finditer(text):
        if m.group(2) == "0":
            continue
        key = [int(x) for x in m.group(1).split(",")]
        e = {"key": key, "streak": int(m.group(2)), "rel": int(m.group(3)), "bo": int(m.group(4)), "cause": m.group(5)}
        (q if len(key) == 5 else z).append(e)
    i = text.index("/\\ last = [")
    j = text.find("\n/\\ ", i + 5)
    lt = text[i:j if j > 0 else len(text)]

    def f(name, pat):
        m = re.search(r"[\[ ]" + name + r" \|-> " + pat, lt)
        if not m:
            raise vf.MachineryError("cannot read last.%s in %r" % (name, lt[:300]))
        return m.group(1)
    src = f("src", r"<<([-\d, ]*)>>")
    last = {"hit": f("hit", "(TRUE|FALSE)") == "TRUE", "kind": f("kind", r'"([^"]*)"'),
            "src": [int(x) for x in src.split(",")] if src.strip() else [],
            "streak": int(f("streak", r"(-?\d+)")), "rel": int(f("rel", r"(-?\d+)")), "n": int(f("n", r"(-?\d+)")),
            "down": f("down", "(TRUE|FALSE)") == "TRUE", "res": f("res", r'"([^"]*)"')}
    return {"q": q, "z": z}, last


def sim_paths(ctx, cfg, num, depth, workers=4, tag=""):
    """-simulate behaviours of <cfg> as driver paths (about num in total)."""
    import glob
    d = ctx.spec_dir(MOD)
    pref = os.path.join(d, "sim_%s_%d" % (cfg, len(ctx.cov["tlc_runs"])))
    r = ctx.tlc(MOD, MCSPEC, cfg + ".cfg", workers=workers, timeout=900,
                args=["-simulate", "file=%s,num=%d" % (pref, max(1, num // workers)), "-depth", str(depth), "-seed", str(ctx.seed)],
                must_pass=False, tag="simulate", count=False, heap="4g")
    if r.rc != 0:
        raise vf.MachineryError("TLC simulate failed rc=%d on %s\n%s" % (r.rc, cfg, "\n".join(r.out.splitlines()[-30:])))
    paths, seen = [], set()
    for bi, fn in enumerate(sorted(glob.glob(pref + "_*"))):
        with open(fn) as f:
            text = f.read()
        os.remove(fn)
        steps, labs = [], []
        for m in STATE_RE.finditer(text):
            lab = m.group(1).strip()
            if lab.startswith("Init"):
                continue
            op, args = parse_label(lab)
            s = conv_step(op, args)
            s["dst"], s["exp"] = fast_state(m.group(2))
            steps.append(s)
            labs.append(lab)
        key = "|".join(labs)
        if key in seen or not steps:
            continue
        seen.add(key)
        ctx._distinct.add("c13-sim:%s:%s" % (cfg, vf.hashlib.sha256(key.encode()).hexdigest()[:16]))
        paths.append({"id": "%s%s#%d" % (cfg, tag, bi), "steps": steps})
    if not paths:
        raise vf.MachineryError("TLC produced no behaviours for %s" % cfg)
    return paths


def graph_paths(ctx, cfg, max_len=60):
    r, nodes, edges, inits = ctx.tlc_graph(MOD, MCSPEC, cfg + ".cfg", timeout=900, workers=4, heap="6g")
    uniq = sorted(set(edges))
    paths = vf.cover_paths(nodes, uniq, inits, max_len=max_len)
    covered = set()
    out = []
    states = {k: conv_state(v) for k, v in nodes.items()}
    for pi, p in enumerate(paths):
        steps = []
        for e in p:
            op, args = parse_label(e[2])
            s = conv_step(op, args)
            s["dst"] = states[e[1]]
            steps.append(s)
        covered.update(p)
        out.append({"id": "%s/p%d" % (cfg, pi), "steps": steps})
    if len(covered) != len(uniq):
        raise vf.MachineryError("edge cover incomplete: %d of %d" % (len(covered), len(uniq)))
    for e in uniq:
        ctx._distinct.add("c13-edge:%s:%s:%s:%s" % ((cfg,) + e))
    ctx.log("%s: %d nodes, %d labelled edges, %d covering paths" % (cfg, len(nodes), len(uniq), len(paths)))
    return out, len(uniq)


# --------------------------------------------------------------------------- trace direction
def corrupt_trace(src, dst):
    """Binding self-test: one logged back-off is pushed over the maximum; the monitor must object."""
    done = False
    with open(src) as f, open(dst, "w") as g:
        for line in f:
            if not done:
                e = json.loads(line)
                if e.get("op") == "RecordQuestion" and e.get("hit") and e.get("fq"):
                    for row in e["fq"]:
                        if row[:5] == e["k"]:
                            row[6] = 299
                            e["rel"] = 299
                            done = True
                    line = json.dumps(e) + "\n"
            g.write(line)
            if done and json.loads(line).get("op") != "RecordQuestion":
                break
    return done


DRIVER_OF = {"fc": "TestFailureCacheReplay", "req": "TestRequestReplay", "probe": "TestProbeReplay", "replay": "TestFailureCacheReplay"}


def validate_trace(ctx, name, base_cfg, trace, cap=None, what="FailureCache"):
    nlines = sum(1 for _ in open(trace))
    if nlines == 0:
        raise vf.MachineryError("empty trace %s" % trace)
    tcfg = write_trace_cfg(ctx, base_cfg, cap=cap)
    ok, r = ctx.tlc_trace(MOD, "Trace_FailureCache.tla", tcfg, trace, timeout=1500)
    info = {"trace_lines": nlines, "trace_matched": max(0, r.depth - 1)}
    m = re.search(r'<<"C13DRIFT", (\d+)>>', r.out)
    if m:
        info["lines_not_predicted_by_spec"] = int(m.group(1))
        if int(m.group(1)):
            ctx.cov["drift"] += int(m.group(1))
            ctx.log("DRIFT: %s lines of %s are not predicted by FailureCache.tla (no predicate failed)" % (m.group(1), name))
    if r.violated and r.violated != "TraceAccepted":
        lines = open(trace).read().splitlines()[: max(1, r.depth - 1)]
        ctx.violation("c13/trace/" + r.violated,
                      "[%s] %s is false on a recorded execution of the real %s (trace line %d: %s)"
                      % (name, r.violated, what, r.depth - 1, lines[-1][:300] if lines else ""),
                      {"trace_prefix": last_run(lines), "cfg": base_cfg, "driver": DRIVER_OF.get(name.split("_")[0], ""),
                       "name": name})
    elif not ok:
        ctx.cov["drift"] += 1
        ctx.log("DRIFT: trace %s not consumed by the monitor after %d of %d lines" % (name, r.depth - 1, nlines))
        info["trace_rejected_tail"] = r.out.splitlines()[-12:]
    else:
        ctx.cov["traces_validated_against_impl"] += 1
    ctx.cov["replay"]["trace_" + name] = info
    return ok and not r.violated


def last_run(lines):
    """The lines of the run (Reset .. end) the last line belongs to."""
    start = max([i for i, l in enumerate(lines) if l.startswith('{"op":"Reset"')] or [0])
    return lines[start:]


def steps_of_trace(lines):
    """Re-create driver steps from recorded trace lines (arguments are logged in model ids)."""
    steps = []
    for l in lines:
        e = json.loads(l)
        op = e.get("op")
        if op in ("Reset", "Wake"):
            continue
        s = {"op": op}
        for f in ("k", "zk", "p", "cause", "d", "o", "z", "r"):
            if f in e:
                s[f] = e[f]
        steps.append(s)
    return steps


def monitor_selftest(ctx, base_cfg, trace):
    bad = trace + ".corrupt"
    if not corrupt_trace(trace, bad):
        raise vf.MachineryError("binding self-test: no RecordQuestion line to corrupt in %s" % trace)
    tcfg = write_trace_cfg(ctx, base_cfg, suffix="_selftest")
    ok, r = ctx.tlc_trace(MOD, "Trace_FailureCache.tla", tcfg, bad, timeout=600)
    if not r.violated or r.violated == "TraceAccepted":
        raise vf.MachineryError("binding self-test: the trace monitor accepted a corrupted back-off (vacuous monitor)")
    ctx.cov["replay"]["monitor_selftest"] = {"corrupted_field": "retryIn", "flagged": r.violated}


# --------------------------------------------------------------------------- overlapping Record / Reset (ResetRace.tla)
def reset_race_model(ctx):
    """ResetRace.tla: the atomics of record / ResetZone on one slot.  Exhaustive for 2 and 3 overlapping callers (Linearizable,
    ResetWins, AdvanceOnce, Terminates); the negative twins (ResetZone gives up after one lost compare-and-delete) must refute
    ResetWins and Linearizable.  Returns the outcomes of complete rounds per (initial slot, callers) for the binding."""
    allowed = {}
    for cfg in ("MC_RR2", "MC_RR3"):
        r, nodes, edges, inits = ctx.tlc_graph(MOD, "MC_ResetRace.tla", cfg + ".cfg", timeout=600, workers=2, heap="2g")
        for st in nodes.values():
            pcs = st["pc"] if isinstance(st["pc"], list) else [st["pc"][k] for k in sorted(st["pc"], key=int)]
            if any(x != "done" for x in pcs):
                continue
            ops = st["op"] if isinstance(st["op"], list) else [st["op"][k] for k in sorted(st["op"], key=int)]
            rets = st["ret"] if isinstance(st["ret"], list) else [st["ret"][k] for k in sorted(st["ret"], key=int)]
            recs = sorted(int(v) for o, v in zip(ops, rets) if o == "rec")
            rsts = sorted(int(v) for o, v in zip(ops, rets) if o == "reset")
            fmt = lambda xs: "[" + " ".join(str(x) for x in xs) + "]"
            outcome = "final=%d/%s;rec=%s;reset=%s" % (int(st["slot"]["streak"]), st["slot"]["kind"], fmt(recs), fmt(rsts))
            key = "%s|%s" % (st["init0"]["kind"], ",".join(sorted(ops)))
            allowed.setdefault(key, set()).add(outcome)
    for cfg, want in (("Neg_RRNoRetry", "ResetWins"), ("Neg_RRNoRetryLin", "Linearizable")):
        r = ctx.tlc(MOD, "MC_ResetRace.tla", cfg + ".cfg", workers=1, timeout=300, heap="2g", must_pass=False, count=False,
                    tag="mutant-must-fail")
        if r.violated != want:
            raise vf.MachineryError("%s: the model mutant must refute %s, TLC says %r (vacuous invariant?)" % (cfg, want, r.violated))
    if len(allowed) < 12:
        raise vf.MachineryError("ResetRace.tla: outcomes for only %d (slot, callers) combinations" % len(allowed))
    return {k: sorted(v) for k, v in allowed.items()}


RESET_RACE = {"maxRounds": 60000, "budgetMs": 6000, "initStreak": 3}


def reset_race(ctx, allowed, inp=None):
    """code -> spec: free-running rounds of overlapping Record / Reset calls on the real FailureCache (swept skew), every
    round's outcome judged against the model's (ResetWins is the verdict, anything else outside the set is drift)."""
    if inp is None:
        inp = dict(RESET_RACE)
        if ctx.tier == "thorough":
            inp.update({"budgetMs": 20000, "maxRounds": 400000})
    inp = dict(inp)
    inp["allowed"] = allowed
    res = ctx.go_driver("./c13", "TestResetRace", inp, name="reset_race", timeout=300)
    ctx.take_driver_result(res, "[overlapping Record / Reset] ")
    cnt = res.get("counters", {})
    ctx.cov["replay"]["reset_race"] = {"rounds": cnt.get("rounds", 0), "drift": res["drift"], "drift_notes": res.get("drift_notes", []),
                                        "counters": cnt, "skipped": res.get("skipped", []),
                                        "model_outcomes": {k: len(v) for k, v in allowed.items()}}
    ctx.cov["traces_validated_against_impl"] += cnt.get("rounds", 0)
    if res.get("skipped"):
        raise vf.MachineryError("reset race driver: %s" % res["skipped"][:3])
    if not res.get("violations") and (cnt.get("rounds", 0) < 2000 or not cnt.get("rounds_zone") or not cnt.get("rounds_question")):
        raise vf.MachineryError("reset race driver is vacuous: %s" % cnt)
    ctx.log("overlapping Record / Reset: %d rounds (zone %d, question %d), outcomes outside ResetRace.tla: %d" % (
        cnt.get("rounds", 0), cnt.get("rounds_zone", 0), cnt.get("rounds_question", 0), res["drift"]))


# --------------------------------------------------------------------------- drivers
def run_driver(ctx, test, name, cfgname, paths, shapes=1, random=0, extra=None, timeout=900, what=""):
    c = read_cfg(cfgname)
    trace = os.path.join(ctx.scratch, "c13_%s.ndjson" % name)
    inp = {"cfg": driver_cfg(c), "shapes": shapes, "paths": paths, "traceOut": trace, "random": random}
    inp.update(keyspace(c))
    if extra:
        inp.update(extra)
    res = ctx.go_driver("./c13", test, inp, name=name, timeout=timeout)
    ctx.take_driver_result(res, "[%s] " % (what or name))
    info = {"paths": len(paths), "replays": res["cases"], "steps": res.get("counters", {}).get("steps", 0),
            "drift": res["drift"], "drift_notes": res.get("drift_notes", []), "skipped": res.get("skipped", []),
            "counters": res.get("counters", {})}
    ctx.cov["replay"][name] = info
    if res.get("skipped"):
        raise vf.MachineryError("%s: replay stopped: %s" % (name, res["skipped"][:3]))
    if not res["cases"] or not info["steps"]:
        raise vf.MachineryError("%s: vacuous replay (no case / step executed)" % name)
    return res, trace


def model_check(ctx, cfgs, workers, timeout):
    def one(c):
        return ctx.tlc(MOD, MCSPEC, c + ".cfg", workers=workers, timeout=timeout, heap="6g")
    return [POOL.submit(one, c) for c in cfgs]


POOL = ThreadPoolExecutor(max_workers=4)
ZONE_THREAD = ThreadPoolExecutor(max_workers=1)
TRACE_CAP_QUICK = 30000


def cap_trace(path, max_lines):
    """Keep whole runs (Reset .. Reset) up to max_lines lines."""
    kept, cur, n = [], [], 0
    with open(path) as f:
        for line in f:
            if line.startswith('{"op":"Reset"') and cur:
                if n + len(cur) > max_lines and kept:
                    cur = []
                    break
                kept += cur
                n += len(cur)
                cur = []
            cur.append(line)
    if cur and (n + len(cur) <= max_lines or not kept):
        kept += cur
    with open(path, "w") as f:
        f.writelines(kept)
    return len(kept)


SHAPES = ["plain", "words-mixedcase", "escaped-dot"]


def run_replay(ctx, path):
    """bin/check C13 --replay <file>: re-run exactly the recorded failing case."""
    with open(path) as f:
        doc = json.load(f)
    ctx.seed = int(doc.get("seed", ctx.seed))
    rep = doc.get("replay", {})
    ctx.cov["rule"] = "replay of one recorded failing case"
    if "trace_prefix" in rep:
        # a monitor finding: re-execute the recorded calls on the real code, then judge the new recording
        lines = last_run(rep["trace_prefix"])
        head = json.loads(lines[0]) if lines else {}
        rep = {"driver": rep.get("driver") or "TestFailureCacheReplay", "path": head.get("path", rep["cfg"] + "#replay"),
               "shape": head.get("shape", "plain"), "cfg": driver_cfg(read_cfg(rep["cfg"])),
               "steps": [json.dumps(x) for x in steps_of_trace(lines)], "trace_cfg": rep["cfg"]}
    driver = rep.get("driver")
    if driver in ("TestReplay", "TestStorm"):       # the FailEcs tier (checks/x13fe.py)
        return x13fe.replay_file(ctx, path)
    if driver == x13zb.TEST:                         # the zone / breaker history tier (checks/x13zb.py)
        return x13zb.replay_file(ctx, path)
    if "cases" in rep and "holdMs" in rep:           # the server-list assembly tier (checks/x13lp.py)
        return x13lp.replay_file(ctx, path)
    if driver == "TestZoneFailure":
        return c13_zone.replay_zone(ctx, rep)
    if driver == "TestResetRace":                    # a race cannot be replayed step by step: the same stress again
        ctx.spec_dir(MOD)
        reset_race(ctx, reset_race_model(ctx), rep.get("input"))
        return
    if driver == "TestResolverShed":
        res = ctx.go_driver("./c13", driver, {"cfg": driver_cfg(read_cfg("Sim_Req"))}, name="replay", timeout=300)
        ctx.take_driver_result(res, "[replay] ")
        ctx.cov["states"] = ctx.cov["transitions"] = 1
        return
    if driver not in ("TestFailureCacheReplay", "TestRequestReplay", "TestProbeReplay"):
        raise vf.MachineryError("replay file %s names no C13 driver" % path)
    pid = rep["path"]
    base = pid.split("#")[0].split("/")[0]
    try:
        steps = [json.loads(x) for x in rep["steps"]]
    except ValueError as ex:
        raise vf.MachineryError("replay file %s has an unparsable step: %s" % (path, ex))
    trace = os.path.join(ctx.scratch, "replay.ndjson")
    inp = {"cfg": rep["cfg"], "shapes": 1, "shapeBase": SHAPES.index(rep.get("shape", "plain")),
           "paths": [{"id": pid, "steps": steps}], "traceOut": trace, "random": 0}
    try:
        inp.update(keyspace(read_cfg(base)))
    except (OSError, KeyError):
        pass
    res = ctx.go_driver("./c13", driver, inp, name="replay", timeout=600)
    ctx.take_driver_result(res, "[replay %s] " % pid)
    ctx.cov["states"] = ctx.cov["transitions"] = max(1, len(steps))
    tcfg = rep.get("trace_cfg", base)
    if os.path.exists(os.path.join(vf.VERIF, "tla", MOD, tcfg + ".cfg")) and os.path.getsize(trace) > 0:
        ctx.spec_dir(MOD)
        validate_trace(ctx, "replay", tcfg, trace, what="code")
    ctx.sample({"replayed": pid, "steps": len(steps), "violations": len(res.get("violations", []))})


def run(ctx, replay):
    if replay:
        return run_replay(ctx, replay)
    thorough = ctx.tier == "thorough"
    n = 1 if not thorough else 8
    ctx.cov["rule"] = ("behaviours = every labelled edge of the TLC state graphs G_Names / G_Dims (covering paths) + "
                       "simulated behaviours of FailureCache.tla, each replayed on the real FailureCache / cache.Cache "
                       "under several name/type/class/ECS shapes; + server-behaviour vectors of ZoneFail.tla played by scripted "
                       "authorities against the full pipeline; distinct = distinct labelled edges / behaviours / vectors")
    ctx.assumptions += [
        "virtual time: FailureCacheConfig.Now / overlay VerifC13SetFailureNow; the clock moves only between completed calls",
        "answer cache abstracted: after a useful reply the ordinary answer entry is dropped (overlay VerifC13DropAnswer)",
        "64-bit hash collisions between different failure keys are not exercised",
        "the resolver's zone admission filter is driven through overlay VerifC13RecordZoneFailure with scripted causes",
        "request-local causes that live on the caller's context (cancel, client deadline, best-effort, outer ledger) are "
        "injected on message-born requests only: a wire-born request is detached onto the chain's own context",
    ]
    ctx.spec_dir(MOD)
    # ---- phase 1: TLC alone (model check, state graphs, simulated behaviours), in parallel
    mc = model_check(ctx, ["MC_Backoff", "MC_MidS", "MC_Kill", "MC_ProbeS"], workers=4, timeout=900)
    if thorough:
        mc += model_check(ctx, ["MC_Backoff34", "MC_Backoff15", "MC_Backoff22", "MC_Cap3", "MC_Probe", "MC_Mid"],
                          workers=5, timeout=2400)
    graphs = ["G_Names", "G_Dims"] + (["G_Class"] if thorough else [])
    gfut = {g: POOL.submit(graph_paths, ctx, g) for g in graphs}
    sims = {"Sim_Api": (120 * n, 40), "Sim_Cap": (80 * n, 40), "Sim_Req": (60 * n, 40), "Sim_Kill": (32 * n, 30),
            "Sim_Probe": (24 * n, 40), "Sim_Alias": (40 * n, 40)}
    if thorough:
        sims.update({"Sim_Store": (200, 40), "Sim_Default": (300, 60), "Sim_Odd": (300, 40), "Sim_ReqOdd": (200, 40)})
    sfut = {c: POOL.submit(sim_paths, ctx, c, num, depth) for c, (num, depth) in sims.items()}
    rrf = POOL.submit(reset_race_model, ctx)

    # ---- zone-failure pipeline tier (ZoneFail.tla + scripted authorities against the full pipeline): its TLC runs
    # and its driver go on beside everything below; the verdict is folded in at the end
    ctx.assumptions += c13_zone.ASSUMPTIONS
    ctx.harness_prepare()
    ctx.overlay_file()
    zmc, zcases, zkill = c13_zone.prepare(ctx)
    zfut = ZONE_THREAD.submit(c13_zone.drive, ctx, zcases, zkill)

    # ---- phase 2: spec -> code replays (each records its trace)
    traces = []

    def fc(name, cfgname, paths, shapes, rnd):
        res, trace = run_driver(ctx, "TestFailureCacheReplay", name, cfgname, paths, shapes=shapes, random=rnd,
                                what="FailureCache " + cfgname)
        return res, trace

    for g in graphs:
        paths, nedges = gfut[g].result()
        res, trace = fc("fc_" + g, g, paths, 1 if not thorough else 3, 0)
        ctx.cov["replay"]["fc_" + g]["edges_covered"] = nedges
        traces.append(("fc_" + g, g, trace, "FailureCache"))
    fc_sims = [("Sim_Api", 10 * n), ("Sim_Cap", 10 * n)] + ([("Sim_Default", 20), ("Sim_Odd", 20)] if thorough else [])
    for cfgname, rnd in fc_sims:
        res, trace = fc("fc_" + cfgname, cfgname, sfut[cfgname].result(), 1, rnd)
        traces.append(("fc_" + cfgname, cfgname, trace, "FailureCache"))
        if cfgname == "Sim_Cap" and not res.get("counters", {}).get("evictions"):
            raise vf.MachineryError("capacity replay never evicted anything")

    # request level: cache.New + ServeDNS with a scripted downstream
    # the 5-minute ceiling at the configuration boundary
    res = ctx.go_driver("./c13", "TestCeiling", {"cfg": driver_cfg(read_cfg("Sim_Req"))}, name="ceiling", timeout=300)
    ctx.take_driver_result(res, "[configuration ceiling] ")
    ctx.cov["replay"]["ceiling"] = {"replays": res["cases"]}
    if not res["cases"]:
        raise vf.MachineryError("ceiling probe did not run")

    for cfgname in ["Sim_Req", "Sim_Alias", "Sim_Kill"] + (["Sim_Store", "Sim_ReqOdd"] if thorough else []):
        res, trace = run_driver(ctx, "TestRequestReplay", "req_" + cfgname, cfgname, sfut[cfgname].result(),
                                what="cache.Cache " + cfgname)
        cnt = res.get("counters", {})
        if cfgname == "Sim_Req":
            if not cnt.get("requests_wire") or not cnt.get("requests_msg") or not cnt.get("served_from_failure_cache"):
                raise vf.MachineryError("request replay is vacuous: %s" % cnt)
            missing = [o for o in ("useful", "servfail", "authfail", "aliasfail", "budget", "attemptLimit", "deadline", "cancel",
                                   "shed", "bestEffort") if not cnt.get("outcome_" + o)]
            if missing:
                raise vf.MachineryError("request replay never exercised outcomes %s" % missing)
        if cfgname == "Sim_Alias":
            # the alias-completion failure (second SERVFAIL branch of ResponseWriter.WriteMsg) must have been taken
            # by ECS-scoped requests, both without a sub-query and through the installed Queryer
            need = ("aliasfail_scoped", "aliasfail_self", "aliasfail_via_queryer", "alias_subqueries",
                    "served_from_failure_cache")
            if [x for x in need if not cnt.get(x)] or cnt.get("aliasfail_not_servfail"):
                raise vf.MachineryError("alias-completion replay is vacuous: %s" % cnt)
        traces.append(("req_" + cfgname, cfgname, trace, "cache.Cache"))

    # SingleProbe: concurrent followers of an expired generation, held at gates
    res, trace = run_driver(ctx, "TestProbeReplay", "probe_Sim_Probe", "Sim_Probe", sfut["Sim_Probe"].result(),
                            what="cache.Cache probe election", timeout=1500)
    cnt = res.get("counters", {})
    if not cnt.get("followers_parked"):
        raise vf.MachineryError("probe replay is vacuous: no follower ever waited on a leader (%s)" % cnt)
    traces.append(("probe_Sim_Probe", "Sim_Probe", trace, "cache.Cache"))

    # shed load through the real resolver handler
    c = read_cfg("Sim_Req")
    res = ctx.go_driver("./c13", "TestResolverShed", {"cfg": driver_cfg(c)}, name="resolver_shed", timeout=300)
    ctx.take_driver_result(res, "[resolver capacity shed] ")
    ctx.cov["replay"]["resolver_shed"] = {"replays": res["cases"], "skipped": res.get("skipped", [])}
    if res.get("skipped"):
        raise vf.MachineryError("resolver shed probe: %s" % res["skipped"][:2])

    # "a useful answer resets the backoff" when one client's failing probe overlaps another client's useful answer:
    # RecordZone / ResetZone as the code's atomics (ResetRace.tla), free-running rounds on the real FailureCache
    reset_race(ctx, rrf.result())

    # ---- phase 3: code -> spec, the recorded executions under the property monitor (parallel)
    tf = []
    for name, cfgname, trace, what in traces:
        if not thorough:
            cap_trace(trace, TRACE_CAP_QUICK)
        tf.append(POOL.submit(validate_trace, ctx, name, cfgname, trace, None, what))
    tf.append(POOL.submit(monitor_selftest, ctx, "G_Names", traces[0][2]))
    for f in tf + mc:
        f.result()
    c13_zone.conclude(ctx, zfut.result(), zcases, zmc)
    # the failure cache seen by concurrent clients of several ECS audiences (FailEcs.tla): the /0 opt-out folded into the
    # shared audience on every path (lookup, record, retry key), the follower re-check under the client's own audience,
    # one probe per (question, audience) after expiry, request-local endings neither recorded nor served to followers
    x13fe.run_tier(ctx)
    # the state a HISTORY of request trees shares (ZoneBrk.tla): the per-server circuit breaker and the zone failure -- only
    # upstream failures count, request-local endings (client deadline, hang-up, a faster peer, the tree's own budget) never
    # become shared state, a zone failure only when every server of the zone failed
    x13zb.run_tier(ctx)
    # how one request tree ASSEMBLES a delegation's server list (ZoneAsm.tla): an empty list caused by the tree's own NS-host
    # loop guard is request-local -- a zone a fresh request can reach is never published, not even while the tree is at work
    x13lp.run_tier(ctx)
