"""X06RL -- client rate limiting and DNS cookies (an extension module under C06).

RateLimit.tla   RateLimit.ServeDNS / serveWire, LimiterStore.Get / evictOne / Cleanup, the cookie cache,
                BADCOOKIE, the inline / replay marks of middleware.Chain, the cache's per-entry limiter.
  - TLC exhaustive: every atomic of the code one action; sequential call orders over a bounded store (eviction,
    ticks, cleanup, all three entries, exempt origins), overlapping calls (parked below the limiter / every
    interleaving), liveness under fairness, four mutant configs that must each violate their invariant, and the
    address-representation config (the store is keyed by the raw address bytes: the model reproduces the finding).
  - spec -> code (harness/x06rl TestReplay): every edge of a small state graph + TLC-simulated call orders replayed
    on ONE real server through ServeMsg / ServeRaw / ServeRawInline+ServeRawReplay; projection of the real limiter
    store compared after every step (drift), predicates evaluated on what the code did (violation).
  - forced schedules (TestGated): TLC-chosen overtakings while a call is parked at the gated scripted upstream.
  - code -> spec (TestStress): free-running concurrent histories validated by TLC against Trace_RateLimit.tla.
  - real-time refill (TestRefillSlow) with generous margins; address representations (TestForms): observation.

Verdict classes.  `c06/*`, `cookie/*`: predicates the C06 statement bears (reply contract, "the server cookie returned only
against the client cookie sent").  `rl/*`: the module's own properties (one token per question whatever the entry, refusal
exactly on an empty bucket and without trace, bucket isolation, exemptions, refill at the configured rate, BADCOOKIE as the
code documents).  Setting X06RL_C06_ONLY=1 reports the `rl/*` class as drift instead of violations.
"""
import json
import os
import re
import threading

import vf

MOD = "RateLimit"
SPEC = "MC_RateLimit.tla"
C06_ONLY = os.environ.get("X06RL_C06_ONLY", "") not in ("", "0")
# `c17/*` (gap C17-r3-1): predicates the C17 statement bears -- "resolver-internal sub-queries are never subjected to client ...
# rate-limit ... policy": an internal request, or the chase the cache runs for a client's alias question through its internal
# Queryer, is neither refused by nor charged to the cache's per-entry client limiter.  checks/c17.py runs run_c17_tier with
# C17_ONLY (every other class is drift there); under C06_ONLY the class is drift like `rl/*`.
C17_ONLY = False


# ---------------------------------------------------------------------------------------------------
# TLC output -> driver steps
# ---------------------------------------------------------------------------------------------------
def label_parts(lab):
    lab = lab.strip().replace('\\"', '"')
    if "(" not in lab:
        return lab, []
    name, rest = lab.split("(", 1)
    return name, [a.strip().strip('"') for a in rest.rstrip(")").split(",")]


def fn(v, key, default=None):
    if isinstance(v, list):
        i = int(key) - 1
        return v[i] if 0 <= i < len(v) else default
    return v.get(key, v.get(str(key), default))


def cfg_consts(cfg):
    """The constants of a generated cfg the driver needs."""
    text = open(os.path.join(vf.VERIF, "tla", MOD, cfg)).read()

    def num(name):
        return int(re.search(r"^\s*%s = (\d+)" % name, text, re.M).group(1))

    def strs(name):
        return re.findall(r'"([^"]+)"', re.search(r"^\s*%s = (\{.*\})" % name, text, re.M).group(1))

    return {"burst": num("Burst"), "storeCap": num("StoreCap"), "entryBurst": num("EntryBurst"), "maxAge": num("MaxAge"),
            "clients": strs("Clients"), "forms": strs("Forms"), "atomic": re.search(r'Atomic = "(\w+)"', text).group(1),
            "aliases": strs("Aliases"), "aliasTarget": re.search(r'AliasTarget = "(\w+)"', text).group(1)}


def bkey(k):
    if isinstance(k, str) and k.startswith("["):
        k = json.loads(k)
    return "%s/%s" % (k[0], k[1])


def post_of(st):
    present = {bkey(b) for b in st["present"]}
    tok, ck = {}, {}
    for k, v in st["tok"].items():
        b = bkey(k)
        tok[b] = v if b in present else -1
    for k, v in st["ck"].items():
        b = bkey(k)
        ck[b] = "-" if v[0] == "-" else "%s/%s" % (v[0], v[1])
    etok = st["etok"] if isinstance(st["etok"], dict) else {}
    return {"tok": tok, "ck": ck, "cached": list(st["cached"]), "etok": etok}


def res_of(st, p):
    r = fn(st["res"], p)
    return {"kind": r["kind"], "rc": r["rck"][0], "rcc": r["rck"][1], "tl": r["tl"], "chg": r["chg"], "tot": r["tot"],
            "ech": r["ech"], "etot": r["etot"], "st": bool(r["st"]),
            "ich": r.get("ich", 0), "part": bool(r.get("part", False)), "cz": bool(r.get("cz", False))}


def start_step(name, a, lab):
    if name == "Start":
        return {"op": "call", "p": int(a[0]), "c": a[1], "f": a[2], "proto": a[3], "cc": a[4], "sv": a[5], "q": a[6],
                "entry": a[7], "ex": a[8], "odd": a[9] == "TRUE", "label": lab.replace('\\"', '"')}
    return {"op": "replay", "p": int(a[0]), "id": int(a[1]), "label": lab}


PC_RE = re.compile(r"/\\ pc = (<<.*?>>)")
STATE_RE = re.compile(r"\\\* <(.*?) line \d+, col \d+ to line \d+, col \d+ of module \w+>\s*\nSTATE_\d+ ==\s*\n(.*?)(?=\n\n|\Z)", re.S)


class LazyState:
    """A TLC state whose text is parsed only when a field other than pc is asked for."""

    def __init__(self, text):
        self.text = text
        self._st = None
        m = PC_RE.search(text)
        self.pc = re.findall(r'"(\w+)"', m.group(1)) if m else None

    def full(self):
        if self._st is None:
            self._st = vf.parse_tla_state(self.text)
        return self._st


def simulate(ctx, cfg, num, depth, timeout=300):
    """-simulate file=...: [(label, LazyState)] per behaviour."""
    d = ctx.spec_dir(MOD)
    pref = os.path.join(d, "sim_%s_%d" % (cfg.replace(".cfg", ""), threading.get_ident() % 100000))
    r = ctx.tlc(MOD, SPEC, cfg, workers=1, timeout=timeout, heap="2g",
                args=["-simulate", "file=%s,num=%d" % (pref, num), "-depth", str(depth), "-seed", str(ctx.seed)],
                must_pass=False, tag="simulate", count=False)
    if r.rc != 0:
        raise vf.MachineryError("TLC simulate failed on %s rc=%d\n%s" % (cfg, r.rc, "\n".join(r.out.splitlines()[-30:])))
    import glob
    behs = []
    for path in sorted(glob.glob(pref + "_*")):
        with open(path) as f:
            text = f.read()
        os.remove(path)
        behs.append([(m.group(1).strip(), LazyState(m.group(2))) for m in STATE_RE.finditer(text)])
    return behs


def call_steps(beh):
    """A sequential (Atomic = "call") behaviour -> entry-point calls, ticks and cleanups with the model's outcome."""
    steps, nid, i = [], 0, 1
    while i < len(beh):
        lab, st = beh[i]
        name, a = label_parts(lab)
        if name in ("Tick", "Cleanup"):
            steps.append({"op": name.lower(), "k": int(a[0]), "label": lab, "post": post_of(st.full())})
        elif name in ("Start", "StartReplay"):
            s = start_step(name, a, lab)
            if name == "Start":
                nid += 1
                s["id"] = nid
            p = s["p"]
            j = i
            while j < len(beh) and beh[j][1].pc[p - 1] != "idle":
                j += 1
            if j >= len(beh):
                break  # the behaviour ends inside this call
            final = beh[j][1].full()
            s["exp"] = res_of(final, p)
            s["post"] = post_of(final)
            steps.append(s)
            i = j
        else:
            raise vf.MachineryError("behaviour is not sequential at %s" % lab)
        i += 1
    return steps


def graph_behaviours(ctx, cfg, max_len):
    """Exhaustive run with the labelled state graph; every whole call / tick / cleanup of the graph becomes one macro edge,
    and a path set covering every macro edge is returned as driver behaviours."""
    r, nodes, edges, inits = ctx.tlc_graph(MOD, SPEC, cfg, workers=2, timeout=600, heap="3g", tag="graph")
    out = {}
    for e in edges:
        out.setdefault(e[0], []).append(e)

    def idle(n):
        return all(x == "idle" for x in nodes[n]["pc"])

    macro, info = [], {}
    for u in nodes:
        if not idle(u):
            continue
        for (_, v, lab) in out.get(u, []):
            name, a = label_parts(lab)
            w = v
            hops = 0
            while not idle(w):
                nxt = out.get(w, [])
                if len(nxt) != 1:
                    raise vf.MachineryError("graph %s: a call in progress has %d successors" % (cfg, len(nxt)))
                w = nxt[0][1]
                hops += 1
                if hops > 20:
                    raise vf.MachineryError("graph %s: call does not complete" % cfg)
            k = len(macro)
            macro.append((u, w, str(k)))
            info[str(k)] = (name, a, lab, w)
    paths = vf.cover_paths(nodes, macro, inits, max_len)
    behs = []
    for path in paths:
        steps, nid = [], 0
        for (_, _, k) in path:
            name, a, lab, w = info[k]
            st = nodes[w]
            if name in ("Tick", "Cleanup"):
                steps.append({"op": name.lower(), "k": int(a[0]), "label": lab.replace('\\"', '"'), "post": post_of(st)})
                continue
            s = start_step(name, a, lab)
            if name == "Start":
                nid += 1
                s["id"] = nid
            s["exp"] = res_of(st, s["p"])
            s["post"] = post_of(st)
            steps.append(s)
        behs.append(steps)
    return r, behs, len(macro)


def gate_steps(beh):
    """An Atomic = "gate" behaviour -> start / release / tick ops (a start runs until the call completes or parks)."""
    steps, nid, i = [], 0, 1
    running = {}  # p -> step index of its start op while parked

    def parked(st, p):
        pc = fn(st["pc"], p)
        rq = fn(st["req"], p)
        return pc == "down" and rq["entry"] != "inline" and rq["q"] not in st["cached"]

    while i < len(beh):
        lab, lst = beh[i]
        name, a = label_parts(lab)
        st = lst.full()
        if name == "Tick":
            steps.append({"op": "tick", "k": int(a[0]), "label": lab, "post": post_of(st)})
            i += 1
            continue
        p = int(a[0])
        if name in ("Start", "StartReplay"):
            s = start_step(name, a, lab)
            s["op"] = "start" if name == "Start" else "start-replay"
            if name == "Start":
                nid += 1
                s["id"] = nid
        elif name == "Down" and p in running:
            s = {"op": "release", "p": p, "label": lab}
            del running[p]
        else:
            raise vf.MachineryError("gated behaviour: unexpected %s" % lab)
        j = i
        while True:
            cur = beh[j][1].full()
            if fn(cur["pc"], p) == "idle":
                s["exp"] = res_of(cur, p)
                s["parked"] = False
                break
            if s["op"] != "release" and parked(cur, p):
                s["parked"] = True
                running[p] = len(steps)
                break
            j += 1
            if j >= len(beh):
                return steps  # ends inside a call
            nlab = beh[j][0]
            nname, na = label_parts(nlab)
            if nname in ("Tick",) or int(na[0]) != p:
                raise vf.MachineryError("gated behaviour: %s interleaves a running call of %d" % (nlab, p))
        s["post"] = post_of(beh[j][1].full())
        steps.append(s)
        i = j + 1
    return steps


# ---------------------------------------------------------------------------------------------------
def fold(ctx, res, prefix):
    """take_driver_result with the verdict classes applied."""
    if C06_ONLY or C17_ONLY:
        keep = []
        for v in res.get("violations", []):
            k = v.get("key", "")
            if (C17_ONLY and not k.startswith("c17/")) or (C06_ONLY and not C17_ONLY and k.startswith(("rl/", "c17/"))):
                ctx.cov["drift"] += 1
                ctx.log("DRIFT (class %s, %s): %s" % (k.split("/")[0], "C17 only" if C17_ONLY else "X06RL_C06_ONLY", v.get("what")))
            else:
                keep.append(v)
        res["violations"] = keep
    ctx.take_driver_result(res, prefix)
    if res.get("drift"):
        for n in res.get("drift_notes", [])[:6]:
            ctx.log("DRIFT: " + n)


def behaviours_for(cfg, steps_list, name):
    c = cfg_consts(cfg)
    out = []
    for k, steps in enumerate(steps_list):
        if not steps:
            continue
        out.append({"name": "%s-%d" % (name, k), "burst": c["burst"], "storeCap": c["storeCap"], "entryBurst": c["entryBurst"],
                    "maxAge": c["maxAge"], "clients": c["clients"], "forms": c["forms"], "steps": steps,
                    "aliases": c["aliases"], "aliasTarget": c["aliasTarget"]})
    return out


def dedup(behs):
    seen, out = set(), []
    for b in behs:
        key = ";".join(s["label"] for s in b["steps"])
        if key in seen:
            continue
        seen.add(key)
        out.append(b)
    return out


def parallel(jobs, width=5):
    """Run thunks in threads (at most `width` at a time); re-raise the first error."""
    results, errs = [None] * len(jobs), []
    sem = threading.Semaphore(width)

    def run(i, f):
        with sem:
            if errs:
                return
            try:
                results[i] = f()
            except BaseException as ex:  # noqa: BLE001
                errs.append(ex)

    ts = [threading.Thread(target=run, args=(i, f)) for i, f in enumerate(jobs)]
    for t in ts:
        t.start()
    for t in ts:
        t.join()
    if errs:
        raise errs[0]
    return results


# ---------------------------------------------------------------------------------------------------
NEGATIVES = [("MC_NegWireStore.cfg", "CookieRemembered"),   # the wire branch of "mismatched cookie over a stream" without its post-Next store
             ("MC_NegReplay.cfg", "OneChargePerQuestion"), ("MC_NegEcho.cfg", "ReplyCookieIsOwn"),
             ("MC_Forms.cfg", "ClientWithinBudget"), ("MC_NegFitOutcome.cfg", "SameOutcomeAcrossEntries"),
             ("MC_NegFitCharge.cfg", "OneChargePerQuestion"), ("MC_NegInternal.cfg", "InternalNeverLimited"),
             ("MC_NegChase.cfg", "InternalNeverLimited"), ("MC_NegReuse.cfg", "RememberedIsOwn"),
             ("MC_NegReset.cfg", "EvictionOnlyResets"), ("MC_NegShared.cfg", "NoSharedBucket")]


def tlc_jobs(ctx, thorough):
    """Every TLC run of the tier as thunks: state graphs, simulations (their results are driver behaviours), exhaustive
    configs, negative configs.  Returns (jobs, number of leading jobs that yield sequential behaviours)."""
    quick = [("MC_EntryQ.cfg", 1), ("MC_Free2Q.cfg", 2), ("MC_Big.cfg", 1), ("MC_ChaseQ.cfg", 1)]
    full = [("MC_Entry.cfg", 2), ("MC_Chase.cfg", 2), ("MC_Free2.cfg", 3), ("MC_Budget.cfg", 4), ("MC_Cookie.cfg", 4), ("MC_Gate2.cfg", 4),
            ("MC_Free3.cfg", 3), ("MC_Live.cfg", 3), ("MC_FormsUnmapped.cfg", 1), ("MC_EdgeQ.cfg", 1), ("MC_Budget4.cfg", 4),
            ("MC_Big.cfg", 1), ("MC_Big2.cfg", 3)]
    negatives = NEGATIVES if thorough else NEGATIVES[:8]
    sims = [("Sim_Budget.cfg", 40, 90), ("Sim_Cookie.cfg", 40, 90), ("Sim_Mixed.cfg", 30, 100), ("Sim_Entry.cfg", 25, 90),
            ("Sim_Chase.cfg", 20, 90),
            ("Sim_Forms.cfg", 12, 80), ("Sim_Big.cfg", 30, 90), ("Sim_Big2.cfg", 20, 90)]
    if thorough:
        sims = [(c, n * 12, d) for c, n, d in sims]
    graphs = ["MC_EdgeTcp.cfg"] + (["MC_Edge.cfg"] if thorough else ["MC_EdgeQ.cfg"])

    def neg(cfg, inv):
        r = ctx.tlc(MOD, SPEC, cfg, workers=1, timeout=300, heap="2g", must_pass=False, tag="negative", count=False)
        if r.violated != inv:
            raise vf.MachineryError("negative config %s did not violate %s (got %s)" % (cfg, inv, r.violated))

    def pos(cfg, w):
        # -coverage once per thorough run, on a config that contains every action of the model
        cover = thorough and cfg == "MC_EdgeQ.cfg"
        r = ctx.tlc(MOD, SPEC, cfg, workers=w, timeout=1500, heap="6g", tag="exhaustive", args=["-coverage", "1"] if cover else [])
        if cover:
            acts = {"Start", "StartReplay", "Gate", "Get", "Load", "Allow", "BadStore", "Down", "Post", "Tick", "Cleanup"}
            zero = [a for a in r.zero_coverage() if a in acts]
            if zero:
                raise vf.MachineryError("RateLimit actions never taken in %s: %s" % (cfg, zero))

    def sim(cfg, num, depth):
        behs = simulate(ctx, cfg, num, depth)
        return behaviours_for(cfg, [call_steps(b) for b in behs], cfg[4:-4])

    def graph(cfg):
        r, steps_list, nmacro = graph_behaviours(ctx, cfg, 12)
        ctx.cov["replay"]["graph_" + cfg[3:-4]] = {"states": r.distinct, "macro_edges": nmacro, "paths": len(steps_list)}
        return behaviours_for(cfg, steps_list, cfg[3:-4])

    jobs = [(lambda g=g: graph(g)) for g in graphs]
    jobs += [(lambda c=c, n=n, d=d: sim(c, n, d)) for c, n, d in sims]
    nbeh = len(jobs)
    jobs += [lambda: simulate(ctx, "Sim_Gate.cfg", 40 if not thorough else 400, 70)]
    jobs += [(lambda c=c, w=w: pos(c, w)) for c, w in (full if thorough else quick)]
    jobs += [(lambda c=c, i=i: neg(c, i)) for c, i in negatives]
    return jobs, nbeh


def replay_input(groups):
    behs = dedup([b for g in groups for b in g])
    ncalls = sum(1 for b in behs for s in b["steps"] if s["op"] in ("call", "replay"))
    if len(behs) < 30 or ncalls < 200:
        raise vf.MachineryError("pipeline replay: only %d behaviours / %d calls (vacuous)" % (len(behs), ncalls))
    want = {}
    for b in behs:
        for s in b["steps"]:
            if "exp" in s:
                k = s["exp"]["kind"] + ("/" + s["entry"] if s["op"] == "call" else "/replay")
                want[k] = want.get(k, 0) + 1
    need = ["answer/msg", "answer/wire", "answer/inline", "handoff/inline", "answer/replay", "drop/msg", "drop/wire", "drop/inline",
            "badcookie/msg", "badcookie/wire", "badcookie/inline", "edrop/msg", "tc/msg", "tc/wire", "tc/replay"]
    miss = [k for k in need if not want.get(k)]
    if miss:
        raise vf.MachineryError("pipeline replay: no call with model outcome %s among the behaviours (vacuous)" % miss)
    return behs, {"behaviours": len(behs), "calls": ncalls, "model_outcomes": want}


def replay_verdict(ctx, info, res, cnt):
    n = info["behaviours"]
    info.update(counters=cnt)
    ctx.cov["replay"]["pipeline"] = info
    if cnt.get("stalled", 0) > n // 10:
        raise vf.MachineryError("pipeline replay: %d of %d behaviours stalled (machine too loaded for a verdict)" % (cnt.get("stalled", 0), n))
    if cnt.get("behaviours", 0) + cnt.get("stalled", 0) != n:
        raise vf.MachineryError("pipeline replay ran %d of %d behaviours" % (cnt.get("behaviours", 0), n))
    if cnt.get("wire_born", 0) < 20 or cnt.get("twins", 0) < 10:
        raise vf.MachineryError("pipeline replay: %d wire-born calls, %d twin runs (vacuous)" % (cnt.get("wire_born", 0), cnt.get("twins", 0)))
    if cnt.get("drifted", 0) > n // 2:
        raise vf.MachineryError("pipeline replay: %d of %d behaviours drifted from the model -- the model no longer describes this "
                                "tree (no predicate failed)" % (cnt.get("drifted", 0), n))
    if cnt.get("address_over_budget", 0):
        ctx.log("OBSERVATION: %d behaviours in which ONE address, presented as 4-byte and as 16-byte v4-mapped net.IP, was served "
                "more than its per-minute budget: RateLimit.getLimiter hashes the raw address bytes, the two forms are two buckets "
                "(the model agrees: MC_Forms / KeyByForm). Not a C06 predicate; reported, not a violation." % cnt["address_over_budget"])
        ctx.cov["replay"]["finding_address_forms_code"] = {"behaviours_over_budget": cnt["address_over_budget"]}


def gated_input(behs_raw):
    behs = dedup(behaviours_for("Sim_Gate.cfg", [gate_steps(b) for b in behs_raw], "Gate"))
    nrel = sum(1 for b in behs for s in b["steps"] if s["op"] == "release")
    over = 0
    for b in behs:
        live = 0
        for s in b["steps"]:
            if s["op"] in ("start", "start-replay") and s.get("parked"):
                live += 1
                if live > 1:
                    over += 1
            elif s["op"] == "release":
                live -= 1
    if len(behs) < 10 or nrel < 20 or over < 3:
        raise vf.MachineryError("gated schedules: %d behaviours, %d releases, %d overtakings of a parked call (vacuous)" % (
            len(behs), nrel, over))
    return behs, {"behaviours": len(behs), "releases": nrel, "overtakings": over}


def gated_verdict(ctx, info, cnt):
    n = info["behaviours"]
    info.update(counters=cnt)
    ctx.cov["replay"]["gated"] = info
    if cnt.get("stalled", 0) > max(2, n // 10):
        raise vf.MachineryError("gated schedules: %d of %d behaviours stalled" % (cnt.get("stalled", 0), n))
    if cnt.get("behaviours", 0) + cnt.get("stalled", 0) != n:
        raise vf.MachineryError("gated schedules ran %d of %d behaviours" % (cnt.get("behaviours", 0), n))
    if cnt.get("released", 0) < 10 or cnt.get("parked_together", 0) < 1:
        raise vf.MachineryError("gated schedules: %d released, %d parked together (vacuous)" % (
            cnt.get("released", 0), cnt.get("parked_together", 0)))
    if cnt.get("drifted", 0) > n // 2:
        raise vf.MachineryError("gated schedules: %d of %d behaviours drifted from the model" % (cnt.get("drifted", 0), n))


STRESS_BURST = 3  # = Burst of Trace_Free.cfg


def stress(ctx, thorough):
    """code -> spec.  Returns a list of deferred verdict thunks' data: (kind, payload); nothing is judged on this thread."""
    rounds = 8 if not thorough else 120
    trace = os.path.join(ctx.scratch, "stress.ndjson")
    res = ctx.go_driver("./x06rl", "TestStress", {"rounds": rounds, "procs": 3, "ops": 5, "burst": STRESS_BURST, "traceOut": trace},
                        name="stress", timeout=900)
    cnt = res.get("counters", {})
    info = {"rounds": cnt.get("rounds", 0), "calls": cnt.get("calls", 0), "overlapping_calls": cnt.get("overlapping_calls", 0),
            "stalled_rounds": cnt.get("stalled_rounds", 0), "trace_lines": cnt.get("trace_lines", 0)}
    out = {"res": res, "info": info, "trace": trace, "verdict": None}
    if res.get("violations"):
        return out
    if res.get("skipped"):
        raise vf.MachineryError("stress could not run: %s" % res["skipped"][:3])
    if info["rounds"] < max(2, rounds // 2):
        raise vf.MachineryError("stress: only %d of %d rounds were recorded (machine too loaded)" % (info["rounds"], rounds))
    if info["overlapping_calls"] < 5:
        raise vf.MachineryError("stress: the recorded histories contain no overlapping calls (vacuous)")
    ok, r = ctx.tlc_trace(MOD, "Trace_RateLimit.tla", "Trace_Free.cfg", trace, timeout=900, deque=False)
    if ok:
        info["trace_states"] = r.distinct
        out["verdict"] = "accepted"
    elif r.violated and r.violated != "TraceAccepted":
        out["verdict"] = "invariant:" + r.violated
        return out
    else:
        out["verdict"] = "rejected"
        info["matched_lines"] = max(0, r.depth - 1)
        info["trace_rejected_tail"] = r.out.splitlines()[-12:]
        return out
    if not thorough:
        return out
    # binding (re-checked in the thorough tier): a corrupted history must be rejected
    # (a corrupted outcome of a single call can be explainable in a concurrent history -- a different interleaving may
    #  verify a cookie that was charged in the recorded one -- so the corruption is one no interleaving explains: more
    #  tokens left in a bucket than the burst minus the charges every interleaving has to make)
    lines = [json.loads(x) for x in open(trace)]
    how, reqs, cur, definite = None, {}, {}, {}
    for ln in lines[1:]:
        ev = ln.get("ev")
        if ev == "inv":
            if ln["op"] == "call":
                reqs[ln["id"]] = ln
            cur[ln["p"]] = reqs.get(ln["id"])
        elif ev == "res":
            rq = cur.get(ln["p"])
            if rq and rq["ex"] == "none" and (ln["kind"] == "badcookie" or (ln["kind"] in ("answer", "tc") and rq["cc"] == "none")):
                definite[rq["c"]] = definite.get(rq["c"], 0) + 1
        elif ev == "end":
            for k in sorted(ln["tok"]):
                if ln["tok"][k] >= 0:
                    ln["tok"][k] = STRESS_BURST - definite.get(k.split("/")[0], 0) + 1
                    how = "more tokens left than the burst minus the charges that were certainly made"
                    break
            break
    if how is None:
        raise vf.MachineryError("tamper test: nothing to corrupt in the recorded history")
    bad = os.path.join(ctx.scratch, "stress_tampered.ndjson")
    with open(bad, "w") as f:
        for ln in lines:
            f.write(json.dumps(ln) + "\n")
    okb, rb = ctx.tlc_trace(MOD, "Trace_RateLimit.tla", "Trace_Free.cfg", bad, timeout=900, deque=False)
    if okb:
        raise vf.MachineryError("tamper test: Trace_RateLimit accepted a history with %s (binding lost)" % how)
    info["tamper_rejected"] = how
    return out


def stress_verdict(ctx, out):
    res, info = out["res"], out["info"]
    fold(ctx, res, "[concurrent stress] ")
    ctx.cov["replay"]["stress"] = info
    v = out["verdict"]
    if v == "accepted":
        ctx.cov["traces_validated_against_impl"] += info["rounds"]
    elif v and v.startswith("invariant:") and C06_ONLY:
        ctx.cov["drift"] += 1
        ctx.log("DRIFT (rl class, X06RL_C06_ONLY): invariant %s is false on a recorded concurrent history" % v[10:])
    elif v and v.startswith("invariant:"):
        ctx.violation("stress/trace/" + v[10:],
                      "[concurrent stress] invariant %s is false on a recorded concurrent history of the real pipeline" % v[10:],
                      {"driver": "stress", "trace": open(out["trace"]).read().splitlines()[:400]})
    elif v == "rejected":
        ctx.cov["drift"] += 1
        ctx.log("DRIFT: a recorded concurrent history (%d lines) is not explained by RateLimit.tla; no property predicate failed"
                % info["trace_lines"])


def split_counters(cnt, prefix):
    return {k[len(prefix):]: v for k, v in cnt.items() if k.startswith(prefix)}


def run_tier(ctx):
    thorough = ctx.tier == "thorough"
    ctx.cov["rule"] = ("X06RL: behaviours = TLC call orders of RateLimit.tla (edge cover of small graphs + simulation) replayed on one "
                       "real server through ServeMsg / ServeRaw / ServeRawInline+ServeRawReplay; distinct = distinct call orders")
    ctx.assumptions += [
        "X06RL: time is moved by advancing the real x/time/rate limiters (limit and burst as the code configured them) and the "
        "store's lastSeen stamps through an overlay shim; calls themselves read the real clock",
        "X06RL: LimiterStore is bounded to 1-4 entries through the shim (production bound 25600); the random victim of evictOne "
        "above 1000 entries is not modelled",
        "X06RL: the 64-bit xxhash store key is assumed injective on the addresses used",
    ]
    ctx.harness_prepare()
    ctx.overlay_file()
    jobs, nbeh = tlc_jobs(ctx, thorough)
    # the free-running stress needs nothing from TLC: it runs (and is validated) alongside the model checking
    results = parallel([lambda: stress(ctx, thorough)] + jobs, width=6 if not thorough else 4)
    sout, results = results[0], results[1:]
    ctx.cov["replay"]["finding_address_forms_model"] = (
        "MC_Forms: with the store keyed by the raw address bytes (KeyByForm, as in the code) ClientWithinBudget fails -- the "
        "4-byte and the 16-byte v4-mapped representation of one address are two buckets; MC_FormsUnmapped passes")
    stress_verdict(ctx, sout)
    if ctx.violations:
        return
    rbehs, rinfo = replay_input(results[:nbeh])
    gbehs, ginfo = gated_input(results[nbeh])
    inp = {"replay": {"behaviours": rbehs, "twin": True}, "gated": {"behaviours": gbehs}}
    if thorough:
        inp["refill"] = {"pauseMs": 3500}
    res = ctx.go_driver("./x06rl", "TestAll", inp, name="all", timeout=2400)
    fold(ctx, res, "[pipeline] ")
    cnt = res.get("counters", {})
    ctx.cov["replay"]["drift_notes"] = res.get("drift_notes", [])
    if res.get("violations"):
        return
    if res.get("skipped"):
        raise vf.MachineryError("drivers skipped work: %s" % res["skipped"][:3])
    blind = cnt.get("replay_projection_blind", 0) + cnt.get("gated_projection_blind", 0)
    if blind:
        raise vf.MachineryError("the overlay shim does not see the bucket of a client that was just served (%d times): the store "
                                "projection no longer follows this tree" % blind)
    replay_verdict(ctx, rinfo, res, split_counters(cnt, "replay_"))
    gated_verdict(ctx, ginfo, split_counters(cnt, "gated_"))
    if thorough:
        ctx.cov["replay"]["refill_slow"] = split_counters(cnt, "refill_")
        if not cnt.get("refill_slow_first"):
            raise vf.MachineryError("the real-time refill test did not run")


def run_c17_tier(ctx):
    """The part of the tier C17 stands on (gap C17-r3-1), run by checks/c17.py next to its own parts: the chase and the internal
    request families of RateLimit.tla -- exhaustive, the two mutants that must violate InternalNeverLimited, and the edge cover of
    the small chase graph + simulated call orders replayed on the real pipeline.  Only `c17/*` keys are verdicts here."""
    global C17_ONLY
    C17_ONLY = True
    thorough = ctx.tier == "thorough"
    ctx.assumptions += [
        "C17/RateLimit: the cache's per-entry limiters are frozen (rate 0) between the model's ticks and read through an overlay shim; "
        "alias questions are answered by the scripted upstream with a bare CNAME, the cache chases the target through the Queryer "
        "autoWire gave it (the real query sub-pipeline)"]

    def neg(cfg, inv):
        r = ctx.tlc(MOD, SPEC, cfg, workers=1, timeout=300, heap="2g", must_pass=False, tag="negative", count=False)
        if r.violated != inv:
            raise vf.MachineryError("negative config %s did not violate %s (got %s)" % (cfg, inv, r.violated))

    def graph(cfg):
        r, steps_list, nmacro = graph_behaviours(ctx, cfg, 12)
        ctx.cov["replay"]["c17_graph_" + cfg[3:-4]] = {"states": r.distinct, "macro_edges": nmacro, "paths": len(steps_list)}
        return behaviours_for(cfg, steps_list, cfg[3:-4])

    def sim(cfg, num, depth):
        return behaviours_for(cfg, [call_steps(b) for b in simulate(ctx, cfg, num, depth)], cfg[4:-4])

    jobs = [lambda: graph("MC_ChaseQ.cfg"),
            lambda: sim("Sim_Chase.cfg", 25 if not thorough else 300, 90),
            lambda: sim("Sim_Entry.cfg", 15 if not thorough else 200, 90),
            lambda: neg("MC_NegInternal.cfg", "InternalNeverLimited"),
            lambda: neg("MC_NegChase.cfg", "InternalNeverLimited")]
    if thorough:
        jobs += [lambda: ctx.tlc(MOD, SPEC, "MC_Chase.cfg", workers=2, timeout=900, heap="4g", tag="exhaustive"),
                 lambda: ctx.tlc(MOD, SPEC, "MC_Entry.cfg", workers=2, timeout=900, heap="4g", tag="exhaustive")]
    results = parallel(jobs, width=5)
    behs = dedup([b for g in results[:3] for b in g])
    # vacuity, model side: call orders in which the chase meets a cached target with an EMPTY limiter, and internal requests
    # that hit an entry whose limiter is empty
    ncz = sum(1 for b in behs for s in b["steps"] if s.get("exp") and s["exp"].get("cz"))
    nint = sum(1 for b in behs for s in b["steps"] if s.get("ex") == "internal" and s.get("exp"))
    if ncz < 5 or nint < 5 or len(behs) < 15:
        raise vf.MachineryError("C17/RateLimit: %d behaviours, %d chases on an empty limiter, %d internal requests (vacuous)" % (len(behs), ncz, nint))
    res = ctx.go_driver("./x06rl", "TestReplay", {"behaviours": behs, "twin": False}, name="c17_replay", timeout=900)
    fold(ctx, res, "[RateLimit/chase] ")
    cnt = res.get("counters", {})
    ctx.cov["replay"]["c17_ratelimit"] = {"behaviours": len(behs), "model_chases_on_empty_limiter": ncz, "model_internal_requests": nint,
                                          "counters": cnt, "drift_notes": res.get("drift_notes", [])[:8]}
    if res.get("violations"):
        return
    if res.get("skipped"):
        raise vf.MachineryError("C17/RateLimit: driver skipped work: %s" % res["skipped"][:3])
    n = len(behs)
    if cnt.get("behaviours", 0) + cnt.get("stalled", 0) != n or cnt.get("stalled", 0) > n // 10:
        raise vf.MachineryError("C17/RateLimit: ran %d of %d behaviours (%d stalled)" % (cnt.get("behaviours", 0), n, cnt.get("stalled", 0)))
    if cnt.get("chase_on_empty", 0) < 3 or cnt.get("alias_calls", 0) < 20:
        raise vf.MachineryError("C17/RateLimit: the real pipeline never chased a target whose entry limiter was empty: %s" % cnt)
    if cnt.get("drifted", 0) > n // 2:
        raise vf.MachineryError("C17/RateLimit: %d of %d behaviours drifted from the model" % (cnt.get("drifted", 0), n))


def run(ctx, replay_file):
    if replay_file:
        with open(replay_file) as f:
            rec = json.load(f)
        rp = rec.get("replay", rec)
        if not rp.get("steps"):
            # recorded by a free-running driver (stress, slow refill): the generators are seeded, the tier is re-run
            run_tier(ctx)
            return
        cfgd = rp.get("config", {})
        beh = {"name": "replayed", "burst": cfgd.get("burst", 2), "storeCap": cfgd.get("storeCap", 2),
               "entryBurst": cfgd.get("entryBurst", 0), "clients": cfgd.get("clients", ["c1", "c2", "c3"]),
               "forms": cfgd.get("forms", ["v4"]), "steps": rp.get("steps", []),
               "aliases": cfgd.get("aliases") or [], "aliasTarget": cfgd.get("aliasTarget", "")}
        drv = rp.get("driver", "pipeline-replay")
        test = "TestGated" if "gated" in drv else "TestReplay"
        res = ctx.go_driver("./x06rl", test, {"behaviours": [beh], "twin": True}, name="replay_file", timeout=600)
        fold(ctx, res, "[replay] ")
        ctx.cov["states"] = max(1, ctx.cov["states"])
        ctx.cov["transitions"] = max(1, ctx.cov["transitions"])
        ctx.cov["replay"]["replayed_file"] = replay_file
        return
    run_tier(ctx)
