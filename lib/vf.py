"""Shared machinery for the sdns TLA+ model-based checks.

One Ctx per `bin/check <id>` run.  Verdict policy (DESIGN.md 1.1):
  exit 0  property held on everything explored (KNOWN-FINDING lines allowed)
  exit 1  a property predicate was false on an execution of the REAL code
          (prints `VIOLATION property=<id> replay=<path>`)
  exit 2  machinery fault (TLC error on the model alone, build failure,
          dead driver, timeout, vacuity) -- never a violation.
"""
import glob
import hashlib
import json
import os
import re
import shutil
import subprocess
import sys
import tempfile
import threading
import time

VERIF = os.path.dirname(os.path.dirname(os.path.abspath(__file__)))
EVIDENCE_DIR = os.environ.get("VERIF_EVIDENCE_DIR", os.path.join(VERIF, "evidence"))
REPO = os.environ.get("VERIF_REPO", "/repo")
TLA_JARS = "/opt/veriftools/tla/tla2tools.jar:/opt/veriftools/tla/CommunityModules-deps.jar"
GO_CANDIDATES = [
    "/root/go/pkg/mod/golang.org/toolchain@v0.0.1-go1.26.5.linux-amd64/bin/go",
]
NCPU = os.cpu_count() or 4


_SPEC_DIR_LOCK = threading.Lock()


class MachineryError(Exception):
    pass


def go_bin():
    for g in GO_CANDIDATES:
        if os.path.exists(g):
            return g, {"GOTOOLCHAIN": "local", "GOSUMDB": "off"}
    # fall back to the auto-switching default go (GOSUMDB must stay default)
    return "go", {}


def go_env(extra=None):
    env = dict(os.environ)
    g, e = go_bin()
    env.update(e)
    env["GOFLAGS"] = "-mod=mod"
    env["GOPROXY"] = "off"
    env.setdefault("GOMAXPROCS", str(NCPU))
    if extra:
        env.update({k: str(v) for k, v in extra.items()})
    return g, env


# ---------------------------------------------------------------------------
# TLA+ value parser (TLC's pretty-printed values: dot labels, traces, PrintT)
# ---------------------------------------------------------------------------
class _P:
    def __init__(self, s):
        self.s = s
        self.i = 0

    def ws(self):
        while self.i < len(self.s) and self.s[self.i] in " \t\r\n":
            self.i += 1

    def peek(self, t):
        self.ws()
        return self.s.startswith(t, self.i)

    def eat(self, t):
        self.ws()
        if not self.s.startswith(t, self.i):
            raise ValueError("expected %r at %d: %r" % (t, self.i, self.s[self.i:self.i + 40]))
        self.i += len(t)

    def value(self):
        self.ws()
        s = self.s
        c = s[self.i]
        if c == '"':
            j = self.i + 1
            out = []
            while s[j] != '"':
                if s[j] == "\\":
                    j += 1
                    out.append({"n": "\n", "t": "\t"}.get(s[j], s[j]))
                else:
                    out.append(s[j])
                j += 1
            self.i = j + 1
            return "".join(out)
        if s.startswith("<<", self.i):
            self.i += 2
            items = []
            while not self.peek(">>"):
                items.append(self.value())
                if self.peek(","):
                    self.eat(",")
            self.eat(">>")
            return items
        if c == "{":
            self.i += 1
            items = []
            while not self.peek("}"):
                items.append(self.value())
                if self.peek(","):
                    self.eat(",")
            self.eat("}")
            return {"__set__": items}
        if c == "[":
            self.i += 1
            rec = {}
            while not self.peek("]"):
                self.ws()
                m = re.compile(r"[A-Za-z_][A-Za-z0-9_]*").match(s, self.i)
                k = m.group(0)
                self.i = m.end()
                self.eat("|->")
                rec[k] = self.value()
                if self.peek(","):
                    self.eat(",")
            self.eat("]")
            return rec
        if c == "(":
            self.i += 1
            fn = {}
            while True:
                k = self.value()
                self.eat(":>")
                v = self.value()
                fn[k if isinstance(k, (str, int)) else json.dumps(k, sort_keys=True)] = v
                if self.peek("@@"):
                    self.eat("@@")
                    continue
                break
            self.eat(")")
            return fn
        m = re.compile(r"-?\d+").match(s, self.i)
        if m:
            self.i = m.end()
            v = int(m.group(0))
            if s.startswith("..", self.i):
                self.i += 2
                m2 = re.compile(r"-?\d+").match(s, self.i)
                self.i = m2.end()
                return {"__set__": list(range(v, int(m2.group(0)) + 1))}
            return v
        m = re.compile(r"[A-Za-z_][A-Za-z0-9_]*").match(s, self.i)
        if m:
            self.i = m.end()
            w = m.group(0)
            if w == "TRUE":
                return True
            if w == "FALSE":
                return False
            return w  # model value
        raise ValueError("cannot parse TLA value at %d: %r" % (self.i, s[self.i:self.i + 40]))


def parse_tla_value(s):
    p = _P(s)
    v = p.value()
    return v


def unset(v):
    """Recursively turn {"__set__": [...]} into sorted python lists."""
    if isinstance(v, dict):
        if "__set__" in v and len(v) == 1:
            items = [unset(x) for x in v["__set__"]]
            try:
                return sorted(items, key=lambda x: json.dumps(x, sort_keys=True))
            except Exception:
                return items
        return {k: unset(x) for k, x in v.items()}
    if isinstance(v, list):
        return [unset(x) for x in v]
    return v


def parse_tla_state(text):
    """Parse a TLC state: lines `/\\ var = value` (value may span lines)."""
    st = {}
    parts = re.split(r"(?:^|\n)\s*/\\ ", "\n" + text.strip())
    for part in parts:
        part = part.strip()
        if not part:
            continue
        m = re.match(r"([A-Za-z_][A-Za-z0-9_]*)\s*=\s*", part)
        if not m:
            # single-variable specs print `var = value` without /\
            raise ValueError("bad state conjunct: %r" % part[:60])
        st[m.group(1)] = unset(parse_tla_value(part[m.end():]))
    return st


def parse_sim_file(path):
    """One `-simulate file=` behaviour: [(label, state), ...]."""
    with open(path) as f:
        text = f.read()
    out = []
    for m in re.finditer(r"\\\* <(.*?) line \d+, col \d+ to line \d+, col \d+ of module \w+>\s*\nSTATE_\d+ ==\s*\n(.*?)(?=\n\n|\Z)", text, re.S):
        out.append((m.group(1).strip(), parse_tla_state(m.group(2))))
    return out


def parse_dot(path):
    """Parse `tlc -dump dot,actionlabels` output.

    Returns (nodes, edges, inits): nodes id->state dict, edges list of
    (src, dst, label), inits list of ids."""
    nodes, edges, inits = {}, [], []
    node_re = re.compile(r'^(-?\d+) \[label="((?:[^"\\]|\\.)*)"(.*)\]\s*;?\s*$')
    edge_re = re.compile(r'^(-?\d+) -> (-?\d+) \[label="((?:[^"\\]|\\.)*)"')
    with open(path) as f:
        for line in f:
            line = line.strip()
            m = edge_re.match(line)
            if m:
                edges.append((m.group(1), m.group(2), m.group(3)))
                continue
            m = node_re.match(line)
            if m:
                if m.group(1) in nodes:
                    continue
                lab = m.group(2)
                lab = lab.replace("\\n", "\n").replace('\\"', '"').replace("\\\\", "\\")
                nodes[m.group(1)] = parse_tla_state(lab)
                if "style = filled" in m.group(3) or "style=filled" in m.group(3):
                    inits.append(m.group(1))
    return nodes, edges, inits


def cover_paths(nodes, edges, inits, max_len=None):
    """Edge cover: BFS tree from the initial states, then one path per edge
    (tree path to src + the edge).  Greedy extension merges edges so the path
    set stays small.  Returns list of paths; a path is a list of
    (src, dst, label) starting at an initial state."""
    from collections import deque, defaultdict
    out = defaultdict(list)
    for k, e in enumerate(edges):
        out[e[0]].append(k)
    parent = {}
    dq = deque()
    for i in inits:
        parent[i] = None
        dq.append(i)
    while dq:
        u = dq.popleft()
        for k in out[u]:
            v = edges[k][1]
            if v not in parent:
                parent[v] = k
                dq.append(v)

    def tree_path(n):
        p = []
        while parent.get(n) is not None:
            k = parent[n]
            p.append(k)
            n = edges[k][0]
        p.reverse()
        return p

    covered = set()
    paths = []
    for k, e in enumerate(edges):
        if k in covered or e[0] not in parent:
            continue
        p = tree_path(e[0]) + [k]
        # greedy: keep walking over uncovered out-edges
        cur = e[1]
        covered.update(p)
        while max_len is None or len(p) < max_len:
            nxt = [j for j in out[cur] if j not in covered]
            if not nxt:
                break
            j = nxt[0]
            p.append(j)
            covered.add(j)
            cur = edges[j][1]
        paths.append([edges[j] for j in p])
    return paths


# ---------------------------------------------------------------------------
class TLCResult:
    def __init__(self, rc, out, wall):
        self.rc = rc
        self.out = out
        self.wall = wall
        self.generated = 0
        self.distinct = 0
        self.depth = 0
        m = None
        for m in re.finditer(r"(\d+) states generated, (\d+) distinct states found", out):
            pass
        if m:
            self.generated, self.distinct = int(m.group(1)), int(m.group(2))
        m = re.search(r"depth of the complete state graph search is (\d+)", out)
        if m:
            self.depth = int(m.group(1))
        self.ok = rc == 0 and "Model checking completed. No error has been found" in out
        self.violated = None
        m = re.search(r"Error: Invariant (\S+) is violated", out)
        if m:
            self.violated = m.group(1)
        m = re.search(r"Error: Action property (\S+) is violated", out)
        if m:
            self.violated = m.group(1)
        if "Temporal properties were violated" in out:
            self.violated = self.violated or "temporal"

    def printed(self):
        """Values printed with PrintT / Print (one per line that parses as JSON)."""
        vals = []
        for line in self.out.splitlines():
            line = line.strip()
            if line.startswith('"') and line.endswith('"'):
                try:
                    inner = json.loads(line)
                    vals.append(json.loads(inner))
                    continue
                except Exception:
                    pass
            if line.startswith("{") or line.startswith("["):
                try:
                    vals.append(json.loads(line))
                except Exception:
                    pass
        return vals

    def zero_coverage(self):
        """Action/expression names with coverage count 0 (needs -coverage)."""
        return re.findall(r"<(\w+) line [^>]*>: 0:0", self.out)


class Ctx:
    def __init__(self, pid, tier, seed, level="model_checking"):
        self.pid = pid
        self.tier = tier
        self.seed = seed
        self.level = level
        self.t0 = time.time()
        self.scratch = tempfile.mkdtemp(prefix="verif-%s-" % pid)
        self.cov = {
            "states": 0, "transitions": 0, "traces_validated_against_impl": 0,
            "samples": [], "evaluations": 0, "distinct_nontrivial": 0,
            "rule": "", "tlc_runs": [], "replay": {}, "drift": 0,
        }
        self.assumptions = []
        self.violations = 0
        self.known_hits = 0
        self.fault = None
        self._distinct = set()
        self.overlay_tags = set()
        self.known = load_known()

    # -- logging -----------------------------------------------------------
    def log(self, *a):
        print("[%s %6.1fs]" % (self.pid, time.time() - self.t0), *a, flush=True)

    # -- TLC ---------------------------------------------------------------
    def spec_dir(self, module_dir):
        """Copy /verif/tla/<module_dir> into scratch (tools litter)."""
        dst = os.path.join(self.scratch, "tla_" + module_dir.replace("/", "_"))
        with _SPEC_DIR_LOCK:      # checks run several small TLC jobs from threads
            if not os.path.exists(dst):
                tmp = dst + ".copying"
                shutil.rmtree(tmp, ignore_errors=True)
                shutil.copytree(os.path.join(VERIF, "tla", module_dir), tmp)
                common = os.path.join(VERIF, "tla", "common")
                if os.path.isdir(common):
                    for f in os.listdir(common):
                        if not os.path.exists(os.path.join(tmp, f)):
                            shutil.copy(os.path.join(common, f), tmp)
                os.rename(tmp, dst)
        return dst

    def tlc(self, module_dir, spec, cfg, workers=None, timeout=900, args=(),
            env=None, heap="12g", deadlock=True, must_pass=True, tag=None,
            count=True, jvm=()):
        d = self.spec_dir(module_dir)
        meta = tempfile.mkdtemp(prefix="meta-", dir=self.scratch)
        w = workers or NCPU
        cmd = ["java", "-XX:+UseParallelGC", "-XX:ParallelGCThreads=%d" % max(2, min(8, w // 2)),
               "-XX:-UseAdaptiveSizePolicy", "-Xms2g", "-Xmx" + heap, "-Xss256m"]
        cmd += list(jvm)
        cmd += ["-cp", TLA_JARS, "tlc2.TLC", "-metadir", meta,
                "-workers", str(workers or NCPU), "-config", cfg]
        if not deadlock:
            cmd += ["-deadlock"]
        cmd += list(args) + [spec]
        e = dict(os.environ)
        if env:
            e.update({k: str(v) for k, v in env.items()})
        t = time.time()
        try:
            p = subprocess.run(cmd, cwd=d, env=e, stdout=subprocess.PIPE,
                               stderr=subprocess.STDOUT, timeout=timeout, text=True)
        except subprocess.TimeoutExpired as ex:
            subprocess.run(["pkill", "-f", meta], check=False)
            raise MachineryError("TLC timeout after %ss on %s/%s" % (timeout, module_dir, cfg))
        finally:
            shutil.rmtree(meta, ignore_errors=True)
        r = TLCResult(p.returncode, p.stdout, time.time() - t)
        if count:
            self.cov["states"] += r.distinct
            self.cov["transitions"] += r.generated
        self.cov["tlc_runs"].append({
            "spec": "%s/%s" % (module_dir, spec), "cfg": cfg, "tag": tag,
            "generated": r.generated, "distinct": r.distinct, "depth": r.depth,
            "rc": r.rc, "wall_s": round(r.wall, 2)})
        self.log("TLC %s/%s %s: rc=%d generated=%d distinct=%d depth=%d %.1fs" % (
            module_dir, spec, cfg, r.rc, r.generated, r.distinct, r.depth, r.wall))
        if must_pass and not r.ok:
            tail = "\n".join(r.out.splitlines()[-60:])
            raise MachineryError(
                "TLC did not pass on the model alone (%s/%s, violated=%s): a model "
                "counterexample is not a code violation\n%s" % (module_dir, cfg, r.violated, tail))
        return r

    def tlc_graph(self, module_dir, spec, cfg, timeout=900, **kw):
        """Exhaustive run with a labelled state-graph dump; returns
        (result, nodes, edges, inits)."""
        d = self.spec_dir(module_dir)
        dot = os.path.join(d, "graph_%s" % cfg.replace(".cfg", ""))
        r = self.tlc(module_dir, spec, cfg, timeout=timeout,
                     args=["-dump", "dot,actionlabels", dot], **kw)
        nodes, edges, inits = parse_dot(dot + ".dot")
        os.remove(dot + ".dot")
        return r, nodes, edges, inits

    def tlc_simulate(self, module_dir, spec, cfg, num, depth, seed=None,
                     timeout=600, env=None, tag=None, workers=1):
        """-simulate; behaviours are whatever the spec prints as JSON with
        PrintT(ToJson(..)) (one JSON document per printed line)."""
        r = self.tlc(module_dir, spec, cfg, workers=workers, timeout=timeout,
                     args=["-simulate", "num=%d" % num, "-depth", str(depth),
                           "-seed", str(seed if seed is not None else self.seed)],
                     env=env, must_pass=False, tag=tag or "simulate", count=False)
        if r.rc != 0:
            tail = "\n".join(r.out.splitlines()[-40:])
            raise MachineryError("TLC simulate failed rc=%d\n%s" % (r.rc, tail))
        return r

    def tlc_behaviours(self, module_dir, spec, cfg, num, depth, seed=None,
                       timeout=600, env=None, workers=1):
        """-simulate file=...: returns a list of behaviours, each a list of
        (action_label, state_dict); the first label is "Init"."""
        d = self.spec_dir(module_dir)
        pref = os.path.join(d, "sim_%d_%s" % (len(self.cov["tlc_runs"]), cfg.replace(".cfg", "")))
        r = self.tlc(module_dir, spec, cfg, workers=workers, timeout=timeout,
                     args=["-simulate", "file=%s,num=%d" % (pref, num), "-depth", str(depth),
                           "-seed", str(seed if seed is not None else self.seed)],
                     env=env, must_pass=False, tag="simulate", count=False)
        if r.rc != 0:
            tail = "\n".join(r.out.splitlines()[-40:])
            raise MachineryError("TLC simulate failed rc=%d\n%s" % (r.rc, tail))
        behs = []
        for fn in sorted(glob.glob(pref + "_*")):
            behs.append(parse_sim_file(fn))
            os.remove(fn)
        return behs

    def tlc_trace(self, module_dir, spec, cfg, trace_file, timeout=600, env=None,
                  deque=True):
        """Trace validation: returns (accepted, result)."""
        e = {"TRACE_FILE": trace_file}
        if env:
            e.update(env)
        jvm = ["-Dtlc2.tool.queue.IStateQueue=StateDeque"] if deque else []
        r = self.tlc(module_dir, spec, cfg, workers=1, timeout=timeout, env=e,
                     deadlock=False, must_pass=False, tag="trace", count=False, jvm=jvm)
        if r.rc not in (0, 10, 12, 13) :
            tail = "\n".join(r.out.splitlines()[-40:])
            raise MachineryError("trace spec %s/%s failed to run (rc=%d)\n%s" % (module_dir, cfg, r.rc, tail))
        return r.ok, r

    # -- Go harness --------------------------------------------------------
    def overlay_file(self):
        path = os.path.join(self.scratch, "overlay.json")
        if os.path.exists(path):
            return path
        rep = {}
        root = os.path.join(VERIF, "overlay")
        for dp, _, fns in os.walk(root):
            for fn in fns:
                if fn.endswith(".go"):
                    # verif_cNN_*.go shims belong to property CNN; a check only
                    # injects the shared shims, its own, and those it lists in
                    # ctx.overlay_tags (so one property's shim cannot break another's build)
                    m = re.match(r"verif_([cx]\d\d[a-z]*)_", fn)
                    if m and m.group(1).upper() != self.pid and m.group(1) not in self.overlay_tags:
                        continue
                    src = os.path.join(dp, fn)
                    rel = os.path.relpath(src, root)
                    rep[os.path.join(REPO, rel)] = src
        with open(path, "w") as f:
            json.dump({"Replace": rep}, f)
        return path

    def harness_prepare(self):
        h = os.path.join(VERIF, "harness")
        # go.mod / go.sum follow /repo's (checks rebuild from the working tree);
        # they live in the scratch dir (-modfile) so concurrent runs never clash
        md = os.path.join(self.scratch, "gomod")
        os.makedirs(md, exist_ok=True)
        write_harness_mod(md)
        self._modfile = os.path.join(md, "go.mod")
        return h

    def go_test(self, pkg, run, env=None, timeout=900, extra_args=(), race=False):
        """Run a harness test; the driver reads VERIF_IN and writes VERIF_OUT.
        Returns (rc, output)."""
        h = self.harness_prepare()
        g, e = go_env(env)
        e["VERIF_SEED"] = str(self.seed)
        e["VERIF_TIER"] = self.tier
        e["VERIF_REPO"] = REPO
        cmd = [g, "test", "-count=1", "-tags", "verif", "-overlay", self.overlay_file(),
               "-modfile", self._modfile, "-vet=off", "-timeout", "%ds" % timeout, "-run", run]
        if race:
            cmd.append("-race")
        cmd += list(extra_args) + [pkg]
        t = time.time()
        try:
            p = subprocess.run(cmd, cwd=h, env=e, stdout=subprocess.PIPE,
                               stderr=subprocess.STDOUT, timeout=timeout + 120, text=True)
        except subprocess.TimeoutExpired:
            raise MachineryError("go test timeout: %s %s" % (pkg, run))
        self.log("go test %s -run %s: rc=%d %.1fs" % (pkg, run, p.returncode, time.time() - t))
        return p.returncode, p.stdout

    def go_driver(self, pkg, run, inp, env=None, timeout=900, race=False, name=None):
        """Write `inp` as JSON, run the driver, read its JSON result.
        Any failure to produce a result is a machinery fault."""
        name = name or run
        fin = os.path.join(self.scratch, "%s.in.json" % name)
        fout = os.path.join(self.scratch, "%s.out.json" % name)
        with open(fin, "w") as f:
            json.dump(inp, f)
        if os.path.exists(fout):
            os.remove(fout)
        e = {"VERIF_IN": fin, "VERIF_OUT": fout, "VERIF_SCRATCH": self.scratch}
        if env:
            e.update(env)
        rc, out = self.go_test(pkg, "^%s$" % run, env=e, timeout=timeout, race=race)
        if not os.path.exists(fout):
            tail = "\n".join(out.splitlines()[-60:])
            raise MachineryError("driver %s %s produced no result (rc=%d)\n%s" % (pkg, run, rc, tail))
        with open(fout) as f:
            res = json.load(f)
        if rc != 0 and not res.get("violations"):
            tail = "\n".join(out.splitlines()[-60:])
            raise MachineryError("driver %s %s failed rc=%d without a violation\n%s" % (pkg, run, rc, tail))
        res["_output"] = out
        return res

    # -- verdicts ----------------------------------------------------------
    def note_case(self, key, nontrivial=True):
        self.cov["evaluations"] += 1
        if nontrivial:
            self._distinct.add(key if isinstance(key, str) else json.dumps(key, sort_keys=True))

    def sample(self, obj, cap=6):
        if len(self.cov["samples"]) < cap:
            self.cov["samples"].append(obj)

    def violation(self, digest_key, what, replay):
        """A property predicate failed on the real code."""
        dg = finding_digest(self.pid, digest_key)
        for k in self.known.get("findings", []):
            if k.get("property") == self.pid and k.get("digest") == dg:
                self.known_hits += 1
                print("KNOWN-FINDING: property=%s %s" % (self.pid, k.get("what", what)), flush=True)
                return False
        os.makedirs(os.path.join(EVIDENCE_DIR, "replays"), exist_ok=True)
        path = os.path.join(EVIDENCE_DIR, "replays", "%s-%s.json" % (self.pid, dg[:12]))
        with open(path, "w") as f:
            json.dump({"property": self.pid, "seed": self.seed, "tier": self.tier,
                       "digest": dg, "digest_key": digest_key, "what": what,
                       "replay": replay}, f, indent=1, default=str)
        self.violations += 1
        print("VIOLATION property=%s replay=%s" % (self.pid, path), flush=True)
        print("  what: %s" % what, flush=True)
        return True

    def take_driver_result(self, res, what_prefix=""):
        """Fold a Go driver result {cases, nontrivial, drift, samples, violations}."""
        self.cov["evaluations"] += int(res.get("cases", 0))
        for k in res.get("distinct", []):
            self._distinct.add(k)
        self.cov["drift"] += int(res.get("drift", 0))
        for s in res.get("samples", [])[:3]:
            self.sample(s, cap=8)
        for v in res.get("violations", []):
            self.violation(v.get("key", v.get("what", "")), what_prefix + v.get("what", ""), v.get("replay", v))

    def finish(self):
        self.cov["distinct_nontrivial"] = max(self.cov["distinct_nontrivial"], len(self._distinct))
        if not self.cov["samples"]:
            self.cov["samples"] = [{"note": "no sample recorded"}]
        ev = {
            "property_id": self.pid, "tier": self.tier, "seed": self.seed,
            "level": self.level, "coverage": self.cov,
            "assumptions": self.assumptions,
            "wall_s": round(time.time() - self.t0, 2),
            "violations": self.violations,
        }
        if self.known_hits:
            ev["coverage"]["known_findings_hit"] = self.known_hits
        os.makedirs(EVIDENCE_DIR, exist_ok=True)
        path = os.path.join(EVIDENCE_DIR, "%s.json" % self.pid)
        with open(path, "w") as f:
            json.dump(ev, f, indent=1, default=str)
        validate_evidence(path)
        self.cleanup()
        return 1 if self.violations else 0

    def cleanup(self):
        if os.environ.get("VERIF_KEEP"):
            print("scratch kept: " + self.scratch)
            return
        shutil.rmtree(self.scratch, ignore_errors=True)


def write_harness_mod(h):
    with open(os.path.join(REPO, "go.mod")) as f:
        mod = f.read()
    mod = re.sub(r"^module\s+\S+", "module github.com/semihalev/sdns/verifharness", mod, count=1, flags=re.M)
    mod += ("\nrequire github.com/semihalev/sdns v0.0.0\n"
            "require pgregory.net/rapid v1.3.0\n"
            "replace github.com/semihalev/sdns => %s\n" % REPO)
    cur = None
    gm = os.path.join(h, "go.mod")
    if os.path.exists(gm):
        with open(gm) as f:
            cur = f.read()
    if cur != mod:
        with open(gm, "w") as f:
            f.write(mod)
    src = os.path.join(REPO, "go.sum")
    dst = os.path.join(h, "go.sum")
    if os.path.exists(src):
        with open(src) as f:
            want = f.read()
        have = ""
        if os.path.exists(dst):
            with open(dst) as f:
                have = f.read()
        if not have.startswith(want):
            with open(dst, "w") as f:
                f.write(want)


def finding_digest(pid, key):
    s = pid + "|" + (key if isinstance(key, str) else json.dumps(key, sort_keys=True))
    return hashlib.sha256(s.encode()).hexdigest()


def load_known():
    p = os.path.join(VERIF, "known_findings.json")
    if os.path.exists(p):
        with open(p) as f:
            return json.load(f)
    return {"findings": [], "fixed": []}


def validate_evidence(path):
    with open(path) as f:
        ev = json.load(f)
    for k in ("property_id", "tier", "seed", "level", "coverage", "wall_s"):
        if k not in ev:
            raise MachineryError("evidence missing %s" % k)
    c = ev["coverage"]
    if ev["level"] == "model_checking":
        if not (c.get("states", 0) >= 1 and c.get("transitions", 0) >= 1 and c.get("samples")):
            if not (c.get("evaluations", 0) >= 1 and c.get("distinct_nontrivial", 0) >= 2):
                raise MachineryError("evidence does not satisfy the model_checking schema")
    schema = "/root/.vp/EVIDENCE.schema.json"
    if os.path.exists(schema) and shutil.which("python3-vt"):
        code = ("import json,sys,jsonschema;"
                "jsonschema.validate(json.load(open(sys.argv[1])),json.load(open(sys.argv[2])))")
        p = subprocess.run(["python3-vt", "-W", "ignore", "-c", code, path, schema],
                           stdout=subprocess.PIPE, stderr=subprocess.STDOUT, text=True)
        if p.returncode != 0:
            raise MachineryError("evidence schema validation failed:\n" + p.stdout[-2000:])


def main(run_fn, pid, argv, level="model_checking"):
    import argparse
    ap = argparse.ArgumentParser()
    ap.add_argument("--tier", default=os.environ.get("VERIF_TIER", "quick"))
    ap.add_argument("--replay", default=None)
    ap.add_argument("--seed", type=int, default=None)
    a = ap.parse_args(argv)
    seed = a.seed if a.seed is not None else int(os.environ.get("VERIF_SEED", "1") or 1)
    if a.replay:
        # a replay file records the seed and tier of the run that found it; the
        # generators are seeded, so re-running that (tier, seed) re-runs the case
        try:
            with open(a.replay) as f:
                rp = json.load(f)
            seed, a.tier = int(rp.get("seed", seed)), rp.get("tier", a.tier)
            print("replaying %s: property=%s seed=%d tier=%s\n  what: %s" % (
                a.replay, rp.get("property"), seed, a.tier, rp.get("what")), flush=True)
        except Exception as ex:
            print("MACHINERY-FAULT property=%s: cannot read replay file: %s" % (pid, ex))
            return 2
    if a.tier not in ("quick", "thorough"):
        a.tier = "quick"
    ctx = Ctx(pid, a.tier, seed, level)
    try:
        run_fn(ctx, a.replay)
        rc = ctx.finish()
        ctx.log("done: violations=%d known=%d evaluations=%d states=%d" % (
            ctx.violations, ctx.known_hits, ctx.cov["evaluations"], ctx.cov["states"]))
        return rc
    except MachineryError as ex:
        print("MACHINERY-FAULT property=%s: %s" % (pid, ex), flush=True)
        try:
            if ctx.violations:
                ctx.finish()
                return 1
        finally:
            ctx.cleanup()
        return 2
    except Exception:
        import traceback
        traceback.print_exc()
        print("MACHINERY-FAULT property=%s: internal error" % pid, flush=True)
        ctx.cleanup()
        return 2
