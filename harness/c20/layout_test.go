package c20

// Replay of the Dns64Layout.tla cases (spec -> code) on the real
// middleware/dns64 through its public behaviour:
//
//   Validate  dns64.New with the case's prefix as configuration
//   EmbedA    an AAAA query whose downstream answer is NODATA and whose
//             secondary A lookup returns the case's IPv4 address
//   ExtractA / PtrQuery
//             the PTR query for the ip6.arpa name of the address on the wire
//
// Property predicates (C20) evaluated on the real replies:
//   Layout        the synthesised AAAA is exactly prefix || IPv4 at the RFC 6052
//                 positions (RFC table, cross-checked against the model's map)
//   ReservedZero  octet 8 of the synthesised address is zero
//   SuffixZero    every octet after the embedded IPv4 is zero
//   Injective     two different IPv4 addresses never give the same AAAA
//   PtrBack       the matching ip6.arpa PTR query is answered with a CNAME to
//                 the in-addr.arpa name of the same IPv4 address
//   IllegalPrefix a prefix of an illegal length never produces an AAAA
// The model's own extraction result is compared for drift only.

import (
	"context"
	"fmt"
	"math/rand"
	"net"
	"strings"
	"sync"
	"testing"

	"github.com/miekg/dns"
	"github.com/semihalev/sdns/config"
	"github.com/semihalev/sdns/middleware/dns64"
	"github.com/semihalev/sdns/verifharness/vh"
)

type layInput struct {
	Dump    string           `json:"dump"`   // TLC state dump of a Dns64Layout model
	Cases   []map[string]any `json:"cases"`  // or inline cases (replay)
	Random  int              `json:"random"` // seeded random (prefix, address) pairs
	Workers int              `json:"workers"`
}

type layCase struct {
	Plen      int    `json:"plen"`
	Pfx       []int  `json:"pfx"`
	Addr      []int  `json:"addr"`
	V6        []int  `json:"v6"`
	Ext       []int  `json:"ext"`
	Target    []int  `json:"target"`
	Corrupted []int  `json:"corrupted"`
	Pos       []int  `json:"pos"`
	Phase     string `json:"phase"`
	Origin    string `json:"origin"`
}

const sentinelPrefix = "2001:db8:6464::/96"

var sentinelBytes = []byte{0x20, 0x01, 0x0d, 0xb8, 0x64, 0x64, 0, 0, 0, 0, 0, 0}

type layRun struct {
	res *vh.Result
	mu  sync.Mutex
	hs  map[string]*dns64.DNS64
	inj map[string]map[[16]byte][4]byte // per prefix: synthesised address -> IPv4
}

func (r *layRun) handler(cidrs ...string) *dns64.DNS64 {
	key := strings.Join(cidrs, ",")
	r.mu.Lock()
	defer r.mu.Unlock()
	if d, ok := r.hs[key]; ok {
		return d
	}
	// an explicit empty exclude_a_networks: every IPv4 address translates
	d := newDNS64(config.DNS64Config{Prefixes: cidrs, ExcludeANetworks: []string{}})
	r.hs[key] = d
	return d
}

func bytesOf(l []int) []byte {
	out := make([]byte, len(l))
	for i, v := range l {
		out[i] = byte(v)
	}
	return out
}

func caseFromState(st map[string]any) layCase {
	return layCase{
		Plen: gi(st, "plen"), Pfx: ints(gl(st, "pfx")), Addr: ints(gl(st, "addr")), V6: ints(gl(st, "v6")),
		Ext: ints(gl(st, "ext")), Target: ints(gl(st, "target")), Corrupted: ints(gl(st, "corrupted")),
		Pos: ints(gl(st, "pos")), Phase: gs(st, "phase"), Origin: "tlc",
	}
}

const layName = "h.layout.example."

// synthOnce asks AAAA for layName; downstream says NODATA, the A lookup returns v4.
func synthOnce(d *dns64.DNS64, v4 [4]byte) (*dns.Msg, *script) {
	req := new(dns.Msg)
	req.SetQuestion(layName, dns.TypeAAAA)
	req.SetEdns0(1232, false)
	sc := &script{
		down: func(_ context.Context, q *dns.Msg) *dns.Msg {
			m := new(dns.Msg)
			m.SetReply(q)
			m.RecursionAvailable = true
			m.Ns = []dns.RR{soaRR("example.", 300, 300)}
			return m
		},
		query: func(_ context.Context, q *dns.Msg) (*dns.Msg, error) {
			m := new(dns.Msg)
			m.SetReply(q)
			m.RecursionAvailable = true
			m.Answer = []dns.RR{&dns.A{
				Hdr: dns.RR_Header{Name: q.Question[0].Name, Rrtype: dns.TypeA, Class: dns.ClassINET, Ttl: 120},
				A:   []byte{v4[0], v4[1], v4[2], v4[3]},
			}}
			return m, nil
		},
	}
	return serve(context.Background(), d, "198.51.100.7:5300", req, sc), sc
}

// ptrOnce asks PTR for name; returns the in-addr.arpa CNAME target ("" = not translated).
func ptrOnce(d *dns64.DNS64, name string) (string, *dns.Msg) {
	req := new(dns.Msg)
	req.SetQuestion(name, dns.TypePTR)
	req.SetEdns0(1232, false)
	sc := &script{
		down: func(_ context.Context, q *dns.Msg) *dns.Msg {
			m := new(dns.Msg)
			m.SetRcode(q, dns.RcodeNameError)
			m.RecursionAvailable = true
			return m
		},
		query: func(_ context.Context, q *dns.Msg) (*dns.Msg, error) {
			m := new(dns.Msg)
			m.SetReply(q)
			m.Answer = []dns.RR{&dns.PTR{
				Hdr: dns.RR_Header{Name: q.Question[0].Name, Rrtype: dns.TypePTR, Class: dns.ClassINET, Ttl: 60},
				Ptr: "host.v4.example.",
			}}
			return m, nil
		},
	}
	rep := serve(context.Background(), d, "198.51.100.7:5300", req, sc)
	if rep == nil {
		return "", nil
	}
	for _, rr := range rep.Answer {
		if c, ok := rr.(*dns.CNAME); ok && strings.EqualFold(c.Hdr.Name, name) {
			return strings.ToLower(c.Target), rep
		}
	}
	return "", rep
}

func (r *layRun) violate(pred string, c layCase, what string) {
	r.violateKey(fmt.Sprintf("layout/%s/%d", pred, c.Plen), pred, c, what)
}

func (r *layRun) violateKey(key, pred string, c layCase, what string) {
	r.res.Violate(key,
		fmt.Sprintf("DNS64 layout %s: prefix %s, IPv4 %v: %s", pred, cidrOf(bytesOf(c.Pfx), c.Plen), c.Addr, what),
		map[string]any{"driver": "layout", "case": c})
}

func (r *layRun) runCase(c layCase) {
	pfx := bytesOf(c.Pfx)
	cidr := cidrOf(pfx, c.Plen)
	var v4 [4]byte
	for k := 0; k < 4 && k < len(c.Addr); k++ {
		v4[k] = byte(c.Addr[k])
	}
	if c.Phase == "rejected" {
		// not a legal Pref64: it must never be used.  A legal sentinel is
		// configured next to it so that synthesis is still observable.
		if c.Origin != "tlc" || len(c.Addr) == 0 || v4 == [4]byte{} {
			v4 = [4]byte{11, 22, 33, 44}
		}
		d := r.handler(cidr, sentinelPrefix)
		if d == nil {
			r.res.Skip("dns64.New returned nil for %s + sentinel", cidr)
			return
		}
		rep, _ := synthOnce(d, v4)
		want, _ := refEmbed(sentinelBytes, 96, v4)
		n := 0
		for _, a := range aaaaOf(rep) {
			if to16(a.AAAA) != want {
				r.violate("IllegalPrefix", c, fmt.Sprintf("an illegal Pref64 was accepted: AAAA %s is not the embedding under the only legal prefix %s", a.AAAA, sentinelPrefix))
			} else {
				n++
			}
		}
		if n == 0 {
			r.res.DriftNote("illegal prefix %s next to the sentinel: no AAAA under the sentinel either", cidr)
		}
		r.res.Count("rejected_cases", 1)
		return
	}
	if c.Phase != "ptr" {
		return
	}
	pos, legal := rfc6052Pos[c.Plen]
	if !legal {
		r.res.Skip("model reached phase ptr for illegal length %d", c.Plen)
		return
	}
	if c.Origin == "tlc" {
		if len(c.Pos) != 4 || c.Pos[0] != pos[0] || c.Pos[1] != pos[1] || c.Pos[2] != pos[2] || c.Pos[3] != pos[3] {
			r.res.Skip("model position map %v for /%d differs from the RFC 6052 table %v", c.Pos, c.Plen, pos)
			return
		}
	}
	d := r.handler(cidr)
	if d == nil {
		r.res.Skip("dns64.New returned nil for %s", cidr)
		return
	}
	want, _ := refEmbed(pfx, c.Plen, v4)
	clean := len(c.Corrupted) == 0
	if clean && c.Origin == "tlc" {
		for i := 0; i < 16; i++ {
			if len(c.V6) != 16 || byte(c.V6[i]) != want[i] {
				r.res.Skip("model Embed %v differs from the reference embedding %v", c.V6, want)
				return
			}
		}
	}
	// ---- EmbedA ------------------------------------------------------
	rep, _ := synthOnce(d, v4)
	as := aaaaOf(rep)
	if len(as) != 1 {
		r.violate("Layout", c, fmt.Sprintf("expected exactly one synthesised AAAA under the single configured prefix, reply has %d:\n%s", len(as), msgText(rep)))
		return
	}
	got := to16(as[0].AAAA)
	if got != want {
		r.violate("Layout", c, fmt.Sprintf("synthesised %s (% x), RFC 6052 embedding is % x", as[0].AAAA, got[:], want[:]))
	}
	if got[8] != 0 {
		r.violate("ReservedZero", c, fmt.Sprintf("reserved octet (bits 64..71) of %s is %#x", as[0].AAAA, got[8]))
	}
	for i := pos[3] + 1; i < 16; i++ {
		if got[i] != 0 {
			r.violate("SuffixZero", c, fmt.Sprintf("suffix octet %d of %s is %#x", i, as[0].AAAA, got[i]))
			break
		}
	}
	r.mu.Lock()
	m := r.inj[cidr]
	if m == nil {
		m = map[[16]byte][4]byte{}
		r.inj[cidr] = m
	}
	prev, seen := m[got]
	m[got] = v4
	r.mu.Unlock()
	if seen && prev != v4 {
		r.violate("Injective", c, fmt.Sprintf("IPv4 %v and %v both synthesise to %s", prev, v4, as[0].AAAA))
	}
	// ---- ExtractA + PtrQuery ----------------------------------------
	wire := got // "the matching ip6.arpa PTR query": the name of the address the client was given
	if !clean {
		for i := 0; i < 16; i++ {
			wire[i] = byte(c.V6[i])
		}
	}
	target, prep := ptrOnce(d, arpaName(wire))
	if clean {
		if target != inAddrName(v4) {
			key := fmt.Sprintf("layout/PtrBack/%d", c.Plen)
			if net.IP(wire[:]).To4() != nil {
				// the synthesised address has the IPv4-mapped form ::ffff:a.b.c.d
				// (all-zero prefix): kept apart from ordinary round-trip failures
				key += "/v4mapped"
			}
			r.violateKey(key, "PtrBack", c, fmt.Sprintf("PTR %s did not map back to %s (CNAME target %q):\n%s", arpaName(wire), inAddrName(v4), target, msgText(prep)))
		}
	} else {
		// an on-the-wire name that is not the embedding of the case's address
		modelTarget := ""
		if len(c.Target) == 4 {
			modelTarget = fmt.Sprintf("%d.%d.%d.%d.in-addr.arpa.", c.Target[0], c.Target[1], c.Target[2], c.Target[3])
		}
		if modelTarget != "" && target != modelTarget {
			// it is the embedding of another address (model: Embed(ext) = v6)
			key := fmt.Sprintf("layout/PtrBack/%d", c.Plen)
			if net.IP(wire[:]).To4() != nil {
				key += "/v4mapped"
			}
			r.violateKey(key, "PtrBack", c, fmt.Sprintf("PTR %s is the embedding of %v but mapped to %q", arpaName(wire), c.Ext, target))
		} else if modelTarget == "" && target != "" {
			// reversibility read from the PTR side: an ip6.arpa name is translated to a.b.c.d only if it IS the
			// RFC 6052 embedding of a.b.c.d (reserved octet and suffix zero) -- otherwise the answer maps an address
			// to an IPv4 address that does not map back to it
			r.violateKey(fmt.Sprintf("layout/PtrOnlyEmbeddings/%d", c.Plen), "PtrBack", c,
				fmt.Sprintf("PTR %s has non-zero reserved/suffix octets at %v, so it is the embedding of no IPv4 address under the /%d prefix, yet it was translated to %q:\n%s",
					arpaName(wire), c.Corrupted, c.Plen, target, msgText(prep)))
		}
		r.res.Count("corrupted_cases", 1)
	}
	if prep != nil && target != "" && prep.AuthenticatedData {
		r.violate("NeverAD", c, "the synthesised PTR/CNAME reply carries AD")
	}
	r.res.Count("legal_cases", 1)
}

// extraCases: octet patterns that make every position distinguishable, all
// illegal lengths, and seeded random pairs.
func extraCases(rng *rand.Rand, n int) []layCase {
	var out []layCase
	lens := []int{32, 40, 48, 56, 64, 96}
	patterns := [][]int{{0x11, 0x22, 0x33, 0x44}, {1, 2, 4, 8}, {0x80, 0x40, 0x20, 0x10}, {255, 254, 253, 252},
		{0, 0, 0, 1}, {1, 0, 0, 0}, {0, 0, 0, 0}, {255, 255, 255, 255}, {10, 0, 0, 1}, {192, 168, 1, 1}}
	for _, l := range lens {
		pfx := make([]int, l/8)
		for i := range pfx {
			pfx[i] = 0xA0 + i
		}
		if l == 96 {
			pfx[8] = 0
		}
		for _, a := range patterns {
			out = append(out, layCase{Plen: l, Pfx: pfx, Addr: a, Phase: "ptr", Origin: "pattern"})
		}
	}
	// every illegal length, byte aligned or not; and /96 with a non-zero octet 8
	for l := 0; l <= 128; l++ {
		if _, ok := rfc6052Pos[l]; ok {
			continue
		}
		pfx := make([]int, (l+7)/8)
		for i := range pfx {
			pfx[i] = 0x31 + i
		}
		if l%8 != 0 && len(pfx) > 0 {
			pfx[len(pfx)-1] &= 0xff << (8 - l%8) & 0xff
		}
		out = append(out, layCase{Plen: l, Pfx: pfx, Addr: []int{11, 22, 33, 44}, Phase: "rejected", Origin: "pattern"})
	}
	bad96 := []int{0x20, 0x01, 0x0d, 0xb8, 0, 0, 0, 0, 0x01, 0, 0, 0}
	out = append(out, layCase{Plen: 96, Pfx: bad96, Addr: []int{11, 22, 33, 44}, Phase: "rejected", Origin: "pattern"})
	// seeded random: a few dozen prefixes, many addresses each
	nPfx := 48
	if n < nPfx {
		nPfx = n
	}
	var pfxs []layCase
	for i := 0; i < nPfx; i++ {
		l := lens[rng.Intn(len(lens))]
		pfx := make([]int, l/8)
		for j := range pfx {
			pfx[j] = rng.Intn(256)
		}
		if l == 96 {
			pfx[8] = 0
		}
		if pfx[0] == 0 { // keep clear of ::/x oddities of textual forms; ::/n is covered by the TLC alphabet
			pfx[0] = 0x20
		}
		pfxs = append(pfxs, layCase{Plen: l, Pfx: pfx})
	}
	for i := 0; i < n; i++ {
		p := pfxs[i%nPfx]
		a := []int{rng.Intn(256), rng.Intn(256), rng.Intn(256), rng.Intn(256)}
		out = append(out, layCase{Plen: p.Plen, Pfx: p.Pfx, Addr: a, Phase: "ptr", Origin: "random"})
	}
	return out
}

func TestLayoutReplay(t *testing.T) {
	var in layInput
	vh.Input(t, &in)
	res := vh.NewResult()
	defer res.Write(t)
	run := &layRun{res: res, hs: map[string]*dns64.DNS64{}, inj: map[string]map[[16]byte][4]byte{}}
	workers := in.Workers
	if workers <= 0 {
		workers = 4
	}
	one := func(c layCase) {
		run.runCase(c)
		key := ""
		if c.Origin != "random" {
			key = fmt.Sprintf("lay:%d:%v:%v:%v", c.Plen, c.Pfx, c.Addr, c.Corrupted)
		}
		res.Case(key)
		if c.Phase == "ptr" && c.Plen == 40 && len(c.Corrupted) == 0 {
			res.Sample(map[string]any{"prefix": cidrOf(bytesOf(c.Pfx), c.Plen), "ipv4": c.Addr, "origin": c.Origin})
		}
	}
	if in.Dump != "" {
		total, kept, err := forEachState(in.Dump, "phase = \"", workers, func(_ int, st map[string]any) {
			c := caseFromState(st)
			if c.Phase == "ptr" || c.Phase == "rejected" {
				one(c)
			}
		})
		if err != nil {
			res.Skip("reading %s: %v", in.Dump, err)
		}
		res.Count("dump_states", total)
		res.Count("dump_parsed", kept)
	}
	for _, st := range in.Cases {
		var c layCase
		remarshal(st, &c)
		one(c)
	}
	if in.Random > 0 || in.Dump != "" {
		extras := extraCases(vh.Rand(), in.Random)
		jobs := make(chan layCase, 256)
		var wg sync.WaitGroup
		for w := 0; w < workers; w++ {
			wg.Add(1)
			go func() {
				defer wg.Done()
				for c := range jobs {
					one(c)
				}
			}()
		}
		for _, c := range extras {
			jobs <- c
		}
		close(jobs)
		wg.Wait()
		res.Count("extra_cases", len(extras))
	}
}
