package c20

// Replay of every row of the Dns64Decide.tla decision table (spec -> code):
// each "done" state of the TLC dump is concretised into
//   (DNS64 configuration, client query, scripted reply of the rest of the
//    chain with its provenance marks, scripted answer of the secondary lookup)
// and run through the real dns64 handler in a middleware.Chain.
//
// The verdict comes from the predicates of the property statement evaluated
// on the real reply (not from the model's outcome):
//   SynthOnlyWhenAllowed      a reply with synthesised AAAA only for RD=1, CD=0,
//                             eligible client, non-excluded zone, no usable native AAAA
//   NeverOverFailure          never over NXDOMAIN, SERVFAIL+DNSSEC EDE, a cached
//                             failure (mark or EDE 13) or a request-local failure
//   Layout / SynthExact       the synthesised set is exactly Embed(prefix, A) for
//                             every configured prefix and A record ...
//   WellKnownSkipsExcludedV4  ... except excluded IPv4 under 64:ff9b::/96
//   OwnerAfterChain           owner = queried name after the alias chain
//   TtlMin                    TTL <= A TTL and <= the AAAA negative TTL
//   NeverAD                   a synthesised or AAAA-filtered reply has AD = 0
//   PtrBack                   a translated PTR points at the same IPv4 address
//
// Rows whose mark is "shedGlobal" / "shedZone" are not scripted: the rest of the
// chain is the REAL middleware/resolver DNSHandler with every in-flight resolution
// slot held / the root zone's in-flight quota used up (overlay shim
// verif_c20_shim.go), so the SERVFAIL and its request-local provenance are what
// DNSHandler.handle's load-shed branch produces.  The queryer stays armed with a
// usable A answer: a lost mark ends in an observable synthesis (NeverOverFailure).
// The model's predicted outcome (kind, rcode, AD, TTL, lookups) is compared
// for drift accounting only.

import (
	"context"
	"encoding/json"
	"errors"
	"fmt"
	"math/rand"
	"net"
	"strings"
	"sync"
	"testing"
	"time"

	"github.com/miekg/dns"
	"github.com/semihalev/sdns/config"
	"github.com/semihalev/sdns/middleware"
	"github.com/semihalev/sdns/middleware/dns64"
	"github.com/semihalev/sdns/middleware/resolver"
	"github.com/semihalev/sdns/verifharness/vh"
)

func remarshal(in any, out any) {
	b, _ := json.Marshal(in)
	_ = json.Unmarshal(b, out)
}

type decInput struct {
	Dump    string           `json:"dump"`
	Cases   []map[string]any `json:"cases"`
	Workers int              `json:"workers"`
}

type dQuery struct {
	Rd, Cd, Edns, Do, Ad int
	Qclass, Qtype, Ptr   string
	Elig, Zone, Internal int
}
type dDown struct {
	Tc                                    int
	Rcode, Native, Ede, Mark, Work, Chain string
	Ad                                    int
	Soa                                   []int
}
type dARec struct {
	C string
	T int
}
type dA struct {
	Kind  string
	Recs  []dARec
	Chain string
	Ad    int
}
type dOut struct {
	Kind, Rcode, Ede, Owner  string
	Ad, Ttl, Stripped, Alook int
	Syn                      [][]int
}
type dCase struct {
	Idx  int    `json:"idx"`
	Cfg  string `json:"cfg"`
	Q    dQuery `json:"q"`
	Down dDown  `json:"down"`
	A    dA     `json:"aresp"`
	Out  dOut   `json:"out"`
	Sub  int    `json:"sub"` // variant (DNSSEC EDE code index), fixed on replay
}

func decCaseFromState(idx int, st map[string]any) dCase {
	q, d, a, o := gm(st, "q"), gm(st, "down"), gm(st, "aresp"), gm(st, "out")
	c := dCase{Idx: idx, Cfg: gs(st, "cfg")}
	c.Q = dQuery{gi(q, "rd"), gi(q, "cd"), gi(q, "edns"), gi(q, "do"), gi(q, "ad"), gs(q, "qclass"), gs(q, "qtype"), gs(q, "ptr"),
		gi(q, "elig"), gi(q, "zone"), gi(q, "internal")}
	c.Down = dDown{gi(d, "tc"), gs(d, "rcode"), gs(d, "native"), gs(d, "ede"), gs(d, "mark"), gs(d, "work"), gs(d, "chain"), gi(d, "ad"), ints(gl(d, "soa"))}
	c.A = dA{Kind: gs(a, "kind"), Chain: gs(a, "chain"), Ad: gi(a, "ad")}
	for _, r := range gl(a, "recs") {
		rm, _ := r.(map[string]any)
		c.A.Recs = append(c.A.Recs, dARec{gs(rm, "c"), gi(rm, "t")})
	}
	c.Out = dOut{Kind: gs(o, "kind"), Rcode: gs(o, "rcode"), Ede: gs(o, "ede"), Owner: gs(o, "owner"),
		Ad: gi(o, "ad"), Ttl: gi(o, "ttl"), Stripped: gi(o, "stripped"), Alook: gi(o, "alook")}
	for _, s := range gl(o, "syn") {
		sl, _ := s.([]any)
		c.Out.Syn = append(c.Out.Syn, ints(sl))
	}
	return c
}

// ---------------------------------------------------------------------------
// concretisation tables

const wkpCIDR = "64:ff9b::/96"

var opPrefixes = []string{"2001:db8:64::/96", "2001:db8:6400::/40", "2001:db8:64::/48", "2001:db8::/32", "2001:db8:0:64::/64", "2001:db8:0:6400::/56"}

// IPv4 ranges that are excluded under the well-known prefix in both handler
// families (explicit list / the built-in default): RFC 1918 and 198.18/15.
var exclNets = []string{"10.0.0.0/8", "172.16.0.0/12", "192.168.0.0/16", "198.18.0.0/15"}
var exclPool = [][4]byte{{10, 1, 2, 3}, {10, 255, 0, 9}, {172, 16, 0, 1}, {172, 31, 255, 254}, {192, 168, 1, 1}, {192, 168, 200, 77}, {198, 18, 0, 1}, {198, 19, 255, 1}}
var pubPool = [][4]byte{{93, 184, 216, 34}, {8, 8, 8, 8}, {1, 1, 1, 1}, {151, 101, 1, 69}, {45, 33, 32, 156}, {9, 9, 9, 9}, {172, 15, 0, 1}, {172, 32, 0, 1}, {11, 0, 0, 1}, {192, 169, 0, 1}, {198, 20, 0, 1}}

var dnssecEDE = []uint16{dns.ExtendedErrorCodeUnsupportedDNSKEYAlgorithm, dns.ExtendedErrorCodeUnsupportedDSDigestType,
	dns.ExtendedErrorCodeDNSSECIndeterminate, dns.ExtendedErrorCodeDNSBogus, dns.ExtendedErrorCodeSignatureExpired,
	dns.ExtendedErrorCodeSignatureNotYetValid, dns.ExtendedErrorCodeDNSKEYMissing, dns.ExtendedErrorCodeRRSIGsMissing,
	dns.ExtendedErrorCodeNoZoneKeyBitSet, dns.ExtendedErrorCodeNSECMissing, dns.ExtendedErrorCodeUnsupportedNSEC3IterValue}
var otherEDE = []uint16{dns.ExtendedErrorCodeOther, dns.ExtendedErrorCodeStaleAnswer, dns.ExtendedErrorCodeForgedAnswer,
	dns.ExtendedErrorCodeNotReady, dns.ExtendedErrorCodeProhibited, dns.ExtendedErrorCodeNotAuthoritative,
	dns.ExtendedErrorCodeNoReachableAuthority, dns.ExtendedErrorCodeNetworkError, dns.ExtendedErrorCodeInvalidData,
	dns.ExtendedErrorCodeStaleNXDOMAINAnswer}

var excludedZones = []string{"excluded.test", "Corp.Example."}
var namesExcluded = []string{"host.excluded.test.", "excluded.test.", "a.b.corp.example.", "Deep.Host.Excluded.Test."}
var namesFree = []string{"host.example.org.", "www.notexcluded.test.", "xexcluded.test.", "corp.example.com.", "WWW.Example.ORG."}

type handlerKey struct {
	cfg, client, excl string
	form              int // how the prefix list is written (cfg "wkp": listed | omitted | every entry unusable)
}

type decRun struct {
	res    *vh.Result
	seed   int64
	op     string
	hs     map[handlerKey]*dns64.DNS64
	pfx    map[string][]*net.IPNet
	exNets []*net.IPNet
	mu     sync.Mutex
	kinds  map[string]int
	// the real resolver handlers of the load-shed rows, one per shed state (built once, kept in that state)
	shedOnce sync.Once
	shed     map[string]*resolver.DNSHandler
	shedText map[string]string
	shedErr  error
}

// shedHandler returns the real resolver handler whose load-shed branch answers rows with the given mark:
// "shedGlobal" = every in-flight resolution slot is held, "shedZone" = the root zone's in-flight quota is used up
// while global slots are free.  Nothing is ever dialled in either state (the configured root server is TEST-NET-1
// and the timeouts are short, so a rig that failed to shed would fail fast and be reported as machinery).
func (r *decRun) shedHandler(mark string) (*resolver.DNSHandler, string, error) {
	r.shedOnce.Do(func() {
		r.shed, r.shedText = map[string]*resolver.DNSHandler{}, map[string]string{}
		mk := func() *resolver.DNSHandler {
			cfg := &config.Config{RootServers: []string{"192.0.2.1:53"}, DNSSEC: "off", MaxConcurrentQueries: 8, Maxdepth: 30}
			cfg.Timeout.Duration = 300 * time.Millisecond
			cfg.QueryTimeout.Duration = 2 * time.Second
			return resolver.New(cfg)
		}
		g, z := mk(), mk()
		if n, _ := g.VerifC20HoldResolutionSlots(); n == 0 || g.VerifC20SlotsFree() != 0 {
			r.shedErr = fmt.Errorf("could not hold the resolver's resolution slots (held %d, free %d)", n, g.VerifC20SlotsFree())
			return
		}
		if n, _ := z.VerifC20HoldZoneQuota(z.VerifC20RootZone()); n == 0 || z.VerifC20SlotsFree() == 0 {
			r.shedErr = fmt.Errorf("could not use up the root zone's in-flight quota (held %d, free global slots %d)", n, z.VerifC20SlotsFree())
			return
		}
		r.shed["shedGlobal"], r.shed["shedZone"] = g, z
		r.shedText["shedGlobal"], r.shedText["shedZone"] = resolver.VerifC20ShedTexts()
	})
	if r.shedErr != nil {
		return nil, "", r.shedErr
	}
	return r.shed[mark], r.shedText[mark], nil
}

func isShedMark(m string) bool { return m == "shedGlobal" || m == "shedZone" }

func newDecRun(res *vh.Result, seed int64) *decRun {
	r := &decRun{res: res, seed: seed, hs: map[handlerKey]*dns64.DNS64{}, pfx: map[string][]*net.IPNet{}, kinds: map[string]int{}}
	r.op = opPrefixes[int(uint64(seed)%uint64(len(opPrefixes)))]
	for _, n := range exclNets {
		_, ipn, _ := net.ParseCIDR(n)
		r.exNets = append(r.exNets, ipn)
	}
	for _, cfg := range []string{"wkp", "op", "both", "both2"} {
		var ps []string
		switch cfg {
		case "wkp":
			ps = []string{wkpCIDR}
		case "op":
			ps = []string{r.op}
		case "both2":
			ps = []string{r.op, wkpCIDR}
		default:
			ps = []string{wkpCIDR, r.op}
		}
		for _, p := range ps {
			_, ipn, _ := net.ParseCIDR(p)
			r.pfx[cfg] = append(r.pfx[cfg], ipn)
		}
		forms := [][]string{ps}
		if cfg == "wkp" {
			// the well-known prefix is also what an empty list and a list of unusable entries fall back to
			forms = append(forms, nil, []string{"not-a-prefix", "2001:db8::/33", "64:ff9b::/97"})
		}
		for fi, form := range forms {
			for _, client := range []string{"nets", "netsInt", "open", "allbad"} {
				for _, excl := range []string{"explicit", "default"} {
					c := config.DNS64Config{Prefixes: form, ExcludeZones: excludedZones}
					switch client {
					case "nets":
						c.ClientNetworks = []string{"198.51.100.0/24", "2001:db8:c11e::/48"}
					case "netsInt":
						c.ClientNetworks = []string{"198.51.100.0/24", "2001:db8:c11e::/48", "127.0.0.255/32"}
					case "allbad":
						// a restriction was asked for and none of its entries is a usable CIDR: no source lies in one of them
						c.ClientNetworks = []string{"198.51.100.0/33", "not-a-network", "2001:db8:c11e::/129"}
					}
					if excl == "explicit" {
						c.ExcludeANetworks = exclNets
					}
					r.hs[handlerKey{cfg, client, excl, fi}] = newDNS64(c)
				}
			}
		}
	}
	return r
}

func (r *decRun) excluded(v4 [4]byte) bool {
	for _, n := range r.exNets {
		if n.Contains(net.IP(v4[:])) {
			return true
		}
	}
	return false
}

func isWKP(n *net.IPNet) bool { return n.String() == wkpCIDR }

func prefixBytes(n *net.IPNet) ([]byte, int) {
	bits, _ := n.Mask.Size()
	return []byte(n.IP.To16())[:bits/8], bits
}

// concrete is everything chosen for one run of a case.
type concrete struct {
	c       dCase
	rng     *rand.Rand
	hk      handlerKey
	client  string
	qname   string
	qtype   uint16
	ptrV4   [4]byte
	a       dA // the A-lookup script actually used (see concretise)
	aRecs   [][4]byte
	edeCode uint16
	preEDE  bool
	// preOtherEDE: an EDE option of an unrelated class (the downstream may stack several, RFC 8914 s2) stands in
	// front of the one the case is about: the class is a property of the message, not of its first EDE
	preOtherEDE bool
}

func (r *decRun) concretise(c dCase) *concrete {
	rng := rand.New(rand.NewSource(r.seed*1_000_003 + int64(c.Idx)*7919 + int64(c.Sub)))
	x := &concrete{c: c, rng: rng}
	q := c.Q
	// handler family and client address
	x.hk.cfg = c.Cfg
	x.hk.excl = []string{"explicit", "default"}[rng.Intn(2)]
	if c.Cfg == "wkp" {
		x.hk.form = rng.Intn(3) // listed | omitted | every entry unusable
	}
	port := 1024 + rng.Intn(60000)
	switch {
	case q.Internal == 1:
		x.client = "127.0.0.255:0"
		switch q.Elig {
		case 1:
			x.hk.client = "netsInt"
		case 2:
			x.hk.client = "allbad"
		default:
			x.hk.client = "nets"
		}
	case q.Elig == 2:
		// elig 2 of the model: every client_networks entry is unusable; the address is any (one the intended list
		// would have held, or one it would not)
		x.hk.client = "allbad"
		switch rng.Intn(3) {
		case 0:
			x.client = fmt.Sprintf("198.51.100.%d:%d", 1+rng.Intn(250), port)
		case 1:
			x.client = fmt.Sprintf("[2001:db8:c11e::%x]:%d", 1+rng.Intn(0xfffe), port)
		default:
			x.client = fmt.Sprintf("192.0.2.%d:%d", 1+rng.Intn(250), port)
		}
	case q.Elig == 1:
		x.hk.client = []string{"nets", "open"}[rng.Intn(2)]
		if rng.Intn(2) == 0 {
			x.client = fmt.Sprintf("198.51.100.%d:%d", 1+rng.Intn(250), port)
		} else {
			x.client = fmt.Sprintf("[2001:db8:c11e::%x]:%d", 1+rng.Intn(0xfffe), port)
		}
	default:
		x.hk.client = "nets"
		if rng.Intn(2) == 0 {
			x.client = fmt.Sprintf("192.0.2.%d:%d", 1+rng.Intn(250), port)
		} else {
			x.client = fmt.Sprintf("[2001:db8:bad::%x]:%d", 1+rng.Intn(0xfffe), port)
		}
	}
	// name and type
	switch q.Qtype {
	case "AAAA":
		x.qtype = dns.TypeAAAA
	case "PTR":
		x.qtype = dns.TypePTR
	default:
		x.qtype = []uint16{dns.TypeA, dns.TypeMX, dns.TypeTXT, dns.TypeNS, dns.TypeHTTPS, dns.TypeANY}[rng.Intn(6)]
	}
	if q.Zone == 1 {
		x.qname = namesExcluded[rng.Intn(len(namesExcluded))]
	} else {
		x.qname = namesFree[rng.Intn(len(namesFree))]
	}
	if q.Qtype == "PTR" {
		first := r.pfx[c.Cfg][0]
		pb, bits := prefixBytes(first)
		switch q.Ptr {
		case "under":
			x.ptrV4 = pubPool[rng.Intn(len(pubPool))]
			a, _ := refEmbed(pb, bits, x.ptrV4)
			x.qname = arpaName(a)
		case "underExcl":
			x.ptrV4 = exclPool[rng.Intn(len(exclPool))]
			a, _ := refEmbed(pb, bits, x.ptrV4)
			x.qname = arpaName(a)
		default:
			x.qname = arpaName([16]byte{0x20, 0x01, 0xde, 0xad, 0xbe, 0xef, 0, 0, 0, 0, 0, 0, 1, 2, 3, byte(rng.Intn(256))})
		}
	}
	// A records.  Where the model predicts that no secondary lookup happens the
	// queryer is still armed with a perfectly usable answer, so that a lookup the
	// code should not have made ends in an observable synthesis.
	x.a = c.A
	if x.a.Kind == "na" {
		x.a = dA{Kind: "ans", Recs: []dARec{{"pub", 300}}, Chain: "none"}
	}
	usedP, usedE := rng.Perm(len(pubPool)), rng.Perm(len(exclPool))
	for i, rec := range x.a.Recs {
		if rec.C == "excl" {
			x.aRecs = append(x.aRecs, exclPool[usedE[i%len(usedE)]])
		} else {
			x.aRecs = append(x.aRecs, pubPool[usedP[i%len(usedP)]])
		}
	}
	switch c.Down.Ede {
	case "dnssec":
		x.edeCode = dnssecEDE[c.Sub%len(dnssecEDE)]
		if c.Down.Rcode != "SERVFAIL" {
			x.edeCode = dnssecEDE[rng.Intn(len(dnssecEDE))]
		}
	case "cached":
		x.edeCode = dns.ExtendedErrorCodeCachedError
	case "other":
		x.edeCode = otherEDE[rng.Intn(len(otherEDE))]
		if isShedMark(c.Down.Mark) {
			x.edeCode = dns.ExtendedErrorCodeNoReachableAuthority // what the real shed reply carries
		}
	}
	x.preEDE = rng.Intn(3) == 0
	x.preOtherEDE = (c.Down.Ede == "dnssec" || c.Down.Ede == "cached") && rng.Intn(3) == 0
	return x
}

func rcodeOf(s string) int {
	switch s {
	case "NXDOMAIN":
		return dns.RcodeNameError
	case "SERVFAIL":
		return dns.RcodeServerFailure
	case "REFUSED":
		return dns.RcodeRefused
	}
	return dns.RcodeSuccess
}

func zoneOf(name string) string {
	labels := dns.SplitDomainName(name)
	if len(labels) <= 1 {
		return "."
	}
	return strings.Join(labels[1:], ".") + "."
}

var (
	nativeUsable = net.ParseIP("2001:db8:1::1")
	nativeExcl   = net.ParseIP("::ffff:192.0.2.77")
)

func (x *concrete) request() *dns.Msg {
	q := x.c.Q
	req := new(dns.Msg)
	req.SetQuestion(x.qname, x.qtype)
	if q.Qclass == "CH" {
		req.Question[0].Qclass = dns.ClassCHAOS
	}
	req.RecursionDesired = q.Rd == 1
	req.CheckingDisabled = q.Cd == 1
	req.AuthenticatedData = q.Ad == 1
	if q.Edns == 1 {
		req.SetEdns0(1232, q.Do == 1)
	}
	return req
}

// downstream builds the reply of the rest of the chain.
func (x *concrete) downstream(_ context.Context, req *dns.Msg) *dns.Msg {
	d := x.c.Down
	m := new(dns.Msg)
	m.SetReply(req)
	m.RecursionAvailable = true
	m.Rcode = rcodeOf(d.Rcode)
	m.Truncated = d.Tc == 1
	m.AuthenticatedData = d.Ad == 1
	owner := req.Question[0].Name
	if d.Chain == "cname" {
		tgt := "aaaa-target.example.net."
		m.Answer = append(m.Answer, &dns.CNAME{Hdr: dns.RR_Header{Name: owner, Rrtype: dns.TypeCNAME, Class: dns.ClassINET, Ttl: 250}, Target: tgt})
		owner = tgt
	}
	aaaa := func(ip net.IP) dns.RR {
		return &dns.AAAA{Hdr: dns.RR_Header{Name: owner, Rrtype: dns.TypeAAAA, Class: dns.ClassINET, Ttl: 300}, AAAA: ip}
	}
	switch d.Native {
	case "usable":
		m.Answer = append(m.Answer, aaaa(nativeUsable))
	case "allExcl":
		m.Answer = append(m.Answer, aaaa(nativeExcl))
	case "mixed":
		m.Answer = append(m.Answer, aaaa(nativeExcl), aaaa(nativeUsable))
	}
	if len(d.Soa) == 2 {
		m.Ns = append(m.Ns, soaRR(zoneOf(owner), uint32(d.Soa[0]), uint32(d.Soa[1])))
	}
	if x.c.Q.Edns == 1 {
		m.SetEdns0(1232, x.c.Q.Do == 1)
		opt := m.IsEdns0()
		if d.Ede != "none" {
			if x.preEDE {
				opt.Option = append(opt.Option, &dns.EDNS0_NSID{Code: dns.EDNS0NSID, Nsid: "76657269"})
			}
			if x.preOtherEDE {
				opt.Option = append(opt.Option, &dns.EDNS0_EDE{InfoCode: []uint16{dns.ExtendedErrorCodeOther, dns.ExtendedErrorCodeNoReachableAuthority, dns.ExtendedErrorCodeNetworkError}[int(x.edeCode)%3], ExtraText: "earlier"})
			}
			opt.Option = append(opt.Option, &dns.EDNS0_EDE{InfoCode: x.edeCode, ExtraText: "verif"})
		}
	}
	return m
}

func (x *concrete) mark(ctx context.Context, m *dns.Msg) (context.Context, func()) {
	switch x.c.Down.Mark {
	case "cachedMeta":
		if meta := middleware.ResponseMetaFrom(ctx); meta != nil {
			return ctx, meta.MarkCachedFailureResponse(m)
		}
	case "localAttempt":
		ctx, _ = middleware.EnsureResolutionAttemptGuard(ctx)
		middleware.MarkRequestLocalFailureResponse(ctx, m, &middleware.ResolutionAttemptLimitError{
			Question: m.Question[0], Endpoint: "192.0.2.53:53", Transport: "udp"})
	case "localDeadline":
		ctx, _ = middleware.EnsureResolutionAttemptGuard(ctx)
		middleware.MarkRequestLocalFailureResponse(ctx, m, context.DeadlineExceeded)
	}
	return ctx, func() {}
}

func lookupErr(kind string, rng *rand.Rand, q dns.Question) error {
	switch kind {
	case "errWork":
		return &middleware.RecursionWorkLimitError{Kind: middleware.RecursionWorkInternalQuery, Limit: 32}
	case "errAttempt":
		return &middleware.ResolutionAttemptLimitError{Question: q, Endpoint: "192.0.2.53:53", Transport: "udp"}
	case "errGeneric":
		return []error{errors.New("verif: upstream unreachable"), context.DeadlineExceeded, middleware.ErrNoResponse}[rng.Intn(3)]
	}
	return nil
}

// query is the scripted internal sub-pipeline.
func (x *concrete) query(_ context.Context, req *dns.Msg) (*dns.Msg, error) {
	a := x.a
	q := req.Question[0]
	if err := lookupErr(a.Kind, x.rng, q); err != nil {
		return nil, err
	}
	if a.Kind == "nil" {
		return nil, nil
	}
	m := new(dns.Msg)
	m.SetReply(req)
	m.RecursionAvailable = true
	if q.Qtype == dns.TypePTR {
		switch a.Kind {
		case "ans":
			m.AuthenticatedData = true
			m.Answer = []dns.RR{&dns.PTR{Hdr: dns.RR_Header{Name: q.Name, Rrtype: dns.TypePTR, Class: dns.ClassINET, Ttl: 60}, Ptr: "host.v4.example."}}
		case "servfail":
			m.Rcode = dns.RcodeServerFailure
		}
		return m, nil
	}
	m.AuthenticatedData = a.Ad == 1
	owner := q.Name
	switch a.Chain {
	case "cname":
		tgt := "v4-target.example.net."
		m.Answer = append(m.Answer, &dns.CNAME{Hdr: dns.RR_Header{Name: owner, Rrtype: dns.TypeCNAME, Class: dns.ClassINET, Ttl: 1000}, Target: tgt})
		owner = tgt
	case "dname":
		labels := dns.SplitDomainName(owner)
		parent := zoneOf(owner)
		tgt := labels[0] + ".dname-target.example.net."
		m.Answer = append(m.Answer,
			&dns.DNAME{Hdr: dns.RR_Header{Name: parent, Rrtype: dns.TypeDNAME, Class: dns.ClassINET, Ttl: 1000}, Target: "dname-target.example.net."},
			&dns.CNAME{Hdr: dns.RR_Header{Name: owner, Rrtype: dns.TypeCNAME, Class: dns.ClassINET, Ttl: 0}, Target: tgt})
		owner = tgt
	}
	switch a.Kind {
	case "ans":
		for i, rec := range a.Recs {
			v := x.aRecs[i]
			m.Answer = append(m.Answer, &dns.A{Hdr: dns.RR_Header{Name: owner, Rrtype: dns.TypeA, Class: dns.ClassINET, Ttl: uint32(rec.T)}, A: net.IP{v[0], v[1], v[2], v[3]}})
		}
	case "nodata":
		m.Ns = []dns.RR{soaRR(zoneOf(owner), 180, 180)}
	case "nxdomain":
		m.Rcode = dns.RcodeNameError
		m.Ns = []dns.RR{soaRR(zoneOf(owner), 180, 180)}
	case "servfail":
		m.Rcode = dns.RcodeServerFailure
	}
	return m, nil
}

func workCtx(kind string) (context.Context, error) {
	ctx := context.Background()
	switch kind {
	case "shadow":
		l := middleware.NewRecursionWorkLedger(middleware.RecursionWorkPolicy{Mode: middleware.RecursionWorkShadow, MaxOutboundQueries: 1, MaxInternalQueries: 1})
		_ = l.Debit(middleware.RecursionWorkInternalQuery)
		_ = l.Debit(middleware.RecursionWorkInternalQuery)
		if !l.Snapshot().InternalExhausted || l.EnforcementError() != nil {
			return nil, fmt.Errorf("shadow ledger set-up did not behave as expected")
		}
		ctx = middleware.WithRecursionWork(ctx, l)
	case "enforce":
		l := middleware.NewRecursionWorkLedger(middleware.RecursionWorkPolicy{Mode: middleware.RecursionWorkEnforce, MaxOutboundQueries: 1, MaxInternalQueries: 0})
		if err := l.Debit(middleware.RecursionWorkInternalQuery); !errors.Is(err, middleware.ErrRecursionWorkLimit) {
			return nil, fmt.Errorf("enforce ledger set-up: debit = %v", err)
		}
		if l.EnforcementError() == nil {
			return nil, fmt.Errorf("enforce ledger set-up: no latched rejection")
		}
		ctx = middleware.WithRecursionWork(ctx, l)
	}
	return ctx, nil
}

type aaaaKey struct {
	name string
	addr [16]byte
}

func aaaaSet(m *dns.Msg) map[aaaaKey]*dns.AAAA {
	out := map[aaaaKey]*dns.AAAA{}
	for _, a := range aaaaOf(m) {
		out[aaaaKey{strings.ToLower(a.Hdr.Name), to16(a.AAAA)}] = a
	}
	return out
}

// chainEnd follows CNAMEs in m.Answer from name.
func chainEnd(m *dns.Msg, name string) string {
	cur := strings.ToLower(name)
	for hop := 0; hop < 16; hop++ {
		next := ""
		for _, rr := range m.Answer {
			if c, ok := rr.(*dns.CNAME); ok && strings.EqualFold(c.Hdr.Name, cur) {
				next = strings.ToLower(c.Target)
				break
			}
		}
		if next == "" {
			return cur
		}
		cur = next
	}
	return cur
}

func (r *decRun) violate(x *concrete, pred, sub, what string, rep *dns.Msg, sc *script) {
	r.res.Violate("decide/"+pred+"/"+sub,
		fmt.Sprintf("DNS64 %s (%s): %s\n  config=%s prefixes=%v client=%s q=%+v\n  downstream=%+v\n  A lookup=%+v\n-- downstream reply --\n%s\n-- A reply --\n%s\n-- reply to the client --\n%s",
			pred, sub, what, x.c.Cfg, r.pfx[x.c.Cfg], x.client, x.c.Q, x.c.Down, x.c.A, msgText(sc.downSnap), msgText(sc.aResp), msgText(rep)),
		map[string]any{"driver": "decide", "seed": r.seed, "case": x.c})
}

func (r *decRun) runCase(c dCase) {
	x := r.concretise(c)
	d := r.hs[x.hk]
	if d == nil {
		r.res.Skip("no handler for %+v", x.hk)
		return
	}
	ctx, err := workCtx(c.Down.Work)
	if err != nil {
		r.res.Skip("%v", err)
		return
	}
	sc := &script{down: x.downstream, query: x.query}
	shedText := ""
	switch {
	case isShedMark(c.Down.Mark):
		h, text, err := r.shedHandler(c.Down.Mark)
		if err != nil || h == nil {
			r.res.Skip("real resolver handler for %s: %v", c.Down.Mark, err)
			return
		}
		sc.real, shedText = h, text
	case c.Down.Mark != "none":
		sc.mark = x.mark
	}
	req := x.request()
	// one case in three is served as the worker's replay of a query an inline-only pass declined: the model has
	// no such dimension because no decision may depend on it
	replayPass := x.rng.Intn(3) == 0
	if replayPass {
		r.res.Count("served_as_replay_pass", 1)
	}
	rep := serveOn(ctx, d, x.client, req, sc, replayPass)
	if rep == nil {
		r.res.Skip("no reply for case %d", c.Idx)
		return
	}
	q, dn := c.Q, c.Down
	D := sc.downSnap // nil when PTR translation short-circuits the chain
	if sc.real != nil {
		// the row is about the resolver's load-shed reply: make sure that is what the real handler wrote
		// (SERVFAIL, no records; with EDNS its EDE 22 names the shed sentinel) -- anything else is a dead rig
		ok := D != nil && D.Rcode == dns.RcodeServerFailure && len(D.Answer) == 0 && len(D.Ns) == 0 && !D.AuthenticatedData
		if ok && q.Edns == 1 {
			ok = false
			if opt := D.IsEdns0(); opt != nil {
				for _, o := range opt.Option {
					if e, isEDE := o.(*dns.EDNS0_EDE); isEDE && e.InfoCode == dns.ExtendedErrorCodeNoReachableAuthority && e.ExtraText == shedText {
						ok = true
					}
				}
			}
		} else if ok && len(edeCodes(D)) > 0 {
			ok = false
		}
		if !ok {
			r.res.Skip("case %d: the real resolver handler did not answer from its %s branch:\n%s", c.Idx, dn.Mark, msgText(D))
			return
		}
		r.res.Count("real_"+dn.Mark, 1)
		if q.Edns == 1 {
			r.res.Count("real_"+dn.Mark+"_text_seen", 1)
		}
	}
	lookups := len(sc.queries)

	// ---- what the real reply is ------------------------------------
	var synthetic []*dns.AAAA
	strippedNative := false
	{
		have := aaaaSet(rep)
		var dset map[aaaaKey]*dns.AAAA
		if D != nil {
			dset = aaaaSet(D)
		}
		for k, a := range have {
			if _, ok := dset[k]; !ok {
				synthetic = append(synthetic, a)
			}
		}
		for k := range dset {
			if _, ok := have[k]; !ok {
				strippedNative = true
			}
		}
	}
	ptrTarget := ""
	if x.qtype == dns.TypePTR && D == nil {
		for _, rr := range rep.Answer {
			if cn, ok := rr.(*dns.CNAME); ok && strings.EqualFold(cn.Hdr.Name, x.qname) {
				ptrTarget = strings.ToLower(cn.Target)
			}
		}
	}
	obs := "pass"
	switch {
	case len(synthetic) > 0:
		obs = "synth"
	case ptrTarget != "":
		obs = "ptr"
	case D == nil:
		obs = "ptrfail" // handlePTR answered, but not with a translation
	case rep == sc.downMsg:
		if lookups > 0 {
			obs = "fallback"
		}
	case rep.Rcode == dns.RcodeServerFailure && D.Rcode == dns.RcodeServerFailure && lookups == 0:
		obs = "workfail"
	case strippedNative && lookups == 0:
		obs = "filtered"
	case strippedNative:
		obs = "rewritten-stripped" // fallback on the stripped copy, basis, or a local failure after the lookup
	default:
		obs = "rewritten"
	}

	// ---- C20 predicates on the real reply ---------------------------
	if len(synthetic) > 0 {
		if !(q.Rd == 1 && q.Cd == 0 && q.Elig == 1 && q.Zone == 0) {
			r.violate(x, "SynthOnlyWhenAllowed", fmt.Sprintf("rd%d-cd%d-elig%d-zone%d", q.Rd, q.Cd, q.Elig, q.Zone),
				"a synthesised AAAA was returned although the query is not (RD=1, CD=0, eligible client, non-excluded zone)", rep, sc)
		}
		if dn.Rcode == "NOERROR" && (dn.Native == "usable" || dn.Native == "mixed") {
			r.violate(x, "SynthOnlyWhenAllowed", "native-"+dn.Native, "synthesised although the name has a usable native AAAA", rep, sc)
		}
		if q.Qclass != "IN" || q.Qtype != "AAAA" || q.Internal == 1 {
			r.res.DriftNote("synthesised AAAA for class=%s type=%s internal=%d", q.Qclass, q.Qtype, q.Internal)
		}
		switch {
		case dn.Rcode == "NXDOMAIN":
			r.violate(x, "NeverOverFailure", "nxdomain", "synthesised over an NXDOMAIN reply", rep, sc)
		case dn.Rcode == "SERVFAIL" && dn.Ede == "dnssec":
			r.violate(x, "NeverOverFailure", "dnssec", fmt.Sprintf("synthesised over SERVFAIL with DNSSEC EDE %d", x.edeCode), rep, sc)
		case dn.Mark == "cachedMeta" || (dn.Rcode == "SERVFAIL" && dn.Ede == "cached"):
			r.violate(x, "NeverOverFailure", "cached-"+dn.Mark+"-"+dn.Ede, "synthesised over a cached failure", rep, sc)
		case dn.Mark == "localAttempt" || dn.Mark == "localDeadline":
			r.violate(x, "NeverOverFailure", dn.Mark, "synthesised over a request-local failure", rep, sc)
		case isShedMark(dn.Mark):
			r.violate(x, "NeverOverFailure", dn.Mark, "synthesised over a request-local failure: the resolver refused the AAAA query only because "+
				map[string]string{"shedGlobal": "every in-flight resolution slot was held", "shedZone": "the zone's in-flight quota was used up"}[dn.Mark]+
				" at that moment (load shed), and DNS64 answered with AAAA built from the A lookup instead of passing the SERVFAIL through", rep, sc)
		}
		// exactness of the synthesised set
		type src struct {
			a   *dns.A
			wkp bool
		}
		expected := map[[16]byte]src{}
		skipped := map[[16]byte]*dns.A{}
		if sc.aResp != nil {
			for _, rr := range sc.aResp.Answer {
				a, ok := rr.(*dns.A)
				if !ok {
					continue
				}
				var v4 [4]byte
				copy(v4[:], a.A.To4())
				for _, p := range r.pfx[c.Cfg] {
					pb, bits := prefixBytes(p)
					e, _ := refEmbed(pb, bits, v4)
					if isWKP(p) && r.excluded(v4) {
						skipped[e] = a
						continue
					}
					expected[e] = src{a, isWKP(p)}
				}
			}
		}
		end := chainEnd(rep, x.qname)
		seen := map[[16]byte]bool{}
		for _, s := range synthetic {
			k := to16(s.AAAA)
			seen[k] = true
			e, ok := expected[k]
			if !ok {
				if a, sk := skipped[k]; sk {
					r.violate(x, "WellKnownSkipsExcludedV4", "embedded", fmt.Sprintf("%s embeds the excluded IPv4 address %s under the well-known prefix", s.AAAA, a.A), rep, sc)
				} else {
					r.violate(x, "Layout", "foreign", fmt.Sprintf("synthesised %s is not the RFC 6052 embedding of any A record under a configured prefix", s.AAAA), rep, sc)
				}
				continue
			}
			if !strings.EqualFold(s.Hdr.Name, e.a.Hdr.Name) || !strings.EqualFold(s.Hdr.Name, end) {
				r.violate(x, "OwnerAfterChain", "a-"+c.A.Chain, fmt.Sprintf("synthesised AAAA is owned by %s; the queried name after the alias chain is %s (A owner %s)", s.Hdr.Name, end, e.a.Hdr.Name), rep, sc)
			}
			if s.Hdr.Ttl > e.a.Hdr.Ttl {
				r.violate(x, "TtlMin", "a-ttl", fmt.Sprintf("synthesised TTL %d exceeds the A TTL %d", s.Hdr.Ttl, e.a.Hdr.Ttl), rep, sc)
			}
			if len(dn.Soa) == 2 {
				neg := uint32(dn.Soa[0])
				if uint32(dn.Soa[1]) < neg {
					neg = uint32(dn.Soa[1])
				}
				if s.Hdr.Ttl > neg {
					sub := "neg-ttl"
					switch {
					case dn.Soa[0] == 0:
						sub = "soa-ttl-zero"
					case dn.Soa[1] == 0:
						sub = "soa-minimum-zero"
					}
					r.violate(x, "TtlMin", sub, fmt.Sprintf("synthesised TTL %d exceeds the AAAA negative TTL %d (SOA TTL %d, MINIMUM %d)", s.Hdr.Ttl, neg, dn.Soa[0], dn.Soa[1]), rep, sc)
				}
			}
		}
		for k, e := range expected {
			if !seen[k] {
				r.violate(x, "SynthExact", "missing", fmt.Sprintf("A %s is not embedded under every configured prefix (missing %s)", e.a.A, net.IP(k[:])), rep, sc)
			}
		}
		if rep.AuthenticatedData {
			r.violate(x, "NeverAD", "synth", "the synthesised reply carries AD", rep, sc)
		}
	} else if strippedNative {
		if rep.AuthenticatedData {
			sub := "filtered"
			switch {
			case lookups == 0:
			case c.A.Kind == "nodata" || c.A.Kind == "nxdomain" || c.A.Kind == "servfail":
				sub = "stripped-a-basis"
			case c.A.Kind == "errWork" || c.A.Kind == "errAttempt":
				sub = "stripped-a-localfail"
			default:
				sub = "stripped-a-unusable" // lookup error / nil / every A excluded: the stripped copy is relayed
			}
			r.violate(x, "NeverAD", sub, "an AAAA-filtered reply (excluded native AAAA removed) carries AD", rep, sc)
		}
	}
	if x.qtype == dns.TypePTR {
		if ptrTarget != "" {
			if ptrTarget != inAddrName(x.ptrV4) || (q.Ptr != "under" && q.Ptr != "underExcl") {
				r.violate(x, "PtrBack", q.Ptr, fmt.Sprintf("PTR %s was translated to %s, the embedded IPv4 is %v", x.qname, ptrTarget, x.ptrV4), rep, sc)
			}
			if q.Ptr == "underExcl" && isWKP(r.pfx[c.Cfg][0]) {
				r.violate(x, "WellKnownSkipsExcludedV4", "ptr", fmt.Sprintf("PTR for excluded IPv4 %v under the well-known prefix was translated", x.ptrV4), rep, sc)
			}
			if rep.AuthenticatedData {
				r.violate(x, "NeverAD", "ptr", "the synthesised PTR/CNAME reply carries AD", rep, sc)
			}
		} else if c.Out.Kind == "ptr" && q.Rd == 1 && q.Cd == 0 && q.Elig == 1 && q.Qclass == "IN" && q.Internal == 0 && rep.Rcode != dns.RcodeServerFailure {
			r.violate(x, "PtrBack", "untranslated-"+q.Ptr, fmt.Sprintf("the matching ip6.arpa PTR query %s did not map back to %s", x.qname, inAddrName(x.ptrV4)), rep, sc)
		}
	}

	// ---- drift accounting against the model's prediction ------------
	o := c.Out
	modelObs := o.Kind
	switch {
	case q.Qtype == "PTR" && (o.Kind == "attemptfail" || o.Kind == "workfail"):
		modelObs = "ptrfail"
	}
	switch o.Kind {
	case "attemptfail":
		if modelObs == "ptrfail" {
			break
		}
		modelObs = "rewritten"
		if o.Stripped == 1 || dn.Native == "allExcl" {
			modelObs = "rewritten-stripped"
		}
	case "workfail":
		if o.Alook == 1 && modelObs != "ptrfail" {
			modelObs = "rewritten"
			if dn.Native == "allExcl" {
				modelObs = "rewritten-stripped"
			}
		}
	case "basis":
		modelObs = "rewritten"
		if o.Stripped == 1 {
			modelObs = "rewritten-stripped"
		}
	case "fallback":
		if o.Stripped == 1 {
			modelObs = "rewritten-stripped"
		}
	}
	drift := ""
	switch {
	case modelObs != obs:
		drift = fmt.Sprintf("outcome %s, model %s(%s)", obs, o.Kind, modelObs)
	case o.Rcode != "na" && rcodeOf(o.Rcode) != rep.Rcode:
		drift = fmt.Sprintf("rcode %s, model %s", dns.RcodeToString[rep.Rcode], o.Rcode)
	case (o.Ad == 1) != rep.AuthenticatedData:
		drift = fmt.Sprintf("AD %v, model %d (%s)", rep.AuthenticatedData, o.Ad, o.Kind)
	case (o.Alook == 1) != (lookups > 0):
		drift = fmt.Sprintf("%d secondary lookups, model %d", lookups, o.Alook)
	case o.Kind == "synth" && len(synthetic) != len(o.Syn):
		drift = fmt.Sprintf("%d synthesised AAAA, model %d", len(synthetic), len(o.Syn))
	case o.Kind == "synth" && len(synthetic) > 0 && int(synthetic[0].Hdr.Ttl) != o.Ttl:
		drift = fmt.Sprintf("synthesised TTL %d, model %d", synthetic[0].Hdr.Ttl, o.Ttl)
	default:
		forged := false
		for _, code := range edeCodes(rep) {
			if code == dns.ExtendedErrorCodeForgedAnswer {
				forged = true
			}
		}
		// (not comparable when the downstream reply itself carried EDE 4)
		if downHas4 := dn.Ede == "other" && x.edeCode == dns.ExtendedErrorCodeForgedAnswer; !downHas4 && (o.Ede == "forged") != forged {
			drift = fmt.Sprintf("EDE 4 present=%v, model ede=%s (%s)", forged, o.Ede, o.Kind)
		}
	}
	if drift != "" {
		r.res.DriftNote("case %d cfg=%s q=%+v down=%+v a=%+v: %s", c.Idx, c.Cfg, q, dn, c.A, drift)
	}
	r.mu.Lock()
	r.kinds["obs_"+obs]++
	r.mu.Unlock()
	key := ""
	if o.Kind != "pass" || q.Qtype == "AAAA" {
		key = fmt.Sprintf("dec:%s:%v:%v:%v", c.Cfg, q, dn, c.A)
	}
	r.res.Case(key)
	if o.Kind == "synth" && (c.Cfg == "both" || c.Cfg == "both2") && len(c.A.Recs) > 1 {
		r.res.Sample(map[string]any{"cfg": c.Cfg, "q": q, "down": dn, "a": c.A, "model": o, "reply_rcode": rep.Rcode,
			"reply_ad": rep.AuthenticatedData, "synthesised": len(synthetic)})
	}
}

func TestDecideReplay(t *testing.T) {
	var in decInput
	vh.Input(t, &in)
	res := vh.NewResult()
	defer res.Write(t)
	run := newDecRun(res, vh.Seed())
	workers := in.Workers
	if workers <= 0 {
		workers = 4
	}
	one := func(c dCase) {
		if c.Down.Ede == "dnssec" && c.Down.Rcode == "SERVFAIL" && c.Sub == 0 && len(in.Cases) == 0 {
			// a DNSSEC validation failure: every DNSSEC EDE code of RFC 8914
			for i := range dnssecEDE {
				c.Sub = i
				run.runCase(c)
			}
			return
		}
		run.runCase(c)
	}
	if in.Dump != "" {
		total, kept, err := forEachState(in.Dump, "phase = \"done\"", workers, func(idx int, st map[string]any) {
			one(decCaseFromState(idx, st))
		})
		if err != nil {
			res.Skip("reading %s: %v", in.Dump, err)
		}
		res.Count("dump_states", total)
		res.Count("dump_done", kept)
	}
	for _, st := range in.Cases {
		var c dCase
		remarshal(st, &c)
		one(c)
	}
	for k, v := range run.kinds {
		res.Count(k, v)
	}
}
