package c20

// Shared kit of the C20 (DNS64) conformance drivers:
//   - a streaming reader for TLC's plain state dump (`-dump file`): every
//     dumped state becomes a map of parsed TLA+ values (records, sequences,
//     integers, strings), handed to a pool of replay workers;
//   - a reference RFC 6052 embedding (the table of RFC 6052 section 2.2; the
//     layout driver refuses to run if the TLC model's position map differs);
//   - the scripted downstream handler / queryer and the chain runner.
//
// Only the public behaviour of middleware/dns64 is used: dns64.New, SetQueryer
// and ServeDNS through a middleware.Chain.

import (
	"bufio"
	"context"
	"fmt"
	"net"
	"net/netip"
	"os"
	"strings"
	"sync"
	"testing"

	"github.com/miekg/dns"
	"github.com/semihalev/sdns/config"
	"github.com/semihalev/sdns/internal/mock"
	"github.com/semihalev/sdns/middleware"
	"github.com/semihalev/sdns/middleware/dns64"
	"github.com/semihalev/zlog/v2"
)

func TestMain(m *testing.M) {
	logger := zlog.NewStructured()
	logger.SetLevel(zlog.LevelFatal)
	zlog.SetDefault(logger)
	os.Exit(m.Run())
}

// ---------------------------------------------------------------------------
// TLA+ value parser (the subset TLC prints for the Dns64 specs)

type tlaParser struct {
	s string
	i int
}

func (p *tlaParser) ws() {
	for p.i < len(p.s) {
		switch p.s[p.i] {
		case ' ', '\t', '\n', '\r':
			p.i++
		default:
			return
		}
	}
}

func (p *tlaParser) has(t string) bool {
	p.ws()
	return strings.HasPrefix(p.s[p.i:], t)
}

func (p *tlaParser) eat(t string) error {
	p.ws()
	if !strings.HasPrefix(p.s[p.i:], t) {
		end := p.i + 30
		if end > len(p.s) {
			end = len(p.s)
		}
		return fmt.Errorf("expected %q at %d: %q", t, p.i, p.s[p.i:end])
	}
	p.i += len(t)
	return nil
}

func (p *tlaParser) ident() string {
	p.ws()
	j := p.i
	for j < len(p.s) {
		c := p.s[j]
		if c == '_' || (c >= '0' && c <= '9') || (c >= 'a' && c <= 'z') || (c >= 'A' && c <= 'Z') {
			j++
			continue
		}
		break
	}
	id := p.s[p.i:j]
	p.i = j
	return id
}

func (p *tlaParser) value() (any, error) {
	p.ws()
	if p.i >= len(p.s) {
		return nil, fmt.Errorf("unexpected end of value")
	}
	c := p.s[p.i]
	switch {
	case c == '"':
		j := strings.IndexByte(p.s[p.i+1:], '"')
		if j < 0 {
			return nil, fmt.Errorf("unterminated string")
		}
		v := p.s[p.i+1 : p.i+1+j]
		p.i += j + 2
		return v, nil
	case strings.HasPrefix(p.s[p.i:], "<<"):
		p.i += 2
		items := []any{}
		for !p.has(">>") {
			v, err := p.value()
			if err != nil {
				return nil, err
			}
			items = append(items, v)
			if p.has(",") {
				p.i++
			}
		}
		p.i += 2
		return items, nil
	case c == '[':
		p.i++
		rec := map[string]any{}
		for !p.has("]") {
			k := p.ident()
			if k == "" {
				return nil, fmt.Errorf("bad record key at %d", p.i)
			}
			if err := p.eat("|->"); err != nil {
				return nil, err
			}
			v, err := p.value()
			if err != nil {
				return nil, err
			}
			rec[k] = v
			if p.has(",") {
				p.i++
			}
		}
		p.i++
		return rec, nil
	case c == '-' || (c >= '0' && c <= '9'):
		j := p.i + 1
		for j < len(p.s) && p.s[j] >= '0' && p.s[j] <= '9' {
			j++
		}
		n := 0
		neg := false
		for _, d := range p.s[p.i:j] {
			if d == '-' {
				neg = true
				continue
			}
			n = n*10 + int(d-'0')
		}
		if neg {
			n = -n
		}
		p.i = j
		return n, nil
	default:
		id := p.ident()
		switch id {
		case "TRUE":
			return true, nil
		case "FALSE":
			return false, nil
		case "":
			return nil, fmt.Errorf("cannot parse TLA+ value at %d: %q", p.i, p.s[p.i:])
		}
		return id, nil
	}
}

// parseState parses `/\ v1 = value /\ v2 = value ...`.
func parseState(block string) (map[string]any, error) {
	p := &tlaParser{s: block}
	st := map[string]any{}
	for {
		p.ws()
		if p.i >= len(p.s) {
			return st, nil
		}
		if err := p.eat("/\\"); err != nil {
			return nil, err
		}
		name := p.ident()
		if err := p.eat("="); err != nil {
			return nil, err
		}
		v, err := p.value()
		if err != nil {
			return nil, fmt.Errorf("%s: %v", name, err)
		}
		st[name] = v
	}
}

// forEachState streams a TLC dump; blocks whose text contains `keep` are
// parsed and passed to fn (from `workers` goroutines).  idx is the ordinal of
// the kept state in the file (stable for a given dump).
func forEachState(path, keep string, workers int, fn func(idx int, st map[string]any)) (total, kept int, err error) {
	f, err := os.Open(path)
	if err != nil {
		return 0, 0, err
	}
	defer f.Close()
	type job struct {
		idx   int
		block string
	}
	jobs := make(chan job, 1024)
	var wg sync.WaitGroup
	var perr error
	var pmu sync.Mutex
	for w := 0; w < workers; w++ {
		wg.Add(1)
		go func() {
			defer wg.Done()
			for j := range jobs {
				st, e := parseState(j.block)
				if e != nil {
					pmu.Lock()
					if perr == nil {
						perr = fmt.Errorf("state %d: %v", j.idx, e)
					}
					pmu.Unlock()
					continue
				}
				fn(j.idx, st)
			}
		}()
	}
	sc := bufio.NewScanner(f)
	sc.Buffer(make([]byte, 1<<20), 1<<24)
	var b strings.Builder
	flush := func() {
		if b.Len() == 0 {
			return
		}
		total++
		s := b.String()
		b.Reset()
		if strings.Contains(s, keep) {
			jobs <- job{kept, s}
			kept++
		}
	}
	for sc.Scan() {
		line := sc.Text()
		if strings.TrimSpace(line) == "" {
			flush()
			continue
		}
		if strings.HasPrefix(line, "State ") {
			continue
		}
		b.WriteString(line)
		b.WriteByte('\n')
	}
	flush()
	close(jobs)
	wg.Wait()
	if e := sc.Err(); e != nil {
		return total, kept, e
	}
	return total, kept, perr
}

// accessors on parsed values
func gi(m map[string]any, k string) int {
	v, _ := m[k].(int)
	return v
}
func gs(m map[string]any, k string) string {
	v, _ := m[k].(string)
	return v
}
func gm(m map[string]any, k string) map[string]any {
	v, _ := m[k].(map[string]any)
	return v
}
func gl(m map[string]any, k string) []any {
	v, _ := m[k].([]any)
	return v
}
func ints(l []any) []int {
	out := make([]int, 0, len(l))
	for _, x := range l {
		n, _ := x.(int)
		out = append(out, n)
	}
	return out
}

// ---------------------------------------------------------------------------
// RFC 6052 section 2.2 reference (octet index of the four IPv4 octets)

var rfc6052Pos = map[int][4]int{
	32: {4, 5, 6, 7},
	40: {5, 6, 7, 9},
	48: {6, 7, 9, 10},
	56: {7, 9, 10, 11},
	64: {9, 10, 11, 12},
	96: {12, 13, 14, 15},
}

// refEmbed builds prefix(plen bits) || IPv4 around the reserved octet, suffix zero.
func refEmbed(prefix []byte, plen int, v4 [4]byte) (out [16]byte, ok bool) {
	pos, legal := rfc6052Pos[plen]
	if !legal {
		return out, false
	}
	copy(out[:plen/8], prefix)
	for k := 0; k < 4; k++ {
		out[pos[k]] = v4[k]
	}
	return out, true
}

func arpaName(a [16]byte) string {
	const hexd = "0123456789abcdef"
	var b strings.Builder
	for i := 15; i >= 0; i-- {
		b.WriteByte(hexd[a[i]&0xf])
		b.WriteByte('.')
		b.WriteByte(hexd[a[i]>>4])
		b.WriteByte('.')
	}
	b.WriteString("ip6.arpa.")
	return b.String()
}

func inAddrName(v4 [4]byte) string {
	return fmt.Sprintf("%d.%d.%d.%d.in-addr.arpa.", v4[3], v4[2], v4[1], v4[0])
}

func cidrOf(prefix []byte, plen int) string {
	var a [16]byte
	copy(a[:], prefix)
	return fmt.Sprintf("%s/%d", netip.AddrFrom16(a).String(), plen)
}

func to16(ip net.IP) (a [16]byte) {
	copy(a[:], ip.To16())
	return a
}

// ---------------------------------------------------------------------------
// scripted downstream handler / queryer, chain runner

type scriptKey struct{}

// script is the per-request behaviour of the doubles around dns64.
type script struct {
	// downstream: builds the reply of the rest of the chain; mark runs
	// between building and writing it (provenance marks), with the handler's ctx.
	down func(ctx context.Context, req *dns.Msg) *dns.Msg
	mark func(ctx context.Context, m *dns.Msg) (context.Context, func())
	// queryer: the internal sub-pipeline
	query func(ctx context.Context, req *dns.Msg) (*dns.Msg, error)
	// real: the rest of the chain is this REAL handler instead of the scripted reply (decide_test.go: the
	// resolver's DNSHandler in its load-shed state); its reply and whatever provenance it attached pass unchanged
	real middleware.Handler

	downMsg  *dns.Msg // exactly what the downstream wrote (pointer)
	downSnap *dns.Msg // deep copy taken before it was written
	queries  []*dns.Msg
	aResp    *dns.Msg
}

type scriptedDownstream struct{}

func (scriptedDownstream) Name() string { return "verif-downstream" }
func (scriptedDownstream) ServeDNS(ctx context.Context, ch *middleware.Chain) {
	sc, _ := ctx.Value(scriptKey{}).(*script)
	if sc != nil && sc.real != nil {
		orig := ch.Writer
		ch.Writer = &captureWriter{ResponseWriter: orig, sc: sc}
		sc.real.ServeDNS(ctx, ch)
		ch.Writer = orig
		ch.Cancel()
		return
	}
	if sc == nil || sc.down == nil {
		ch.Cancel()
		return
	}
	m := sc.down(ctx, ch.Request.Msg())
	if m == nil {
		ch.Cancel()
		return
	}
	release := func() {}
	if sc.mark != nil {
		ctx, release = sc.mark(ctx, m)
	}
	sc.downMsg = m
	sc.downSnap = m.Copy()
	_ = ch.Writer.WriteMsg(m)
	release()
	ch.Cancel()
}

// captureWriter notes what a real downstream handler wrote (the very message: provenance marks are keyed by
// pointer identity) and hands it on to the writer it found, i.e. dns64's.
type captureWriter struct {
	middleware.ResponseWriter
	sc *script
}

func (w *captureWriter) WriteMsg(m *dns.Msg) error {
	if m != nil && w.sc.downMsg == nil {
		w.sc.downMsg = m
		w.sc.downSnap = m.Copy()
	}
	return w.ResponseWriter.WriteMsg(m)
}

type scriptedQueryer struct{}

func (scriptedQueryer) Query(ctx context.Context, req *dns.Msg) (*dns.Msg, error) {
	sc, _ := ctx.Value(scriptKey{}).(*script)
	if sc == nil || sc.query == nil {
		return nil, fmt.Errorf("verif: no script")
	}
	sc.queries = append(sc.queries, req.Copy())
	m, err := sc.query(ctx, req)
	if m != nil && len(req.Question) > 0 && req.Question[0].Qtype == dns.TypeA {
		sc.aResp = m.Copy()
	}
	return m, err
}

func newDNS64(c config.DNS64Config) *dns64.DNS64 {
	c.Enabled = true
	d := dns64.New(&config.Config{DNS64: c})
	if d != nil {
		d.SetQueryer(scriptedQueryer{})
	}
	return d
}

// serve runs one client query through [dns64, scripted downstream].
// serveReplayPass makes the next serve() the worker's replay of a query an inline-only pass declined
// (Chain.SetReplay): every decision of the handler has to be the same on that pass.
func serve(ctx context.Context, d *dns64.DNS64, client string, req *dns.Msg, sc *script) *dns.Msg {
	return serveOn(ctx, d, client, req, sc, false)
}

func serveOn(ctx context.Context, d *dns64.DNS64, client string, req *dns.Msg, sc *script, replay bool) *dns.Msg {
	ch := middleware.NewChain([]middleware.Handler{d, scriptedDownstream{}})
	w := mock.NewWriter("udp", client)
	ch.Reset(w, req)
	if replay {
		ch.SetReplay()
	}
	ch.Next(context.WithValue(ctx, scriptKey{}, sc))
	return w.Msg()
}

func aaaaOf(m *dns.Msg) []*dns.AAAA {
	var out []*dns.AAAA
	if m == nil {
		return nil
	}
	for _, rr := range m.Answer {
		if a, ok := rr.(*dns.AAAA); ok {
			out = append(out, a)
		}
	}
	return out
}

func soaRR(zone string, ttl, minimum uint32) *dns.SOA {
	return &dns.SOA{
		Hdr: dns.RR_Header{Name: zone, Rrtype: dns.TypeSOA, Class: dns.ClassINET, Ttl: ttl},
		Ns:  "ns." + zone, Mbox: "hostmaster." + zone, Serial: 1, Refresh: 7200, Retry: 3600, Expire: 604800, Minttl: minimum,
	}
}

func edeCodes(m *dns.Msg) []uint16 {
	var out []uint16
	if m == nil {
		return nil
	}
	if opt := m.IsEdns0(); opt != nil {
		for _, o := range opt.Option {
			if e, ok := o.(*dns.EDNS0_EDE); ok {
				out = append(out, e.InfoCode)
			}
		}
	}
	return out
}

func msgText(m *dns.Msg) string {
	if m == nil {
		return "<no reply>"
	}
	return m.String()
}
