package c12

// Conformance drivers for Ledger.tla on the real middleware.RecursionWorkLedger
// and the lazy owner pin of middleware.Chain.
//
// TestLedgerReplay (spec -> code): sequential call orders chosen by TLC are
// issued on the real API -- through the request context of a real Chain
// (DebitRecursionWork, CheckRecursionWorkLocalLimit, RecursionWorkFrom(ctx).Retain,
// the chain returning / FinishRecursionWork) or on a ledger made with
// NewRecursionWorkLedger -- and after every call the C12 ledger predicates are
// evaluated on what the code returned and on its observable state; the same
// projection is compared with the model state (differences that break no
// predicate are drift).
//
// TestLedgerStress (code -> spec): goroutines hammer one ledger with tiny
// caps; every call logs an invocation and a response line stamped from one
// atomic sequence.  The predicates are evaluated directly on the history and
// the history is validated by TLC against Trace_Ledger.tla (linearizability
// with respect to the model of the individual atomics).

import (
	"context"
	"encoding/json"
	"errors"
	"fmt"
	"math/rand"
	"os"
	"path/filepath"
	"runtime"
	"sort"
	"strings"
	"sync"
	"sync/atomic"
	"testing"
	"time"

	"github.com/miekg/dns"
	"github.com/semihalev/sdns/internal/contextutil"
	"github.com/semihalev/sdns/internal/mock"
	"github.com/semihalev/sdns/middleware"
	"github.com/semihalev/sdns/verifharness/vh"
)

// ---- a ledger session on the real code ----------------------------------------
type kindMap struct {
	name  string
	kinds map[string]middleware.RecursionWorkKind // model kind -> real kind
}

var kindMaps = []kindMap{
	{"network", map[string]middleware.RecursionWorkKind{
		"out": middleware.RecursionWorkOutboundQuery, "int": middleware.RecursionWorkInternalQuery, "key": middleware.RecursionWorkDNSKEYCandidate}},
	{"dnssec", map[string]middleware.RecursionWorkKind{
		"out": middleware.RecursionWorkSignature, "int": middleware.RecursionWorkNSEC3Hash, "key": middleware.RecursionWorkRRsetSignature}},
	{"mixed", map[string]middleware.RecursionWorkKind{
		"out": middleware.RecursionWorkDSDigest, "int": middleware.RecursionWorkOutboundQuery, "key": middleware.RecursionWorkConcurrentCrypto}},
}

func policyFor(mode string, caps map[string]int, km kindMap) middleware.RecursionWorkPolicy {
	p := middleware.RecursionWorkPolicy{}
	switch mode {
	case "shadow":
		p.Mode = middleware.RecursionWorkShadow
	case "enforce":
		p.Mode = middleware.RecursionWorkEnforce
	default:
		p.Mode = middleware.RecursionWorkOff
	}
	// every dimension that is not under test gets a huge cap
	big := uint32(1 << 30)
	p.MaxOutboundQueries, p.MaxInternalQueries, p.MaxDNSKEYCandidates, p.MaxRRsetSignatureChecks = big, big, big, big
	p.MaxSignatureChecks, p.MaxDSDigests, p.MaxNSEC3Hashes, p.MaxConcurrentCrypto = big, big, big, big
	for mk, rk := range km.kinds {
		c := uint32(caps[mk])
		switch rk {
		case middleware.RecursionWorkOutboundQuery:
			p.MaxOutboundQueries = c
		case middleware.RecursionWorkInternalQuery:
			p.MaxInternalQueries = c
		case middleware.RecursionWorkDNSKEYCandidate:
			p.MaxDNSKEYCandidates = c
		case middleware.RecursionWorkRRsetSignature:
			p.MaxRRsetSignatureChecks = c
		case middleware.RecursionWorkSignature:
			p.MaxSignatureChecks = c
		case middleware.RecursionWorkDSDigest:
			p.MaxDSDigests = c
		case middleware.RecursionWorkNSEC3Hash:
			p.MaxNSEC3Hashes = c
		case middleware.RecursionWorkConcurrentCrypto:
			p.MaxConcurrentCrypto = c
		}
	}
	return p
}

type session struct {
	mode   string
	lazy   bool
	km     kindMap
	caps   map[string]int
	policy middleware.RecursionWorkPolicy

	// lazy: a real Chain owns the completion boundary
	ch       *middleware.Chain
	lctx     *contextutil.LazyDeadline
	hctx     context.Context
	ret      chan struct{}
	returned chan struct{}
	retOnce  sync.Once
	chainRet atomic.Bool

	// direct
	ledger *middleware.RecursionWorkLedger

	pubBase uint64
}

func newSession(mode string, lazy bool, km kindMap, caps map[string]int) (*session, error) {
	s := &session{mode: mode, lazy: lazy, km: km, caps: caps, policy: policyFor(mode, caps, km)}
	s.pubBase = middleware.VerifC12Publications()
	if !lazy {
		s.ledger = middleware.NewRecursionWorkLedger(s.policy)
		s.hctx = middleware.WithRecursionWork(context.Background(), s.ledger)
		return s, nil
	}
	s.ret = make(chan struct{})
	s.returned = make(chan struct{})
	ready := make(chan struct{})
	h := middleware.HandlerFunc(func(ctx context.Context, ch *middleware.Chain) {
		s.hctx = ctx
		close(ready)
		<-s.ret
		ch.Cancel()
	})
	s.ch = new(middleware.Chain)
	s.ch.Bind([]middleware.Handler{h}, s.policy)
	req := new(dns.Msg)
	req.SetQuestion("ledger.verif.example.", dns.TypeA)
	s.ch.Reset(mock.NewWriter("udp", "203.0.113.9:5353"), req)
	s.lctx = contextutil.WithLazyTimeout(context.Background(), time.Minute)
	go func() {
		s.ch.Next(s.lctx)
		s.chainRet.Store(true)
		close(s.returned)
	}()
	select {
	case <-ready:
	case <-time.After(10 * time.Second):
		return nil, errors.New("the chain never reached the handler")
	}
	if pin, _ := middleware.VerifC12Pin(s.hctx); pin != "pending" {
		return nil, fmt.Errorf("a fresh lazily owned request has pin %q, expected pending", pin)
	}
	return s, nil
}

func (s *session) close() {
	if s.lazy {
		s.retOnce.Do(func() { close(s.ret) })
		<-s.returned
		s.lctx.Cancel()
	}
}

func (s *session) ctx(latch bool) context.Context {
	if latch {
		return s.hctx
	}
	return middleware.WithBestEffortRecursionWork(s.hctx)
}

func resultOf(err error) string {
	switch {
	case err == nil:
		return "nil"
	case errors.Is(err, middleware.ErrRecursionWorkLimit):
		return "limit"
	case errors.Is(err, context.Canceled):
		return "canceled"
	}
	return "error:" + err.Error()
}

func (s *session) debit(k string, latch bool) string {
	return resultOf(middleware.DebitRecursionWork(s.ctx(latch), s.km.kinds[k]))
}

func (s *session) local(k string, used int, latch bool) string {
	return resultOf(middleware.CheckRecursionWorkLocalLimit(s.ctx(latch), s.km.kinds[k], uint32(used)))
}

func (s *session) current() *middleware.RecursionWorkLedger {
	if !s.lazy {
		return s.ledger
	}
	return middleware.RecursionWorkFrom(s.hctx)
}

func (s *session) retain() (func(), bool) { return s.current().Retain() }

// finish: the owner's completion.  The first one is the chain returning (the
// deferred lazy finish); later ones, and all of them in direct mode, are
// FinishRecursionWork on the request context.
func (s *session) finish() {
	if s.lazy && !s.chainRet.Load() {
		s.retOnce.Do(func() { close(s.ret) })
		<-s.returned
		return
	}
	middleware.FinishRecursionWork(s.hctx)
}

type projection struct {
	RootState string          `json:"rootState"`
	Live      bool            `json:"live"`
	Closed    bool            `json:"closed"`
	Counter   map[string]int  `json:"counter"`
	Exhausted map[string]bool `json:"exhausted"`
	First     string          `json:"first"`
	Refs      int64           `json:"refs"`
	Finished  bool            `json:"finished"`
	Published int             `json:"published"`
}

func counterOf(sn middleware.RecursionWorkSnapshot, k middleware.RecursionWorkKind) (int, bool) {
	switch k {
	case middleware.RecursionWorkOutboundQuery:
		return int(sn.OutboundQueries), sn.OutboundExhausted
	case middleware.RecursionWorkInternalQuery:
		return int(sn.InternalQueries), sn.InternalExhausted
	case middleware.RecursionWorkSignature:
		return int(sn.SignatureChecks), sn.SignatureChecksExhausted
	case middleware.RecursionWorkDSDigest:
		return int(sn.DSDigests), sn.DSDigestsExhausted
	case middleware.RecursionWorkNSEC3Hash:
		return int(sn.NSEC3Hashes), sn.NSEC3HashesExhausted
	case middleware.RecursionWorkDNSKEYCandidate:
		return 0, sn.DNSKEYCandidatesExhausted
	case middleware.RecursionWorkRRsetSignature:
		return 0, sn.RRsetSignatureChecksExhausted
	case middleware.RecursionWorkConcurrentCrypto:
		return 0, sn.ConcurrentCryptoExhausted
	}
	return 0, false
}

func (s *session) project() projection {
	p := projection{Counter: map[string]int{}, Exhausted: map[string]bool{}, First: "none"}
	p.Published = int(middleware.VerifC12Publications() - s.pubBase)
	var led *middleware.RecursionWorkLedger
	if s.lazy {
		pin, pl := middleware.VerifC12Pin(s.lctx)
		switch pin {
		case "pending":
			p.RootState = "pending"
		case "closed":
			p.RootState, p.Closed = "closed", true
		case "ledger":
			led = pl
		default:
			p.RootState = "nopin"
		}
	} else {
		led = s.ledger
	}
	for mk := range s.km.kinds {
		if mk != "key" {
			p.Counter[mk] = 0
		}
		p.Exhausted[mk] = false
	}
	if led != nil {
		p.Live = true
		if led.VerifC12RootState() == 0 {
			p.RootState = "live"
		} else {
			p.RootState = "rootDone"
		}
		sn := led.Snapshot()
		for mk, rk := range s.km.kinds {
			c, ex := counterOf(sn, rk)
			if mk != "key" {
				p.Counter[mk] = c
			}
			p.Exhausted[mk] = ex
		}
		if f := led.VerifC12First(); f != 0 {
			for mk, rk := range s.km.kinds {
				if uint32(rk)+1 == f {
					p.First = mk
				}
			}
			if p.First == "none" {
				p.First = fmt.Sprintf("kind%d", f-1)
			}
		}
		p.Refs = led.VerifC12Refs()
		p.Finished = led.VerifC12Finished()
	}
	return p
}

// latchedKind is what EnforcementError reports ("none", a model kind, "canceled").
func (s *session) latchedKind() string {
	err := middleware.RecursionWorkEnforcementError(s.hctx)
	if err == nil {
		return "none"
	}
	if errors.Is(err, context.Canceled) {
		return "canceled"
	}
	var le *middleware.RecursionWorkLimitError
	if errors.As(err, &le) {
		for mk, rk := range s.km.kinds {
			if rk == le.Kind {
				return mk
			}
		}
		return fmt.Sprintf("kind%d", le.Kind)
	}
	return "error:" + err.Error()
}

// ---- sequential replay of TLC call orders ---------------------------------------
type lrOp struct {
	Label  string         `json:"label"`
	Op     string         `json:"op"` // debit | local | retain | release | finish
	P      int            `json:"p"`
	K      string         `json:"k"`
	Latch  bool           `json:"lt"`
	U      int            `json:"u"`
	Result string         `json:"result"` // model lastRes
	Post   map[string]any `json:"post"`   // model projection after the call
}

type lrBehaviour struct {
	ID  string `json:"id"`
	Ops []lrOp `json:"ops"`
}

type lrInput struct {
	Name       string         `json:"name"`
	Mode       string         `json:"mode"`
	Lazy       bool           `json:"lazy"`
	Caps       map[string]int `json:"caps"`
	Behaviours []lrBehaviour  `json:"behaviours"`
}

type lrInputs struct {
	Runs []lrInput `json:"runs"`
}

func TestLedgerReplay(t *testing.T) {
	var all lrInputs
	vh.Input(t, &all)
	res := vh.NewResult()
	defer res.Write(t)
	for ri := range all.Runs {
		if !ledgerReplayRun(res, &all.Runs[ri]) {
			return
		}
	}
}

func ledgerReplayRun(res *vh.Result, in *lrInput) bool {
	for bi := range in.Behaviours {
		b := &in.Behaviours[bi]
		km := kindMaps[(bi+int(vh.Seed()))%len(kindMaps)]
		if err := replayLedger(res, in, b, km); err != nil {
			res.Skip("behaviour %s: %v", b.ID, err)
			return false
		}
		res.Count("cases_"+in.Name, 1)
		key := make([]string, 0, len(b.Ops))
		for _, o := range b.Ops {
			key = append(key, o.Label)
		}
		res.Case(fmt.Sprintf("ledger:%s:%v:%s", in.Mode, in.Lazy, strings.Join(key, ";")))
		if bi < 2 {
			res.Sample(map[string]any{"driver": "ledger-replay", "mode": in.Mode, "lazy": in.Lazy, "kinds": km.name, "calls": key})
		}
	}
	return true
}

func replayLedger(res *vh.Result, in *lrInput, b *lrBehaviour, km kindMap) error {
	s, err := newSession(in.Mode, in.Lazy, km, in.Caps)
	if err != nil {
		return err
	}
	defer s.close()
	var hist []string
	violate := func(pred, what string) {
		res.Violate("ledger/"+pred, fmt.Sprintf("RecursionWorkLedger %s [mode=%s lazy=%v kinds=%s caps=%v] after calls %v: %s", pred, in.Mode, in.Lazy, km.name, in.Caps, hist, what),
			map[string]any{"driver": "ledger-replay", "mode": in.Mode, "lazy": in.Lazy, "kinds": km.name, "caps": in.Caps, "behaviour": b.ID, "calls": hist, "behaviour_full": b})
	}
	tokens := map[int][]func(){} // per model process: retained release functions
	held := 0
	nilDebits := map[string]int{}
	liveDebits := map[string]int{}
	rootFinished := false
	firstRequired := "none" // kind of the first required rejection (enforce)
	for oi := range b.Ops {
		o := &b.Ops[oi]
		hist = append(hist, o.Label)
		before := s.project()
		var got string
		switch o.Op {
		case "debit":
			got = s.debit(o.K, o.Latch)
			if got == "nil" && before.RootState != "closed" && in.Mode != "off" {
				nilDebits[o.K]++
			}
			if got != "canceled" && in.Mode != "off" {
				liveDebits[o.K]++
			}
		case "local":
			got = s.local(o.K, o.U, o.Latch)
		case "retain":
			rel, ok := s.retain()
			got = "refused"
			if ok {
				if rel == nil {
					violate("PublishOnce", "Retain reported success without a release function")
					return nil
				}
				got = "retained"
				tokens[o.P] = append(tokens[o.P], rel)
				held++
			}
		case "release":
			if len(tokens[o.P]) == 0 {
				return fmt.Errorf("model releases a token process %d does not hold in the code", o.P)
			}
			rel := tokens[o.P][0]
			tokens[o.P] = tokens[o.P][1:]
			rel()
			rel() // release functions are once-safe
			held--
			got = "released"
		case "finish":
			s.finish()
			if before.RootState == "live" || before.RootState == "pending" {
				rootFinished = true
			}
			got = o.Result
		default:
			return fmt.Errorf("unknown op %q", o.Op)
		}
		res.Count("calls", 1)
		res.Count("calls_"+in.Name, 1)
		after := s.project()
		if strings.HasPrefix(got, "error:") {
			violate("UnexpectedError", fmt.Sprintf("%s returned %s", o.Label, got))
			return nil
		}

		// ---- predicates on the real code ----
		if in.Mode == "enforce" {
			for k, n := range nilDebits {
				if n > in.Caps[k] || after.Counter[k] > in.Caps[k] {
					violate("AcceptedNeverExceedsCap", fmt.Sprintf("%d debits of kind %q were accepted (counter %d), the cap is %d", n, k, after.Counter[k], in.Caps[k]))
					return nil
				}
			}
			if got == "limit" && o.Latch && firstRequired == "none" {
				firstRequired = o.K
			}
			if lk := s.latchedKind(); after.Live && lk != firstRequired {
				pred := "FirstRejectionLatched"
				if firstRequired == "none" {
					pred = "BestEffortDoesNotLatch"
				}
				violate(pred, fmt.Sprintf("EnforcementError reports %q; the first required rejection so far is %q", lk, firstRequired))
				return nil
			}
		}
		if in.Mode == "shadow" {
			if got == "limit" {
				violate("ShadowNeverRejects", fmt.Sprintf("%s returned the limit error in shadow mode", o.Label))
				return nil
			}
			for k, n := range liveDebits {
				if after.Live && after.Counter[k] != n {
					violate("ShadowNeverRejects", fmt.Sprintf("shadow mode counted %d of %d debits of kind %q", after.Counter[k], n, k))
					return nil
				}
			}
			if after.Live && s.latchedKind() != "none" {
				violate("ShadowNeverRejects", "EnforcementError is set in shadow mode")
				return nil
			}
		}
		if before.RootState == "closed" {
			bad := (o.Op == "debit" || o.Op == "local") && got != "canceled"
			bad = bad || (o.Op == "retain" && got != "refused")
			bad = bad || after.RootState != "closed" || after.Published != before.Published
			if bad {
				violate("ClosedLedgerRejects", fmt.Sprintf("%s on a closed request returned %q and left the pin %s", o.Label, got, after.RootState))
				return nil
			}
		}
		wantPub := 0
		if after.Live && rootFinished && held == 0 {
			wantPub = 1
		}
		if after.Published != wantPub {
			violate("PublishOnce", fmt.Sprintf("%d publication(s) after %s; root finished=%v, retained jobs outstanding=%d: expected %d", after.Published, o.Label, rootFinished, held, wantPub))
			return nil
		}

		// ---- model comparison (drift) ----
		if o.Op != "finish" && o.Op != "release" && got != o.Result {
			res.DriftNote("ledger %s: %s returned %q, model %q (calls %v)", b.ID, o.Label, got, o.Result, hist)
			return nil
		}
		if d := diffProjection(after, o.Post); d != "" {
			res.DriftNote("ledger %s: after %v: %s", b.ID, hist, d)
			return nil
		}
	}
	return nil
}

func diffProjection(p projection, m map[string]any) string {
	num := func(v any) int {
		f, _ := v.(float64)
		return int(f)
	}
	if rs, _ := m["rootState"].(string); rs != p.RootState {
		return fmt.Sprintf("rootState %s, model %s", p.RootState, rs)
	}
	if c, ok := m["counter"].(map[string]any); ok {
		for k, v := range c {
			if p.Counter[k] != num(v) {
				return fmt.Sprintf("counter[%s] %d, model %d", k, p.Counter[k], num(v))
			}
		}
	}
	if ex, ok := m["exhausted"].([]any); ok {
		want := map[string]bool{}
		for _, k := range ex {
			want[k.(string)] = true
		}
		for k, v := range p.Exhausted {
			if v != want[k] {
				return fmt.Sprintf("exhausted[%s] %v, model %v", k, v, want[k])
			}
		}
	}
	if f, _ := m["first"].(string); f != p.First {
		return fmt.Sprintf("first %s, model %s", p.First, f)
	}
	if p.Live {
		if int(p.Refs) != num(m["refs"]) {
			return fmt.Sprintf("refs %d, model %d", p.Refs, num(m["refs"]))
		}
		if fin, _ := m["finished"].(bool); fin != p.Finished {
			return fmt.Sprintf("finished %v, model %v", p.Finished, fin)
		}
	}
	if p.Published != num(m["published"]) {
		return fmt.Sprintf("published %d, model %d", p.Published, num(m["published"]))
	}
	return ""
}

// ---- concurrent stress ------------------------------------------------------------
type lsInputs struct {
	Runs []lsInput `json:"runs"`
}

type lsInput struct {
	Name     string         `json:"name"`
	Mode     string         `json:"mode"`
	Lazy     bool           `json:"lazy"`
	Caps     map[string]int `json:"caps"`
	Rounds   int            `json:"rounds"`
	Procs    int            `json:"procs"`
	Ops      int            `json:"ops"`
	TraceOut string         `json:"traceOut"` // empty: predicates only (many goroutines)
}

type lsEvent struct {
	seq  int64
	line map[string]any
}

func TestLedgerStress(t *testing.T) {
	var all lsInputs
	vh.Input(t, &all)
	res := vh.NewResult()
	defer res.Write(t)
	for ri := range all.Runs {
		if !ledgerStressRun(t, res, &all.Runs[ri]) {
			return
		}
	}
}

func ledgerStressRun(t *testing.T, res *vh.Result, in *lsInput) bool {
	var out *os.File
	if in.TraceOut != "" {
		var err error
		out, err = os.Create(filepath.Clean(in.TraceOut))
		if err != nil {
			t.Fatal(err)
		}
		defer out.Close()
	}
	master := vh.Rand()
	for round := 0; round < in.Rounds; round++ {
		km := kindMaps[(round+int(vh.Seed()))%len(kindMaps)]
		lines, err := stressRound(res, in, round, km, master.Int63())
		if err != nil {
			res.Skip("%s round %d: %v", in.Name, round, err)
			return false
		}
		if lines == nil {
			return false // violation recorded
		}
		res.Case(fmt.Sprintf("stress:%s:%d:%s", in.Name, round, km.name))
		res.Count("rounds_"+in.Name, 1)
		if out != nil {
			for _, e := range lines {
				b, _ := json.Marshal(e)
				out.Write(append(b, '\n'))
			}
			res.Count("traces_"+in.Name, 1)
		}
	}
	return true
}

func stressRound(res *vh.Result, in *lsInput, round int, km kindMap, seed int64) ([]map[string]any, error) {
	s, err := newSession(in.Mode, in.Lazy, km, in.Caps)
	if err != nil {
		return nil, err
	}
	defer s.close()
	replay := map[string]any{"driver": "ledger-stress", "mode": in.Mode, "lazy": in.Lazy, "kinds": km.name, "caps": in.Caps, "round": round, "seed": vh.Seed()}
	violate := func(pred, what string) {
		res.Violate("ledger-stress/"+pred, fmt.Sprintf("RecursionWorkLedger %s under concurrent use [mode=%s lazy=%v kinds=%s caps=%v round=%d]: %s", pred, in.Mode, in.Lazy, km.name, in.Caps, round, what), replay)
	}
	var (
		seq       atomic.Int64
		perProc   = make([][]lsEvent, in.Procs+2) // one log per goroutine (+1: the quiescing driver), merged by seq
		bad       atomic.Bool
		nilDebits sync.Map // kind -> *atomic.Int64
		debits    sync.Map // kind -> *atomic.Int64 (not canceled)
		latchSeen atomic.Value
		limitReq  atomic.Bool // a required rejection was returned
	)
	latchSeen.Store("none")
	for k := range km.kinds {
		nilDebits.Store(k, new(atomic.Int64))
		debits.Store(k, new(atomic.Int64))
	}
	logTo := func(slot int, line map[string]any) {
		perProc[slot] = append(perProc[slot], lsEvent{seq.Add(1), line})
	}
	kindsAgg := []string{"out", "int"}
	ownerFinishAt := rand.New(rand.NewSource(seed)).Intn(in.Ops + 1) // == Ops: only at quiescence
	var wg sync.WaitGroup
	tokens := make([][]func(), in.Procs+1)
	start := make(chan struct{})
	for p := 1; p <= in.Procs; p++ {
		wg.Add(1)
		go func(p int) {
			defer wg.Done()
			rng := rand.New(rand.NewSource(seed + int64(p)*7919))
			log := func(line map[string]any) {
				if rng.Intn(3) == 0 {
					runtime.Gosched() // widen the invocation/response windows
				}
				logTo(p, line)
				if rng.Intn(3) == 0 {
					runtime.Gosched()
				}
			}
			<-start
			for i := 0; i < in.Ops && !bad.Load(); i++ {
				choice := rng.Intn(10)
				switch {
				case p == 1 && i == ownerFinishAt:
					log(map[string]any{"ev": "inv", "p": p, "op": "finish"})
					s.finish()
					log(map[string]any{"ev": "res", "p": p, "op": "finish", "res": "done"})
				case choice < 5:
					k := kindsAgg[rng.Intn(2)]
					lt := rng.Intn(3) != 0
					log(map[string]any{"ev": "inv", "p": p, "op": "debit", "k": k, "lt": lt})
					got := s.debit(k, lt)
					log(map[string]any{"ev": "res", "p": p, "op": "debit", "res": got})
					if got == "nil" && in.Mode != "off" {
						c, _ := nilDebits.Load(k)
						n := c.(*atomic.Int64).Add(1)
						if in.Mode == "enforce" && int(n) > in.Caps[k] {
							violate("AcceptedNeverExceedsCap", fmt.Sprintf("%d concurrent debits of kind %q returned nil, the cap is %d", n, k, in.Caps[k]))
							bad.Store(true)
						}
					}
					if got != "canceled" && in.Mode != "off" {
						c, _ := debits.Load(k)
						c.(*atomic.Int64).Add(1)
					}
					if got == "limit" {
						if in.Mode == "shadow" {
							violate("ShadowNeverRejects", fmt.Sprintf("a debit of kind %q returned the limit error in shadow mode", k))
							bad.Store(true)
						}
						if lt {
							limitReq.Store(true)
							if lk := s.latchedKind(); lk == "none" {
								violate("FirstRejectionLatched", fmt.Sprintf("a required debit of kind %q was rejected but EnforcementError is still nil", k))
								bad.Store(true)
							}
						}
					}
					if strings.HasPrefix(got, "error:") {
						violate("UnexpectedError", got)
						bad.Store(true)
					}
				case choice < 6:
					u := rng.Intn(in.Caps["key"] + 2)
					lt := rng.Intn(2) == 0
					log(map[string]any{"ev": "inv", "p": p, "op": "local", "k": "key", "u": u, "lt": lt})
					got := s.local("key", u, lt)
					log(map[string]any{"ev": "res", "p": p, "op": "local", "res": got})
					if got == "limit" && in.Mode == "shadow" {
						violate("ShadowNeverRejects", "a local limit check returned the limit error in shadow mode")
						bad.Store(true)
					}
					if got == "limit" && lt {
						limitReq.Store(true)
					}
				case choice < 8 && len(tokens[p]) < 2:
					log(map[string]any{"ev": "inv", "p": p, "op": "retain"})
					rel, ok := s.retain()
					r := "refused"
					if ok {
						r = "retained"
						tokens[p] = append(tokens[p], rel)
					}
					log(map[string]any{"ev": "res", "p": p, "op": "retain", "res": r})
				case len(tokens[p]) > 0:
					rel := tokens[p][0]
					tokens[p] = tokens[p][1:]
					if n := int(middleware.VerifC12Publications() - s.pubBase); n != 0 {
						violate("PublishOnce", fmt.Sprintf("%d publication(s) while a retained job had not released yet", n))
						bad.Store(true)
					}
					log(map[string]any{"ev": "inv", "p": p, "op": "release"})
					rel()
					rel()
					log(map[string]any{"ev": "res", "p": p, "op": "release", "res": "released"})
				default:
					continue
				}
				// the latch never changes once set
				if lk := s.latchedKind(); lk != "none" && lk != "canceled" {
					if prev := latchSeen.Load().(string); prev == "none" {
						latchSeen.CompareAndSwap("none", lk)
					}
					if prev := latchSeen.Load().(string); prev != "none" && prev != lk {
						violate("FirstRejectionLatched", fmt.Sprintf("EnforcementError changed from %q to %q", prev, lk))
						bad.Store(true)
					}
				}
			}
		}(p)
	}
	close(start)
	done := make(chan struct{})
	go func() { wg.Wait(); close(done) }()
	select {
	case <-done:
	case <-time.After(60 * time.Second):
		return nil, errors.New("stress goroutines did not finish")
	}
	if bad.Load() {
		return nil, nil
	}
	// quiesce: the owner finishes (if it has not), every retained job releases
	log := func(line map[string]any) { logTo(in.Procs+1, line) }
	log(map[string]any{"ev": "inv", "p": 1, "op": "finish"})
	s.finish()
	log(map[string]any{"ev": "res", "p": 1, "op": "finish", "res": "done"})
	for p := 1; p <= in.Procs; p++ {
		for _, rel := range tokens[p] {
			if n := int(middleware.VerifC12Publications() - s.pubBase); n != 0 {
				violate("PublishOnce", fmt.Sprintf("%d publication(s) while a retained job had not released yet", n))
				return nil, nil
			}
			log(map[string]any{"ev": "inv", "p": p, "op": "release"})
			rel()
			log(map[string]any{"ev": "res", "p": p, "op": "release", "res": "released"})
		}
	}
	end := s.project()
	if in.Mode == "enforce" && end.Live {
		for _, k := range kindsAgg {
			c, _ := nilDebits.Load(k)
			n := int(c.(*atomic.Int64).Load())
			if end.Counter[k] > in.Caps[k] || n != end.Counter[k] {
				violate("AcceptedNeverExceedsCap", fmt.Sprintf("kind %q: %d debits were accepted, the counter says %d, the cap is %d", k, n, end.Counter[k], in.Caps[k]))
				return nil, nil
			}
			d, _ := debits.Load(k)
			if want := min(int(d.(*atomic.Int64).Load()), in.Caps[k]); n != want {
				violate("AcceptedNeverExceedsCap", fmt.Sprintf("kind %q: %d of %d debits were accepted with cap %d (expected %d)", k, n, d.(*atomic.Int64).Load(), in.Caps[k], want))
				return nil, nil
			}
		}
		if limitReq.Load() && end.First == "none" {
			violate("FirstRejectionLatched", "required work was rejected but nothing is latched at the end")
			return nil, nil
		}
		if !limitReq.Load() && end.First != "none" {
			violate("BestEffortDoesNotLatch", fmt.Sprintf("%q is latched although no required work was rejected", end.First))
			return nil, nil
		}
	}
	if in.Mode == "shadow" && end.Live {
		for _, k := range kindsAgg {
			d, _ := debits.Load(k)
			if n := int(d.(*atomic.Int64).Load()); end.Counter[k] != n {
				violate("ShadowNeverRejects", fmt.Sprintf("kind %q: shadow mode counted %d of %d debits", k, end.Counter[k], n))
				return nil, nil
			}
			if (end.Counter[k] > in.Caps[k]) != end.Exhausted[k] {
				violate("ShadowNeverRejects", fmt.Sprintf("kind %q: counter %d, cap %d, but the crossing flag is %v", k, end.Counter[k], in.Caps[k], end.Exhausted[k]))
				return nil, nil
			}
		}
		if end.First != "none" {
			violate("ShadowNeverRejects", "a rejection is latched in shadow mode")
			return nil, nil
		}
	}
	wantPub := 0
	if end.Live {
		wantPub = 1
	}
	if end.Published != wantPub {
		violate("PublishOnce", fmt.Sprintf("%d publication(s) after the owner finished and every retained job released (ledger materialized: %v)", end.Published, end.Live))
		return nil, nil
	}
	if end.Live && (end.Refs != 0 || !end.Finished) {
		violate("PublishOnce", fmt.Sprintf("quiescent ledger has refs=%d finished=%v", end.Refs, end.Finished))
		return nil, nil
	}
	if rel, ok := s.retain(); ok || rel != nil {
		violate("PublishOnce", "Retain succeeded after the final publication")
		return nil, nil
	}
	if in.Lazy && !end.Live && in.Mode != "off" {
		// no work ever materialized a ledger: the pin must be closed and reject
		if got := s.debit("out", true); end.RootState != "closed" || got != "canceled" {
			violate("ClosedLedgerRejects", fmt.Sprintf("finished request without a ledger: pin %s, late debit returned %q", end.RootState, got))
			return nil, nil
		}
	}
	if in.Lazy && in.Mode != "off" {
		if got := s.debit("out", true); end.RootState == "closed" && got != "canceled" {
			violate("ClosedLedgerRejects", fmt.Sprintf("late debit on a closed request returned %q", got))
			return nil, nil
		}
	}
	var events []lsEvent
	for _, pe := range perProc {
		events = append(events, pe...)
	}
	res.Count("calls_"+in.Name, len(events)/2)
	sort.Slice(events, func(i, j int) bool { return events[i].seq < events[j].seq })
	open := 0
	for _, e := range events {
		if e.line["ev"] == "inv" {
			if open > 0 {
				res.Count("overlapping_calls_"+in.Name, 1)
			}
			open++
		} else {
			open--
		}
	}
	lines := []map[string]any{{"ev": "Reset"}}
	for _, e := range events {
		lines = append(lines, e.line)
	}
	endLine := map[string]any{"ev": "end", "counter": end.Counter, "exhausted": end.Exhausted, "first": end.First,
		"refs": end.Refs, "finished": end.Finished, "published": end.Published, "live": end.Live, "closed": end.Closed}
	for _, k := range kindsAgg {
		if _, ok := end.Counter[k]; !ok {
			end.Counter[k] = 0
		}
	}
	lines = append(lines, endLine)
	return lines, nil
}

// ---- cap race: the first debits of a tree, released together -----------------------
type lcInput struct {
	Rounds int `json:"rounds"`
	Procs  int `json:"procs"`
}

// TestLedgerCapRace targets the one window the stress rarely hits: several
// goroutines debiting the same fresh counter at the same instant.  Each round
// makes a new ledger with cap 1..3, spins G goroutines on a start flag and
// lets each debit a few times; accepted debits must equal min(cap, attempts)
// and the counter must say the same.
func TestLedgerCapRace(t *testing.T) {
	var in lcInput
	vh.Input(t, &in)
	res := vh.NewResult()
	defer res.Write(t)
	rng := vh.Rand()
	for round := 0; round < in.Rounds; round++ {
		capv := 1 + rng.Intn(3)
		km := kindMaps[round%len(kindMaps)]
		caps := map[string]int{"out": capv, "int": 1 << 20, "key": 1 << 20}
		mode := "enforce"
		ledger := middleware.NewRecursionWorkLedger(policyFor(mode, caps, km))
		kind := km.kinds["out"]
		var (
			start    atomic.Bool
			accepted atomic.Int64
			limited  atomic.Int64
			other    atomic.Int64
			wg       sync.WaitGroup
		)
		per := 1 + rng.Intn(2)
		for g := 0; g < in.Procs; g++ {
			wg.Add(1)
			go func(best bool) {
				defer wg.Done()
				for !start.Load() {
				}
				for i := 0; i < per; i++ {
					var err error
					if best {
						err = ledger.DebitBestEffort(kind)
					} else {
						err = ledger.Debit(kind)
					}
					switch resultOf(err) {
					case "nil":
						accepted.Add(1)
					case "limit":
						limited.Add(1)
					default:
						other.Add(1)
					}
				}
			}(g%3 == 0)
		}
		start.Store(true)
		wg.Wait()
		attempts := in.Procs * per
		want := min(capv, attempts)
		c, _ := counterOf(ledger.Snapshot(), kind)
		if int(accepted.Load()) != want || c != want || other.Load() != 0 || int(accepted.Load()+limited.Load()) != attempts {
			res.Violate("ledger-race/AcceptedNeverExceedsCap",
				fmt.Sprintf("RecursionWorkLedger AcceptedNeverExceedsCap under %d goroutines debiting a fresh counter together (cap %d, kinds=%s): %d of %d debits were accepted, the counter says %d, %d other results",
					in.Procs, capv, km.name, accepted.Load(), attempts, c, other.Load()),
				map[string]any{"driver": "ledger-race", "round": round, "seed": vh.Seed(), "procs": in.Procs, "cap": capv})
			return
		}
		res.Count("debits", attempts)
		if round%500 == 0 {
			res.Case(fmt.Sprintf("race:%d:%d", capv, per))
		}
	}
	res.Case("race:done")
}
