// Package c12topo is the pipeline tier of C12: every TLC-generated dependency
// topology (ResolveWork.tla Init choice) is concretised into scripted
// authoritative zones and resolved through the real default chain
// (cache + resolver + ...), while the scripted servers count what reaches them.
//
// Oracles (property predicates, evaluated on the real code only):
//   Terminates          a reply (answer / NXDOMAIN / SERVFAIL) arrives within the
//                       configured query timeout + margin (watchdog, never a hang)
//   WithinBudget        enforce mode: packets received upstream for one client query
//                       <= max_outbound_queries; alias hops followed <= max_internal_queries
//   OverBudgetIsPrivate enforce mode: an over-budget SERVFAIL (+EDE for EDNS clients) is not
//                       what a second client with a fresh budget is served from cache
//   ShadowEqualsOff     shadow replies (rcode, answer set) equal firewall-off replies
// IPv6 access is a configuration dimension (Case.IPv6 = the model's v6): every referral
// then starts a detached nameserver-enrichment job that outlives the reply. For those
// cases one request tree is counted until the resolver instance has no detached helper job
// left (overlay accessor VerifC12Detached), and WithinBudget is judged on that total.
// Everything else (model predicted "answer" but the code says SERVFAIL, packet counts
// different from the model's) is drift.
package c12topo

import (
	"encoding/base64"
	"encoding/json"
	"fmt"
	"net"
	"os"
	"path/filepath"
	"sort"
	"strings"
	"sync"
	"sync/atomic"
	"testing"
	"time"

	"github.com/miekg/dns"
	"github.com/semihalev/sdns/config"
	"github.com/semihalev/sdns/middleware/resolver"
	"github.com/semihalev/sdns/server"
	"github.com/semihalev/sdns/verifharness/authkit"
	"github.com/semihalev/sdns/verifharness/pipe"
	"github.com/semihalev/sdns/verifharness/vh"
)

type Node struct {
	Kind string `json:"kind"` // A CNAME DNAME NS LAME REFUSE SELFREF REFGEN
	Tgt  []int  `json:"tgt"`  // 1-based node indexes
	Fan  int    `json:"fan"`  // REFGEN: glueless NS names per referral level
}

type Variant struct {
	Label    string `json:"label"`
	Mode     string `json:"mode"` // off | shadow | enforce
	MaxOut   uint32 `json:"maxOut"`
	MaxInt   uint32 `json:"maxInt"`
	QMin     int    `json:"qmin"`
	Maxdepth int    `json:"maxdepth"`
	NoEDNS   bool   `json:"noEdns"`
	// Rel makes the budget relative to what firewall-off needed for the same topology
	// (same qmin/maxdepth/edns group, run earlier in the list):
	//   under    max_outbound = packets(off) - 1     (must go over budget)
	//   exact    max_outbound = packets(off)
	//   underInt max_internal = alias hops(off) - 1
	Rel string `json:"rel"`
	// DNSSEC work budgets (0 = default)
	MaxSig   uint32 `json:"maxSig"`
	MaxKeys  uint32 `json:"maxKeys"`
	MaxRRSig uint32 `json:"maxRRSig"`
	MaxN3    uint32 `json:"maxN3"`
}

// Stress decorates the namespace for the DNSSEC budgets.
type Stress struct {
	Keys     int  `json:"keys"`     // extra DNSKEYs published in every leaf zone
	SameTag  bool `json:"sameTag"`  // try to find extra keys colliding with the signing key's tag
	Sigs     int  `json:"sigs"`     // extra (bogus, same-tag) RRSIGs put in front of every RRset's real one
	N3Iter   int  `json:"n3iter"`   // NSEC3 iterations for leaf zones (0 = NSEC)
	NXQuery  bool `json:"nxQuery"`  // ask a non-existent name (denial path)
	ManyNS   int  `json:"manyNS"`   // node 1's zone gets this many NS with glue: all but the last never answer
	// MinFallback: the root answers every name of at most three labels with an empty NOERROR instead of the
	// referral (a server that mishandles minimised probes), so a minimising resolver first meets the referral to
	// the one-label TLD at level four, gives minimisation up and starts over from the root -- the restart belongs
	// to the same request tree and to the same budgets
	MinFallback bool `json:"minFallback"`
}

type Case struct {
	ID       string    `json:"id"`
	Nodes    []Node    `json:"nodes"`
	Signed   bool      `json:"signed"`
	Variants []Variant `json:"variants"`
	Exp      string    `json:"exp"` // model prediction for firewall-off: answer | servfail | any
	Stress   *Stress   `json:"stress"`
	// IPv6 = ipv6access on (ResolveWork.tla v6): detached AAAA lookups for the NS hosts of every
	// referral, two seconds after the referral. The variants of such a case run concurrently
	// (each on its own namespace and resolver), so the delay is paid once per case.
	IPv6 bool `json:"ipv6"`
}

type Input struct {
	Cases          []Case `json:"cases"`
	Workers        int    `json:"workers"`
	QueryTimeoutMs int    `json:"queryTimeoutMs"`
	NetTimeoutMs   int    `json:"netTimeoutMs"`
	MarginMs       int    `json:"marginMs"`
	TreeMs         int    `json:"treeMs"` // IPv6 cases: longest wait for the detached helper jobs of one request tree
}

const genLabels = 40

func zoneName(i int) string { return fmt.Sprintf("z%d.test.", i) }

func baseName(nodes []Node, i int) string {
	if nodes[i-1].Kind == "REFGEN" {
		return "d." + strings.Repeat("a.", genLabels) + zoneName(i)
	}
	return "d." + zoneName(i)
}

func nodeName(nodes []Node, i int) string { return "x." + baseName(nodes, i) }

func nodeAddr(i int) net.IP { return net.IPv4(192, 0, 2, byte(100+i)) }

// world is one concretised topology.
type world struct {
	n      *authkit.Net
	leaf   *authkit.Server
	dead   *authkit.Server
	refuse *authkit.Server
	nodes  []Node
	mu     sync.Mutex
	gen    map[string]int  // REFGEN zone -> labels of the deepest cut handed out (under mu)
	isGen  map[string]bool // REFGEN zones (immutable after build)
	fan    map[string]int
	self   map[string]net.IP
	stress *Stress
	bogus  map[string]*authkit.Key
	hosts  map[string]bool // every NS host name and goal name of the namespace (immutable after build)
	gone   atomic.Bool     // the run is over: nothing of this resolver may reach another namespace's sockets
	jobs   func() int      // detached helper jobs still running in this namespace's resolver (IPv6 cases)
}

func suffixLabels(name string, k int) string {
	labels := dns.SplitDomainName(name)
	if k >= len(labels) {
		return strings.ToLower(dns.Fqdn(name))
	}
	return strings.ToLower(strings.Join(labels[len(labels)-k:], ".") + ".")
}

func build(c *Case) (*world, error) {
	n, err := authkit.NewNet(c.Signed)
	if err != nil {
		return nil, err
	}
	w := &world{n: n, nodes: c.Nodes, gen: map[string]int{}, isGen: map[string]bool{}, fan: map[string]int{}, self: map[string]net.IP{}, stress: c.Stress,
		bogus: map[string]*authkit.Key{}, hosts: map[string]bool{"ns.test.": true, "ns.sink.test.": true}}
	for i := 1; i <= len(c.Nodes); i++ {
		w.hosts["ns."+zoneName(i)] = true
		w.hosts[strings.ToLower(nodeName(c.Nodes, i))] = true
	}
	opts := authkit.DelegateOpts{Signed: c.Signed, PublishDS: c.Signed}
	tz, _, err := n.Delegate("test.", opts)
	if err != nil {
		return nil, err
	}
	if w.leaf, err = n.AddServer("leaf"); err != nil {
		return nil, err
	}
	if w.dead, err = n.AddServer("dead"); err != nil {
		return nil, err
	}
	w.dead.SetHook(func(ex *authkit.Exchange) { ex.Drop = true; ex.CloseTCP = true })
	if w.refuse, err = n.AddServer("refuse"); err != nil {
		return nil, err
	}
	lo := opts
	lo.OnServer = w.leaf
	sink, _, err := n.Delegate("sink.test.", lo)
	if err != nil {
		return nil, err
	}
	_ = sink
	for i := 1; i <= len(c.Nodes); i++ {
		nd := c.Nodes[i-1]
		zn := zoneName(i)
		zo := lo
		if c.Stress != nil && c.Stress.N3Iter > 0 {
			zo.NSEC3 = true
		}
		z, _, err := n.Delegate(zn, zo)
		if err != nil {
			return nil, err
		}
		if c.Stress != nil && c.Stress.N3Iter > 0 && c.Signed {
			z.SetNSEC3("aabb", uint16(c.Stress.N3Iter), false)
		}
		n.MapGlue(nodeAddr(i).String(), w.leaf)
		name := nodeName(c.Nodes, i)
		switch nd.Kind {
		case "A":
			z.AddRR(authkit.ARR(name, nodeAddr(i), 300))
		case "CNAME":
			z.AddRR(&dns.CNAME{Hdr: dns.RR_Header{Name: name, Rrtype: dns.TypeCNAME, Class: dns.ClassINET, Ttl: 300}, Target: nodeName(c.Nodes, nd.Tgt[0])})
		case "DNAME":
			z.AddRR(&dns.DNAME{Hdr: dns.RR_Header{Name: baseName(c.Nodes, i), Rrtype: dns.TypeDNAME, Class: dns.ClassINET, Ttl: 300}, Target: baseName(c.Nodes, nd.Tgt[0])})
		case "NS":
			z.AddRR(authkit.ARR(name, nodeAddr(i), 300))
			cut := &authkit.Cut{Name: zn}
			for _, j := range nd.Tgt {
				cut.NS = append(cut.NS, authkit.NSRR(zn, nodeName(c.Nodes, j), 3600))
			}
			if c.Signed {
				cut.DS = z.DS(3600)
			}
			tz.Delegate(cut)
		case "LAME", "REFUSE":
			srv := w.dead
			if nd.Kind == "REFUSE" {
				srv = w.refuse
			}
			ip := n.AllocGlue(srv)
			cut := &authkit.Cut{Name: zn, NS: []dns.RR{authkit.NSRR(zn, "ns."+zn, 3600)}, Glue: []dns.RR{authkit.ARR("ns."+zn, ip, 3600)}}
			if c.Signed {
				cut.DS = z.DS(3600)
			}
			tz.Delegate(cut)
		case "SELFREF":
			w.self[zn] = n.AllocGlue(w.leaf)
		case "REFGEN":
			w.gen[zn] = dns.CountLabel(zn)
			w.isGen[zn] = true
			w.fan[zn] = nd.Fan
		default:
			return nil, fmt.Errorf("unknown node kind %q", nd.Kind)
		}
		if c.Stress != nil && c.Stress.ManyNS > 1 && i == 1 && (nd.Kind == "A" || nd.Kind == "CNAME") {
			cut := &authkit.Cut{Name: zn}
			for k := 1; k <= c.Stress.ManyNS; k++ {
				srv := w.dead
				if k == c.Stress.ManyNS {
					srv = w.leaf
				}
				host := fmt.Sprintf("ns%d.%s", k, zn)
				cut.NS = append(cut.NS, authkit.NSRR(zn, host, 3600))
				cut.Glue = append(cut.Glue, authkit.ARR(host, n.AllocGlue(srv), 3600))
			}
			if c.Signed {
				cut.DS = z.DS(3600)
			}
			tz.Delegate(cut)
		}
		if c.Stress != nil && c.Signed {
			for k := 0; k < c.Stress.Keys; k++ {
				var key *authkit.Key
				if c.Stress.SameTag {
					key = authkit.CloneTagKey(zn, z.Keys[0], 3000)
				}
				if key == nil {
					key = authkit.NewKey(zn, 0)
				}
				if k == 0 {
					w.bogus[zn] = key
				}
				z.AddKey(key)
			}
			if c.Stress.Sigs > 0 && w.bogus[zn] == nil {
				w.bogus[zn] = authkit.NewKey(zn, 0)
			}
		}
	}
	w.leaf.SetHook(w.leafHook)
	if c.Stress != nil && c.Stress.MinFallback {
		n.RootSrv.SetHook(func(ex *authkit.Exchange) {
			if ex.Resp == nil || ex.Q.Qtype == dns.TypeDNSKEY || ex.Q.Qtype == dns.TypeDS || ex.Q.Name == "." {
				return
			}
			if dns.CountLabel(ex.Q.Name) <= 3 && ex.Truth.Kind == "referral" {
				ex.Resp.Ns, ex.Resp.Extra, ex.Resp.Answer = nil, nil, nil
				ex.Resp.Rcode = dns.RcodeSuccess
				ex.Resp.Authoritative = true
			}
		})
	}
	return w, nil
}

func (w *world) leafHook(ex *authkit.Exchange) {
	if ex.Zone == nil {
		return
	}
	zn := ex.Zone.Name
	if ip, ok := w.self[zn]; ok {
		// a server that refers every question back to its own zone
		m := new(dns.Msg)
		m.SetReply(ex.Req)
		m.Ns = []dns.RR{authkit.NSRR(zn, "ns."+zn, 3600)}
		m.Extra = append([]dns.RR{authkit.ARR("ns."+zn, ip, 3600)}, keepOPT(ex.Resp)...)
		ex.Resp = m
		return
	}
	if w.isGen[zn] {
		w.genReply(ex, zn)
		return
	}
	if w.stress != nil && w.stress.Sigs > 0 && ex.Zone.Signed {
		w.extraSigs(ex, zn)
	}
}

func keepOPT(resp *dns.Msg) []dns.RR {
	if resp == nil {
		return nil
	}
	for _, rr := range resp.Extra {
		if rr.Header().Rrtype == dns.TypeOPT {
			return []dns.RR{rr}
		}
	}
	return nil
}

// genReply: the ever-deeper referral generator. Every question below the
// deepest cut handed out so far is referred one label further down.
func (w *world) genReply(ex *authkit.Exchange, zn string) {
	q := ex.Q
	ql := dns.CountLabel(q.Name)
	w.mu.Lock()
	d := w.gen[zn]
	fan := w.fan[zn]
	refer := ql > d && q.Qtype != dns.TypeDS && q.Qtype != dns.TypeDNSKEY
	if refer {
		d++
		w.gen[zn] = d
	}
	w.mu.Unlock()
	m := new(dns.Msg)
	m.SetReply(ex.Req)
	if !refer {
		m.Authoritative = true
		m.Ns = []dns.RR{&dns.SOA{Hdr: dns.RR_Header{Name: zn, Rrtype: dns.TypeSOA, Class: dns.ClassINET, Ttl: 60}, Ns: "ns." + zn, Mbox: "h." + zn,
			Serial: 1, Refresh: 3600, Retry: 600, Expire: 86400, Minttl: 60}}
		m.Extra = keepOPT(ex.Resp)
		ex.Resp = m
		return
	}
	cut := suffixLabels(q.Name, d)
	ip := w.n.AllocGlue(w.leaf)
	m.Ns = []dns.RR{authkit.NSRR(cut, "ns."+cut, 3600)}
	for k := 0; k < fan; k++ {
		m.Ns = append(m.Ns, authkit.NSRR(cut, fmt.Sprintf("l%dn%d.sink.test.", d, k), 3600))
	}
	m.Extra = append([]dns.RR{authkit.ARR("ns."+cut, ip, 3600)}, keepOPT(ex.Resp)...)
	ex.Resp = m
}

// extraSigs puts Sigs bogus RRSIGs (valid syntax, same signer, made with a
// published-but-wrong or same-tag key) in front of every real one.
func (w *world) extraSigs(ex *authkit.Exchange, zn string) {
	key := w.bogus[zn]
	if key == nil || ex.Resp == nil {
		return
	}
	add := func(sec []dns.RR) []dns.RR {
		var out []dns.RR
		for _, rr := range sec {
			if sig, ok := rr.(*dns.RRSIG); ok {
				for k := 0; k < w.stress.Sigs; k++ {
					b := dns.Copy(sig).(*dns.RRSIG)
					// same key tag as the real signature, garbage signature bytes
					if raw, err := base64.StdEncoding.DecodeString(b.Signature); err == nil && len(raw) > 12 {
						raw[2+k%8] ^= byte(0x11 + k)
						b.Signature = base64.StdEncoding.EncodeToString(raw)
					}
					out = append(out, b)
				}
			}
			out = append(out, rr)
		}
		return out
	}
	ex.Resp.Answer = add(ex.Resp.Answer)
	ex.Resp.Ns = add(ex.Resp.Ns)
}

// ---- one variant run -----------------------------------------------------------

type reply struct {
	Got     bool     `json:"got"`
	Rcode   string   `json:"rcode"`
	Answers []string `json:"answers"`
	EDE     []string `json:"ede"`
	OPT     bool     `json:"opt"`
	Ms      int64    `json:"ms"`
	Packets int      `json:"packets"`
	TCP     int      `json:"tcp"`
	Hops    int      `json:"hops"`
	// IPv6 cases: the request tree is counted until its detached helper jobs are over
	After      int      `json:"after,omitempty"`  // of Packets: received after the client had its reply
	SubQ       int      `json:"subq,omitempty"`   // distinct address questions for known host names other than the client's own
	SubQAt     int      `json:"subqAt,omitempty"` // of SubQ: already seen when the client had its reply
	SubQs      []string `json:"subqs,omitempty"`
	TreeMs     int64    `json:"treeMs,omitempty"` // until no detached helper job was left
	Unfinished bool     `json:"unfinished,omitempty"`
}

func (r reply) sig() string { return r.Rcode + "|" + strings.Join(r.Answers, ";") }

func (r reply) budgetEDE() bool {
	for _, e := range r.EDE {
		if strings.Contains(e, "budget exceeded") {
			return true
		}
	}
	return false
}

type runner struct {
	in  *Input
	res *vh.Result
	t   *testing.T
	dmu sync.Mutex
	det []map[string]any
}

func (r *runner) detail(c *Case, v Variant, o variantOut) {
	r.dmu.Lock()
	r.det = append(r.det, map[string]any{"case": c.ID, "variant": v.Label, "mode": v.Mode, "maxOut": v.MaxOut, "maxInt": v.MaxInt, "qmin": v.QMin, "q1": o.Q1, "q2": o.Q2})
	r.dmu.Unlock()
}

const blackHole = "127.0.0.1:9"

func (r *runner) newResolver(w *world, c *Case, v Variant, dir string) (*server.Server, *config.Config) {
	var keys []string
	if c.Signed {
		keys = []string{w.n.Root.Keys[0].RR.String()}
	}
	mapper := w.n.Mapper()
	if c.IPv6 {
		inner := mapper
		mapper = func(addr string) string {
			if w.gone.Load() {
				return blackHole
			}
			return inner(addr)
		}
	}
	return pipe.NewResolverServer(pipe.ResolverOpts{RootAddr: w.n.RootSrv.Addr, RootKeys: keys, DNSSEC: c.Signed, Dir: dir, Mapper: mapper,
		Mutate: func(cfg *config.Config) {
			cfg.IPv6Access = c.IPv6
			cfg.RecursionFirewall.Mode = config.RecursionFirewallMode(v.Mode)
			cfg.RecursionFirewall.MaxOutboundQueries = v.MaxOut
			cfg.RecursionFirewall.MaxInternalQueries = v.MaxInt
			cfg.RecursionFirewall.MaxSignatureChecks = v.MaxSig
			cfg.RecursionFirewall.MaxDNSKEYCandidates = v.MaxKeys
			cfg.RecursionFirewall.MaxRRsetSignatureChecks = v.MaxRRSig
			cfg.RecursionFirewall.MaxNSEC3Hashes = v.MaxN3
			cfg.QnameMinLevel = v.QMin
			if v.Maxdepth > 0 {
				cfg.Maxdepth = v.Maxdepth
			}
			cfg.Timeout.Duration = time.Duration(r.in.NetTimeoutMs) * time.Millisecond
			cfg.QueryTimeout.Duration = time.Duration(r.in.QueryTimeoutMs) * time.Millisecond
		}})
}

// background reports whether a logged upstream query is the resolver's own
// start-up work (root priming), which belongs to no client request tree.
func background(e authkit.LogEntry) bool {
	return e.Q.Name == "." && e.Q.Qtype == dns.TypeNS
}

func (w *world) count(since time.Time) (total, tcp int) {
	for _, e := range w.n.LogAll() {
		if e.At.Before(since) || background(e) {
			continue
		}
		total++
		if e.Proto == "tcp" {
			tcp++
		}
	}
	return
}

// waitPrimed waits for the resolver's start-up traffic to be over so that it
// cannot be attributed to a client query.
func (r *runner) waitPrimed(w *world, signed bool, dir string) bool {
	deadline := time.Now().Add(8 * time.Second)
	for time.Now().Before(deadline) {
		seenNS := false
		for _, e := range w.n.RootSrv.Log() {
			if background(e) {
				seenNS = true
			}
		}
		if seenNS {
			if !signed {
				return true
			}
			if _, err := os.Stat(filepath.Join(dir, "trust-anchor.db")); err == nil {
				return true
			}
		}
		time.Sleep(20 * time.Millisecond)
	}
	return false
}

// settle waits until the scripted servers have been quiet for a moment (detached
// probes of the request tree may still arrive after the reply). Counting too
// early can only under-count. first=true returns as soon as anything arrived.
func (w *world) settle(since time.Time, max time.Duration, first bool) (int, int) {
	stop := time.Now().Add(max)
	last, _ := w.count(since)
	stable := 0
	for time.Now().Before(stop) && stable < 2 {
		if first && last > 0 {
			break
		}
		time.Sleep(90 * time.Millisecond)
		c, _ := w.count(since)
		if c == last {
			stable++
		} else {
			stable = 0
			last = c
		}
	}
	return w.count(since)
}

// treeDone waits (bounded) until this namespace's resolver has no detached helper job left: only
// then is the request tree of the query just answered finished. The IPv6 enrichment slots are taken
// synchronously while the request (or the parent job) is still running, so zero is not a gap between
// two jobs; a probe takes its slot from its own goroutine, hence two idle polls and the settle after.
func (w *world) treeDone(max time.Duration) bool {
	stop := time.Now().Add(max)
	idle := 0
	for time.Now().Before(stop) {
		if w.jobs() == 0 {
			if idle++; idle >= 2 {
				return true
			}
		} else {
			idle = 0
		}
		time.Sleep(25 * time.Millisecond)
	}
	return false
}

// treeCount splits what the servers received for one request tree at the moment the client had its
// reply, and lists the distinct address questions (A / AAAA for an NS host or goal name of the
// namespace) other than the client's own: each of them reached the servers only through an internal
// sub-query of its own (nameserver-address lookup or alias chase through Queryer.Query).
func (w *world) treeCount(since, replyAt time.Time, qname string, qtype uint16) (after int, subqs []string, subqAt int) {
	seen := map[string]bool{}
	early := map[string]bool{}
	for _, e := range w.n.LogAll() {
		if e.At.Before(since) || background(e) {
			continue
		}
		if e.At.After(replyAt) {
			after++
		}
		name := strings.ToLower(e.Q.Name)
		if (e.Q.Qtype != dns.TypeA && e.Q.Qtype != dns.TypeAAAA) || !w.hosts[name] || (name == strings.ToLower(qname) && e.Q.Qtype == qtype) {
			continue
		}
		k := name + " " + dns.TypeToString[e.Q.Qtype]
		seen[k] = true
		if !e.At.After(replyAt) {
			early[k] = true
		}
	}
	for k := range seen {
		subqs = append(subqs, k)
	}
	sort.Strings(subqs)
	return after, subqs, len(early)
}

func (r *runner) ask(s *server.Server, w *world, qname string, qtype uint16, v Variant, client string, first bool) (reply, bool) {
	q := new(dns.Msg)
	q.SetQuestion(qname, qtype)
	if !v.NoEDNS {
		q.SetEdns0(1232, false)
	}
	start := time.Now()
	ch := make(chan *dns.Msg, 1)
	go func() { ch <- pipe.Ask(s, q, "udp", client) }()
	limit := time.Duration(r.in.QueryTimeoutMs+r.in.MarginMs) * time.Millisecond
	var m *dns.Msg
	hung := false
	select {
	case m = <-ch:
	case <-time.After(limit):
		hung = true
	}
	rep := reply{Ms: time.Since(start).Milliseconds()}
	replyAt := time.Now()
	if w.jobs != nil && !hung {
		// IPv6 access: the tree is not finished before its detached helper jobs are
		rep.Unfinished = !w.treeDone(time.Duration(r.in.TreeMs) * time.Millisecond)
		rep.TreeMs = time.Since(start).Milliseconds()
	}
	settleMax := time.Duration(r.in.NetTimeoutMs)*time.Millisecond + 900*time.Millisecond
	rep.Packets, rep.TCP = w.settle(start, settleMax, first)
	if w.jobs != nil {
		rep.After, rep.SubQs, rep.SubQAt = w.treeCount(start, replyAt, qname, qtype)
		rep.SubQ = len(rep.SubQs)
	}
	if hung || m == nil {
		return rep, hung
	}
	rep.Got = true
	rep.Rcode = dns.RcodeToString[m.Rcode]
	cur := strings.ToLower(qname)
	for _, rr := range m.Answer {
		h := rr.Header()
		if h.Rrtype == dns.TypeRRSIG {
			continue
		}
		s := strings.ToLower(h.Name) + " " + dns.TypeToString[h.Rrtype] + " " + strings.TrimPrefix(rr.String(), h.String())
		rep.Answers = append(rep.Answers, s)
		if cn, ok := rr.(*dns.CNAME); ok && strings.ToLower(h.Name) == cur {
			// an alias hop that leaves the owner's zone needed one internal sub-query
			if suffixLabels(cur, 2) != suffixLabels(cn.Target, 2) {
				rep.Hops++
			}
			cur = strings.ToLower(cn.Target)
		}
	}
	sort.Strings(rep.Answers)
	if opt := m.IsEdns0(); opt != nil {
		rep.OPT = true
		for _, o := range opt.Option {
			if e, ok := o.(*dns.EDNS0_EDE); ok {
				rep.EDE = append(rep.EDE, fmt.Sprintf("%d:%s", e.InfoCode, e.ExtraText))
			}
		}
	}
	return rep, false
}

type variantOut struct {
	Label string `json:"label"`
	Q1    reply  `json:"q1"`
	Q2    reply  `json:"q2"`
	Skip  string `json:"skip,omitempty"`
}

func (r *runner) runVariant(c *Case, v Variant) (variantOut, error) {
	out := variantOut{Label: v.Label}
	w, err := build(c)
	if err != nil {
		return out, err
	}
	defer w.n.Stop()
	dir, _ := os.MkdirTemp(vh.Scratch(r.t), "c12topo-")
	defer os.RemoveAll(dir)
	s, _ := r.newResolver(w, c, v, dir)
	if c.IPv6 {
		for _, h := range s.VerifC12Handlers() {
			if rh, ok := h.(interface{ VerifResolver() *resolver.Resolver }); ok {
				w.jobs = rh.VerifResolver().VerifC12Detached
			}
		}
		if w.jobs == nil {
			out.Skip = "resolver handler not found in the server's pipeline"
			return out, nil
		}
		// runs before the namespace is stopped: no helper job may outlive its own namespace
		defer func() {
			w.treeDone(8 * time.Second)
			w.gone.Store(true)
		}()
	}
	if !r.waitPrimed(w, c.Signed, dir) {
		out.Skip = "start-up traffic not observed"
		return out, nil
	}
	time.Sleep(60 * time.Millisecond)
	qname, qtype := nodeName(c.Nodes, 1), dns.TypeA
	if c.Stress != nil && c.Stress.NXQuery {
		qname = "nope." + baseName(c.Nodes, 1)
	}
	var hung bool
	out.Q1, hung = r.ask(s, w, qname, qtype, v, "203.0.113.9", false)
	key := fmt.Sprintf("%s/%s", c.ID, v.Label)
	rp := map[string]any{"case": c, "variant": v}
	if hung {
		r.res.Violate("hang/"+key, fmt.Sprintf("Terminates: no reply to %s within %d ms (query timeout %d ms) on topology %s variant %s",
			qname, r.in.QueryTimeoutMs+r.in.MarginMs, r.in.QueryTimeoutMs, c.ID, v.Label), rp)
		return out, nil
	}
	if !out.Q1.Got {
		r.res.Violate("noreply/"+key, fmt.Sprintf("Terminates: the pipeline returned without writing a reply to %s on topology %s variant %s", qname, c.ID, v.Label), rp)
		return out, nil
	}
	out.Q2, hung = r.ask(s, w, qname, qtype, v, "203.0.113.10", true)
	if hung {
		r.res.Violate("hang2/"+key, fmt.Sprintf("Terminates: second client got no reply to %s within the deadline on topology %s variant %s", qname, c.ID, v.Label), rp)
	}
	return out, nil
}

func okRcode(rc string) bool { return rc == "NOERROR" || rc == "SERVFAIL" || rc == "NXDOMAIN" }

func (c *Case) shape() string {
	var parts []string
	for _, n := range c.Nodes {
		p := n.Kind
		if len(n.Tgt) > 0 {
			p += fmt.Sprint(n.Tgt)
		}
		if n.Kind == "REFGEN" {
			p += fmt.Sprintf("f%d", n.Fan)
		}
		parts = append(parts, p)
	}
	return strings.Join(parts, " ")
}

func groupOf(v Variant) string { return fmt.Sprintf("q%d/d%d/e%v", v.QMin, v.Maxdepth, v.NoEDNS) }

func (r *runner) runCase(c *Case) {
	outs := map[string]variantOut{}
	offOf := map[string]variantOut{}
	var order []string
	// IPv6 cases: every variant waits out the two-second start delay of the detached jobs, so they run
	// side by side (own namespace, own resolver instance each; no budget is relative to another run)
	type preRun struct {
		o   variantOut
		err error
	}
	pre := map[int]*preRun{}
	if c.IPv6 {
		var pwg sync.WaitGroup
		var pmu sync.Mutex
		for vi := range c.Variants {
			if c.Variants[vi].Rel != "" {
				continue
			}
			pwg.Add(1)
			go func(vi int) {
				defer pwg.Done()
				o, err := r.runVariant(c, c.Variants[vi])
				pmu.Lock()
				pre[vi] = &preRun{o, err}
				pmu.Unlock()
			}(vi)
		}
		pwg.Wait()
	}
	for vi := range c.Variants {
		v := c.Variants[vi]
		if v.Rel != "" {
			oo, ok := offOf[groupOf(v)]
			if !ok || !oo.Q1.Got {
				continue
			}
			switch v.Rel {
			case "under":
				if oo.Q1.Packets < 2 {
					continue
				}
				v.MaxOut = uint32(oo.Q1.Packets - 1)
			case "exact":
				if oo.Q1.Packets < 1 {
					continue
				}
				v.MaxOut = uint32(oo.Q1.Packets)
			case "underInt":
				if oo.Q1.Hops < 2 {
					continue
				}
				v.MaxInt = uint32(oo.Q1.Hops - 1)
			}
			c.Variants[vi] = v
		}
		var o variantOut
		var err error
		if p := pre[vi]; p != nil {
			o, err = p.o, p.err
		} else {
			o, err = r.runVariant(c, v)
		}
		if err != nil {
			r.res.Skip("%s/%s: build failed: %v", c.ID, v.Label, err)
			continue
		}
		if o.Skip != "" {
			r.res.Skip("%s/%s: %s", c.ID, v.Label, o.Skip)
			continue
		}
		outs[v.Label] = o
		order = append(order, v.Label)
		r.detail(c, v, o)
		if v.Mode == "off" {
			offOf[groupOf(v)] = o
		}
		r.res.Case(fmt.Sprintf("%s/%s/%s", c.ID, v.Label, o.Q1.sig()))
		r.res.Count("queries", 2)
		r.res.Count("upstream_packets", o.Q1.Packets+o.Q2.Packets)
		r.res.Count("upstream_tcp", o.Q1.TCP+o.Q2.TCP)
		key := fmt.Sprintf("%s/%s", c.ID, v.Label)
		rp := map[string]any{"case": c, "variant": v, "observed": o}
		for qi, q := range []reply{o.Q1, o.Q2} {
			if q.Got && !okRcode(q.Rcode) {
				r.res.Violate(fmt.Sprintf("rcode/%s/%d", key, qi), fmt.Sprintf("reply to client %d is %s (neither an answer nor SERVFAIL) on topology %s variant %s", qi+1, q.Rcode, c.ID, v.Label), rp)
			}
		}
		if v.Mode == "enforce" {
			maxOut, maxInt := int(v.MaxOut), int(v.MaxInt)
			if maxOut == 0 {
				maxOut = int(config.DefaultRecursionFirewallMaxOutboundQueries)
			}
			if maxInt == 0 {
				maxInt = int(config.DefaultRecursionFirewallMaxInternalQueries)
			}
			if o.Q1.Packets > maxOut && c.IPv6 && o.Q1.Packets-o.Q1.After <= maxOut {
				// the excess is work done after the reply: the digest names the clause, not the sampled topology
				r.res.Violate("detached/outbound", fmt.Sprintf("WithinBudget (detached helper lookups included): %d upstream packets reached the scripted servers for ONE request tree, %d of them after the client had its reply (detached IPv6 nameserver-address jobs, tree finished after %d ms), max_outbound_queries=%d (enforce, ipv6access on) on topology %s {%s} variant %s",
					o.Q1.Packets, o.Q1.After, o.Q1.TreeMs, maxOut, c.ID, c.shape(), v.Label), rp)
			} else if o.Q1.Packets > maxOut {
				r.res.Violate("budget/"+key, fmt.Sprintf("WithinBudget: %d upstream packets (%d over TCP) reached the scripted servers for one client query, max_outbound_queries=%d (enforce) on topology %s",
					o.Q1.Packets, o.Q1.TCP, maxOut, c.ID), rp)
			}
			if c.IPv6 {
				r.res.Count("v6_enforce_runs", 1)
				r.res.Count("v6_packets_after_reply", o.Q1.After)
				if o.Q1.Unfinished {
					r.res.DriftNote("%s: detached helper jobs still running %d ms after the query (counted so far: %d packets)", key, o.Q1.TreeMs, o.Q1.Packets)
				}
				if o.Q1.SubQ > maxInt {
					k := "subq/" + key
					if o.Q1.SubQAt <= maxInt {
						k = "detached/internal"
					}
					r.res.Violate(k, fmt.Sprintf("WithinBudget (nameserver-address and detached helper lookups included): %d distinct nameserver-address / alias questions other than the client's own reached the scripted servers for ONE request tree (each needs an internal sub-query of its own; %d of them only after the reply: %v), max_internal_queries=%d (enforce, ipv6access on) on topology %s {%s} variant %s",
						o.Q1.SubQ, o.Q1.SubQ-o.Q1.SubQAt, o.Q1.SubQs, maxInt, c.ID, c.shape(), v.Label), rp)
				}
			}
			if o.Q1.Got && o.Q1.Hops > maxInt {
				r.res.Violate("internal/"+key, fmt.Sprintf("WithinBudget: the reply follows %d cross-zone alias hops (one internal sub-query each) with max_internal_queries=%d (enforce) on topology %s",
					o.Q1.Hops, maxInt, c.ID), rp)
			}
			if o.Q1.budgetEDE() {
				r.res.Count("over_budget_replies", 1)
				if o.Q1.Rcode != "SERVFAIL" {
					r.res.Violate("ede-rcode/"+key, fmt.Sprintf("OverBudgetIsPrivate: budget EDE on a %s reply on topology %s", o.Q1.Rcode, c.ID), rp)
				}
			}
		}
		if v.Mode != "enforce" {
			for qi, q := range []reply{o.Q1, o.Q2} {
				if q.budgetEDE() {
					r.res.Violate(fmt.Sprintf("ede-mode/%s/%d", key, qi), fmt.Sprintf("ShadowEqualsOff: a recursion-work budget EDE reached client %d in mode %s on topology %s", qi+1, v.Mode, c.ID), rp)
				}
			}
		}
		if c.IPv6 && v.Mode != "enforce" {
			r.res.Count("v6_free_runs", 1)
			r.res.Count("v6_free_packets_after_reply", o.Q1.After)
		}
		if v.NoEDNS && (o.Q1.OPT || o.Q2.OPT) {
			r.res.DriftNote("%s: OPT in reply to a non-EDNS client", key)
		}
	}
	// cross-variant oracles
	groups := map[string][]Variant{}
	for _, v := range c.Variants {
		groups[groupOf(v)] = append(groups[groupOf(v)], v)
	}
	for _, vs := range groups {
		var off *Variant
		for i := range vs {
			if vs[i].Mode == "off" {
				off = &vs[i]
			}
		}
		if off == nil {
			continue
		}
		oo, ok := outs[off.Label]
		if !ok {
			continue
		}
		if c.Exp != "" && c.Exp != "any" {
			got := "servfail"
			if oo.Q1.Rcode == "NOERROR" && len(oo.Q1.Answers) > 0 {
				got = "answer"
			}
			if got != c.Exp {
				r.res.DriftNote("%s/%s {%s}: model predicts %s, code replied %s %v", c.ID, off.Label, c.shape(), c.Exp, oo.Q1.sig(), oo.Q1.EDE)
			}
		}
		genuine := oo.Q1.Rcode == "NOERROR" && len(oo.Q1.Answers) > 0
		for _, v := range vs {
			o, ok := outs[v.Label]
			if !ok {
				continue
			}
			rp := map[string]any{"case": c, "variant": v, "off": oo, "observed": o}
			key := fmt.Sprintf("%s/%s", c.ID, v.Label)
			switch v.Mode {
			case "shadow":
				if o.Q1.sig() != oo.Q1.sig() || o.Q2.sig() != oo.Q2.sig() {
					if r.confirmShadow(c, *off, v) {
						r.res.Violate("shadow/"+key, fmt.Sprintf("ShadowEqualsOff: shadow mode (budgets out=%d int=%d) replied %s / %s, firewall-off replied %s / %s on topology %s (stable over 3 fresh runs)",
							v.MaxOut, v.MaxInt, o.Q1.sig(), o.Q2.sig(), oo.Q1.sig(), oo.Q2.sig(), c.ID), rp)
					} else {
						r.res.DriftNote("%s: shadow/off replies differed once but not reproducibly", key)
					}
				}
			case "enforce":
				// OverBudgetIsPrivate: only decidable where the namespace itself has no
				// genuine failure (firewall-off resolves to a positive answer)
				if genuine && o.Q1.budgetEDE() {
					if o.Q2.Got && o.Q2.Rcode == "SERVFAIL" && o.Q2.Packets == 0 {
						r.res.Violate("private/"+key, fmt.Sprintf("OverBudgetIsPrivate: client 1 got the over-budget SERVFAIL (%v); client 2 asking the same question with a fresh budget got SERVFAIL %v with no upstream packet at all (served from cache) on topology %s",
							o.Q1.EDE, o.Q2.EDE, c.ID), rp)
					}
					r.res.Count("private_checked", 1)
				}
				if v.Rel == "under" && !o.Q1.budgetEDE() {
					r.res.DriftNote("%s: budget one below what firewall-off used (%d) did not end in the over-budget reply: %s", key, oo.Q1.Packets, o.Q1.sig())
				}
				if v.Rel == "exact" && o.Q1.sig() != oo.Q1.sig() {
					r.res.DriftNote("%s: budget equal to what firewall-off used (%d) changed the reply: %s vs %s", key, oo.Q1.Packets, o.Q1.sig(), oo.Q1.sig())
				}
				if genuine && o.Q1.Got && o.Q1.Rcode == "NOERROR" && o.Q1.sig() != oo.Q1.sig() {
					r.res.DriftNote("%s: enforce answered %s, off answered %s", key, o.Q1.sig(), oo.Q1.sig())
				}
			}
		}
	}
	if len(order) > 0 {
		r.res.Sample(map[string]any{"case": c.ID, "nodes": c.Nodes, "signed": c.Signed, "out": outs[order[0]]})
	}
}

// confirmShadow re-runs off and shadow on fresh resolvers: a difference is a
// verdict only when it is stable (timing races between servers are not).
func (r *runner) confirmShadow(c *Case, off, sh Variant) bool {
	var offSig, shSig string
	for round := 0; round < 2; round++ {
		a, err1 := r.runVariant(c, off)
		b, err2 := r.runVariant(c, sh)
		if err1 != nil || err2 != nil || a.Skip != "" || b.Skip != "" {
			return false
		}
		as, bs := a.Q1.sig()+"#"+a.Q2.sig(), b.Q1.sig()+"#"+b.Q2.sig()
		if as == bs {
			return false
		}
		if round > 0 && (as != offSig || bs != shSig) {
			return false
		}
		offSig, shSig = as, bs
	}
	return true
}

func TestTopologies(t *testing.T) {
	var in Input
	vh.Input(t, &in)
	res := vh.NewResult()
	defer res.Write(t)
	if in.Workers <= 0 {
		in.Workers = 4
	}
	if in.QueryTimeoutMs == 0 {
		in.QueryTimeoutMs = 3000
	}
	if in.NetTimeoutMs == 0 {
		in.NetTimeoutMs = 300
	}
	if in.MarginMs == 0 {
		in.MarginMs = 6000
	}
	if in.TreeMs == 0 {
		in.TreeMs = 12000
	}
	r := &runner{in: &in, res: res, t: t}
	jobs := make(chan *Case)
	var wg sync.WaitGroup
	for i := 0; i < in.Workers; i++ {
		wg.Add(1)
		go func() {
			defer wg.Done()
			for c := range jobs {
				r.runCase(c)
			}
		}()
	}
	for i := range in.Cases {
		jobs <- &in.Cases[i]
	}
	close(jobs)
	wg.Wait()
	if p := os.Getenv("VERIF_OUT"); p != "" {
		if b, err := json.Marshal(r.det); err == nil {
			_ = os.WriteFile(p+".detail", b, 0o644)
		}
	}
}
