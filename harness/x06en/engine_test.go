package serve

// X06EN -- Serve.tla histories through the REAL datagram and stream listeners.
//
// This directory is package `serve` a second time: serve_shared_test.go is a
// symlink to ../serve/serve_test.go, so the packet builder (abstract packet ->
// bytes), the scripted upstream, the canonical decoded form and the byte-level
// reply contract used here ARE the ones the ServeRaw / ServeMsg / ServeRawInline
// twins use -- not copies.  (It is a directory of its own because the drivers
// here need the engine shims of the overlay, which the C05 / C06 / C19 builds
// of ./serve do not inject.)
//
//   twin EB : a running server.Server, batched UDP reader (recvmmsg; inline pass
//             on the reader, hand-off replayed by the one worker), slab cap 1;
//             one TCP slab (one small-class token)
//   twin EP : the same with the portable UDP reader (ServeRaw on the worker);
//             real packets are steered onto ONE slab of its two
//   twin M  : Server.ServeMsg with the library-decoded message (the reference
//             of C05), same client address
//
// Every twin is its own Server on the real default chain (recovery .. cache +
// the scripted tail) with identical configuration and gets the identical
// history: the model's packets, concretised to bytes, sent from real loopback
// sockets -- datagrams to the UDP listener, frames on a TCP connection the
// model decides to keep or to redial.  Consecutive packets therefore meet what
// the previous one left in the slab: the job-owned edns writer slot, the TX
// region, the stored bytes of a cache entry.
//
// Verdicts are predicates of the statements on the bytes the sockets received:
//   C06  the reply contract (`contract`), the question echoed byte for byte (the
//        client's own spelling), no datagram nobody asked for, plus the
//        listeners' own clauses: responses never answered, NOTIMP, FORMERR, BADVERS
//   C05  EB / EP against M: same decision, same upstream invocations, same
//        decoded reply, same follow-up
// The model's predicted outcome is compared for drift only.

import (
	"context"
	"encoding/binary"
	"encoding/hex"
	"errors"
	"fmt"
	"io"
	"math/rand"
	"net"
	"sort"
	"sync"
	"testing"
	"time"

	"github.com/miekg/dns"
	"github.com/semihalev/sdns/server"
	"github.com/semihalev/sdns/verifharness/pipe"
	"github.com/semihalev/sdns/verifharness/vh"
)

type engPkt struct {
	absPkt
	Client  int  `json:"client"`
	NewConn bool `json:"newconn"`
}

type engExp struct {
	Kind   string `json:"kind"`
	Rcode  string `json:"rcode"`
	Opt    bool   `json:"opt"`
	Tc     bool   `json:"tc"`
	Ad     bool   `json:"ad"`
	Cookie bool   `json:"cookie"`
	Dnssec bool   `json:"dnssec"`
	Tail   bool   `json:"tail"`
	Same   bool   `json:"same"`
}

type engStep struct {
	Pkt engPkt `json:"pkt"`
	Exp engExp `json:"exp"`
}

type engBehaviour struct {
	Name    string    `json:"name"`
	Fam     string    `json:"fam"`
	Cfg     absCfg    `json:"cfg"`
	Content string    `json:"content"`
	Steps   []engStep `json:"steps"`
}

type engInput struct {
	Behaviours []engBehaviour `json:"behaviours"`
	Variants   int            `json:"variants"`
	BudgetS    int            `json:"budget_s"` // wall budget of the replay loop; behaviours beyond it are counted, not run
	Only       string         `json:"only"`     // "" | "C06" | "C05": the verdict class that counts; the other is drift (and must not fill the violation list)
}

// ---------------------------------------------------------------------------
// the UDP job walk, as the engine's own trace points report it

const (
	evTransition = 2
	evQueued     = 3
	evStage      = 5
	evSendNow    = 7
	stFree       = 0
	stReading    = 1
	stQueued     = 2
	stServing    = 3
)

type slabEv struct {
	engine, slab uintptr
	to           uint8
	rxLen        int
	rxID         int
	sent         bool // a reply was staged / written for the packet this slab carried
}

type udpSink struct {
	mu      sync.Mutex
	cond    *sync.Cond
	state   map[uintptr]map[uintptr]uint8 // engine -> slab -> state
	staged  map[uintptr]bool
	done    []slabEv // releases, in order
	engines []uintptr
}

func newUDPSink() *udpSink {
	s := &udpSink{state: map[uintptr]map[uintptr]uint8{}, staged: map[uintptr]bool{}}
	s.cond = sync.NewCond(&s.mu)
	return s
}

func (s *udpSink) fn(e *server.VerifUDPEvent) {
	var to uint8
	switch e.Ev {
	case evTransition:
		to = e.To
	case evQueued:
		to = stQueued
	case evStage, evSendNow:
		// a reply was staged in the slab's TX buffer (or written at once): it leaves before the slab is released
		s.mu.Lock()
		s.staged[e.Slab] = true
		s.mu.Unlock()
		return
	default:
		return
	}
	s.mu.Lock()
	m := s.state[e.Engine]
	if m == nil {
		m = map[uintptr]uint8{}
		s.state[e.Engine] = m
		s.engines = append(s.engines, e.Engine)
	}
	m[e.Slab] = to
	if e.Ev == evTransition && to == stFree && e.From != stReading {
		ev := slabEv{engine: e.Engine, slab: e.Slab, to: to, rxLen: len(e.Rx), rxID: -1, sent: s.staged[e.Slab]}
		delete(s.staged, e.Slab)
		if len(e.Rx) >= 2 {
			ev.rxID = int(binary.BigEndian.Uint16(e.Rx))
		}
		s.done = append(s.done, ev)
	}
	s.mu.Unlock()
	s.cond.Broadcast()
}

// waitDone waits for the release of the slab that carried a packet matching want, among the releases recorded
// after mark.
func (s *udpSink) waitDone(engine uintptr, mark int, want func(slabEv) bool, d time.Duration) (slabEv, bool) {
	deadline := time.Now().Add(d)
	t := time.AfterFunc(d, func() { s.cond.Broadcast() })
	defer t.Stop()
	s.mu.Lock()
	defer s.mu.Unlock()
	for {
		for _, ev := range s.done[mark:] {
			if ev.engine == engine && want(ev) {
				return ev, true
			}
		}
		if time.Now().After(deadline) {
			return slabEv{}, false
		}
		s.cond.Wait()
	}
}

func (s *udpSink) mark() int {
	s.mu.Lock()
	defer s.mu.Unlock()
	return len(s.done)
}

// armed: (slab the reader holds ready for the next datagram, busy = a slab is queued or being served)
func (s *udpSink) armed(engine uintptr) (uintptr, bool) {
	s.mu.Lock()
	defer s.mu.Unlock()
	var rd uintptr
	for slab, st := range s.state[engine] {
		switch st {
		case stQueued, stServing:
			return 0, true
		case stReading:
			rd = slab
		}
	}
	return rd, false
}

func (s *udpSink) engineList() []uintptr {
	s.mu.Lock()
	defer s.mu.Unlock()
	return append([]uintptr(nil), s.engines...)
}

// ---------------------------------------------------------------------------
// a running server and its clients

type engRig struct {
	name   string // "batch" | "portable"
	srv    *server.Server
	tail   *pipe.Tail
	cancel context.CancelFunc
	sink   *udpSink
	engine uintptr
	uaddr  *net.UDPAddr
	taddr  string
	udp    map[int]*net.UDPConn
	// the one TCP connection the model keeps open, and whose it is
	tconn  net.Conn
	towner int
	// slab steering and provenance
	target   uintptr
	lastSlab uintptr
	lastWake time.Time
	res      *vh.Result
}

func newEngRig(name string, c absCfg, sink *udpSink, res *vh.Result) (*engRig, error) {
	r := &engRig{name: name, sink: sink, udp: map[int]*net.UDPConn{}, res: res}
	r.tail = &pipe.Tail{Respond: respond}
	cfg := realConfig(c)
	cfg.Bind = "127.0.0.1:0"
	cfg.IngressWorkers = 1
	cfg.IngressQueue = 1
	known := map[uintptr]bool{}
	for _, e := range sink.engineList() {
		known[e] = true
	}
	srv, release := pipe.NewServer(cfg, r.tail, "failover")
	r.srv = srv
	slabs := 1
	opts := server.VerifC10Opts{UDPSockets: 1, TCPConns: 64, TCPSmall: 1, TCPLarge: 1}
	if name == "portable" {
		// the portable reader arms its next slab before the worker has released the last one
		slabs = 2
		opts.Portable = true
	}
	opts.UDPSpare = int64(slabs - (cfg.IngressQueue + cfg.IngressWorkers + server.VerifX06enReaderReserve))
	if err := server.VerifC10Tune(srv, opts); err != nil {
		release()
		return nil, err
	}
	ctx, cancel := context.WithCancel(context.Background())
	r.cancel = cancel
	err := srv.Run(ctx)
	release()
	if err != nil {
		cancel()
		return nil, err
	}
	deadline := time.Now().Add(5 * time.Second)
	for !(srv.HasListener("udp") && srv.HasListener("tcp")) && time.Now().Before(deadline) {
		time.Sleep(2 * time.Millisecond)
	}
	u, t, _ := server.VerifC10Addrs(srv)
	if u == "" || t == "" {
		cancel()
		return nil, fmt.Errorf("listeners did not come up (udp=%q tcp=%q)", u, t)
	}
	r.uaddr, _ = net.ResolveUDPAddr("udp", u)
	r.taddr = t
	// the engine announces itself with the reader's first take
	for time.Now().Before(deadline) && r.engine == 0 {
		for _, e := range sink.engineList() {
			if !known[e] {
				r.engine = e
			}
		}
		if r.engine == 0 {
			time.Sleep(time.Millisecond)
		}
	}
	st := server.VerifC10Snapshot(srv)
	switch {
	case r.engine == 0:
		err = errors.New("the UDP engine never reported a job (trace hook not compiled in?)")
	case st.UDPSlabCap != int64(slabs):
		err = fmt.Errorf("UDP slab cap %d, wanted %d", st.UDPSlabCap, slabs)
	case st.UDPWorkers != 1 || st.TCPSmallCap != 1:
		err = fmt.Errorf("workers %d, TCP small tokens %d: wanted 1 and 1", st.UDPWorkers, st.TCPSmallCap)
	case st.UDPBatched == (name == "portable"):
		if name == "batch" {
			err = errSkipBatch
		} else {
			err = errors.New("the portable rig runs the batched reader")
		}
	}
	if err != nil {
		cancel()
		return nil, err
	}
	for c := 1; c <= 2; c++ {
		conn, e := net.ListenUDP("udp", &net.UDPAddr{IP: net.IPv4(127, 0, 0, 1)})
		if e != nil {
			cancel()
			return nil, e
		}
		r.udp[c] = conn
	}
	return r, nil
}

var errSkipBatch = errors.New("batched UDP reader unavailable on this system")

func (r *engRig) stop() {
	if r.tconn != nil {
		r.tconn.Close()
	}
	for _, c := range r.udp {
		c.Close()
	}
	r.cancel()
}

// settle brings the UDP engine to the state "the reader holds a slab and waits for a datagram".  With a cap of one
// slab the batched reader that handed its slab to the worker finds none to arm, consumes the next datagram into its
// scrap buffer and sheds it: a one-byte datagram is offered for that.  The portable engine alternates between two
// slabs: one-byte datagrams (no header: dropped before the chain, nothing touched but the slab's RX) are spent until
// the reader holds the slab all real packets of this rig ride on.
func (r *engRig) settle() error {
	deadline := time.Now().Add(3 * time.Second)
	junk := r.udp[2]
	for time.Now().Before(deadline) {
		slab, busy := r.sink.armed(r.engine)
		if busy {
			time.Sleep(20 * time.Microsecond)
			continue
		}
		if slab != 0 {
			if r.target == 0 || slab == r.target || r.name != "portable" {
				return nil
			}
			mark := r.sink.mark()
			if _, err := junk.WriteToUDP([]byte{0}, r.uaddr); err != nil {
				return err
			}
			r.res.Count("eng_steer_datagrams", 1)
			if _, ok := r.sink.waitDone(r.engine, mark, func(e slabEv) bool { return e.rxLen == 1 }, time.Second); !ok {
				return errors.New("steering datagram never released")
			}
			continue
		}
		st := server.VerifC10Snapshot(r.srv)
		if st.UDPLeased == 0 && st.UDPInFlight == 0 && time.Since(r.lastWake) > 2*time.Millisecond {
			if s2, _ := r.sink.armed(r.engine); s2 == 0 {
				r.lastWake = time.Now()
				if _, err := junk.WriteToUDP([]byte{0}, r.uaddr); err != nil {
					return err
				}
				r.res.Count("eng_shed_wakeups", 1)
			}
		}
		time.Sleep(50 * time.Microsecond)
	}
	return errors.New("UDP engine did not settle")
}

type eobs struct {
	obs
	slab    uintptr
	same    bool // TCP: written on the connection that was already open
	strays  [][]byte
	stalled string
}

func (r *engRig) sendUDP(p engPkt, q built) eobs {
	var o eobs
	if err := r.settle(); err != nil {
		o.stalled = err.Error()
		return o
	}
	conn := r.udp[p.Client]
	// anything still in the socket was sent to this client without a packet of its asking for it
	o.strays = drainUDP(conn)
	before := r.tail.NCalls()
	mark := r.sink.mark()
	if _, err := conn.WriteToUDP(q.raw, r.uaddr); err != nil {
		o.stalled = err.Error()
		return o
	}
	ev, ok := r.sink.waitDone(r.engine, mark, func(e slabEv) bool { return e.rxLen == len(q.raw) && e.rxID == int(q.id) }, 4*time.Second)
	if !ok {
		o.stalled = "the datagram's slab was never released"
		return o
	}
	o.slab = ev.slab
	if r.target == 0 {
		r.target = ev.slab
	}
	// the send precedes the release: when the engine staged a reply it is on its way through the loopback; when it
	// staged none, nothing should come (a short look catches bytes that left without a Write)
	first := 2 * time.Millisecond
	if ev.sent {
		first = 5 * time.Second
	}
	buf := make([]byte, 65536)
	_ = conn.SetReadDeadline(time.Now().Add(first))
	for {
		n, _, err := conn.ReadFromUDP(buf)
		if err != nil {
			break
		}
		o.replies = append(o.replies, append([]byte(nil), buf[:n]...))
		_ = conn.SetReadDeadline(time.Now().Add(time.Millisecond))
	}
	if ev.sent && len(o.replies) == 0 {
		o.stalled = "a staged reply never reached the client socket"
		return o
	}
	o.tail = r.tail.NCalls() - before
	return o
}

func drainUDP(conn *net.UDPConn) (out [][]byte) {
	buf := make([]byte, 65536)
	for {
		_ = conn.SetReadDeadline(time.Now().Add(-time.Second))
		n, _, err := conn.ReadFromUDP(buf)
		if err != nil {
			return out
		}
		out = append(out, append([]byte(nil), buf[:n]...))
	}
}

func (r *engRig) sendTCP(p engPkt, q built, expectReply bool) eobs {
	var o eobs
	if r.tconn != nil && (p.NewConn || r.towner != p.Client) {
		r.tconn.Close()
		r.tconn = nil
	}
	if r.tconn == nil {
		c, err := net.DialTimeout("tcp", r.taddr, 2*time.Second)
		if err != nil {
			o.stalled = "dial: " + err.Error()
			return o
		}
		r.tconn, r.towner = c, p.Client
	} else {
		o.same = true
	}
	before := r.tail.NCalls()
	frame := make([]byte, 2+len(q.raw))
	binary.BigEndian.PutUint16(frame, uint16(len(q.raw)))
	copy(frame[2:], q.raw)
	if _, err := r.tconn.Write(frame); err != nil {
		o.stalled = "write: " + err.Error()
		return o
	}
	wait := 5 * time.Second
	if !expectReply {
		wait = 150 * time.Millisecond
	}
	start := time.Now()
	for {
		_ = r.tconn.SetReadDeadline(time.Now().Add(wait))
		var pre [2]byte
		if _, err := io.ReadFull(r.tconn, pre[:]); err != nil {
			var ne net.Error
			if errors.As(err, &ne) && ne.Timeout() {
				// no reply: the frame is done once the one slab token is home again
				st := server.VerifC10Snapshot(r.srv)
				if st.TCPSmallFree == st.TCPSmallCap || time.Since(start) > 6*time.Second {
					break
				}
				wait = 20 * time.Millisecond
				continue
			}
			// the server closed the connection
			r.tconn.Close()
			r.tconn = nil
			r.res.Count("eng_tcp_closed_by_server", 1)
			break
		}
		body := make([]byte, binary.BigEndian.Uint16(pre[:]))
		_ = r.tconn.SetReadDeadline(time.Now().Add(3 * time.Second))
		if _, err := io.ReadFull(r.tconn, body); err != nil {
			o.stalled = "short frame: " + err.Error()
			r.tconn.Close()
			r.tconn = nil
			return o
		}
		o.replies = append(o.replies, body)
		// a second frame for one query would follow at once
		wait = 3 * time.Millisecond
		expectReply = false
		if len(o.replies) > 2 {
			break
		}
	}
	o.tail = r.tail.NCalls() - before
	return o
}

// ---------------------------------------------------------------------------
// judging

type wireFacts struct {
	kind   string // none | bare | reply | garbled
	rcode  string
	opt    bool
	tc     bool
	ad     bool
	cookie bool
	dnssec bool
}

func factsOf(replies [][]byte) wireFacts {
	if len(replies) == 0 {
		return wireFacts{kind: "none"}
	}
	b := replies[0]
	m := new(dns.Msg)
	if err := m.Unpack(b); err != nil {
		if len(b) == 12 {
			return wireFacts{kind: "bare", rcode: modelRcode(&dns.Msg{MsgHdr: dns.MsgHdr{Rcode: int(b[3] & 0xF)}})}
		}
		return wireFacts{kind: "garbled"}
	}
	f := wireFacts{kind: "reply", rcode: modelRcode(m), tc: m.Truncated, ad: m.AuthenticatedData}
	if len(b) == 12 {
		f.kind = "bare"
		return f
	}
	if o := m.IsEdns0(); o != nil {
		f.opt = true
		for _, e := range o.Option {
			if _, ok := e.(*dns.EDNS0_COOKIE); ok {
				f.cookie = true
			}
		}
	}
	for _, rr := range append(append([]dns.RR{}, m.Answer...), m.Ns...) {
		switch rr.(type) {
		case *dns.RRSIG, *dns.NSEC, *dns.NSEC3:
			f.dnssec = true
		}
	}
	return f
}

func shapeOf(p engPkt) string {
	return fmt.Sprintf("%s/op%d/qd%d/an%d/opt-%s/do%v/cd%v/ad%v/ck-%s/%s", p.Proto, p.Opcode, p.QD, p.AN, p.Opt, p.DO, p.CD, p.AD, p.Cookie, p.Qtype)
}

// listenerClauses are the sentences of C06 about the datagram and stream listeners themselves, judged on what the
// socket received for one packet.
func listenerClauses(p engPkt, q built, replies [][]byte) (string, string) {
	var first []byte
	if len(replies) > 0 {
		first = replies[0]
	}
	rcode := -1
	if len(first) >= 12 {
		rcode = int(first[3] & 0xF)
	}
	decodes := new(dns.Msg).Unpack(q.raw) == nil
	switch {
	case p.QR:
		if len(replies) > 0 {
			return "response-answered", fmt.Sprintf("a packet that is itself a response was answered (%d bytes, rcode %d)", len(first), rcode)
		}
	case p.Opcode != dns.OpcodeQuery:
		badToo := p.QD != 1 || p.AN > 1 || !decodes
		switch {
		case len(replies) == 0:
			return "notimp-missing", fmt.Sprintf("opcode %d drew no reply at all", p.Opcode)
		case rcode == dns.RcodeNotImplemented, rcode == dns.RcodeFormatError && badToo:
		default:
			return "notimp", fmt.Sprintf("opcode %d answered with rcode %d", p.Opcode, rcode)
		}
	case p.QD != 1 || p.AN > 1 || !decodes:
		switch {
		case len(replies) == 0:
			return "formerr-missing", fmt.Sprintf("bad section counts / undecodable body (qd=%d an=%d decodes=%v) drew no reply", p.QD, p.AN, decodes)
		case rcode != dns.RcodeFormatError:
			return "formerr", fmt.Sprintf("bad section counts / undecodable body (qd=%d an=%d decodes=%v) answered with rcode %d", p.QD, p.AN, decodes, rcode)
		}
	case p.Opt == "ver1":
		if len(replies) == 0 {
			return "badvers-missing", "EDNS version 1 drew no reply"
		}
		m := new(dns.Msg)
		if err := m.Unpack(first); err != nil || m.Rcode != dns.RcodeBadVers {
			return "badvers", fmt.Sprintf("EDNS version 1 answered with rcode %d (decode error: %v)", m.Rcode, err)
		}
	}
	return "", ""
}

// questionBytes: a reply that echoes the question echoes the bytes the client sent -- its own spelling of the name
// (a 0x20 client matches the reply on it), type and class -- not those of whoever asked for the name before.
func questionBytes(p engPkt, q built, reply []byte) string {
	if len(reply) <= 12 || p.QD != 1 || len(q.raw) < 12 || binary.BigEndian.Uint16(reply[4:]) != 1 {
		return ""
	}
	end := 12
	for end < len(q.raw) && q.raw[end] != 0 {
		end += 1 + int(q.raw[end])
	}
	end += 5
	if end > len(q.raw) {
		return ""
	}
	want := q.raw[12:end]
	if len(reply) < end || string(reply[12:end]) != string(want) {
		got := reply[12:]
		if len(got) > len(want) {
			got = got[:len(want)]
		}
		return fmt.Sprintf("the question section of the reply is %q, the query's was %q", got, want)
	}
	return ""
}

func TestEngineReplay(t *testing.T) {
	var in engInput
	vh.Input(t, &in)
	res := vh.NewResult()
	defer res.Write(t)
	if in.Variants <= 0 {
		in.Variants = 1
	}
	sink := newUDPSink()
	server.SetVerifUDPTrace(sink.fn)
	defer server.SetVerifUDPTrace(nil)

	type rigs struct {
		m    *twin
		engs []*engRig
	}
	byCfg := map[absCfg]*rigs{}
	defer func() {
		for _, rg := range byCfg {
			for _, e := range rg.engs {
				e.stop()
			}
		}
	}()
	build := func(c absCfg) *rigs {
		rg := &rigs{m: &twin{name: "msg", tail: &pipe.Tail{Respond: respond}}}
		s, release := pipe.NewServer(realConfig(c), rg.m.tail, "failover")
		rg.m.srv = s
		release()
		for _, name := range []string{"batch", "portable"} {
			e, err := newEngRig(name, c, sink, res)
			if errors.Is(err, errSkipBatch) {
				res.Count("eng_batch_unavailable", 1)
				continue
			}
			if err != nil {
				res.Skip("rig %s for %+v: %v", name, c, err)
				t.Fatalf("rig %s: %v", name, err)
			}
			rg.engs = append(rg.engs, e)
		}
		return rg
	}

	// A reply that never arrives within the driver's wait is the one outcome scheduling alone can produce (the
	// thorough tier runs next to fifteen other checks): a history in which the engine entry answered fewer packets
	// than the decoded entry is run once more, under a fresh name, and only the second run is judged.  What the
	// first run found is buffered until then.
	var pending []func()
	buffering, missing := false, false
	report := func(prop, clause, eng string, p engPkt, what string, b engBehaviour, si int, q built, extra map[string]any) {
		if in.Only != "" && prop != in.Only {
			res.Count("other_class_"+prop+"_"+clause, 1)
			res.DriftNote("(class %s, not this check's to judge) [%s engine, content %s, step %d of %s, pkt %+v] %s", prop, eng, b.Content, si, b.Name, p, what)
			return
		}
		rep := map[string]any{"driver": "engine", "behaviour": engBehaviour{Name: b.Name, Fam: b.Fam, Cfg: b.Cfg, Content: b.Content, Steps: b.Steps[:si+1]},
			"query_hex": hex.EncodeToString(q.raw), "entry": eng}
		for k, v := range extra {
			rep[k] = v
		}
		emit := func() {
			res.Violate(fmt.Sprintf("%s/%s/%s/%s content=%s", prop, clause, eng, shapeOf(p), b.Content),
				fmt.Sprintf("[%s engine, cfg %+v, content %s, step %d of %s, pkt %+v] %s", eng, b.Cfg, b.Content, si, b.Name, p, what), rep)
			res.Count("verdict_"+prop+"_"+clause, 1)
		}
		if buffering {
			pending = append(pending, emit)
		} else {
			emit()
		}
	}
	flush := func() {
		for _, f := range pending {
			f()
		}
		pending = nil
	}

	start := time.Now()
	serial := 0
	loIP := net.IPv4(127, 0, 0, 1)
	for bi, b := range in.Behaviours {
		if in.BudgetS > 0 && time.Since(start) > time.Duration(in.BudgetS)*time.Second {
			res.Count("eng_behaviours_over_budget", 1)
			continue
		}
		rg := byCfg[b.Cfg]
		if rg == nil {
			rg = build(b.Cfg)
			byCfg[b.Cfg] = rg
		}
		stalled := false
		for v := 0; v < in.Variants && !stalled; v++ {
			for attempt := 0; attempt < 2 && !stalled; attempt++ {
				buffering, missing, pending = attempt == 0, false, nil
				serial++
				cc := map[int][]byte{1: make([]byte, 8), 2: make([]byte, 8)}
				rnd := rand.New(rand.NewSource(vh.Seed()*7919 + int64(serial)))
				rnd.Read(cc[1])
				rnd.Read(cc[2])
				name := ""
				switch b.Content {
				case "hosts":
					name = "hosts-entry.verif.test."
				case "as112":
					name = fmt.Sprintf("%d.%d.10.in-addr.arpa.", serial&0xFF, serial>>8&0xFF)
				default:
					name = fmt.Sprintf("%s-%d.verif.test.", b.Content, 1000+serial)
				}
				// what the previous packet of this behaviour left behind, per rig: for the order counters
				type hist struct {
					cookieOn map[string]uintptr // transport -> slab a wire-born cookie query was last served on (1 for the TCP slab)
					tcpReply bool               // the TCP slab's TX region has held a full reply
					filled   bool               // a DO=1 query has put the (authority-signed) denial into the cache
				}
				hs := map[*engRig]*hist{}
				for _, e := range rg.engs {
					hs[e] = &hist{cookieOn: map[string]uintptr{}}
					// a history starts without an open connection
					if e.tconn != nil {
						e.tconn.Close()
						e.tconn, e.towner = nil, 0
					}
				}
				for si, st := range b.Steps {
					p := st.Pkt
					// the byte-level variant (letter case of the name, advertised size, option order) rotates with the history
					q := buildPacket(p.absPkt, name, loIP, rand.New(rand.NewSource(int64(serial)*131+int64(si))), (v+bi)%3, cc[p.Client])
					res.Case(fmt.Sprintf("%v|%+v|%s|%d", b.Cfg, p, b.Content, si))
					acc := server.VerifAcceptHeader(q.raw)
					var om obs
					if acc == "ok" {
						om = rg.m.serve("msg", p.absPkt, q.raw, loIP)
						rg.m.tail.Reset()
					}
					for _, e := range rg.engs {
						var o eobs
						if p.Proto == "tcp" {
							o = e.sendTCP(p, q, st.Exp.Kind != "none")
						} else {
							o = e.sendUDP(p, q)
						}
						e.tail.Reset()
						if o.stalled != "" {
							res.Count("eng_stalled_"+e.name, 1)
							res.DriftNote("%s engine stalled at step %d of %s: %s", e.name, si, b.Name, o.stalled)
							stalled = true
							break
						}
						res.Count("eng_packets_"+e.name+"_"+p.Proto, 1)
						for _, sd := range o.strays {
							report("C06", "unsolicited-datagram", e.name, p, fmt.Sprintf("before this packet was sent, its client's socket held a datagram of %d bytes no packet of the history accounts for "+
								"(a second reply, or a reply to a packet that must not be answered)", len(sd)), b, si, q, map[string]any{"datagram_hex": hex.EncodeToString(sd)})
						}
						h := hs[e]
						slabKey := o.slab
						if p.Proto == "tcp" {
							slabKey = 1
							if o.same {
								res.Count("eng_tcp_same_connection", 1)
							}
							if o.same != st.Exp.Same {
								res.DriftNote("%s engine: model same-connection=%v, driver %v at step %d of %s", e.name, st.Exp.Same, o.same, si, b.Name)
							}
						} else {
							if e.lastSlab != 0 && e.lastSlab == o.slab {
								res.Count("eng_udp_slab_reused_"+e.name, 1)
							} else if e.lastSlab != 0 {
								res.Count("eng_udp_slab_changed_"+e.name, 1)
							}
							e.lastSlab = o.slab
						}
						// ---- the orders the tier exists for, as they really happened
						wireBorn := acc == "ok" && p.Opcode == 0 && p.AN == 0 && (p.Opt == "none" || p.Opt == "ok") && p.Cookie != "badlen" && p.ECS != "badfam" && !p.Unk
						if wireBorn && p.Opt == "ok" && p.Cookie == "none" && h.cookieOn[p.Proto] != 0 && h.cookieOn[p.Proto] == slabKey && len(o.replies) > 0 {
							res.Count("order_cookie_then_bare_opt_"+p.Proto, 1)
						}
						if wireBorn && p.Opt == "ok" && (p.Cookie == "c8" || p.Cookie == "valid" || p.Cookie == "stale") {
							h.cookieOn[p.Proto] = slabKey
						}
						if p.Proto == "tcp" {
							f := factsOf(o.replies)
							if h.tcpReply && f.kind == "bare" {
								if o.same {
									res.Count("order_reply_then_reject_same_conn", 1)
								} else {
									res.Count("order_reply_then_reject_new_conn", 1)
								}
							}
							if f.kind == "reply" {
								h.tcpReply = true
							}
						}
						if (b.Content == "nxsig" || b.Content == "nodatasig") && wireBorn && p.Qtype == "A" && !p.CD {
							switch {
							case p.DO && p.Opt == "ok" && o.tail > 0:
								h.filled = true
							case h.filled && !p.DO && o.tail == 0 && len(o.replies) > 0:
								res.Count("order_signed_denial_then_plain_client_"+p.Proto, 1)
							}
						}
						// ---- C06
						if len(o.replies) > 1 {
							report("C06", "two-replies", e.name, p, fmt.Sprintf("%d replies to one packet", len(o.replies)), b, si, q, nil)
						}
						for _, rep := range o.replies {
							res.Count("eng_replies_judged", 1)
							if what := questionBytes(p, q, rep); what != "" {
								report("C06", "question-bytes", e.name, p, what, b, si, q, map[string]any{"reply_hex": hex.EncodeToString(rep)})
							}
							if clause, what := contract(p.absPkt, q, rep); clause != "" {
								report("C06", clause, e.name, p, what, b, si, q, map[string]any{"reply_hex": hex.EncodeToString(rep)})
							}
						}
						if clause, what := listenerClauses(p, q, o.replies); clause != "" {
							extra := map[string]any{}
							if len(o.replies) > 0 {
								extra["reply_hex"] = hex.EncodeToString(o.replies[0])
							}
							report("C06", clause, e.name, p, what, b, si, q, extra)
						}
						// ---- C05: the engine entry against the decoded entry
						if acc == "ok" {
							eo := o.obs
							if om.formerr && len(eo.replies) == 1 && len(eo.replies[0]) == 12 && eo.replies[0][3]&0xF == dns.RcodeFormatError {
								eo.formerr, eo.replies = true, nil
							}
							switch {
							case eo.formerr != om.formerr || len(eo.replies) != len(om.replies):
								if !eo.formerr && !om.formerr && len(eo.replies) < len(om.replies) {
									missing = true
								}
								report("C05", "decision", e.name, p, fmt.Sprintf("engine entry: formerr=%v replies=%d; decoded entry: formerr=%v replies=%d",
									eo.formerr, len(eo.replies), om.formerr, len(om.replies)), b, si, q, nil)
							case eo.tail != om.tail:
								report("C05", "side-effect", e.name, p, fmt.Sprintf("engine entry reached the upstream %d times, decoded entry %d times", eo.tail, om.tail), b, si, q, nil)
							default:
								for k := range eo.replies {
									ca, _, ea := canonMsg(eo.replies[k])
									cb, _, eb := canonMsg(om.replies[k])
									if ea != nil || eb != nil {
										if (ea == nil) != (eb == nil) {
											report("C05", "decode", e.name, p, fmt.Sprintf("reply of the engine entry decodes: %v, of the decoded entry: %v", ea, eb), b, si, q,
												map[string]any{"engine_hex": hex.EncodeToString(eo.replies[k]), "msg_hex": hex.EncodeToString(om.replies[k])})
										}
										continue
									}
									if d := diffCanon(ca, cb); d != "" {
										report("C05", "reply", e.name, p, "engine vs decoded entry: "+d, b, si, q,
											map[string]any{"engine_hex": hex.EncodeToString(eo.replies[k]), "msg_hex": hex.EncodeToString(om.replies[k])})
									}
								}
							}
						}
						// ---- drift against the model
						f := factsOf(o.replies)
						x := st.Exp
						if f.kind != x.Kind || (x.Kind != "none" && f.rcode != x.Rcode) ||
							(x.Kind == "reply" && (f.opt != x.Opt || f.tc != x.Tc || f.ad != x.Ad || f.cookie != x.Cookie || f.dnssec != x.Dnssec)) ||
							(acc == "ok" && x.Tail != (o.tail > 0)) {
							res.DriftNote("%s engine: model %+v, code %+v tail=%d for cfg %+v pkt %+v content %s step %d of %s", e.name, x, f, o.tail, b.Cfg, p, b.Content, si, b.Name)
							res.Count("eng_drift_steps", 1)
						}
					}
					if stalled {
						break
					}
				}
				if stalled {
					if !missing {
						flush()
					}
					break
				}
				// follow-up: what a later client sees (decoded entry on every twin)
				fq := new(dns.Msg)
				fq.SetQuestion(name, dns.TypeA)
				fq.Id = 4711
				raw, _ := fq.Pack()
				fm := rg.m.serve("msg", absPkt{Proto: "tcp", QD: 1}, raw, net.IPv4(198, 18, 0, 9))
				rg.m.tail.Reset()
				for _, e := range rg.engs {
					tw := &twin{name: e.name, srv: e.srv, tail: e.tail}
					fe := tw.serve("msg", absPkt{Proto: "tcp", QD: 1}, raw, net.IPv4(198, 18, 0, 9))
					e.tail.Reset()
					if fe.tail != fm.tail || len(fe.replies) != len(fm.replies) {
						report("C05", "later-visible", e.name, b.Steps[len(b.Steps)-1].Pkt, fmt.Sprintf("after the behaviour a follow-up query reaches upstream %d times behind the engine entry and %d times behind the decoded entry",
							fe.tail, fm.tail), b, len(b.Steps)-1, built{}, nil)
					}
				}
				if attempt == 0 && missing {
					res.Count("eng_missing_reply_rerun", 1)
					res.DriftNote("history %s (content %s): the engine entry answered fewer packets than the decoded entry within the driver's wait; run again before judging", b.Name, b.Content)
					continue
				}
				flush()
				res.Count("eng_histories", 1)
				break
			}
		}
		if bi < 2 {
			res.Sample(b)
		}
	}
	// one slab each: nothing else may have been allocated behind the driver's back
	for _, rg := range byCfg {
		for _, e := range rg.engs {
			st := server.VerifC10Snapshot(e.srv)
			if st.TCPIdleSmall+st.TCPIdleLarge > 2 {
				res.Skip("%s rig: %d idle TCP slabs", e.name, st.TCPIdleSmall+st.TCPIdleLarge)
			}
		}
	}
	var keys []string
	for k := range byCfg {
		keys = append(keys, fmt.Sprintf("%+v", k))
	}
	sort.Strings(keys)
	res.Sample(map[string]any{"configurations": keys, "wall_s": time.Since(start).Seconds()})
}
