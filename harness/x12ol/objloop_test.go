package x12ol

// X12OL -- the validators' per-object work loops (property C12, DNSSEC-operations clause).
//
// Every case TLC enumerated from tla/ObjLoop/ObjLoop.tla (a call shape: groups of objects of
// candidates with their operation results, a mode, a per-object limit, a per-RRset limit, an
// aggregate budget, and what the model says the loop does with it) is built with REAL keys sharing
// one key tag, real digests and real signatures, and run through the REAL functions
//
//	dnssec.VerifyDSWithWork / DSAuthenticatedKeysWithWork / VerifyRRSIGWithWork / VerifyApexDNSKEYWithWork
//
// with the production work path (a real middleware.RecursionWorkLedger in the context + the
// resolver's dnssecWorkBudget adapter + a real CryptoLimiter) behind a counting wrapper that logs
// every call the loop makes on its work adapter and counts the operations it was allowed to begin.
//
// Judged on the real code (violations):
//   - enforce: the operations of a call never exceed (live objects) x max_dnskey_candidates,
//     (live RRsets) x max_rrset_signature_checks, nor the aggregate budget;
//   - enforce: once the ledger refused, nothing more is asked of it and the call returns the
//     work-limit error (a WorkError wrapping ErrRecursionWorkLimit);
//   - shadow / off: nothing is refused and the verdict (error, secure flag, authenticated keys) is
//     the one of the same call without any work accounting.
//
// Compared with the model (drift): outcome class, operation count, the exact call log, the ledger's
// exhaustion marks and aggregate counter, the authenticated key set.

import (
	"context"
	"errors"
	"fmt"
	"math/rand"
	"runtime"
	"sort"
	"strings"
	"sync"
	"sync/atomic"
	"testing"
	"time"

	"github.com/miekg/dns"
	"github.com/semihalev/sdns/middleware"
	"github.com/semihalev/sdns/middleware/resolver"
	"github.com/semihalev/sdns/middleware/resolver/dnssec"
	"github.com/semihalev/sdns/verifharness/authkit"
	"github.com/semihalev/sdns/verifharness/vh"
)

const zone = "ol.test."

type objT struct {
	K string   `json:"k"`
	C []string `json:"c"`
}

type caseT struct {
	Fn         string   `json:"fn"`
	Variant    string   `json:"variant,omitempty"` // "" | "apex" (VerifyApexDNSKEYWithWork on the apex DNSKEY RRset)
	Shape      [][]objT `json:"shape"`
	Mode       string   `json:"mode"`
	Cap        uint32   `json:"cap"`
	Gcap       uint32   `json:"gcap"`
	Budget     uint32   `json:"budget"`
	Outcome    string   `json:"outcome"`
	Ops        [][]int  `json:"ops"`
	Total      int      `json:"total"`
	Log        []string `json:"log"`
	Flags      []string `json:"flags"`
	Refused    string   `json:"refused"`
	Matched    [][]int  `json:"matched"`
	RefOutcome string   `json:"refOutcome"`
	RefOps     [][]int  `json:"refOps"`
}

type input struct {
	Cases       []caseT `json:"cases"`
	PoolWant    int     `json:"poolWant"`
	MintBudgetS float64 `json:"mintBudgetS"`
	Workers     int     `json:"workers"`
}

// ---------------------------------------------------------------------------------------------
// same-tag key pool

// mintPool generates keys in parallel until `want` of them share one key tag (a multi-collision
// among 65536 tags needs some ten thousand keys, not want*65536), or the budget runs out; then the
// fullest bucket is returned.
func mintPool(want int, budget time.Duration) ([]*authkit.Key, int64) {
	var (
		mu      sync.Mutex
		buckets = map[uint16][]*authkit.Key{}
		best    []*authkit.Key
		tried   int64
		stop    atomic.Bool
		wg      sync.WaitGroup
	)
	deadline := time.Now().Add(budget)
	workers := runtime.GOMAXPROCS(0)
	if workers > 16 {
		workers = 16
	}
	for i := 0; i < workers; i++ {
		wg.Add(1)
		go func() {
			defer wg.Done()
			for !stop.Load() {
				k := authkit.NewKey(zone, 0)
				tag := k.RR.KeyTag()
				mu.Lock()
				tried++
				b := append(buckets[tag], k)
				buckets[tag] = b
				if len(b) > len(best) {
					best = b
				}
				if len(best) >= want || (tried%256 == 0 && time.Now().After(deadline)) {
					stop.Store(true)
				}
				mu.Unlock()
			}
		}()
	}
	wg.Wait()
	pool := append([]*authkit.Key(nil), best...)
	if len(pool) > want {
		pool = pool[:want]
	}
	sort.Slice(pool, func(i, j int) bool { return pool[i].RR.PublicKey < pool[j].RR.PublicKey })
	return pool, tried
}

type world struct {
	pool     []*authkit.Key // same tag, in the validators' candidate order (public key)
	tag      uint16
	outsider *authkit.Key // digests / signs what no pool key matches
	alt      *authkit.Key // another tag, never in a key map: "the DS names a key nobody published"
	noise    *authkit.Key // another tag, in every key map
	base     time.Time

	mu    sync.Mutex
	sigs  map[string]*dns.RRSIG
	truth map[string]bool
}

func otherTagKey(avoid ...uint16) *authkit.Key {
	for {
		k := authkit.NewKey(zone, 0)
		ok := true
		for _, t := range avoid {
			if k.RR.KeyTag() == t {
				ok = false
			}
		}
		if ok {
			return k
		}
	}
}

func newWorld(pool []*authkit.Key) *world {
	w := &world{pool: pool, tag: pool[0].RR.KeyTag(), sigs: map[string]*dns.RRSIG{}, truth: map[string]bool{}}
	w.outsider = otherTagKey(w.tag)
	w.alt = otherTagKey(w.tag, w.outsider.RR.KeyTag())
	w.noise = otherTagKey(w.tag, w.outsider.RR.KeyTag(), w.alt.RR.KeyTag())
	w.noise.RR.Flags = 256
	w.base = time.Now().Add(-30 * 24 * time.Hour).Truncate(time.Second)
	return w
}

func shuffledKeys(rng *rand.Rand, ks []*authkit.Key, dup bool) []*dns.DNSKEY {
	out := make([]*dns.DNSKEY, 0, len(ks)+1)
	for _, k := range ks {
		out = append(out, k.RR)
	}
	if dup && len(ks) > 0 {
		// the same key published twice (another pointer): the validators dedupe before they count
		out = append(out, dns.Copy(ks[rng.Intn(len(ks))].RR).(*dns.DNSKEY))
	}
	rng.Shuffle(len(out), func(i, j int) { out[i], out[j] = out[j], out[i] })
	return out
}

var errPool = errors.New("pool too small for this case")

func width(c *caseT) int {
	n := 0
	for _, g := range c.Shape {
		for _, ob := range g {
			if len(ob.C) > n {
				n = len(ob.C)
			}
		}
	}
	return n
}

func firstM(cs []string) int {
	for i, x := range cs {
		if x == "M" {
			return i
		}
	}
	return -1
}

// ---------------------------------------------------------------------------------------------
// DS cases

func (w *world) buildDS(c *caseT, rng *rand.Rand) (map[uint16][]*dns.DNSKEY, []dns.RR, error) {
	if len(c.Shape) != 1 {
		return nil, nil, fmt.Errorf("a DS call has one group")
	}
	n := width(c)
	if n > len(w.pool) {
		return nil, nil, errPool
	}
	types := []uint8{dns.SHA1, dns.SHA256, dns.SHA384} // the validators visit DS records by digest type
	ti := 0
	var dsSet []dns.RR
	for oi, ob := range c.Shape[0] {
		switch {
		case ob.K == "unsup":
			ds := w.pool[0].RR.ToDS(dns.SHA256)
			ds.Digest = fmt.Sprintf("%02x", oi+1) + ds.Digest[2:]
			if rng.Intn(2) == 0 {
				ds.DigestType = 3 // GOST R 34.11-94: not implemented
			} else {
				ds.Algorithm = dns.DSA // a DNSKEY algorithm the validator cannot verify
			}
			dsSet = append(dsSet, ds)
		case len(ob.C) == 0:
			dsSet = append(dsSet, w.alt.RR.ToDS([]uint8{dns.SHA256, dns.SHA384, dns.SHA1}[oi%3]))
		default:
			if len(ob.C) != n {
				return nil, nil, fmt.Errorf("objects of one DS call share their candidates")
			}
			if ti >= len(types) {
				return nil, nil, fmt.Errorf("more than %d supported DS records", len(types))
			}
			t := types[ti]
			ti++
			var ds *dns.DS
			if p := firstM(ob.C); p >= 0 {
				ds = w.pool[p].RR.ToDS(t)
			} else {
				ds = w.outsider.RR.ToDS(t)
				ds.KeyTag = w.tag
			}
			if rng.Intn(2) == 0 {
				ds.Digest = strings.ToUpper(ds.Digest)
			}
			// ground truth, independently of the code under test
			for i := 0; i < n; i++ {
				got := strings.EqualFold(w.pool[i].RR.ToDS(t).Digest, ds.Digest)
				if got != (ob.C[i] == "M") {
					return nil, nil, fmt.Errorf("harness built the wrong DS pattern at object %d candidate %d", oi+1, i+1)
				}
			}
			dsSet = append(dsSet, ds)
		}
	}
	if rng.Intn(3) == 0 && len(dsSet) > 0 {
		dsSet = append(dsSet, dns.Copy(dsSet[rng.Intn(len(dsSet))])) // a duplicate DS costs nothing
	}
	rng.Shuffle(len(dsSet), func(i, j int) { dsSet[i], dsSet[j] = dsSet[j], dsSet[i] })
	if n == 0 {
		n = 1
	}
	keyMap := map[uint16][]*dns.DNSKEY{
		w.tag:               shuffledKeys(rng, w.pool[:n], rng.Intn(3) == 0),
		w.noise.RR.KeyTag(): {w.noise.RR},
	}
	return keyMap, dsSet, nil
}

// ---------------------------------------------------------------------------------------------
// RRSIG cases

func (w *world) rrset(variant string, gi int) []dns.RR {
	if variant == "apex" {
		var set []dns.RR
		for _, k := range w.pool {
			set = append(set, k.RR)
		}
		return append(set, w.noise.RR)
	}
	return []dns.RR{&dns.A{Hdr: dns.RR_Header{Name: fmt.Sprintf("r%d.%s", gi, zone), Rrtype: dns.TypeA, Class: dns.ClassINET, Ttl: 300},
		A: []byte{192, 0, 2, byte(gi)}}}
}

// sig returns the (cached) signature of object oi of group gi: kind "stale", "forged" or "good<j>".
func (w *world) sig(variant string, gi, oi int, kind string) *dns.RRSIG {
	key := fmt.Sprintf("%s/%d/%d/%s", variant, gi, oi, kind)
	w.mu.Lock()
	defer w.mu.Unlock()
	if s, ok := w.sigs[key]; ok {
		return s
	}
	// the validators try the signatures of an RRset in (..., inception, expiration, signature) order
	inc := w.base.Add(time.Duration(oi) * time.Second)
	exp := time.Now().Add(30 * 24 * time.Hour)
	signer := w.pool[0]
	switch {
	case kind == "stale":
		exp = time.Now().Add(-24 * time.Hour)
	case kind == "forged":
		signer = w.outsider
	default:
		var j int
		fmt.Sscanf(kind, "good%d", &j)
		signer = w.pool[j-1]
	}
	s := authkit.SignRRset(w.rrset(variant, gi), zone, signer, inc, exp)
	s.KeyTag = w.tag
	w.sigs[key] = s
	return s
}

func (w *world) sigTruth(variant string, gi, oi int, kind string, i int) bool {
	s := w.sig(variant, gi, oi, kind)
	key := fmt.Sprintf("%s/%d/%d/%s#%d", variant, gi, oi, kind, i)
	w.mu.Lock()
	defer w.mu.Unlock()
	if v, ok := w.truth[key]; ok {
		return v
	}
	v := s.Verify(w.pool[i].RR, w.rrset(variant, gi)) == nil
	w.truth[key] = v
	return v
}

func (w *world) buildSig(c *caseT, rng *rand.Rand) (keys, apex map[uint16][]*dns.DNSKEY, msg *dns.Msg, err error) {
	k := width(c)
	if k == 0 {
		k = 1
	}
	if k > len(w.pool) {
		return nil, nil, nil, errPool
	}
	if c.Variant == "apex" && len(c.Shape) != 1 {
		return nil, nil, nil, fmt.Errorf("the apex variant has one RRset")
	}
	msg = new(dns.Msg)
	for gi, grp := range c.Shape {
		msg.Answer = append(msg.Answer, w.rrset(c.Variant, gi+1)...)
		for oi, ob := range grp {
			kind := "stale"
			if ob.K == "ok" {
				if len(ob.C) != k {
					return nil, nil, nil, fmt.Errorf("signatures of one call share their candidate keys")
				}
				if p := firstM(ob.C); p >= 0 {
					kind = fmt.Sprintf("good%d", p+1)
				} else {
					kind = "forged"
				}
				for i := 0; i < k; i++ {
					if w.sigTruth(c.Variant, gi+1, oi+1, kind, i) != (ob.C[i] == "M") {
						return nil, nil, nil, fmt.Errorf("harness built the wrong signature pattern at %d/%d key %d", gi+1, oi+1, i+1)
					}
				}
			}
			s := w.sig(c.Variant, gi+1, oi+1, kind)
			msg.Answer = append(msg.Answer, s)
			if rng.Intn(4) == 0 {
				msg.Answer = append(msg.Answer, dns.Copy(s)) // a duplicate RRSIG costs nothing
			}
		}
	}
	rng.Shuffle(len(msg.Answer), func(i, j int) { msg.Answer[i], msg.Answer[j] = msg.Answer[j], msg.Answer[i] })
	dup := rng.Intn(3) == 0
	if c.Variant == "apex" {
		keys = map[uint16][]*dns.DNSKEY{w.tag: shuffledKeys(rng, w.pool, false), w.noise.RR.KeyTag(): {w.noise.RR}}
		apex = map[uint16][]*dns.DNSKEY{w.tag: shuffledKeys(rng, w.pool[:k], dup)}
		return keys, apex, msg, nil
	}
	keys = map[uint16][]*dns.DNSKEY{w.tag: shuffledKeys(rng, w.pool[:k], dup), w.noise.RR.KeyTag(): {w.noise.RR}}
	return keys, nil, msg, nil
}

// ---------------------------------------------------------------------------------------------
// the counting work adapter

type counter struct {
	inner        resolver.VerifX12olAdapter
	log          []string
	ops          int
	refusals     int
	afterRefusal int
	firstRefusal error
}

func (k *counter) rec(tag string, used uint32, err error) error {
	if k.refusals > 0 {
		k.afterRefusal++
	}
	e := fmt.Sprintf("%s%d", tag, used)
	if err != nil {
		e += "!"
		if k.refusals == 0 {
			k.firstRefusal = err
		}
		k.refusals++
	}
	k.log = append(k.log, e)
	return err
}

func (k *counter) CheckDNSKEYCandidate(used uint32) error {
	return k.rec("C", used, k.inner.CheckDNSKEYCandidate(used))
}

func (k *counter) CheckRRsetSignature(used uint32) error {
	return k.rec("G", used, k.inner.CheckRRsetSignature(used))
}

func (k *counter) begin(f func() (func(), error)) (func(), error) {
	if k.refusals > 0 {
		k.afterRefusal++
	}
	rel, err := f()
	if err != nil {
		if k.refusals == 0 {
			k.firstRefusal = err
		}
		k.refusals++
		k.log = append(k.log, "B!")
		return nil, err
	}
	k.log = append(k.log, "B")
	k.ops++
	return rel, nil
}

func (k *counter) BeginSignature() (func(), error) { return k.begin(k.inner.BeginSignature) }
func (k *counter) BeginDSDigest() (func(), error)  { return k.begin(k.inner.BeginDSDigest) }

// ---------------------------------------------------------------------------------------------

type verdictT struct {
	Class string `json:"class"` // ok | bogus | insecure | worklimit | workerr
	Err   string `json:"err"`
	OK    bool   `json:"ok"`
	// worklimit: the error is also a dnssec.WorkError (what makes it terminal inside the loops)
	Wrapped bool  `json:"wrapped,omitempty"`
	Keys    []int `json:"keys,omitempty"` // DSAuth: pool indices (1-based, candidate order) of the authenticated keys
}

func (v verdictT) same(o verdictT) bool {
	return v.Class == o.Class && v.Err == o.Err && v.OK == o.OK && fmt.Sprint(v.Keys) == fmt.Sprint(o.Keys)
}

type obsT struct {
	Verdict      verdictT `json:"verdict"`
	Ops          int      `json:"ops"`
	Log          []string `json:"log"`
	Refusals     int      `json:"refusals"`
	AfterRefusal int      `json:"callsAfterRefusal"`
	Flags        []string `json:"flags"`
	Agg          uint32   `json:"agg"`
	Latched      string   `json:"latched,omitempty"`
}

func classify(err error, secure, unsupOnly bool) verdictT {
	v := verdictT{OK: secure}
	if err != nil {
		v.Err = err.Error()
	}
	switch {
	case err == nil:
		v.Class = "ok"
	case errors.Is(err, middleware.ErrRecursionWorkLimit):
		v.Class = "worklimit" // what the resolver turns into the budget SERVFAIL (isDNSSECWorkError)
		v.Wrapped = dnssec.IsWorkError(err)
	case dnssec.IsWorkError(err):
		v.Class = "workerr"
	case unsupOnly:
		v.Class = "insecure"
	default:
		v.Class = "bogus"
	}
	return v
}

func (w *world) keyIndex(k *dns.DNSKEY) int {
	for i, p := range w.pool {
		if p.RR.PublicKey == k.PublicKey {
			return i + 1
		}
	}
	return 0
}

// call runs the function of the case on the built inputs with the given work adapter (nil = none).
func (w *world) call(c *caseT, in *built, work *counter) verdictT {
	switch c.Fn {
	case "VerifyDS":
		var unsup bool
		var err error
		if work == nil {
			unsup, err = dnssec.VerifyDS(in.keys, in.ds)
		} else {
			unsup, err = dnssec.VerifyDSWithWork(in.keys, in.ds, work)
		}
		return classify(err, err == nil, unsup)
	case "DSAuth":
		var m map[uint16][]*dns.DNSKEY
		var err error
		if work == nil {
			m, err = dnssec.DSAuthenticatedKeysWithWork(in.keys, in.ds, nil)
		} else {
			m, err = dnssec.DSAuthenticatedKeysWithWork(in.keys, in.ds, work)
		}
		v := classify(err, err == nil, false)
		for tag, ks := range m {
			for _, k := range ks {
				idx := w.keyIndex(k)
				if tag != w.tag || idx == 0 {
					idx = -1 // a key outside the pool was authenticated
				}
				v.Keys = append(v.Keys, idx)
			}
		}
		sort.Ints(v.Keys)
		return v
	case "RRSIG":
		var ok bool
		var err error
		switch {
		case c.Variant == "apex" && work == nil:
			ok, err = dnssec.VerifyApexDNSKEYWithWork(zone, in.keys, in.apex, in.msg, nil)
		case c.Variant == "apex":
			ok, err = dnssec.VerifyApexDNSKEYWithWork(zone, in.keys, in.apex, in.msg, work)
		case work == nil:
			ok, err = dnssec.VerifyRRSIG(zone, in.keys, in.msg)
		default:
			ok, err = dnssec.VerifyRRSIGWithWork(zone, in.keys, in.msg, work)
		}
		v := classify(err, ok, false)
		if err == nil && !ok {
			v.Class = "bogus"
		}
		return v
	}
	panic("unknown fn " + c.Fn)
}

type built struct {
	keys, apex map[uint16][]*dns.DNSKEY
	ds         []dns.RR
	msg        *dns.Msg
}

func (w *world) build(c *caseT, rng *rand.Rand) (*built, error) {
	b := &built{}
	var err error
	if c.Fn == "RRSIG" {
		b.keys, b.apex, b.msg, err = w.buildSig(c, rng)
	} else {
		b.keys, b.ds, err = w.buildDS(c, rng)
	}
	return b, err
}

func policyOf(c *caseT) middleware.RecursionWorkPolicy {
	p := middleware.RecursionWorkPolicy{
		MaxOutboundQueries: 1000, MaxInternalQueries: 1000, MaxNSEC3Hashes: 1000, MaxConcurrentCrypto: 4,
		MaxDNSKEYCandidates: c.Cap, MaxRRsetSignatureChecks: 1000, MaxSignatureChecks: 1000, MaxDSDigests: 1000,
	}
	switch c.Mode {
	case "shadow":
		p.Mode = middleware.RecursionWorkShadow
	case "enforce":
		p.Mode = middleware.RecursionWorkEnforce
	default:
		p.Mode = middleware.RecursionWorkOff
	}
	if c.Fn == "RRSIG" {
		p.MaxRRsetSignatureChecks = c.Gcap
		p.MaxSignatureChecks = c.Budget
	} else {
		p.MaxDSDigests = c.Budget
	}
	return p
}

// observe runs the case through the production work path.
func (w *world) observe(c *caseT, in *built, idx int, limiter *dnssec.CryptoLimiter) obsT {
	ctx := context.Background()
	var ledger *middleware.RecursionWorkLedger
	if c.Mode != "off" || idx%2 == 1 {
		// off: either no ledger at all (what EnsureRecursionWork does with a disabled policy) or a
		// ledger whose policy is disabled
		ledger = middleware.NewRecursionWorkLedger(policyOf(c))
		ctx = middleware.WithRecursionWork(ctx, ledger)
	}
	cnt := &counter{inner: resolver.VerifX12olWork(ctx, limiter)}
	v := w.call(c, in, cnt)
	o := obsT{Verdict: v, Ops: cnt.ops, Log: cnt.log, Refusals: cnt.refusals, AfterRefusal: cnt.afterRefusal, Flags: []string{}}
	if ledger != nil {
		s := ledger.Snapshot()
		if s.DNSKEYCandidatesExhausted {
			o.Flags = append(o.Flags, "cand")
		}
		if s.RRsetSignatureChecksExhausted {
			o.Flags = append(o.Flags, "group")
		}
		if s.SignatureChecksExhausted || s.DSDigestsExhausted {
			o.Flags = append(o.Flags, "agg")
		}
		o.Agg = s.SignatureChecks + s.DSDigests
		if err := ledger.EnforcementError(); err != nil {
			o.Latched = err.Error()
		}
	}
	sort.Strings(o.Flags)
	return o
}

func live(ob objT) bool { return ob.K == "ok" && len(ob.C) > 0 }

func caseKey(c *caseT) string {
	var sb strings.Builder
	sb.WriteString(c.Fn)
	if c.Variant != "" {
		sb.WriteString("+" + c.Variant)
	}
	for _, g := range c.Shape {
		sb.WriteString("|")
		for _, ob := range g {
			switch {
			case ob.K != "ok":
				sb.WriteString(ob.K[:1] + ".")
			default:
				sb.WriteString(strings.Join(ob.C, "") + ".")
			}
		}
	}
	return fmt.Sprintf("%s %s c%d g%d b%d", sb.String(), c.Mode, c.Cap, c.Gcap, c.Budget)
}

func modelMatched(c *caseT) []int {
	out := []int{}
	seen := map[int]bool{}
	for _, m := range c.Matched {
		if len(m) == 2 && !seen[m[1]] {
			seen[m[1]] = true
			out = append(out, m[1])
		}
	}
	sort.Ints(out)
	return out
}

func TestObjLoop(t *testing.T) {
	var in input
	vh.Input(t, &in)
	res := vh.NewResult()
	defer res.Write(t)

	want := in.PoolWant
	if want == 0 {
		want = 4
	}
	budget := time.Duration(in.MintBudgetS * float64(time.Second))
	if budget == 0 {
		budget = 12 * time.Second
	}
	t0 := time.Now()
	pool, tried := mintPool(want, budget)
	res.Count("pool_keys", len(pool))
	res.Count("keys_generated", int(tried))
	res.Count("mint_ms", int(time.Since(t0).Milliseconds()))
	if len(pool) < 3 {
		res.Skip("only %d same-tag keys after %d generated", len(pool), tried)
		return
	}
	w := newWorld(pool)

	workers := in.Workers
	if workers <= 0 {
		workers = runtime.GOMAXPROCS(0)
		if workers > 8 {
			workers = 8
		}
	}
	seed := vh.Seed()
	jobs := make(chan int)
	var wg sync.WaitGroup
	for wk := 0; wk < workers; wk++ {
		wg.Add(1)
		go func() {
			defer wg.Done()
			limiter := dnssec.NewCryptoLimiter(4)
			for idx := range jobs {
				c := &in.Cases[idx]
				w.one(res, c, idx, seed, limiter)
			}
		}()
	}
	for i := range in.Cases {
		jobs <- i
	}
	close(jobs)
	wg.Wait()
	res.Count("run_ms", int(time.Since(t0).Milliseconds()))
}

func (w *world) one(res *vh.Result, c *caseT, idx int, seed int64, limiter *dnssec.CryptoLimiter) {
	key := caseKey(c)
	rng := rand.New(rand.NewSource(seed*1000003 + int64(idx)))
	in, err := w.build(c, rng)
	if errors.Is(err, errPool) {
		res.Count("skipped_pool_too_small", 1)
		return
	}
	if err != nil {
		res.Skip("%s: %v", key, err)
		return
	}
	plain := w.call(c, in, nil) // the same call without any work accounting
	o := w.observe(c, in, idx, limiter)
	res.Case(key)
	res.Count("cases_"+c.Fn+c.Variant+"_"+c.Mode, 1)
	res.Count("operations", o.Ops)
	replay := map[string]any{"driver": "objloop", "case": c, "observed": o, "plain": plain}
	cls := "x12ol/" + c.Fn + c.Variant

	liveObjs, liveGroups := 0, 0
	for _, g := range c.Shape {
		lg := false
		for _, ob := range g {
			if live(ob) {
				liveObjs++
				lg = true
			}
		}
		if lg {
			liveGroups++
		}
	}

	switch c.Mode {
	case "enforce":
		if o.Ops > liveObjs*int(c.Cap) {
			res.Violate(cls+"/object-bound", fmt.Sprintf("[%s] enforce: %d operations on %d validation object(s) with max_dnskey_candidates=%d (log %v)",
				key, o.Ops, liveObjs, c.Cap, o.Log), replay)
		}
		if c.Fn == "RRSIG" && o.Ops > liveGroups*int(c.Gcap) {
			res.Violate(cls+"/rrset-bound", fmt.Sprintf("[%s] enforce: %d signature operations on %d RRset(s) with max_rrset_signature_checks=%d (log %v)",
				key, o.Ops, liveGroups, c.Gcap, o.Log), replay)
		}
		if o.Ops > int(c.Budget) || o.Agg > c.Budget {
			res.Violate(cls+"/aggregate-bound", fmt.Sprintf("[%s] enforce: %d operations (ledger counts %d) with an aggregate budget of %d (log %v)",
				key, o.Ops, o.Agg, c.Budget, o.Log), replay)
		}
		if o.Refusals > 0 {
			res.Count("enforce_refusals", 1)
			if o.AfterRefusal > 0 {
				res.Violate(cls+"/refusal-not-terminal", fmt.Sprintf("[%s] enforce: the loop went on after the ledger refused (%d more calls on the work adapter, log %v, returned %q)",
					key, o.AfterRefusal, o.Log, o.Verdict.Err), replay)
			}
			if o.Verdict.Class != "worklimit" {
				res.Violate(cls+"/refusal-swallowed", fmt.Sprintf("[%s] enforce: the ledger refused but the call returned %s (%q), not the work-limit error",
					key, o.Verdict.Class, o.Verdict.Err), replay)
			}
		} else {
			if o.Verdict.Class == "worklimit" || o.Verdict.Class == "workerr" {
				res.DriftNote("[%s] work error %q without a refusal by the ledger", key, o.Verdict.Err)
			} else if !o.Verdict.same(plain) {
				// not a predicate of the statement (it only speaks of shadow and off): drift
				res.DriftNote("[%s] enforce, no limit hit: verdict %+v differs from the uncapped %+v", key, o.Verdict, plain)
			}
		}
		if o.Ops == liveObjs*int(c.Cap) && o.Refusals > 0 {
			res.Count("enforce_stopped_exactly_at_the_limit", 1)
		}
	default:
		if o.Refusals > 0 || o.Verdict.Class == "worklimit" || o.Verdict.Class == "workerr" {
			res.Violate(cls+"/"+c.Mode+"-refuses", fmt.Sprintf("[%s] %s mode refused work: log %v, returned %q", key, c.Mode, o.Log, o.Verdict.Err), replay)
		} else if !o.Verdict.same(plain) {
			res.Violate(cls+"/"+c.Mode+"-verdict", fmt.Sprintf("[%s] %s mode: verdict %+v differs from the same call without the firewall %+v",
				key, c.Mode, o.Verdict, plain), replay)
		}
		if c.Mode == "shadow" && len(o.Flags) > 0 {
			res.Count("shadow_marked", 1)
		}
	}

	// ---- the model's account of the same call (drift)
	drift := []string{}
	if o.Verdict.Class != c.Outcome {
		drift = append(drift, fmt.Sprintf("outcome %s, model %s", o.Verdict.Class, c.Outcome))
	}
	if o.Verdict.Class == "worklimit" && !o.Verdict.Wrapped {
		drift = append(drift, "the work-limit error is not a dnssec.WorkError")
	}
	if plain.Class != c.RefOutcome {
		drift = append(drift, fmt.Sprintf("uncapped outcome %s, model %s", plain.Class, c.RefOutcome))
	}
	if o.Ops != c.Total {
		drift = append(drift, fmt.Sprintf("%d operations, model %d", o.Ops, c.Total))
	}
	if strings.Join(o.Log, " ") != strings.Join(c.Log, " ") {
		drift = append(drift, fmt.Sprintf("call log %v, model %v", o.Log, c.Log))
	}
	if c.Mode != "off" {
		mf := append([]string(nil), c.Flags...)
		sort.Strings(mf)
		if strings.Join(o.Flags, ",") != strings.Join(mf, ",") {
			drift = append(drift, fmt.Sprintf("ledger marks %v, model %v", o.Flags, mf))
		}
		if int(o.Agg) != c.Total {
			drift = append(drift, fmt.Sprintf("ledger counter %d, model %d", o.Agg, c.Total))
		}
	} else if len(o.Flags) > 0 || o.Agg != 0 {
		drift = append(drift, fmt.Sprintf("off mode left marks %v / counter %d", o.Flags, o.Agg))
	}
	if c.Fn == "DSAuth" && o.Verdict.Class == "ok" {
		if fmt.Sprint(o.Verdict.Keys) != fmt.Sprint(modelMatched(c)) && !(len(o.Verdict.Keys) == 0 && len(modelMatched(c)) == 0) {
			drift = append(drift, fmt.Sprintf("authenticated keys %v, model %v", o.Verdict.Keys, modelMatched(c)))
		}
	}
	if (c.Mode == "enforce") && (o.Latched != "") != (c.Refused != "none") {
		drift = append(drift, fmt.Sprintf("latched rejection %q, model refused=%s", o.Latched, c.Refused))
	}
	if len(drift) > 0 {
		res.DriftNote("[%s] %s", key, strings.Join(drift, "; "))
	} else {
		res.Count("agree_with_model", 1)
	}
	if c.Mode == "enforce" && o.Refusals > 0 && idx%97 == 0 {
		res.Sample(map[string]any{"case": key, "log": o.Log, "ops": o.Ops, "returned": o.Verdict.Err})
	}
}
