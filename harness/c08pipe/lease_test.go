// Package c08pipe is the pipeline tier of C08 (ghost domains): scripted
// root -> p. -> c.p. (-> g.c.p.) hierarchies with 1-3 s NS/DS TTLs, resolved
// through the real default chain in REAL time (the code reads time.Now()).
//
// Every served A record encodes the delegation versions it came through
// (10.<p-version>.<c-version>.1), every referral a parent hands out is logged with
// its time and version, and the oracle is computed from those logs only:
//
//   a reply carrying data of a delegation version that the parent has meanwhile
//   withdrawn / re-pointed is legal only if the client query STARTED before
//        (time the resolver can have observed the referral it used)
//      + min(NS TTL, DS TTL), further limited by the same bound of the shallower cut;
//   after that the reply must come through the new delegation or be
//   NXDOMAIN / SERVFAIL -- whatever the child says about itself (3600 s answer TTLs,
//   NS records in its authority sections, a changed NS set), however hot the name
//   was kept (queries every 300 ms) and although the cache's 5 s floor would apply.
//
// Tolerance is measured, not guessed: the resolver observed the referral no later
// than the end of the client query during which the parent served it, minus the
// delays the script itself injected after serving it.
//
// The long-lease family (Scenario.Long; LeasePipe.tla with RealTime = FALSE): referral
// TTLs of 6 h / 1 d / 2 d against the 12 h ceiling the statement puts on every lease
// ("the smaller of the referral's NS and DS TTLs, further limited by every shallower
// delegation on the path and a 12 h ceiling - measured from the moment the referral
// was observed").  Hours pass by a VIRTUAL clock: a "jump" step moves every timestamp
// the answer cache and the delegation cache hold at rest into the past (overlay
// shifters, tag c08p) while nothing is in flight; every instant the oracle uses is
// taken from the same virtual clock (real time + the jumps so far).  The oracle is
// the same one, with the lease a referral grants read as min(TTL, 12 h).
//
// The denied-subtree family (Scenario.Kind = "negsub"; LeasePipe.tla with cfg.kind = "negsub", real time): the
// NEGATIVE answers of the statement ("every answer, negative answer, ... learned through the old delegation has
// stopped being served by then").  The first version of c.p. has no d.c.p. (a signed, validated NXDOMAIN: the cache
// publishes the RFC 8020 cut "nothing exists at or below d.c.p." and the RFC 8198 proofs next to the exact entry);
// every re-pointed version has d.c.p. and www.d.c.p.  A child that lacks the subtree may be SLOW about saying so
// (Scenario.LatMs: its denials of names under d.c.p. are held back), so that the denial is written to the cache
// after the lease of the delegation it was learned through has already ended.  Every version's SOA serial encodes
// the delegation versions (1000*p + c), so an NXDOMAIN reply names the delegation it was learned through exactly
// like the 10.p.c.1 address of a positive one, and the same oracle applies -- restricted to what the statement
// bears: an NXDOMAIN carrying the SOA of a version the parent no longer delegates to, to a query started after the
// most lenient lease of that version ended, for a name the zone the parent delegates to NOW has.
package c08pipe

import (
	"encoding/json"
	"fmt"
	"net"
	"os"
	"sort"
	"strings"
	"sync"
	"testing"
	"time"

	"github.com/miekg/dns"
	"github.com/semihalev/sdns/config"
	"github.com/semihalev/sdns/middleware"
	"github.com/semihalev/sdns/middleware/cache"
	"github.com/semihalev/sdns/middleware/resolver"
	"github.com/semihalev/sdns/verifharness/authkit"
	"github.com/semihalev/sdns/verifharness/pipe"
	"github.com/semihalev/sdns/verifharness/vh"
)

type Step struct {
	At    int    `json:"at"`    // ms after scenario start
	Op    string `json:"op"`    // query | hot | withdraw | repoint | withdrawP | repointP | jump
	Until int    `json:"until"` // hot: keep querying until (ms)
	Every int    `json:"every"` // hot: period (ms)
	Exp   string `json:"exp"`   // model prediction: "p.c" version pair | "nx" | "nxP.C" (a denial by version P.C) | "any"
	D     int    `json:"d"`     // jump: seconds the virtual clock advances
	Name  string `json:"name"`  // query: "" / "w" = www.c.p. | "d" = d.c.p. (the denied name) | "b" = www.d.c.p. (a name below it)
}

// ceilingSec is the ceiling the STATEMENT puts on every lease (12 h); deliberately not read from the code.
const ceilingSec = 12 * 3600

type Scenario struct {
	ID         string `json:"id"`
	Signed     bool   `json:"signed"`
	PNS        uint32 `json:"pNS"`
	PDS        uint32 `json:"pDS"`
	CNS        uint32 `json:"cNS"`
	CDS        uint32 `json:"cDS"`
	ChildTTL   uint32 `json:"childTTL"`
	Child      string `json:"child"` // long | selfref | nschange | glueless | slowns
	Deep       bool   `json:"deep"`
	ValDelayMs int    `json:"valDelayMs"`
	Steps      []Step `json:"steps"`
	// Wire: client queries enter wire-born (Server.ServeRaw on a strict-slot transport) instead of
	// message-born; Prefetch: the cache's background refresh threshold in percent (0 = off)
	Wire     bool   `json:"wire"`
	Prefetch uint32 `json:"prefetch"`
	// Long: the long-lease family -- the clock moves by "jump" steps only (virtual clock)
	Long bool `json:"long"`
	// Kind: "" / "pos" | "negsub" = the denied-subtree family (see the package comment); LatMs: how long a child
	// version that lacks d.c.p. holds back its denials of names at or below it
	Kind  string `json:"kind"`
	LatMs int    `json:"latMs"`
}

func (sc *Scenario) negsub() bool { return sc.Kind == "negsub" }

// hasSub: does child version cv own d.c.p. / www.d.c.p.?  (LeasePipe.tla Has(c))
func hasSub(cv int) bool { return cv >= 2 }

const (
	deniedName = "d.c.p."
	belowName  = "www.d.c.p."
)

type Input struct {
	Scenarios []Scenario `json:"scenarios"`
	Workers   int        `json:"workers"`
}

type refEvent struct {
	At   time.Time
	Edge string // "p" | "c"
	PV   int
	CV   int
}

type queryRec struct {
	Start, End time.Time
	Rcode      string
	PV, CV     int // versions encoded in the answer (0,0 = no A)
	TTL        uint32
	Exp        string
	Hot        bool
	Name       string // the question
	// NegPV, NegCV: the delegation versions encoded in the serial of the c.p. SOA an NXDOMAIN reply carries
	// (0,0 = none: not NXDOMAIN, or denied by p. / the root)
	NegPV, NegCV int
}

type change struct {
	Before, After time.Time
	Ver           int // new version, 0 = withdrawn
}

// world is one scripted hierarchy.
type world struct {
	sc      *Scenario
	n       *authkit.Net
	mu      sync.Mutex
	refs    []refEvent
	delays  authkit.DelayLog
	glueVer map[string][2]int // glue address -> (pv, cv) of the delegation it belongs to
	pv, cv  int
	pz      *authkit.Zone // current p zone
	hz      *authkit.Zone // h.: home of the glueless NS host names
	pch     []change      // changes of edge p (at the root)
	cch     map[int][]change
	qname   string
	csrv    map[[2]int]*authkit.Server // (pv, cv) -> the socket of that version of c.p.
	// virtual clock: real time + the jumps so far
	off time.Duration
	ch  *cache.Cache
	rh  *resolver.DNSHandler
}

// buildMu: the middleware registry is process-global; the handlers of the server just built are
// looked up before another worker builds the next one.
var buildMu sync.Mutex

// vnow is the scenario's clock: every instant the oracle compares comes from here.
func (w *world) vnow() time.Time {
	w.mu.Lock()
	defer w.mu.Unlock()
	return time.Now().Add(w.off)
}

// jump lets sec seconds pass for everything the pipeline holds at rest (answer cache entries, subtree
// cuts, denial proofs, delegations).  Called between two steps, with no client query in flight.
func (w *world) jump(sec int) (int, int) {
	d := time.Duration(sec) * time.Second
	na := w.ch.VerifC08pShift(d)
	nd := w.rh.VerifC08pShift(d)
	w.mu.Lock()
	w.off += d
	w.mu.Unlock()
	return na, nd
}

func dataIP(pv, cv int) net.IP { return net.IPv4(10, byte(pv), byte(cv), 1) }

func (w *world) dsOn() bool { return w.sc.Signed }

func (w *world) fillChild(z *authkit.Zone, srv *authkit.Server, pv, cv int) error {
	ttl := w.sc.ChildTTL
	if ttl == 0 {
		ttl = 3600
	}
	if w.sc.negsub() {
		// the SOA names the delegation versions this zone copy was reached through: a denial carries its provenance
		z.Remove(z.Name, dns.TypeSOA)
		z.AddRR(&dns.SOA{Hdr: dns.RR_Header{Name: z.Name, Rrtype: dns.TypeSOA, Class: dns.ClassINET, Ttl: 600}, Ns: "ns." + z.Name,
			Mbox: "hostmaster." + z.Name, Serial: uint32(1000*pv + cv), Refresh: 3600, Retry: 600, Expire: 86400, Minttl: 60})
		if hasSub(cv) {
			z.AddRR(authkit.ARR(deniedName, dataIP(pv, cv), ttl))
			z.AddRR(authkit.ARR(belowName, dataIP(pv, cv), ttl))
		}
	}
	if !w.sc.Deep {
		z.AddRR(authkit.ARR("www."+z.Name, dataIP(pv, cv), ttl))
		return nil
	}
	g := authkit.NewZone("g."+z.Name, w.sc.Signed)
	srv.AddZone(g)
	g.AddRR(authkit.ARR("www."+g.Name, dataIP(pv, cv), ttl))
	cut := w.n.CutFor(g, srv, 3600, 3600, w.sc.Signed)
	z.Delegate(cut)
	return nil
}

// parentHook logs referrals (with the version read off the glue) and injects the
// validation delay on DNSKEY answers.
func (w *world) parentHook(edge string) func(*authkit.Exchange) {
	return func(ex *authkit.Exchange) {
		// the validation delay holds back every DNSKEY-type response of this server -- also a REFERRAL
		// given in answer to a DNSKEY question (a sub-query that had to walk down again): the referral
		// is observed when it leaves, not when the question arrived
		var d time.Duration
		if w.sc.ValDelayMs > 0 && edge == "c" && ex.Q.Qtype == dns.TypeDNSKEY {
			d = time.Duration(w.sc.ValDelayMs) * time.Millisecond
		}
		if ex.Truth.Kind == "referral" && ex.Resp != nil {
			for _, rr := range ex.Resp.Extra {
				if a, ok := rr.(*dns.A); ok {
					w.mu.Lock()
					if v, ok := w.glueVer[a.A.String()]; ok {
						w.refs = append(w.refs, refEvent{At: time.Now().Add(w.off).Add(d), Edge: edge, PV: v[0], CV: v[1]}) // w.mu held: vnow() inline
					}
					w.mu.Unlock()
				}
			}
		}
		if d > 0 {
			w.delays.Add(w.vnow(), d, ex.Q)
			ex.Delay = d
		}
	}
}

// childHook makes the child talk about itself: its own NS RRset (3600 s) rides in
// the authority section of every answer, glue in the additional section.
func (w *world) childHook(z *authkit.Zone) func(*authkit.Exchange) {
	return func(ex *authkit.Exchange) {
		if w.sc.Child == "long" || w.sc.Child == "glueless" || w.sc.Child == "slowns" || w.sc.Child == "" || ex.Resp == nil || len(ex.Resp.Answer) == 0 || ex.Zone != z {
			return
		}
		if ex.Q.Qtype == dns.TypeNS || ex.Q.Qtype == dns.TypeDNSKEY || ex.Q.Qtype == dns.TypeDS {
			return
		}
		do := false
		if o := ex.Req.IsEdns0(); o != nil {
			do = o.Do()
		}
		m, _ := z.Answer(dns.Question{Name: z.Name, Qtype: dns.TypeNS, Qclass: dns.ClassINET}, do)
		ex.Resp.Ns = append(ex.Resp.Ns, m.Answer...)
		var glue []dns.RR
		for _, rr := range m.Answer {
			if ns, ok := rr.(*dns.NS); ok {
				glue = append(glue, z.RRset(ns.Ns, dns.TypeA)...)
			}
		}
		ex.Resp.Extra = append(glue, ex.Resp.Extra...)
	}
}

// slowDenialHook (denied-subtree family): a child version without d.c.p. holds back every NXDOMAIN it gives for a
// name at or below d.c.p. by Scenario.LatMs; the delay is logged so that the oracle can tell it from latency.
func (w *world) slowDenialHook(z *authkit.Zone, next func(*authkit.Exchange)) func(*authkit.Exchange) {
	return func(ex *authkit.Exchange) {
		next(ex)
		if w.sc.LatMs <= 0 || ex.Zone != z || ex.Resp == nil || ex.Resp.Rcode != dns.RcodeNameError || ex.Truth.Kind != "nxdomain" ||
			!authkit.IsSub(ex.Q.Name, deniedName) {
			return
		}
		d := time.Duration(w.sc.LatMs) * time.Millisecond
		w.delays.Add(w.vnow(), d, ex.Q)
		ex.Delay = d
	}
}

func (w *world) newChild(pz *authkit.Zone, pv, cv int, first bool) error {
	label := fmt.Sprintf("c%d.%d", pv, cv)
	z, srv, err := w.n.NewDetachedZone(label, "c.p.", w.sc.Signed)
	if err != nil {
		return err
	}
	if err := w.fillChild(z, srv, pv, cv); err != nil {
		return err
	}
	cut := w.n.CutFor(z, srv, w.sc.CNS, w.sc.CDS, w.dsOn())
	if (w.sc.Child == "glueless" || w.sc.Child == "slowns") && w.hz != nil {
		// a second NS whose address must be looked up (lookupV4Nss: provisional entry bounded by the cut)
		host := fmt.Sprintf("nsc%dx%d.h.", pv, cv)
		w.hz.AddRR(authkit.ARR(host, w.n.AllocGlue(srv), 3600))
		cut.NS = append(cut.NS, authkit.NSRR(z.Name, host, w.sc.CNS))
		z.AddRR(authkit.NSRR(z.Name, host, 3600))
	}
	if w.sc.Child == "nschange" {
		// the child advertises a different (larger) NS set than the parent granted
		ip2 := w.n.AllocGlue(srv)
		z.AddRR(authkit.NSRR(z.Name, "ns2."+z.Name, 3600))
		z.AddRR(authkit.ARR("ns2."+z.Name, ip2, 3600))
	}
	w.mu.Lock()
	w.glueVer[cut.Glue[0].(*dns.A).A.String()] = [2]int{pv, cv}
	w.csrv[[2]int{pv, cv}] = srv
	w.mu.Unlock()
	if w.sc.negsub() {
		srv.SetHook(w.slowDenialHook(z, w.childHook(z)))
	} else {
		srv.SetHook(w.childHook(z))
	}
	pz.Delegate(cut)
	return nil
}

func (w *world) newParent(pv int) (*authkit.Zone, error) {
	z, srv, err := w.n.NewDetachedZone(fmt.Sprintf("p%d", pv), "p.", w.sc.Signed)
	if err != nil {
		return nil, err
	}
	cut := w.n.CutFor(z, srv, w.sc.PNS, w.sc.PDS, w.dsOn())
	if w.sc.Child == "slowns" && w.hz != nil {
		// p hangs directly off the root: no ancestor lease bounds its provisional entry
		host := fmt.Sprintf("nsp%d.h.", pv)
		w.hz.AddRR(authkit.ARR(host, w.n.AllocGlue(srv), 3600))
		cut.NS = append(cut.NS, authkit.NSRR(z.Name, host, w.sc.PNS))
		z.AddRR(authkit.NSRR(z.Name, host, 3600))
	}
	w.mu.Lock()
	w.glueVer[cut.Glue[0].(*dns.A).A.String()] = [2]int{pv, 0}
	w.mu.Unlock()
	srv.SetHook(w.parentHook("c"))
	w.n.Root.Delegate(cut)
	return z, nil
}

func build(sc *Scenario) (*world, error) {
	n, err := authkit.NewNet(sc.Signed)
	if err != nil {
		return nil, err
	}
	w := &world{sc: sc, n: n, glueVer: map[string][2]int{}, pv: 1, cv: 1, cch: map[int][]change{}, csrv: map[[2]int]*authkit.Server{}}
	w.qname = "www.c.p."
	if sc.Deep {
		w.qname = "www.g.c.p."
	}
	n.RootSrv.SetHook(w.parentHook("p"))
	if sc.Child == "glueless" || sc.Child == "slowns" {
		var hsrv *authkit.Server
		if w.hz, hsrv, err = n.Delegate("h.", authkit.DelegateOpts{Signed: sc.Signed, PublishDS: sc.Signed}); err != nil {
			return nil, err
		}
		if sc.Child == "slowns" {
			// the address of an un-glued NS host is slow the first time it is asked for: the lookup
			// outlasts the referral's lease, so only the provisional entry parked during the lookup
			// (lookupV4Nss) could keep the delegation alive -- and it is bounded by the same lease
			lease := sc.PNS
			if sc.CNS > lease {
				lease = sc.CNS
			}
			d := time.Duration(lease)*time.Second + 400*time.Millisecond
			var seen sync.Map
			hsrv.SetHook(func(ex *authkit.Exchange) {
				if ex.Q.Qtype != dns.TypeA || !strings.HasPrefix(strings.ToLower(ex.Q.Name), "ns") {
					return
				}
				if _, dup := seen.LoadOrStore(strings.ToLower(ex.Q.Name), true); dup {
					return
				}
				w.delays.Add(w.vnow(), d, ex.Q)
				ex.Delay = d
			})
		}
	}
	if w.pz, err = w.newParent(1); err != nil {
		return nil, err
	}
	if err = w.newChild(w.pz, 1, 1, true); err != nil {
		return nil, err
	}
	return w, nil
}

func (w *world) apply(op string) error {
	before := w.vnow()
	var err error
	switch op {
	case "withdraw":
		w.pz.Undelegate("c.p.")
		w.cch[w.pv] = append(w.cch[w.pv], change{Before: before, After: w.vnow(), Ver: 0})
		w.cv = 0
		return nil
	case "repoint":
		nv := w.maxCV() + 1
		err = w.newChild(w.pz, w.pv, nv, false)
		w.cch[w.pv] = append(w.cch[w.pv], change{Before: before, After: w.vnow(), Ver: nv})
		w.cv = nv
	case "withdrawP":
		w.n.Root.Undelegate("p.")
		w.pch = append(w.pch, change{Before: before, After: w.vnow(), Ver: 0})
		w.pv = 0
	case "repointP":
		nv := w.maxPV() + 1
		var z *authkit.Zone
		if z, err = w.newParent(nv); err == nil {
			err = w.newChild(z, nv, 1, false)
			w.pz = z
		}
		w.pch = append(w.pch, change{Before: before, After: w.vnow(), Ver: nv})
		w.pv, w.cv = nv, 1
	default:
		err = fmt.Errorf("unknown op %q", op)
	}
	return err
}

func (w *world) maxCV() int {
	m := 1
	for _, c := range w.cch[w.pv] {
		if c.Ver > m {
			m = c.Ver
		}
	}
	return m
}

func (w *world) maxPV() int {
	m := 1
	for _, c := range w.pch {
		if c.Ver > m {
			m = c.Ver
		}
	}
	return m
}

// versionAt returns the version current at t given completed changes (initial 1).
func versionAt(chs []change, t time.Time) int {
	v := 1
	for _, c := range chs {
		if !c.After.After(t) {
			v = c.Ver
		}
	}
	return v
}

func (w *world) query(ask func(*dns.Msg) *dns.Msg, exp string, hot bool) queryRec {
	return w.queryName(ask, exp, hot, w.qname)
}

// nameOf maps a step's name tag to the question.
func (w *world) nameOf(tag string) string {
	switch tag {
	case "d":
		return deniedName
	case "b":
		return belowName
	}
	return w.qname
}

func (w *world) queryName(ask func(*dns.Msg) *dns.Msg, exp string, hot bool, qname string) queryRec {
	q := new(dns.Msg)
	q.SetQuestion(qname, dns.TypeA)
	q.SetEdns0(1232, false)
	rec := queryRec{Start: w.vnow(), Exp: exp, Hot: hot, Name: qname}
	ch := make(chan *dns.Msg, 1)
	go func() { ch <- ask(q) }()
	var m *dns.Msg
	select {
	case m = <-ch:
	case <-time.After(12 * time.Second):
	}
	rec.End = w.vnow()
	if m == nil {
		rec.Rcode = "NONE"
		return rec
	}
	rec.Rcode = dns.RcodeToString[m.Rcode]
	for _, rr := range m.Answer {
		if a, ok := rr.(*dns.A); ok && strings.EqualFold(a.Hdr.Name, qname) {
			ip := a.A.To4()
			if ip != nil && ip[0] == 10 {
				rec.PV, rec.CV, rec.TTL = int(ip[1]), int(ip[2]), a.Hdr.Ttl
			}
		}
	}
	if w.sc.negsub() && m.Rcode == dns.RcodeNameError {
		// which copy of c.p. denied the name: the serial fillChild gave its SOA
		for _, rr := range m.Ns {
			if soa, ok := rr.(*dns.SOA); ok && strings.EqualFold(soa.Hdr.Name, "c.p.") && soa.Serial >= 1000 {
				rec.NegPV, rec.NegCV, rec.TTL = int(soa.Serial/1000), int(soa.Serial%1000), soa.Hdr.Ttl
			}
		}
	}
	return rec
}

type verdict struct {
	Index   int     `json:"index"`
	StartMs float64 `json:"startMs"`
	Reply   string  `json:"reply"`
	LeaseMs float64 `json:"leaseEndMs"`
	OverMs  float64 `json:"overMs"`
	Class   string  `json:"class"` // current | leased | gray | ghost | other; denials: neg_current | neg_leased | neg_gray | ghost_neg | neg_agrees
	// denials only: the name asked, the version the parent delegated to when the query started, and how often that
	// version's servers were asked for the name during the query
	Name     string `json:"name,omitempty"`
	Cur      string `json:"cur,omitempty"`
	CurAsked int    `json:"curAsked,omitempty"`
}

// judge applies the oracle to one scenario's records.
// leaseFn is the oracle's lease arithmetic, for the denied-subtree family's reachability counters.
type leaseFn func(pv, cv int, end time.Time) (lease, leaseMin time.Time)

func (w *world) judge(t0 time.Time, qs []queryRec) (verdicts []verdict, ghosts []verdict, leaseOf leaseFn) {
	ms := func(t time.Time) float64 { return float64(t.Sub(t0).Microseconds()) / 1000 }
	cTTL, pTTL := w.sc.CNS, w.sc.PNS
	if w.sc.Signed {
		if w.sc.CDS < cTTL {
			cTTL = w.sc.CDS
		}
		if w.sc.PDS < pTTL {
			pTTL = w.sc.PDS
		}
	}
	// "... and a 12 h ceiling - measured from the moment the referral was observed"
	if cTTL > ceilingSec {
		cTTL = ceilingSec
	}
	if pTTL > ceilingSec {
		pTTL = ceilingSec
	}
	w.mu.Lock()
	refs := append([]refEvent(nil), w.refs...)
	w.mu.Unlock()
	sort.Slice(refs, func(i, j int) bool { return refs[i].At.Before(refs[j].At) })
	// the resolver observed a referral no later than the end of the client query
	// during which it was served, minus what the script slept after serving it
	obsBound := func(at time.Time) (time.Time, time.Time) {
		for _, q := range qs {
			if !at.Before(q.Start) && !at.After(q.End) {
				b := q.End.Add(-w.delays.Between(at, q.End)).Add(30 * time.Millisecond)
				if b.Before(at) {
					b = at.Add(30 * time.Millisecond)
				}
				return at, b
			}
		}
		return at, at.Add(400 * time.Millisecond) // served outside any client query (detached work)
	}
	// leaseOf: the most lenient lease among the referrals to version (pv, cv) served up to end (zero: none)
	leaseOf = func(pv, cv int, end time.Time) (lease, leaseMin time.Time) {
		for _, r := range refs {
			if r.Edge != "c" || r.PV != pv || r.CV != cv || r.At.After(end) {
				continue
			}
			lo, hi := obsBound(r.At)
			lc, lcMin := hi.Add(time.Duration(cTTL)*time.Second), lo.Add(time.Duration(cTTL)*time.Second)
			// the shallower cut: the latest root referral for that p version at or before r
			var pr *refEvent
			for k := range refs {
				if refs[k].Edge == "p" && refs[k].PV == pv && !refs[k].At.After(r.At) {
					pr = &refs[k]
				}
			}
			if pr != nil {
				plo, phi := obsBound(pr.At)
				if lp := phi.Add(time.Duration(pTTL) * time.Second); lp.Before(lc) {
					lc = lp
				}
				if lp := plo.Add(time.Duration(pTTL) * time.Second); lp.Before(lcMin) {
					lcMin = lp
				}
			}
			if lc.After(lease) {
				lease, leaseMin = lc, lcMin
			}
		}
		return
	}
	for i, q := range qs {
		v := verdict{Index: i, StartMs: ms(q.Start), Reply: fmt.Sprintf("%s %d.%d ttl=%d", q.Rcode, q.PV, q.CV, q.TTL)}
		if q.PV == 0 && q.NegCV != 0 {
			// a NEGATIVE answer that names the copy of c.p. it was learned from ("every answer, negative answer, ...
			// learned through the old delegation has stopped being served by then")
			v.Reply = fmt.Sprintf("%s soa=%d.%d ttl=%d", q.Rcode, q.NegPV, q.NegCV, q.TTL)
			v.Name = q.Name
			curP := versionAt(w.pch, q.Start)
			if curP == q.NegPV && versionAt(w.cch[q.NegPV], q.Start) == q.NegCV {
				v.Class = "neg_current"
				verdicts = append(verdicts, v)
				continue
			}
			lease, leaseMin := leaseOf(q.NegPV, q.NegCV, q.End)
			if lease.IsZero() {
				v.Class = "other"
				verdicts = append(verdicts, v)
				continue
			}
			v.LeaseMs = ms(lease)
			v.OverMs = float64(q.Start.Sub(lease).Microseconds()) / 1000
			// what the parents delegate to when the query starts, and whether that zone has the name
			nowC := 0
			if curP != 0 {
				nowC = versionAt(w.cch[curP], q.Start)
			}
			v.Cur = fmt.Sprintf("%d.%d", curP, nowC)
			switch {
			case q.Start.After(lease) && curP != 0 && nowC != 0 && hasSub(nowC):
				w.mu.Lock()
				cur := w.csrv[[2]int{curP, nowC}]
				w.mu.Unlock()
				if cur != nil {
					for _, e := range cur.Log() {
						if strings.EqualFold(e.Q.Name, q.Name) && !e.At.Add(w.off).Before(q.Start) && !e.At.Add(w.off).After(q.End) {
							v.CurAsked++
						}
					}
				}
				v.Class = "ghost_neg"
				ghosts = append(ghosts, v)
			case q.Start.After(lease):
				// the zone the parents point at (or the parent itself) denies the name as well: the rcode is the
				// truth, only its provenance is stale -- not judged
				v.Class = "neg_agrees"
			case q.Start.After(leaseMin):
				v.Class = "neg_gray"
			default:
				v.Class = "neg_leased"
			}
			verdicts = append(verdicts, v)
			continue
		}
		if q.PV == 0 {
			v.Class = "other"
			verdicts = append(verdicts, v)
			continue
		}
		curP := versionAt(w.pch, q.Start)
		curC := versionAt(w.cch[q.PV], q.Start)
		if curP == q.PV && curC == q.CV {
			v.Class = "current"
			verdicts = append(verdicts, v)
			continue
		}
		// stale data: find the most lenient lease among the referrals of that version
		lease, leaseMin := leaseOf(q.PV, q.CV, q.End)
		if lease.IsZero() {
			// data of a version no parent ever referred to: cannot happen with honest servers
			v.Class = "other"
			verdicts = append(verdicts, v)
			continue
		}
		v.LeaseMs = ms(lease)
		v.OverMs = float64(q.Start.Sub(lease).Microseconds()) / 1000
		switch {
		case q.Start.After(lease):
			v.Class = "ghost"
			ghosts = append(ghosts, v)
		case q.Start.After(leaseMin):
			v.Class = "gray"
		default:
			v.Class = "leased"
		}
		verdicts = append(verdicts, v)
	}
	return
}

func runScenario(t *testing.T, sc *Scenario, res *vh.Result, det *[]map[string]any, dmu *sync.Mutex) {
	w, err := build(sc)
	if err != nil {
		res.Skip("%s: build: %v", sc.ID, err)
		return
	}
	defer w.n.Stop()
	dir, _ := os.MkdirTemp(vh.Scratch(t), "c08pipe-")
	defer os.RemoveAll(dir)
	var keys []string
	if sc.Signed {
		keys = []string{w.n.Root.Keys[0].RR.String()}
	}
	buildMu.Lock()
	s, _ := pipe.NewResolverServer(pipe.ResolverOpts{RootAddr: w.n.RootSrv.Addr, RootKeys: keys, DNSSEC: sc.Signed, Dir: dir, Mapper: w.n.Mapper(),
		Mutate: func(cfg *config.Config) {
			cfg.RecursionFirewall.Mode = config.RecursionFirewallModeOff
			cfg.QnameMinLevel = 0
			cfg.Timeout.Duration = 1500 * time.Millisecond
			cfg.QueryTimeout.Duration = 6 * time.Second
			cfg.Prefetch = sc.Prefetch
			if sc.negsub() && sc.LatMs > 0 {
				// a slow authority is not a dead one: the held-back denial must arrive inside one exchange
				cfg.Timeout.Duration = time.Duration(sc.LatMs)*time.Millisecond + 1500*time.Millisecond
			}
		}})
	w.ch, _ = middleware.Get("cache").(*cache.Cache)
	w.rh, _ = middleware.Get("resolver").(*resolver.DNSHandler)
	buildMu.Unlock()
	if w.ch == nil || w.rh == nil {
		res.Skip("%s: cache / resolver handlers not found in the registry", sc.ID)
		return
	}
	// let priming / trust-anchor refresh finish so it does not interleave with the script
	time.Sleep(400 * time.Millisecond)
	ask := func(q *dns.Msg) *dns.Msg {
		if sc.Wire {
			return pipe.AskRaw(s, q, "udp", "203.0.113.7")
		}
		return pipe.Ask(s, q, "udp", "203.0.113.7")
	}
	t0 := time.Now()
	var qs []queryRec
	jumped, afterJump := 0, 0
	storedC := map[int]string{} // long-lease family: what the delegation cache held for c.p. when query i started
	sleepUntil := func(at int) {
		d := time.Until(t0.Add(time.Duration(at) * time.Millisecond))
		if d > 0 {
			time.Sleep(d)
		}
	}
	for _, st := range sc.Steps {
		sleepUntil(st.At)
		switch st.Op {
		case "query":
			if sc.Long {
				if t, ok := w.rh.VerifC08pLease("c.p."); ok {
					storedC[len(qs)] = fmt.Sprintf("; the delegation cache's own entry for c.p. ended at %.2f h", float64(t.Add(w.off).Sub(t0).Milliseconds())/3.6e6)
				}
			}
			qs = append(qs, w.queryName(ask, st.Exp, false, w.nameOf(st.Name)))
			if jumped > 0 {
				afterJump++
			}
		case "jump":
			// nothing is in flight: the previous step has returned, prefetch and IPv6 lookups are off
			na, nd := w.jump(st.D)
			jumped += st.D
			res.Count("jumps", 1)
			res.Count("jump_shifted_answers", na)
			res.Count("jump_shifted_delegations", nd)
		case "hot":
			every := st.Every
			if every <= 0 {
				every = 300
			}
			for at := st.At; at <= st.Until; at += every {
				sleepUntil(at)
				qs = append(qs, w.query(ask, "any", true))
			}
		default:
			if err := w.apply(st.Op); err != nil {
				res.Skip("%s: %s: %v", sc.ID, st.Op, err)
				return
			}
		}
	}
	verdicts, ghosts, leaseOf := w.judge(t0, qs)
	classes := map[string]int{}
	for _, v := range verdicts {
		classes[v.Class]++
		res.Count("reply_"+v.Class, 1)
	}
	res.Count("queries", len(qs))
	if sc.Long {
		res.Count("long_scenarios", 1)
		res.Count("long_queries_after_jump", afterJump)
		for _, v := range verdicts {
			res.Count("long_reply_"+v.Class, 1)
		}
	}
	res.Count("referrals_logged", len(w.refs))
	if sc.negsub() {
		res.Count("negsub_scenarios", 1)
		// the instants the family exists for: (a) a denial that came back only after every lease of the version that
		// gave it had ended (what the cache is handed then is a deadline in the past); (b) a later question about
		// the denied subtree, started after those leases, when the parents delegate to a version that has the
		// name, and answered from that version
		var late []queryRec
		lat := time.Duration(sc.LatMs) * time.Millisecond
		for i, q := range qs {
			if q.NegCV != 0 && lat > 0 && q.End.Sub(q.Start) >= lat {
				// the leases of that version granted by referrals served before the held-back denial was released
				if l, _ := leaseOf(q.NegPV, q.NegCV, q.End.Add(-lat)); !l.IsZero() && q.End.After(l.Add(50*time.Millisecond)) {
					res.Count("neg_denial_written_after_lease", 1)
					late = append(late, q)
				}
			}
			if q.Name != w.qname && q.PV != 0 && verdicts[i].Class == "current" {
				for _, l := range late {
					if l.NegPV != q.PV || l.NegCV != q.CV {
						res.Count("neg_followed_parent_after_late_denial", 1)
						break
					}
				}
			}
		}
	}
	sig := fmt.Sprintf("%s:%v", sc.ID, classes)
	res.Case(sig)
	for i, q := range qs {
		if q.Rcode == "NONE" {
			res.Skip("%s: query %d got no reply within 12 s", sc.ID, i)
		}
		// model prediction vs observation: drift only
		if q.Exp != "" && q.Exp != "any" {
			got := "nx"
			if q.PV != 0 {
				got = fmt.Sprintf("%d.%d", q.PV, q.CV)
			} else if q.NegCV != 0 {
				got = fmt.Sprintf("nx%d.%d", q.NegPV, q.NegCV)
			}
			if got != q.Exp && verdicts[i].Class != "gray" {
				res.DriftNote("%s: query %d at %.0f ms: model predicts %s, code replied %s (%s)", sc.ID, i, verdicts[i].StartMs, q.Exp, verdicts[i].Reply, verdicts[i].Class)
			}
		}
	}
	out := map[string]any{"id": sc.ID, "verdicts": verdicts, "refs": len(w.refs), "classes": classes}
	dmu.Lock()
	*det = append(*det, out)
	dmu.Unlock()
	if len(ghosts) > 0 {
		g := ghosts[0]
		if g.Class == "ghost_neg" {
			// ONE finding whatever the scenario's number: the key does not depend on the seed
			res.Violate("ghost/negative-answer/denied-subtree", fmt.Sprintf("FollowsParent (negative answer): reply %q to a query for %s started at %.0f ms is a denial learned "+
				"through a delegation of c.p. the parent had withdrawn/re-pointed; the most lenient lease the parent granted that version (min NS/DS TTL, shallower cut, "+
				"measured observation latency) ended at %.0f ms (%.0f ms earlier); the version the parents delegate to at that moment (%s) HAS the name and its servers "+
				"were asked %d time(s) for it during the query; scenario %s kind=%s latMs=%d signed=%v cNS=%d cDS=%d pNS=%d pDS=%d wire=%v",
				g.Reply, g.Name, g.StartMs, g.LeaseMs, g.OverMs, g.Cur, g.CurAsked, sc.ID, sc.Kind, sc.LatMs, sc.Signed, sc.CNS, sc.CDS, sc.PNS, sc.PDS, sc.Wire),
				map[string]any{"scenario": sc, "verdicts": verdicts})
			res.Sample(out)
			return
		}
		long, key := "", "ghost/"+sc.ID
		if sc.Long {
			// a ghost in a hierarchy whose every referral TTL exceeds the ceiling is ONE finding whatever the
			// scenario's number: a key that does not depend on the seed
			raw := sc.PNS
			for _, t := range []uint32{sc.CNS, sc.PDS, sc.CDS} {
				if t < raw && (sc.Signed || t == sc.CNS) {
					raw = t
				}
			}
			if raw > ceilingSec {
				key = fmt.Sprintf("ghost/lease-ceiling/signed=%v", sc.Signed)
			}
			// virtual clock: say it in hours, and show what the delegation cache itself still holds
			long = fmt.Sprintf(" [long-lease family, virtual clock: the query started %.2f h after the scenario began, the lease had ended at %.2f h", g.StartMs/3.6e6, g.LeaseMs/3.6e6)
			long += storedC[g.Index] + "]"
		}
		res.Violate(key, long2(long)+fmt.Sprintf("FollowsParent: reply %q to a query started at %.0f ms carries data of a delegation the parent had withdrawn/re-pointed; "+
			"the lease granted by the parent (min NS/DS TTL under the 12 h ceiling, shallower cut, measured observation latency) ended at %.0f ms (%.0f ms earlier); "+
			"scenario %s child=%s childTTL=%d signed=%v deep=%v cNS=%d cDS=%d pNS=%d pDS=%d valDelay=%dms",
			g.Reply, g.StartMs, g.LeaseMs, g.OverMs, sc.ID, sc.Child, sc.ChildTTL, sc.Signed, sc.Deep, sc.CNS, sc.CDS, sc.PNS, sc.PDS, sc.ValDelayMs),
			map[string]any{"scenario": sc, "verdicts": verdicts})
	}
	res.Sample(out)
}

// long2 puts the long-lease note (if any) in front of the common text.
func long2(note string) string {
	if note == "" {
		return ""
	}
	return strings.TrimSpace(note) + " "
}

func TestLeasePipeline(t *testing.T) {
	var in Input
	vh.Input(t, &in)
	res := vh.NewResult()
	defer res.Write(t)
	if in.Workers <= 0 {
		in.Workers = 6
	}
	var det []map[string]any
	var dmu sync.Mutex
	jobs := make(chan *Scenario)
	var wg sync.WaitGroup
	for i := 0; i < in.Workers; i++ {
		wg.Add(1)
		go func() {
			defer wg.Done()
			for sc := range jobs {
				runScenario(t, sc, res, &det, &dmu)
			}
		}()
	}
	for i := range in.Scenarios {
		jobs <- &in.Scenarios[i]
	}
	close(jobs)
	wg.Wait()
	if p := os.Getenv("VERIF_OUT"); p != "" {
		if b, err := json.Marshal(det); err == nil {
			_ = os.WriteFile(p+".detail", b, 0o644)
		}
	}
}
