package c08pipe

// OBSERVATION (never a verdict): the address an NS HOST was once seen at.
//
// The resolver keeps the addresses of name-server hosts in two LRU maps
// (Resolver.glueV4 / glueV6: filled from referral glue and from NS-address
// look-ups, read by lookupNSAddrV4/V6 BEFORE any look-up, no expiry; dropped only
// after five fatal network errors on the zone's servers, checkHosts).  So when a
// delegation names an out-of-zone host without glue, the address that host had the
// first time is used for as long as the old machine keeps answering -- whatever the
// A record's TTL, whatever the lease of the zone that owns the host name.
//
// The C08 statement speaks of the delegation the PARENT granted (NS / DS TTLs) and of
// what is SERVED; here the parent's referral (NS nsx.h.) is followed by name and the
// stale datum is an address record used internally, so no predicate of the statement
// is judged.  The run is logged so the behaviour stays visible:
//
//	root -> p. -> c.p. NS nsx.h. (no glue),  root -> h.:  nsx.h. A <server of c.p. v1>
//	ask www.c.p.                      -> 10.1.1.1 (v1)
//	h. now says nsx.h. A <server of c.p. v2>; p. re-issues the same referral
//	every lease and TTL involved ends (virtual clock)
//	ask www.c.p.                      -> v2 if the host's address was resolved again,
//	                                     v1 if the remembered address was used
//
// Control ("glued"): the same change with an in-zone host and glue in the referral
// (the parent re-points by glue) must be followed.
// Variant "hostgone": instead of moving the host, the root WITHDRAWS h. altogether;
// once h.'s lease has ended nsx.h. cannot be resolved any more, so an honest
// resolution of www.c.p. fails -- unless the remembered address is used.

import (
	"fmt"
	"net"
	"os"
	"strings"
	"testing"
	"time"

	"github.com/miekg/dns"
	"github.com/semihalev/sdns/config"
	"github.com/semihalev/sdns/middleware"
	"github.com/semihalev/sdns/middleware/cache"
	"github.com/semihalev/sdns/middleware/resolver"
	"github.com/semihalev/sdns/verifharness/authkit"
	"github.com/semihalev/sdns/verifharness/pipe"
	"github.com/semihalev/sdns/verifharness/vh"
)

type glueCase struct {
	ID    string `json:"id"`
	Glued bool   `json:"glued"` // control: in-zone NS host, glue in the referral
	Gone  bool   `json:"gone"`  // variant: the root withdraws h. (the host's zone) instead of moving the host
	Lease uint32 `json:"lease"` // NS TTL of c.p.'s referral and TTL of the host's A record
	Jump  int    `json:"jump"`  // seconds of virtual time between the change and the second question
}

type glueInput struct {
	Cases []glueCase `json:"cases"`
}

func runGlueCase(t *testing.T, gc glueCase, res *vh.Result) {
	n, err := authkit.NewNet(false)
	if err != nil {
		res.Skip("%s: %v", gc.ID, err)
		return
	}
	defer n.Stop()
	hz, hsrv, err := n.Delegate("h.", authkit.DelegateOpts{NSTTL: gc.Lease})
	if err != nil {
		res.Skip("%s: %v", gc.ID, err)
		return
	}
	pz, _, err := n.Delegate("p.", authkit.DelegateOpts{NSTTL: gc.Lease})
	if err != nil {
		res.Skip("%s: %v", gc.ID, err)
		return
	}
	host := "nsx.h."
	if gc.Glued {
		host = "ns.c.p."
	}
	var srvs [3]*authkit.Server
	version := func(v int) (*authkit.Cut, error) {
		z, srv, err := n.NewDetachedZone(fmt.Sprintf("c%d", v), "c.p.", false)
		if err != nil {
			return nil, err
		}
		srvs[v] = srv
		z.AddRR(authkit.ARR("www.c.p.", net.IPv4(10, 1, byte(v), 1), gc.Lease))
		ip := n.AllocGlue(srv)
		z.Remove("c.p.", dns.TypeNS)
		z.AddRR(authkit.NSRR("c.p.", host, gc.Lease))
		cut := &authkit.Cut{Name: "c.p.", NS: []dns.RR{authkit.NSRR("c.p.", host, gc.Lease)}}
		if gc.Glued {
			z.AddRR(authkit.ARR(host, ip, gc.Lease))
			cut.Glue = []dns.RR{authkit.ARR(host, ip, gc.Lease)}
		} else {
			hz.Remove(host, dns.TypeA)
			hz.AddRR(authkit.ARR(host, ip, gc.Lease))
		}
		return cut, nil
	}
	cut, err := version(1)
	if err != nil {
		res.Skip("%s: %v", gc.ID, err)
		return
	}
	pz.Delegate(cut)
	dir, _ := os.MkdirTemp(vh.Scratch(t), "c08glue-")
	defer os.RemoveAll(dir)
	buildMu.Lock()
	s, _ := pipe.NewResolverServer(pipe.ResolverOpts{RootAddr: n.RootSrv.Addr, DNSSEC: false, Dir: dir, Mapper: n.Mapper(),
		Mutate: func(cfg *config.Config) {
			cfg.RecursionFirewall.Mode = config.RecursionFirewallModeOff
			cfg.QnameMinLevel = 0
			cfg.Timeout.Duration = 1500 * time.Millisecond
			cfg.QueryTimeout.Duration = 6 * time.Second
			cfg.Prefetch = 0
		}})
	ch, _ := middleware.Get("cache").(*cache.Cache)
	rh, _ := middleware.Get("resolver").(*resolver.DNSHandler)
	buildMu.Unlock()
	if ch == nil || rh == nil {
		res.Skip("%s: cache / resolver handlers not found", gc.ID)
		return
	}
	time.Sleep(300 * time.Millisecond)
	ask := func() (string, int) {
		q := new(dns.Msg)
		q.SetQuestion("www.c.p.", dns.TypeA)
		q.SetEdns0(1232, false)
		m := pipe.Ask(s, q, "udp", "203.0.113.7")
		if m == nil {
			return "NONE", 0
		}
		for _, rr := range m.Answer {
			if a, ok := rr.(*dns.A); ok {
				if ip := a.A.To4(); ip != nil && ip[0] == 10 {
					return dns.RcodeToString[m.Rcode], int(ip[2])
				}
			}
		}
		return dns.RcodeToString[m.Rcode], 0
	}
	rc1, v1 := ask()
	if v1 != 1 {
		res.Skip("%s: first question: %s version %d", gc.ID, rc1, v1)
		return
	}
	if gc.Gone {
		// the change: the zone that owns the host name is withdrawn by ITS parent
		n.Root.Undelegate("h.")
		srvs[2] = srvs[1]
	} else {
		// the change: version 2 lives elsewhere; the host name is the same
		cut2, err := version(2)
		if err != nil {
			res.Skip("%s: %v", gc.ID, err)
			return
		}
		pz.Undelegate("c.p.")
		pz.Delegate(cut2)
	}
	changed := time.Now()
	// every lease and TTL involved ends
	d := time.Duration(gc.Jump) * time.Second
	ch.VerifC08pShift(d)
	rh.VerifC08pShift(d)
	rc2, v2 := ask()
	hostAsked := 0
	for _, e := range hsrv.LogSince(changed) {
		if strings.EqualFold(e.Q.Name, host) && e.Q.Qtype == dns.TypeA {
			hostAsked++
		}
	}
	class := "other"
	switch {
	case v2 == 2:
		class = "followed"
	case v2 == 1:
		class = "stale_address"
	case gc.Gone:
		class = "failed" // what an honest resolution does once nsx.h. is unresolvable
	}
	res.Case(fmt.Sprintf("%s:%s", gc.ID, class))
	kind := "glueless"
	if gc.Glued {
		kind = "glued"
	}
	if gc.Gone {
		kind = "hostgone"
	}
	res.Count("obs_"+kind+"_"+class, 1)
	res.Sample(map[string]any{"id": gc.ID, "glued": gc.Glued, "gone": gc.Gone, "lease": gc.Lease, "jump": gc.Jump, "first": fmt.Sprintf("%s v%d", rc1, v1),
		"second": fmt.Sprintf("%s v%d", rc2, v2), "class": class, "host": host, "hostAddressAskedAfterChange": hostAsked,
		"oldServerAskedAfterChange": len(srvs[1].LogSince(changed)), "newServerAskedAfterChange": len(srvs[2].LogSince(changed))})
}

func TestGlueHostObservation(t *testing.T) {
	var in glueInput
	vh.Input(t, &in)
	res := vh.NewResult()
	defer res.Write(t)
	for _, gc := range in.Cases {
		runGlueCase(t, gc, res)
	}
}
