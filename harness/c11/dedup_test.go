package c11

// Gated replay (spec -> code) and trace recording (code -> spec) of Dedup.tla
// on the real middleware/cache Cache.ServeDNS dedup loop.
//
// Every client is a real goroutine running chain.Next through the real cache
// middleware, the real internal/waitgroup and the real written-once
// middleware responseWriter, down to a scripted downstream handler.  No
// repository hook is used; the goroutines are held at four places that the
// harness owns:
//   join   - the writer wrapper's Internal() (read once, right before the loop)
//   errchk - the client context's Err(), when called by
//            contextutil.EffectiveError from Cache.ServeDNS (the
//            cancellation-preference test after a follower wakes, and the
//            test before downstream resolution starts)
//   down   - entry of the scripted downstream handler
// and the context's Done(), called by the select of the loop, tells the
// driver that the goroutine has joined as a follower and is parking.  With
// every goroutine parked or held, a TLC-chosen schedule is forced step by
// step, deadlines / cancellations are injected by the driver, and the
// generations TLC times out get a short bounded wait through the overlay
// shim (all others an hour).  After every step the C11 predicates are
// evaluated on what the code did, and the executed actions with the observed
// projection are recorded for Trace_Dedup.tla.

import (
	"context"
	"encoding/json"
	"errors"
	"fmt"
	"net"
	"net/netip"
	"os"
	"path/filepath"
	"runtime"
	"strings"
	"sync"
	"sync/atomic"
	"testing"
	"time"

	"github.com/miekg/dns"
	"github.com/semihalev/sdns/config"
	"github.com/semihalev/sdns/internal/dnsutil"
	"github.com/semihalev/sdns/internal/waitgroup"
	"github.com/semihalev/sdns/middleware"
	"github.com/semihalev/sdns/middleware/cache"
	"github.com/semihalev/sdns/verifharness/vh"
)

type ddReqSpec struct {
	ID       int  `json:"id"`
	Key      int  `json:"key"`
	Internal bool `json:"internal"`
}

type ddSchedule struct {
	ID    string   `json:"id"`
	Steps []string `json:"steps"`
}

type ddInput struct {
	Config    string       `json:"config"`
	NK        int          `json:"nk"`
	MaxGen    int          `json:"maxGen"`
	Reqs      []ddReqSpec  `json:"reqs"`
	ProbeKeys []int        `json:"probeKeys"`
	Schedules []ddSchedule `json:"schedules"`
	TraceOut  string       `json:"traceOut"`
	ShortMs   int          `json:"shortMs"`
}

const (
	edeLocalText    = "verif-local"
	edeUpstreamText = "verif-upstream"
	probeLimitText  = "Failure probe retry limit exceeded"
	timeoutText     = "Query timeout exceeded"
)

type ddEvent struct {
	req   *ddReq
	point string // join | parked | errchk | down | ret
}

type ddOutcome struct {
	kind string // fill | failShared | failLocal
	dup  bool
}

// countTransport is the client's socket: it counts what reaches the wire.
type countTransport struct {
	mu    sync.Mutex
	n     int
	first *dns.Msg
	addr  *net.UDPAddr
}

func (t *countTransport) LocalAddr() net.Addr {
	return &net.UDPAddr{IP: net.IPv4(192, 0, 2, 53), Port: 53}
}
func (t *countTransport) RemoteAddr() net.Addr { return t.addr }
func (t *countTransport) WriteMsg(m *dns.Msg) error {
	t.mu.Lock()
	t.n++
	if t.first == nil {
		t.first = m.Copy()
	}
	t.mu.Unlock()
	return nil
}
func (t *countTransport) Write(b []byte) (int, error) {
	m := new(dns.Msg)
	_ = m.Unpack(b)
	t.mu.Lock()
	t.n++
	if t.first == nil {
		t.first = m
	}
	t.mu.Unlock()
	return len(b), nil
}
func (t *countTransport) Close() error { return nil }
func (t *countTransport) count() int {
	t.mu.Lock()
	defer t.mu.Unlock()
	return t.n
}
func (t *countTransport) reply() *dns.Msg {
	t.mu.Lock()
	defer t.mu.Unlock()
	return t.first
}

// gateWriter wraps the chain's real responseWriter; only Internal() is
// intercepted (it is read exactly once, right before the dedup loop).
type gateWriter struct {
	middleware.ResponseWriter
	req *ddReq
}

func (w *gateWriter) Internal() bool {
	// only the read by Cache.ServeDNS itself (right before the dedup loop);
	// the hit paths consult Internal() as well
	if !w.req.spec.Internal && calledFrom(callerServeDNS) {
		w.req.run.gate(w.req, "join")
	}
	return w.req.spec.Internal
}

type ddKeyType struct{}

var ddKey = &ddKeyType{}

// gateCtx is the client's request context: deadline / cancellation are fired
// by the driver, Done() and Err() report where the goroutine is.
type gateCtx struct {
	req  *ddReq
	mu   sync.Mutex
	done chan struct{}
	err  error
}

func (c *gateCtx) Deadline() (time.Time, bool) { return time.Time{}, false }
func (c *gateCtx) Value(key any) any {
	if key == any(ddKey) {
		return c.req
	}
	return nil
}
func (c *gateCtx) Done() <-chan struct{} {
	if calledFrom(callerServeDNS) {
		c.req.phase = "parked" // only the request's own goroutine touches phase
		c.req.run.notify(c.req, "parked")
	}
	return c.done
}
func (c *gateCtx) Err() error {
	switch {
	case calledFrom(callerServeDNSViaEffective):
		// the cancellation-preference test after generation.Done won the
		// select, or the test before downstream resolution
		c.req.phase = "errchk"
		c.req.run.gate(c.req, "errchk")
	case c.req.phase == "parked" && calledFrom(callerStopCanceled):
		// ctx.Done won the select: the follower goes straight to
		// stopCanceledRequest; hold it there, it is the same model step (Wait)
		c.req.phase = "errchk"
		c.req.run.gate(c.req, "errchk")
	}
	c.mu.Lock()
	defer c.mu.Unlock()
	return c.err
}
func (c *gateCtx) fire(err error) {
	c.mu.Lock()
	if c.err == nil {
		c.err = err
		close(c.done)
	}
	c.mu.Unlock()
}
func (c *gateCtx) fired() error {
	c.mu.Lock()
	defer c.mu.Unlock()
	return c.err
}

const (
	callerServeDNS             = iota // Cache.ServeDNS directly
	callerServeDNSViaEffective        // Cache.ServeDNS -> contextutil.EffectiveError
	callerStopCanceled                // Cache.stopCanceledRequest -> contextutil.EffectiveError
)

// calledFrom reports which function of the cache middleware invoked the
// context method (wrapper contexts that merely delegate are skipped).
func calledFrom(want int) bool {
	pcs := make([]uintptr, 24)
	n := runtime.Callers(3, pcs)
	frames := runtime.CallersFrames(pcs[:n])
	sawEffective := false
	for {
		f, more := frames.Next()
		name := f.Function
		switch {
		case strings.HasPrefix(name, "context."),
			strings.HasSuffix(name, ".Done"), strings.HasSuffix(name, ".Err"), strings.HasSuffix(name, ".Internal"):
			// wrapper contexts delegating to the parent
		case strings.HasSuffix(name, "contextutil.EffectiveError"):
			sawEffective = true
		case strings.HasSuffix(name, "cache.(*Cache).ServeDNS"):
			return (want == callerServeDNS && !sawEffective) || (want == callerServeDNSViaEffective && sawEffective)
		case strings.HasSuffix(name, "cache.(*Cache).stopCanceledRequest"):
			return want == callerStopCanceled && sawEffective
		default:
			return false
		}
		if !more {
			return false
		}
	}
}

type ddReq struct {
	spec   ddReqSpec
	run    *ddRun
	ctx    *gateCtx
	tr     *countTransport
	ch     *middleware.Chain
	msg    *dns.Msg
	status string // idle running join parked woke lead down ret
	phase  string // goroutine-local: last harness point passed (parked | errchk)
	goid   atomic.Uint64
	resume chan struct{}
	cmd    chan ddOutcome

	dkey       uint64                // the dedup key Cache.ServeDNS computed for this request
	role       string                // none | leader | fall
	gen        *waitgroup.Generation // generation held
	prev       *waitgroup.Generation
	regroups   int
	started    bool
	firedAtRel bool // the context was already finished when the goroutine was last released
	downCalls  int
}

type ddRun struct {
	in       *ddInput
	res      *vh.Result
	sched    *ddSchedule
	c        *cache.Cache
	wg       *waitgroup.WaitGroup
	store    *cache.Store
	reqs     map[int]*ddReq
	order    []int
	probe    map[int]bool
	retryKey map[int]uint64
	events   chan ddEvent
	abort    chan struct{}
	gens     []*waitgroup.Generation // index = model id-1, creation order
	genKey   []int
	genDkey  []uint64 // the real key each generation was registered under
	genLead  []*ddReq
	short    map[int]bool // model generation ids TLC times out in this schedule
	expired  map[int]bool // Timeout step replayed
	shared   map[int]bool // a shared failure was legitimately recorded for the key
	hist     []string
	lines    []map[string]any
	clockOff time.Duration
	clockMu  sync.Mutex
	shortDur time.Duration
	failed   bool
}

func (r *ddRun) gate(q *ddReq, point string) {
	r.events <- ddEvent{q, point}
	select {
	case <-q.resume:
	case <-r.abort:
	}
}

func (r *ddRun) notify(q *ddReq, point string) {
	select {
	case r.events <- ddEvent{q, point}:
	case <-r.abort:
	}
}

func (r *ddRun) now() time.Time {
	r.clockMu.Lock()
	defer r.clockMu.Unlock()
	return time.Now().Add(r.clockOff)
}

func question(k int) string { return fmt.Sprintf("k%d.verif.example.", k) }

func (r *ddRun) newMsg(q *ddReq) *dns.Msg {
	m := new(dns.Msg)
	m.SetQuestion(question(q.spec.Key), dns.TypeA)
	m.Id = uint16(1000 + q.spec.ID)
	m.SetEdns0(1232, false)
	return m
}

// dedupKey is the key Cache.ServeDNS computes for a request on model key k
// right now: the retained failure generation's retry key while there is one,
// else the cache key.  A request keeps the key it computed (a fill that
// clears the failure state does not re-key requests already past the lookup).
func (r *ddRun) dedupKey(k int) uint64 {
	m := new(dns.Msg)
	m.SetQuestion(question(k), dns.TypeA)
	if rk, ok := r.store.FailureRetryKey(m, netip.Prefix{}); ok {
		return rk
	}
	return cache.CacheKey{Question: m.Question[0], CD: false}.Hash()
}

func (r *ddRun) cacheKey(k int) uint64 {
	m := new(dns.Msg)
	m.SetQuestion(question(k), dns.TypeA)
	return cache.CacheKey{Question: m.Question[0], CD: false}.Hash()
}

// current is the generation registered for model key k (under the retry key
// captured when the failure generation was seeded, or under the cache key).
func (r *ddRun) current(k int) *waitgroup.Generation {
	if rk, ok := r.retryKey[k]; ok {
		if g := r.wg.VerifC11Current(rk); g != nil {
			return g
		}
	}
	return r.wg.VerifC11Current(r.cacheKey(k))
}

func (r *ddRun) currentOf(q *ddReq) *waitgroup.Generation { return r.wg.VerifC11Current(q.dkey) }

func (r *ddRun) id(g *waitgroup.Generation) int {
	if g == nil {
		return 0
	}
	for i, p := range r.gens {
		if p == g {
			return i + 1
		}
	}
	return -1
}

func (r *ddRun) violate(pred, what string) {
	r.failed = true
	r.res.Violate("dedup/"+pred, fmt.Sprintf("Cache.ServeDNS dedup %s under schedule %v [%s]: %s", pred, r.hist, r.in.Config, what),
		map[string]any{"driver": "dedup", "config": r.in.Config, "schedule": r.sched.ID, "steps": r.hist, "reqs": r.in.Reqs, "probeKeys": r.in.ProbeKeys})
}

// ---- the scripted downstream ------------------------------------------------
func (r *ddRun) downstream(ctx context.Context, ch *middleware.Chain) {
	q, _ := ctx.Value(ddKey).(*ddReq)
	if q == nil {
		ch.Cancel()
		return
	}
	r.events <- ddEvent{q, "down"}
	var o ddOutcome
	select {
	case o = <-q.cmd:
	case <-r.abort:
		ch.Cancel()
		return
	}
	req := ch.Request.Msg()
	n := 1
	if o.dup {
		n = 2
	}
	switch o.kind {
	case "fill":
		for i := 0; i < n; i++ {
			resp := new(dns.Msg)
			resp.SetReply(req)
			resp.RecursionAvailable = true
			resp.Answer = []dns.RR{&dns.A{
				Hdr: dns.RR_Header{Name: req.Question[0].Name, Rrtype: dns.TypeA, Class: dns.ClassINET, Ttl: 300},
				A:   net.IPv4(192, 0, 2, byte(10+q.spec.Key)),
			}}
			_ = ch.Writer.WriteMsg(resp)
		}
	case "failShared":
		for i := 0; i < n; i++ {
			resp := new(dns.Msg)
			resp.SetRcode(req, dns.RcodeServerFailure)
			resp.SetEdns0(1232, false)
			dnsutil.SetEDE(resp, dns.ExtendedErrorCodeNetworkError, edeUpstreamText)
			_ = ch.Writer.WriteMsg(resp)
		}
	default: // failLocal
		cause := q.ctx.fired()
		if errors.Is(cause, context.Canceled) {
			break // the client is gone: a well-behaved resolver writes nothing
		}
		var lerr error = middleware.ErrResolutionAttemptLimit
		if cause != nil {
			lerr = cause
		}
		for i := 0; i < n; i++ {
			resp := new(dns.Msg)
			resp.SetRcode(req, dns.RcodeServerFailure)
			resp.SetEdns0(1232, false)
			dnsutil.SetEDE(resp, dns.ExtendedErrorCodeOther, fmt.Sprintf("%s r=%d", edeLocalText, q.spec.ID))
			lctx, _ := middleware.EnsureResolutionAttemptGuard(ctx)
			middleware.MarkRequestLocalFailureResponse(lctx, resp, lerr)
			_ = ch.Writer.WriteMsg(resp)
		}
	}
	ch.Cancel()
}

func classify(m *dns.Msg) (string, int) {
	if m == nil {
		return "none", 0
	}
	if m.Rcode == dns.RcodeSuccess && len(m.Answer) > 0 {
		return "answer", 0
	}
	if m.Rcode != dns.RcodeServerFailure {
		return fmt.Sprintf("rcode%d", m.Rcode), 0
	}
	ede := dnsutil.GetEDE(m)
	if ede == nil {
		return "servfail-noede", 0
	}
	switch {
	case ede.InfoCode == dns.ExtendedErrorCodeCachedError:
		return "cachedfail", 0
	case strings.HasPrefix(ede.ExtraText, edeLocalText):
		var of int
		fmt.Sscanf(ede.ExtraText, edeLocalText+" r=%d", &of)
		return "local", of
	case ede.ExtraText == edeUpstreamText:
		return "servfail", 0
	case ede.ExtraText == probeLimitText:
		return "probelimit", 0
	case ede.ExtraText == timeoutText:
		return "timeout", 0
	}
	return fmt.Sprintf("servfail-ede%d:%s", ede.InfoCode, ede.ExtraText), 0
}

// ---- scheduling --------------------------------------------------------------
func (r *ddRun) shouldWake(q *ddReq) bool {
	return q.ctx.fired() != nil || (q.gen != nil && genDone(q.gen))
}

func (r *ddRun) apply(ev ddEvent) {
	q := ev.req
	if os.Getenv("VERIF_C11_DEBUG") != "" {
		fmt.Printf("  event: request %d %s (was %s)\n", q.spec.ID, ev.point, q.status)
	}
	switch ev.point {
	case "join":
		q.status = "join"
	case "parked":
		q.status = "parked"
		q.gen = nil // resolved by the step that released it (before anything else runs)
	case "errchk":
		if q.status == "parked" {
			q.status = "woke"
		} else {
			q.status = "lead"
		}
	case "down":
		q.status = "down"
		q.downCalls++
	case "ret":
		q.status = "ret"
	}
}

// settle waits until every goroutine is held, parked without a reason to
// wake, or finished.  `resolve` is run when the stepped request parks, to
// record which generation it is waiting on (nothing else moves meanwhile).
func (r *ddRun) settle(stepped *ddReq, resolve func()) error {
	resolved := false
	deadline := time.After(15 * time.Second)
	for {
		for {
			select {
			case ev := <-r.events:
				r.apply(ev)
				continue
			default:
			}
			break
		}
		if stepped != nil && !resolved && stepped.status != "running" {
			if resolve != nil {
				resolve()
			}
			resolved = true
		}
		pending := ""
		for _, id := range r.order {
			q := r.reqs[id]
			if q.status == "running" || (q.status == "parked" && q.gen != nil && r.shouldWake(q)) ||
				(q.status == "parked" && q.gen == nil) {
				pending = fmt.Sprintf("request %d (%s)", id, q.status)
				break
			}
		}
		if pending == "" {
			return nil
		}
		select {
		case ev := <-r.events:
			r.apply(ev)
		case <-deadline:
			for _, id := range r.order {
				q := r.reqs[id]
				if q.status == "running" && blockedInServeDNS(q) {
					// blocked in the dedup wait without ever consulting its context
					q.ctx.fire(context.DeadlineExceeded)
					select {
					case ev := <-r.events:
						r.apply(ev)
					case <-time.After(3 * time.Second):
						r.violate("InTime", fmt.Sprintf("request %d is blocked inside Cache.ServeDNS (dedup wait) and does not react to its request deadline: it can only be answered when the leader finishes", id))
						return nil
					}
				}
				if q.status == "parked" && q.gen != nil && r.shouldWake(q) {
					r.violate("InTime", fmt.Sprintf("request %d is parked in the dedup wait although its context is finished or its generation is done; it did not wake within 15 s (wedged)", id))
					return nil
				}
			}
			return fmt.Errorf("goroutines did not settle: %s", pending)
		}
	}
}

func curGoid() uint64 {
	var buf [64]byte
	n := runtime.Stack(buf[:], false)
	var id uint64
	fmt.Sscanf(string(buf[:n]), "goroutine %d ", &id)
	return id
}

// blockedInServeDNS reports whether the request's goroutine is blocked on a
// channel inside Cache.ServeDNS itself (not in the harness, not downstream).
func blockedInServeDNS(q *ddReq) bool {
	id := q.goid.Load()
	if id == 0 {
		return false
	}
	buf := make([]byte, 1<<20)
	buf = buf[:runtime.Stack(buf, true)]
	head := fmt.Sprintf("goroutine %d [", id)
	for _, blk := range strings.Split(string(buf), "\n\n") {
		if !strings.HasPrefix(blk, head) {
			continue
		}
		first, rest, _ := strings.Cut(blk, "\n")
		if !strings.Contains(first, "chan receive") && !strings.Contains(first, "select") {
			return false
		}
		// the innermost frame must be ServeDNS
		fn, _, _ := strings.Cut(rest, "\n")
		return strings.Contains(fn, "cache.(*Cache).ServeDNS")
	}
	return false
}

func (r *ddRun) release(q *ddReq) {
	q.firedAtRel = q.ctx.fired() != nil
	q.status = "running"
	q.resume <- struct{}{}
}

// observed projection of the real state (Trace_Dedup compares it)
func (r *ddRun) observe() map[string]any {
	groups := make([]int, r.in.NK)
	for k := 1; k <= r.in.NK; k++ {
		groups[k-1] = r.id(r.current(k))
	}
	done := make([]bool, r.in.MaxGen)
	to := make([]bool, r.in.MaxGen)
	next := make([]int, r.in.MaxGen)
	for i, g := range r.gens {
		if i >= r.in.MaxGen {
			break
		}
		d, t := genDone(g), genTimedOut(g)
		if t && r.short[i+1] && !r.expired[i+1] {
			// a generation TLC times out later may expire a little early in
			// real time; nothing can observe it before the Timeout step
			d, t = false, false
		}
		done[i], to[i], next[i] = d, t, r.id(g.VerifC11Next())
	}
	sent := make([]int, 0, len(r.order))
	reply := make([]string, 0, len(r.order))
	pcs := make([]string, 0, len(r.order))
	for _, id := range r.order {
		q := r.reqs[id]
		sent = append(sent, q.tr.count())
		kind, _ := classify(q.tr.reply())
		reply = append(reply, kind)
		pc := map[string]string{"idle": "idle", "join": "join", "parked": "wait", "woke": "wait", "lead": "lead", "down": "down", "ret": "fin", "running": "?"}[q.status]
		pcs = append(pcs, pc)
	}
	return map[string]any{"groups": groups, "done": done, "to": to, "next": next, "ngen": len(r.gens), "sent": sent, "reply": reply, "pc": pcs}
}

func (r *ddRun) emit(ev string, fields map[string]any, last bool) {
	line := map[string]any{"ev": ev, "o": 0}
	for k, v := range fields {
		line[k] = v
	}
	if last {
		line["o"] = 1
		for k, v := range r.observe() {
			line[k] = v
		}
	}
	r.lines = append(r.lines, line)
	r.res.Count("events", 1)
}

// newGeneration registers a generation the stepped request created.
func (r *ddRun) adopt(q *ddReq, g *waitgroup.Generation) {
	r.gens = append(r.gens, g)
	r.genKey = append(r.genKey, q.spec.Key)
	r.genDkey = append(r.genDkey, q.dkey)
	r.genLead = append(r.genLead, q)
	q.role = "leader"
	q.gen = g
}

// ---- predicates evaluated on the real, settled state ---------------------------
func (r *ddRun) check() bool {
	for _, id := range r.order {
		q := r.reqs[id]
		if n := q.tr.count(); n > 1 {
			r.violate("AtMostOneReply", fmt.Sprintf("client %d received %d replies for one query", id, n))
			return false
		}
		kind, of := classify(q.tr.reply())
		if kind == "local" && of != id {
			r.violate("FailureIsPrivate", fmt.Sprintf("client %d received the request-local failure of request %d", id, of))
			return false
		}
		if kind == "cachedfail" && !r.shared[q.spec.Key] {
			r.violate("FailureIsPrivate", fmt.Sprintf("client %d was served a cached (shared) failure although no shared failure was produced for its key: a request-local failure leaked into shared state", id))
			return false
		}
		if q.spec.Internal && (q.status == "parked" || q.status == "woke" || q.status == "join") {
			r.violate("InternalSkipsJoin", fmt.Sprintf("internal sub-query %d joined the dedup wait", id))
			return false
		}
		if q.firedAtRel && q.status == "down" {
			r.violate("InTime", fmt.Sprintf("request %d was past its deadline/cancellation when it ran, yet downstream resolution was started for it", id))
			return false
		}
	}
	for i, g := range r.gens {
		lead := r.genLead[i]
		to := genTimedOut(g)
		if genDone(g) && !to && lead.status != "ret" {
			r.violate("FollowersNeverDone", fmt.Sprintf("generation %d was completed while its leader (request %d) is still %s: somebody other than the leader called DoneGeneration", i+1, lead.spec.ID, lead.status))
			return false
		}
		if to && lead.status != "ret" {
			if cur := r.wg.VerifC11Current(r.genDkey[i]); cur != g {
				r.violate("TimedOutGenerationIsTombstone", fmt.Sprintf("generation %d timed out and its leader is still running, but its key now maps to generation %d", i+1, r.id(cur)))
				return false
			}
		}
		if to && g.VerifC11Next() != nil {
			r.violate("TimedOutGenerationIsTombstone", fmt.Sprintf("timed-out generation %d was linked to next generation %d", i+1, r.id(g.VerifC11Next())))
			return false
		}
		if lead.downCalls > 1 {
			r.violate("OneLeaderPerGeneration", fmt.Sprintf("downstream was invoked %d times for generation %d", lead.downCalls, i+1))
			return false
		}
	}
	// per key: at most one leader whose generation is the registered one
	for k := 1; k <= r.in.NK; k++ {
		cur := r.current(k)
		n := 0
		for _, id := range r.order {
			q := r.reqs[id]
			if q.spec.Key == k && q.role == "leader" && q.status != "ret" && cur != nil && q.gen == cur {
				n++
			}
		}
		if n > 1 {
			r.violate("OneLeaderPerGeneration", fmt.Sprintf("%d requests lead the registered generation of key %d", n, k))
			return false
		}
		// external requests only go downstream as the leader of a generation,
		// or after the generation they waited on is done
		for _, id := range r.order {
			q := r.reqs[id]
			if q.spec.Key == k && !q.spec.Internal && q.status == "down" && q.role != "leader" && (q.gen == nil || !genDone(q.gen)) {
				r.violate("OneLeaderPerGeneration", fmt.Sprintf("request %d reached downstream without leading a generation and without having waited for one to finish", id))
				return false
			}
		}
	}
	return true
}

// ---- model steps ---------------------------------------------------------------
func (r *ddRun) willCreateShort() {
	next := len(r.gens) + 1
	if r.short[next] {
		r.wg.VerifC11SetTimeout(r.shortDur)
	} else {
		r.wg.VerifC11SetTimeout(time.Hour)
	}
}

// resolveAfterJoin: the stepped request ran JoinGeneration / Regroup and has
// stopped; find out what it holds.  Returns the actions it performed.
func (r *ddRun) resolveJoin(q *ddReq, regroup bool) (leader bool, err error) {
	if regroup {
		q.dkey = r.dedupKey(q.spec.Key) // `dedupKey = retryKey` of the loop turn that regroups
	}
	cur := r.currentOf(q)
	switch q.status {
	case "parked", "woke":
		var g *waitgroup.Generation
		if regroup {
			switch {
			case genTimedOut(q.prev):
				g = q.prev
			default:
				g = q.prev.VerifC11Next()
			}
		} else {
			g = cur
		}
		if g == nil {
			return false, fmt.Errorf("request %d parked but the generation it follows cannot be identified", q.spec.ID)
		}
		if r.id(g) < 0 {
			return false, fmt.Errorf("request %d follows a generation nobody led", q.spec.ID)
		}
		q.gen = g
		return false, nil
	case "lead":
		if cur != nil && r.id(cur) < 0 {
			r.adopt(q, cur)
			return true, nil
		}
		return false, nil
	}
	return false, nil
}

func (r *ddRun) stepFirstLookup(q *ddReq) (bool, error) {
	if q.started {
		return false, nil
	}
	q.started = true
	q.status = "running"
	q.firedAtRel = false
	r.willCreateShort()
	go func() {
		q.goid.Store(curGoid())
		q.ch.Next(q.ctx)
		r.notify(q, "ret")
	}()
	if err := r.settle(q, nil); err != nil {
		return false, err
	}
	q.dkey = r.dedupKey(q.spec.Key)
	r.emit("FirstLookup", map[string]any{"r": q.spec.ID}, true)
	if q.spec.Internal && q.status == "lead" {
		q.role = "fall"
	}
	return true, nil
}

func (r *ddRun) stepJoin(q *ddReq) (bool, error) {
	if q.status != "join" {
		return false, nil
	}
	r.willCreateShort()
	var leader bool
	var rerr error
	r.release(q)
	if err := r.settle(q, func() { leader, rerr = r.resolveJoin(q, false) }); err != nil {
		return false, err
	}
	if rerr != nil {
		return false, rerr
	}
	_ = leader
	r.emit("JoinGeneration", map[string]any{"r": q.spec.ID}, true)
	return true, nil
}

// Wait(r): release a woken follower.  It runs Wait, possibly Recheck and the
// next loop turn, until it parks again, is held before downstream, or returns.
func (r *ddRun) stepWait(q *ddReq) (bool, error) {
	if q.status != "woke" {
		return false, nil
	}
	r.willCreateShort()
	waited := q.gen
	wasTO := waited != nil && genTimedOut(waited)
	probe := r.probe[q.spec.Key]
	fired := q.ctx.fired() != nil
	var rerr error
	q.prev = waited // only meaningful if it regroups; harmless otherwise
	r.release(q)
	if err := r.settle(q, func() {
		if q.status == "parked" || q.status == "woke" || q.status == "lead" {
			_, rerr = r.resolveJoin(q, true)
		}
	}); err != nil {
		return false, err
	}
	if rerr != nil {
		return false, rerr
	}
	id := map[string]any{"r": q.spec.ID}
	if fired {
		r.emit("Wait", id, true)
		return true, nil
	}
	kind, _ := classify(q.tr.reply())
	switch q.status {
	case "ret":
		switch {
		case kind == "probelimit" && !(probe && wasTO):
			r.emit("Wait", id, false)
			r.emit("Recheck", id, false)
			r.emit("ProbeLimit", id, true)
		default:
			r.emit("Wait", id, false)
			r.emit("Recheck", id, true)
		}
	case "parked", "woke":
		q.regroups++
		r.emit("Wait", id, false)
		r.emit("Recheck", id, false)
		r.emit("Regroup", id, true)
	case "lead":
		r.emit("Wait", id, false)
		if q.role == "leader" {
			q.regroups++
			r.emit("Recheck", id, false)
			r.emit("Regroup", id, true)
		} else {
			q.role = "fall"
			r.emit("Recheck", id, true)
		}
	}
	return true, nil
}

// A generation TLC times out does so before its leader's DoneGeneration (the
// model's Timeout needs the generation not done).  The leader's last burst
// (LeadCheck/Downstream + deferred DoneGeneration) cannot be split on the real
// code, so the expiry is taken first: still a behaviour of the model.
func (r *ddRun) expireBeforeDone(q *ddReq) error {
	if q.role != "leader" {
		return nil
	}
	g := r.id(q.gen)
	if g < 1 || !r.short[g] || r.expired[g] {
		return nil
	}
	ok, err := r.stepTimeout(g)
	if ok {
		r.hist = append(r.hist, fmt.Sprintf("Timeout(%d)", g))
		r.res.Count("steps", 1)
	}
	return err
}

func (r *ddRun) stepLeadCheck(q *ddReq) (bool, error) {
	if q.status != "lead" {
		return false, nil
	}
	if q.ctx.fired() != nil {
		if err := r.expireBeforeDone(q); err != nil {
			return false, err
		}
	}
	r.release(q)
	if err := r.settle(q, nil); err != nil {
		return false, err
	}
	id := map[string]any{"r": q.spec.ID}
	if q.status == "ret" && q.role == "leader" {
		r.emit("LeadCheck", id, false)
		r.emit("DoneGeneration", id, true)
	} else {
		r.emit("LeadCheck", id, true)
	}
	return true, nil
}

func (r *ddRun) stepDownstream(q *ddReq, o ddOutcome) (bool, error) {
	if q.status != "down" {
		return false, nil
	}
	if err := r.expireBeforeDone(q); err != nil {
		return false, err
	}
	if q.ctx.fired() != nil {
		o.kind = "failLocal"
	}
	if o.kind == "failShared" {
		r.shared[q.spec.Key] = true
	}
	q.firedAtRel = q.ctx.fired() != nil
	q.status = "running"
	q.cmd <- o
	if err := r.settle(q, nil); err != nil {
		return false, err
	}
	f := map[string]any{"r": q.spec.ID, "out": o.kind, "dup": o.dup}
	if q.role == "leader" {
		r.emit("Downstream", f, false)
		r.emit("DoneGeneration", map[string]any{"r": q.spec.ID}, true)
	} else {
		r.emit("Downstream", f, true)
	}
	if o.kind == "failLocal" && !r.shared[q.spec.Key] {
		m := new(dns.Msg)
		m.SetQuestion(question(q.spec.Key), dns.TypeA)
		if _, ok := r.store.LookupFailure(m, netip.Prefix{}); ok {
			r.violate("FailureIsPrivate", fmt.Sprintf("the request-local failure of request %d was recorded as a shared failure for its question", q.spec.ID))
		}
	}
	return true, nil
}

func (r *ddRun) stepTimeout(g int) (bool, error) {
	if g < 1 || g > len(r.gens) || !r.short[g] || r.expired[g] {
		return false, nil
	}
	gp := r.gens[g-1]
	select {
	case <-gp.Done():
	case <-time.After(10 * time.Second):
		return false, fmt.Errorf("generation %d did not expire", g)
	}
	if !genTimedOut(gp) {
		return false, nil // its leader finished first: the model step is not enabled any more
	}
	r.expired[g] = true
	if err := r.settle(nil, nil); err != nil {
		return false, err
	}
	r.emit("Timeout", map[string]any{"g": g}, true)
	return true, nil
}

func (r *ddRun) stepFire(q *ddReq, err error, ev string) (bool, error) {
	if !q.started || q.status == "ret" || q.ctx.fired() != nil {
		return false, nil
	}
	if ev == "Cancel" && q.spec.Internal {
		return false, nil
	}
	q.ctx.fire(err)
	if e := r.settle(nil, nil); e != nil {
		return false, e
	}
	r.emit(ev, map[string]any{"r": q.spec.ID}, true)
	return true, nil
}

func (r *ddRun) step(label string) (bool, error) {
	op, args := parseLabel(label)
	num := func(i int) int {
		var v int
		if i < len(args) {
			fmt.Sscan(args[i], &v)
		}
		return v
	}
	q := r.reqs[num(0)]
	switch op {
	case "Tick":
		return false, nil
	case "Timeout":
		return r.stepTimeout(num(0))
	}
	if q == nil {
		return false, fmt.Errorf("bad label %q", label)
	}
	switch op {
	case "FirstLookup":
		return r.stepFirstLookup(q)
	case "JoinGeneration":
		return r.stepJoin(q)
	case "Regroup", "ProbeLimit", "Recheck", "DoneGeneration":
		return false, nil // executed together with the Wait / Downstream step that released the goroutine
	case "Wait":
		return r.stepWait(q)
	case "LeadCheck":
		return r.stepLeadCheck(q)
	case "Downstream":
		o := ddOutcome{kind: strings.Trim(args[1], `" `)}
		if len(args) > 2 {
			o.dup = strings.TrimSpace(args[2]) == "TRUE"
		}
		return r.stepDownstream(q, o)
	case "Deadline":
		return r.stepFire(q, context.DeadlineExceeded, "Deadline")
	case "Cancel":
		return r.stepFire(q, context.Canceled, "Cancel")
	}
	return false, fmt.Errorf("unknown action %q", label)
}

func parseLabel(l string) (string, []string) {
	l = strings.TrimSpace(l)
	i := strings.Index(l, "(")
	if i < 0 {
		return l, nil
	}
	args := strings.Split(strings.TrimSuffix(l[i+1:], ")"), ",")
	for j := range args {
		args[j] = strings.TrimSpace(args[j])
	}
	return l[:i], args
}

func (r *ddRun) runSchedule() error {
	cfg := &config.Config{CacheSize: 1024}
	r.c = cache.New(cfg)
	defer r.c.Stop()
	r.wg = r.c.VerifC11WaitGroup()
	r.store = r.c.VerifC11Store()
	r.c.VerifC11SetFailureClock(r.now)
	r.events = make(chan ddEvent, 4096)
	r.abort = make(chan struct{})
	defer close(r.abort)
	r.reqs = map[int]*ddReq{}
	r.order = nil
	r.gens, r.genKey, r.genDkey, r.genLead = nil, nil, nil, nil
	r.expired, r.shared = map[int]bool{}, map[int]bool{}
	r.hist, r.lines, r.failed = nil, nil, false
	r.clockOff = 0

	// probe keys: an expired RFC 9520 failure generation is retained for the question
	r.probe = map[int]bool{}
	r.retryKey = map[int]uint64{}
	for _, k := range r.in.ProbeKeys {
		r.probe[k] = true
		m := new(dns.Msg)
		m.SetQuestion(question(k), dns.TypeA)
		r.store.RecordFailure(m, netip.Prefix{}, cache.FailureProvenance("verif-seed"), nil)
	}
	r.clockMu.Lock()
	r.clockOff = 30 * time.Second
	r.clockMu.Unlock()
	for _, k := range r.in.ProbeKeys {
		m := new(dns.Msg)
		m.SetQuestion(question(k), dns.TypeA)
		rk, ok := r.store.FailureRetryKey(m, netip.Prefix{})
		if !ok {
			return fmt.Errorf("seeding the expired failure generation for key %d failed", k)
		}
		r.retryKey[k] = rk
		if _, ok := r.store.LookupFailure(m, netip.Prefix{}); ok {
			return fmt.Errorf("seeded failure for key %d is still active", k)
		}
	}

	handlers := []middleware.Handler{r.c, middleware.HandlerFunc(r.downstream)}
	for _, spec := range r.in.Reqs {
		q := &ddReq{spec: spec, run: r, status: "idle", role: "none", resume: make(chan struct{}), cmd: make(chan ddOutcome)}
		q.ctx = &gateCtx{req: q, done: make(chan struct{})}
		q.tr = &countTransport{addr: &net.UDPAddr{IP: net.IPv4(203, 0, 113, byte(spec.ID)), Port: 40000 + spec.ID}}
		q.msg = r.newMsg(q)
		q.ch = middleware.NewChain(handlers)
		q.ch.Reset(q.tr, q.msg)
		q.ch.Writer = &gateWriter{ResponseWriter: q.ch.Writer, req: q}
		r.reqs[spec.ID] = q
		r.order = append(r.order, spec.ID)
	}

	// which generations does TLC time out in this schedule?
	r.short = map[int]bool{}
	for _, l := range r.sched.Steps {
		if op, a := parseLabel(l); op == "Timeout" && len(a) == 1 {
			var g int
			fmt.Sscan(a[0], &g)
			r.short[g] = true
		}
	}

	r.lines = append(r.lines, map[string]any{"ev": "Reset", "o": 0})
	for _, lab := range r.sched.Steps {
		ok, err := r.step(lab)
		if err != nil {
			return err
		}
		if !ok {
			r.res.Count("steps_not_enabled_or_merged", 1)
			continue
		}
		r.hist = append(r.hist, lab)
		r.res.Count("steps", 1)
		if r.failed || !r.check() {
			return nil
		}
	}
	// drain: let everybody finish (downstreams fill, nothing else is injected)
	for guard := 0; guard < 200; guard++ {
		progress := false
		for _, id := range r.order {
			q := r.reqs[id]
			var ok bool
			var err error
			lab := ""
			switch q.status {
			case "join":
				ok, err = r.stepJoin(q)
				lab = fmt.Sprintf("drain:JoinGeneration(%d)", id)
			case "woke":
				ok, err = r.stepWait(q)
				lab = fmt.Sprintf("drain:Wait(%d)", id)
			case "lead":
				ok, err = r.stepLeadCheck(q)
				lab = fmt.Sprintf("drain:LeadCheck(%d)", id)
			case "down":
				ok, err = r.stepDownstream(q, ddOutcome{kind: "fill"})
				lab = fmt.Sprintf("drain:Downstream(%d)", id)
			}
			if err != nil {
				return err
			}
			if ok {
				progress = true
				r.hist = append(r.hist, lab)
				if r.failed || !r.check() {
					return nil
				}
			}
		}
		if !progress {
			break
		}
	}
	for _, id := range r.order {
		q := r.reqs[id]
		if !q.started {
			continue
		}
		if q.status != "ret" {
			// nothing is left to release: this request is wedged
			if q.status == "parked" && q.gen != nil && !genDone(q.gen) {
				lead := r.genLead[r.id(q.gen)-1]
				if lead.status == "ret" {
					r.violate("EventuallyAnswered", fmt.Sprintf("request %d is still waiting on generation %d although its leader (request %d) has returned", id, r.id(q.gen), lead.spec.ID))
					return nil
				}
			}
			return fmt.Errorf("request %d did not finish (status %s)", id, q.status)
		}
		n := q.tr.count()
		canceled := errors.Is(q.ctx.fired(), context.Canceled)
		if n == 0 && !canceled {
			r.violate("ExactlyOneReply", fmt.Sprintf("client %d never received a reply although it did not go away", id))
			return nil
		}
		// the real written-once writer: a late second reply must be refused
		if q.ch.Writer.Written() {
			late := new(dns.Msg)
			late.SetRcode(q.msg, dns.RcodeServerFailure)
			err := q.ch.Writer.WriteMsg(late)
			if err == nil || q.tr.count() != n {
				r.violate("AtMostOneReply", fmt.Sprintf("the response writer of client %d accepted a second WriteMsg after a reply had been written (err=%v, %d messages on the wire)", id, err, q.tr.count()))
				return nil
			}
			if wn, werr := q.ch.Writer.Write([]byte{0, 1, 2}); werr == nil || wn != 0 || q.tr.count() != n {
				r.violate("AtMostOneReply", fmt.Sprintf("the response writer of client %d accepted a second raw Write after a reply had been written", id))
				return nil
			}
		} else if n > 0 {
			r.violate("AtMostOneReply", fmt.Sprintf("client %d has %d replies on the wire but its writer reports nothing written", id, n))
			return nil
		}
	}
	if n := r.wg.VerifC11Registered(); n != 0 {
		r.violate("Quiescent", fmt.Sprintf("%d generation(s) are still registered after every request finished", n))
	}
	return nil
}

type ddInputs struct {
	Runs []ddInput `json:"runs"`
}

func TestDedupSchedules(t *testing.T) {
	var all ddInputs
	vh.Input(t, &all)
	res := vh.NewResult()
	defer res.Write(t)
	for ri := range all.Runs {
		if !dedupSchedulesRun(t, res, &all.Runs[ri]) {
			return
		}
	}
}

func dedupSchedulesRun(t *testing.T, res *vh.Result, in *ddInput) bool {
	short := time.Duration(in.ShortMs) * time.Millisecond
	if short <= 0 {
		short = 25 * time.Millisecond
	}
	var out *os.File
	if in.TraceOut != "" {
		var err error
		out, err = os.Create(filepath.Clean(in.TraceOut))
		if err != nil {
			t.Fatal(err)
		}
		defer out.Close()
	}
	for si := range in.Schedules {
		r := &ddRun{in: in, res: res, sched: &in.Schedules[si], shortDur: short}
		if err := r.runSchedule(); err != nil {
			res.Skip("[%s] schedule %s: %v (after %v)", in.Config, in.Schedules[si].ID, err, r.hist)
			return false
		}
		res.Case("dd:" + in.Config + ":" + strings.Join(r.hist, ";"))
		res.Count("cases_"+in.Config, 1)
		res.Count("steps_"+in.Config, len(r.hist))
		if si < 2 {
			res.Sample(map[string]any{"driver": "dedup", "config": in.Config, "schedule": r.hist})
		}
		if out != nil && !r.failed {
			for _, e := range r.lines {
				b, _ := json.Marshal(e)
				out.Write(append(b, '\n'))
			}
			res.Count("traces_"+in.Config, 1)
			res.Count("events_"+in.Config, len(r.lines))
		}
	}
	return true
}
