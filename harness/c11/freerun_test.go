package c11

// Free-running stress of the real Cache.ServeDNS dedup loop with real request
// deadlines (contextutil.LazyDeadline): the wall-clock half of C11 at the
// state-machine level.  Many goroutine clients over three keys arrive within
// a few milliseconds; the scripted downstream fills, fails shared, fails
// request-locally or hangs until its request context ends; some clients go
// away.  Oracle per client: never two replies; exactly one reply unless the
// client went away; the reply no later than the client's own deadline plus a
// scheduling margin; a request-local failure only reaches the request that
// produced it; a cached (shared) failure only if a shared failure was
// produced for that key; afterwards no generation stays registered.

import (
	"context"
	"errors"
	"fmt"
	"net"
	"net/netip"
	"sync"
	"sync/atomic"
	"testing"
	"time"

	"github.com/miekg/dns"
	"github.com/semihalev/sdns/config"
	"github.com/semihalev/sdns/internal/contextutil"
	"github.com/semihalev/sdns/internal/dnsutil"
	"github.com/semihalev/sdns/middleware"
	"github.com/semihalev/sdns/middleware/cache"
	"github.com/semihalev/sdns/verifharness/vh"
)

type frInput struct {
	Rounds     int `json:"rounds"`
	Clients    int `json:"clients"`
	DeadlineMs int `json:"deadlineMs"`
	MarginMs   int `json:"marginMs"`
}

type frClient struct {
	id       int
	key      int
	delay    time.Duration
	deadline time.Duration
	cancelAt time.Duration // 0 = never
	tr       *stampTransport
	start    time.Time
	end      time.Time
	canceled atomic.Bool
}

type stampTransport struct {
	countTransport
	at time.Time
}

func (t *stampTransport) WriteMsg(m *dns.Msg) error {
	t.mu.Lock()
	if t.n == 0 {
		t.at = time.Now()
	}
	t.mu.Unlock()
	return t.countTransport.WriteMsg(m)
}

func (t *stampTransport) Write(b []byte) (int, error) {
	t.mu.Lock()
	if t.n == 0 {
		t.at = time.Now()
	}
	t.mu.Unlock()
	return t.countTransport.Write(b)
}

type frKeyType struct{}

var frKey = &frKeyType{}

type frScript struct {
	kind  string // fill | failShared | failLocal
	hang  bool
	delay time.Duration
}

func TestDedupFreeRun(t *testing.T) {
	var in frInput
	vh.Input(t, &in)
	res := vh.NewResult()
	defer res.Write(t)
	rng := vh.Rand()
	D := time.Duration(in.DeadlineMs) * time.Millisecond
	margin := time.Duration(in.MarginMs) * time.Millisecond

	for round := 0; round < in.Rounds; round++ {
		longLeader := round%6 == 1 // a slow client leads and hangs; its followers must not wait for it
		var W time.Duration
		switch round % 3 {
		case 0:
			W = 40 * time.Millisecond
		case 1:
			W = time.Hour
		default:
			W = 400 * time.Millisecond
		}
		c := cache.New(&config.Config{CacheSize: 1024})
		wg := c.VerifC11WaitGroup()
		wg.VerifC11SetTimeout(W)
		store := c.VerifC11Store()
		var off atomic.Int64
		c.VerifC11SetFailureClock(func() time.Time { return time.Now().Add(time.Duration(off.Load())) })
		probeKey := 0
		if round%2 == 1 {
			probeKey = 1
			m := new(dns.Msg)
			m.SetQuestion(question(probeKey), dns.TypeA)
			store.RecordFailure(m, netip.Prefix{}, cache.FailureProvenance("verif-seed"), nil)
			off.Store(int64(30 * time.Second))
			if _, ok := store.FailureRetryKey(m, netip.Prefix{}); !ok {
				res.Skip("round %d: could not seed an expired failure generation", round)
				c.Stop()
				return
			}
		}
		const nkeys = 3
		scripts := make([][]frScript, nkeys+1)
		for k := 1; k <= nkeys; k++ {
			n := 1 + rng.Intn(4)
			for i := 0; i < n; i++ {
				s := frScript{kind: []string{"fill", "failShared", "failLocal", "failLocal"}[rng.Intn(4)]}
				switch rng.Intn(4) {
				case 0:
					s.hang = true
				case 1:
					s.delay = time.Duration(5+rng.Intn(40)) * time.Millisecond
				}
				scripts[k] = append(scripts[k], s)
			}
			if longLeader && k == 1 {
				scripts[k][0] = frScript{kind: "failLocal", hang: true}
			}
		}
		var calls [nkeys + 1]atomic.Int32
		var sharedMade [nkeys + 1]atomic.Bool
		downstream := middleware.HandlerFunc(func(ctx context.Context, ch *middleware.Chain) {
			cl, _ := ctx.Value(frKey).(*frClient)
			if cl == nil {
				ch.Cancel()
				return
			}
			n := int(calls[cl.key].Add(1))
			sc := scripts[cl.key]
			s := sc[len(sc)-1]
			if n <= len(sc) {
				s = sc[n-1]
			}
			if s.hang {
				<-ctx.Done()
			} else if s.delay > 0 {
				select {
				case <-time.After(s.delay):
				case <-ctx.Done():
				}
			}
			req := ch.Request.Msg()
			cause := contextutil.EffectiveError(ctx)
			if errors.Is(cause, context.Canceled) {
				ch.Cancel()
				return
			}
			kind := s.kind
			if cause != nil {
				kind = "failLocal"
			}
			resp := new(dns.Msg)
			switch kind {
			case "fill":
				resp.SetReply(req)
				resp.RecursionAvailable = true
				resp.Answer = []dns.RR{&dns.A{Hdr: dns.RR_Header{Name: req.Question[0].Name, Rrtype: dns.TypeA, Class: dns.ClassINET, Ttl: 300},
					A: net.IPv4(192, 0, 2, byte(10+cl.key))}}
			case "failShared":
				resp.SetRcode(req, dns.RcodeServerFailure)
				resp.SetEdns0(1232, false)
				dnsutil.SetEDE(resp, dns.ExtendedErrorCodeNetworkError, edeUpstreamText)
				sharedMade[cl.key].Store(true)
			default:
				resp.SetRcode(req, dns.RcodeServerFailure)
				resp.SetEdns0(1232, false)
				dnsutil.SetEDE(resp, dns.ExtendedErrorCodeOther, fmt.Sprintf("%s r=%d", edeLocalText, cl.id))
				var lerr error = middleware.ErrResolutionAttemptLimit
				if cause != nil {
					lerr = cause
				}
				lctx, _ := middleware.EnsureResolutionAttemptGuard(ctx)
				middleware.MarkRequestLocalFailureResponse(lctx, resp, lerr)
			}
			_ = ch.Writer.WriteMsg(resp)
			ch.Cancel()
		})
		handlers := []middleware.Handler{c, downstream}

		clients := make([]*frClient, in.Clients)
		chains := make([]*middleware.Chain, in.Clients)
		var all sync.WaitGroup
		for i := range clients {
			cl := &frClient{id: i + 1, key: 1 + rng.Intn(nkeys), delay: time.Duration(rng.Intn(30)) * time.Millisecond, deadline: D}
			if rng.Intn(6) == 0 {
				cl.cancelAt = time.Duration(1+rng.Intn(in.DeadlineMs)) * time.Millisecond
			}
			if longLeader {
				if i == 0 {
					cl.key, cl.delay, cl.deadline, cl.cancelAt = 1, 0, 4*time.Second, 0
				} else if cl.delay < 20*time.Millisecond {
					cl.delay += 20 * time.Millisecond
				}
			}
			cl.tr = &stampTransport{countTransport: countTransport{addr: &net.UDPAddr{IP: net.IPv4(203, 0, 113, byte(1+i%250)), Port: 41000 + i}}}
			clients[i] = cl
			req := new(dns.Msg)
			req.SetQuestion(question(cl.key), dns.TypeA)
			req.Id = uint16(2000 + i)
			req.SetEdns0(1232, false)
			ch := middleware.NewChain(handlers)
			ch.Reset(cl.tr, req)
			chains[i] = ch
			all.Add(1)
			go func() {
				defer all.Done()
				time.Sleep(cl.delay)
				ctx := contextutil.WithLazyTimeout(context.WithValue(context.Background(), frKey, cl), cl.deadline)
				defer ctx.Cancel()
				if cl.cancelAt > 0 {
					tm := time.AfterFunc(cl.cancelAt, func() { cl.canceled.Store(true); ctx.Cancel() })
					defer tm.Stop()
				}
				cl.start = time.Now()
				ch.Next(ctx)
				cl.end = time.Now()
			}()
		}
		// scheduling-noise monitor: on a badly overloaded machine wall-clock
		// bounds say nothing about the code; such rounds are not judged on time
		var maxLag atomic.Int64
		stopBeat := make(chan struct{})
		go func() {
			for {
				t0 := time.Now()
				select {
				case <-stopBeat:
					return
				case <-time.After(5 * time.Millisecond):
				}
				if lag := int64(time.Since(t0) - 5*time.Millisecond); lag > maxLag.Load() {
					maxLag.Store(lag)
				}
			}
		}()
		finished := make(chan struct{})
		go func() { all.Wait(); close(finished) }()
		limit := 4*time.Second + margin + 2*time.Second
		select {
		case <-finished:
			close(stopBeat)
		case <-time.After(limit):
			close(stopBeat)
			if time.Duration(maxLag.Load()) > 300*time.Millisecond {
				res.Skip("round %d: machine too loaded to judge wall-clock bounds (scheduling lag %v)", round, time.Duration(maxLag.Load()))
				return
			}
			stuck := []int{}
			for _, cl := range clients {
				if cl.end.IsZero() {
					stuck = append(stuck, cl.id)
				}
			}
			res.Violate("dedup-free/EventuallyAnswered", fmt.Sprintf("free-running dedup round %d (W=%v, longLeader=%v, probeKey=%d): requests %v still had not returned %v after their arrival (deadline %v): wedged",
				round, W, longLeader, probeKey, stuck, limit, D), map[string]any{"driver": "dedup-free", "round": round, "seed": vh.Seed()})
			return
		}
		noisy := time.Duration(maxLag.Load()) > 300*time.Millisecond
		if noisy {
			res.Count("noisy_rounds", 1)
		}
		ok := true
		for i, cl := range clients {
			n := cl.tr.count()
			kind, of := classify(cl.tr.reply())
			replay := map[string]any{"driver": "dedup-free", "round": round, "seed": vh.Seed(), "client": cl.id, "key": cl.key, "W": W.String(), "longLeader": longLeader}
			switch {
			case n > 1:
				res.Violate("dedup-free/AtMostOneReply", fmt.Sprintf("free-running dedup round %d: client %d received %d replies", round, cl.id, n), replay)
				ok = false
			case n == 0 && !cl.canceled.Load():
				res.Violate("dedup-free/ExactlyOneReply", fmt.Sprintf("free-running dedup round %d: client %d (key %d) returned without any reply although it did not go away", round, cl.id, cl.key), replay)
				ok = false
			case n == 1 && !noisy && !cl.canceled.Load() && cl.tr.at.Sub(cl.start) > cl.deadline+margin:
				res.Violate("dedup-free/InTime", fmt.Sprintf("free-running dedup round %d (W=%v): client %d (key %d) was answered %v after arrival; its deadline is %v (+%v margin)",
					round, W, cl.id, cl.key, cl.tr.at.Sub(cl.start).Round(time.Millisecond), cl.deadline, margin), replay)
				ok = false
			case kind == "local" && of != cl.id:
				res.Violate("dedup-free/FailureIsPrivate", fmt.Sprintf("free-running dedup round %d: client %d received the request-local failure of request %d", round, cl.id, of), replay)
				ok = false
			case kind == "cachedfail" && !sharedMade[cl.key].Load():
				res.Violate("dedup-free/FailureIsPrivate", fmt.Sprintf("free-running dedup round %d: client %d was served a cached failure for key %d although only request-local failures were produced", round, cl.id, cl.key), replay)
				ok = false
			}
			if !ok {
				break
			}
			res.Count("clients", 1)
			res.Count("reply_"+kind, 1)
			if chains[i].Writer.Written() {
				late := new(dns.Msg)
				late.SetRcode(chains[i].Request.Msg(), dns.RcodeServerFailure)
				if err := chains[i].Writer.WriteMsg(late); err == nil || cl.tr.count() != n {
					res.Violate("dedup-free/AtMostOneReply", fmt.Sprintf("free-running dedup round %d: the response writer of client %d accepted a second WriteMsg", round, cl.id), replay)
					ok = false
					break
				}
			}
		}
		if ok {
			reg := wg.VerifC11Registered()
			for i := 0; i < 100 && reg != 0; i++ {
				time.Sleep(10 * time.Millisecond)
				reg = wg.VerifC11Registered()
			}
			if reg != 0 {
				res.Violate("dedup-free/Quiescent", fmt.Sprintf("free-running dedup round %d: %d generation(s) still registered after every request returned", round, reg),
					map[string]any{"driver": "dedup-free", "round": round, "seed": vh.Seed()})
				ok = false
			}
		}
		c.Stop()
		if !ok {
			return
		}
		for k := 1; k <= nkeys; k++ {
			res.Count("downstream_calls", int(calls[k].Load()))
		}
		res.Case(fmt.Sprintf("free:%d:%v:%v:%d", round, W, longLeader, probeKey))
	}
}
