package c11

// Call-by-call replay (spec -> code) of TLC behaviours of Dedup.tla on the
// real internal/waitgroup.WaitGroup.  Every method of the wait group is one
// critical section, so a sequential call order *is* a schedule: the driver
// issues JoinGeneration / Regroup / DoneGeneration in the order TLC chose,
// lets exactly the generations TLC timed out expire (their bounded wait is
// set short through the overlay shim, all others get an hour), and after
// every call
//   - evaluates the C11 dedup predicates on what the code returned
//     (one leader per generation, followers get the registered generation,
//     a timed-out generation is a tombstone, DoneGeneration is
//     identity-checked, one common next generation per cohort), and
//   - compares (leader?, generation identity, closed Done channels,
//     timed-out tombstones, next links, registered generations) with the
//     model state; differences that break no predicate are drift.

import (
	"context"
	"errors"
	"fmt"
	"sync"
	"testing"
	"time"

	"github.com/semihalev/sdns/internal/waitgroup"
	"github.com/semihalev/sdns/verifharness/vh"
)

type wgPost struct {
	Groups []int  `json:"groups"` // index = key-1, value = model generation id (0 = none)
	Done   []bool `json:"done"`   // index = gen-1
	TO     []bool `json:"to"`
	Next   []int  `json:"next"`
	NGen   int    `json:"ngen"`
}

type wgCall struct {
	Op     string `json:"op"` // join | regroup | done | timeout
	R      int    `json:"r"`
	K      int    `json:"k"`
	P      int    `json:"p"` // regroup: previous generation (model id)
	G      int    `json:"g"` // done / timeout: generation (model id)
	Short  bool   `json:"short"`
	Leader bool   `json:"leader"`
	Gen    int    `json:"gen"` // model generation returned
	Label  string `json:"label"`
	Post   wgPost `json:"post"`
}

type wgBehaviour struct {
	ID    string   `json:"id"`
	Calls []wgCall `json:"calls"`
}

type wgInput struct {
	NK         int           `json:"nk"`
	ShortMs    int           `json:"shortMs"`
	Behaviours []wgBehaviour `json:"behaviours"`
}

func genDone(g *waitgroup.Generation) bool {
	select {
	case <-g.Done():
		return true
	default:
		return false
	}
}

func genTimedOut(g *waitgroup.Generation) bool {
	return errors.Is(g.Err(), context.DeadlineExceeded)
}

type wgReplay struct {
	res      *vh.Result
	b        *wgBehaviour
	wg       *waitgroup.WaitGroup
	gens     []*waitgroup.Generation // index = model id - 1 (creation order)
	doneBy   map[*waitgroup.Generation]bool
	expired  map[int]bool // model ids whose Timeout step was replayed
	hist     []string
	shortDur time.Duration
}

func realKey(k int) uint64 { return uint64(0x5d00 + k) }

func (w *wgReplay) id(g *waitgroup.Generation) int {
	for i, p := range w.gens {
		if p == g {
			return i + 1
		}
	}
	return 0
}

func (w *wgReplay) violate(pred, what string) {
	w.res.Violate("waitgroup/"+pred, fmt.Sprintf("internal/waitgroup %s after calls %v: %s", pred, w.hist, what),
		map[string]any{"driver": "waitgroup", "behaviour": w.b.ID, "calls": w.hist, "behaviour_full": w.b})
}

// standing predicates on the real object, evaluated after every call
func (w *wgReplay) standing() bool {
	for i, g := range w.gens {
		if genTimedOut(g) && !w.doneBy[g] {
			// TimedOutGenerationIsTombstone: registered until its own Done, never linked
			if cur := w.wg.VerifC11Current(realKey(w.keyOf(i + 1))); cur != g {
				w.violate("TimedOutGenerationIsTombstone", fmt.Sprintf("generation %d timed out and its leader has not called DoneGeneration, but the key now maps to generation %d", i+1, w.id(cur)))
				return false
			}
		}
		if genTimedOut(g) && g.VerifC11Next() != nil {
			w.violate("TimedOutGenerationIsTombstone", fmt.Sprintf("timed-out generation %d was linked to a next generation %d", i+1, w.id(g.VerifC11Next())))
			return false
		}
		if genDone(g) && !genTimedOut(g) && !w.doneBy[g] {
			w.violate("FollowersNeverDone", fmt.Sprintf("generation %d is done although neither its leader called DoneGeneration nor its wait expired", i+1))
			return false
		}
	}
	return true
}

func (w *wgReplay) keyOf(gen int) int {
	// the key of a generation is fixed by the call that created it
	for _, c := range w.b.Calls {
		if (c.Op == "join" || c.Op == "regroup") && c.Leader && c.Gen == gen {
			return c.K
		}
	}
	return 0
}

func (w *wgReplay) compare(c *wgCall) {
	p := c.Post
	for k := 1; k <= len(p.Groups); k++ {
		got := w.id(w.wg.VerifC11Current(realKey(k)))
		if got != p.Groups[k-1] {
			w.res.DriftNote("waitgroup %s: after %v key %d maps to generation %d, model %d", w.b.ID, w.hist, k, got, p.Groups[k-1])
			return
		}
	}
	if len(w.gens) != p.NGen {
		w.res.DriftNote("waitgroup %s: after %v %d generations exist, model %d", w.b.ID, w.hist, len(w.gens), p.NGen)
		return
	}
	for i, g := range w.gens {
		d, to := genDone(g), genTimedOut(g)
		if to && !p.TO[i] && !w.expired[i+1] && w.willExpire(i+1) {
			// a generation TLC times out later expired a little early in real
			// time; nothing observes the difference before the Timeout step
			continue
		}
		if d != p.Done[i] || to != p.TO[i] || w.id(g.VerifC11Next()) != p.Next[i] {
			w.res.DriftNote("waitgroup %s: after %v generation %d is done=%v timedOut=%v next=%d, model done=%v timedOut=%v next=%d",
				w.b.ID, w.hist, i+1, d, to, w.id(g.VerifC11Next()), p.Done[i], p.TO[i], p.Next[i])
			return
		}
	}
}

func (w *wgReplay) willExpire(gen int) bool {
	for _, c := range w.b.Calls {
		if c.Op == "timeout" && c.G == gen {
			return true
		}
	}
	return false
}

func (w *wgReplay) run() error {
	for ci := range w.b.Calls {
		c := &w.b.Calls[ci]
		w.hist = append(w.hist, c.Label)
		key := realKey(c.K)
		switch c.Op {
		case "join", "regroup":
			if c.Short {
				w.wg.VerifC11SetTimeout(w.shortDur)
			} else {
				w.wg.VerifC11SetTimeout(time.Hour)
			}
			before := w.wg.VerifC11Current(key)
			var (
				g      *waitgroup.Generation
				leader bool
				want   *waitgroup.Generation // follower must get exactly this one (nil: must lead)
				why    string
				prev   *waitgroup.Generation
			)
			if c.Op == "join" {
				want, why = before, "the generation registered for the key"
				g, leader = w.wg.JoinGeneration(key)
			} else {
				if c.P < 1 || c.P > len(w.gens) {
					return fmt.Errorf("regroup of unknown generation %d", c.P)
				}
				prev = w.gens[c.P-1]
				if !genDone(prev) {
					return fmt.Errorf("model regroups on generation %d which is not done in the code", c.P)
				}
				switch next := prev.VerifC11Next(); {
				case genTimedOut(prev):
					want, why = prev, "the timed-out previous generation itself (tombstone)"
				case next != nil:
					want, why = next, "the next generation its cohort was already linked to"
				case before != nil && before != prev:
					want, why = before, "the newer generation already registered for the key"
				}
				g, leader = w.wg.Regroup(key, prev)
			}
			if g == nil {
				w.violate("OneLeaderPerGeneration", c.Label+" returned a nil generation")
				return nil
			}
			known := w.id(g) != 0
			switch {
			case want != nil && (leader || g != want):
				pred := "OneLeaderPerGeneration"
				if prev != nil && genTimedOut(prev) {
					pred = "TimedOutGenerationIsTombstone"
				}
				w.violate(pred, fmt.Sprintf("%s returned (generation %d, leader=%v, fresh=%v); it must follow %s (generation %d)",
					c.Label, w.id(g), leader, !known, why, w.id(want)))
				return nil
			case want == nil && (!leader || known):
				w.violate("OneLeaderPerGeneration", fmt.Sprintf("%s returned (generation %d, leader=%v) although no generation could be followed: the caller must lead a fresh generation",
					c.Label, w.id(g), leader))
				return nil
			}
			if leader {
				w.gens = append(w.gens, g)
				if cur := w.wg.VerifC11Current(key); cur != g {
					w.violate("OneLeaderPerGeneration", fmt.Sprintf("%s made the caller leader of a generation that is not registered for the key", c.Label))
					return nil
				}
				if prev != nil && prev.VerifC11Next() != g {
					w.violate("OneLeaderPerGeneration", fmt.Sprintf("%s created a generation without linking the previous cohort to it", c.Label))
					return nil
				}
			}
			if leader != c.Leader || w.id(g) != c.Gen {
				w.res.DriftNote("waitgroup %s: %s returned (generation %d, leader=%v), model (%d, %v)", w.b.ID, c.Label, w.id(g), leader, c.Gen, c.Leader)
				return nil
			}
		case "done":
			if c.G < 1 || c.G > len(w.gens) {
				return fmt.Errorf("done of unknown generation %d", c.G)
			}
			g := w.gens[c.G-1]
			before := w.wg.VerifC11Current(key)
			wasTO := genTimedOut(g)
			w.doneBy[g] = true
			w.wg.DoneGeneration(key, g)
			after := w.wg.VerifC11Current(key)
			if !genDone(g) {
				w.violate("FollowersNeverDone", fmt.Sprintf("%s by the leader did not close the generation's Done channel (followers would wedge)", c.Label))
				return nil
			}
			if before == g && after != nil {
				w.violate("OneLeaderPerGeneration", fmt.Sprintf("%s left generation %d registered", c.Label, w.id(after)))
				return nil
			}
			if before != g && after != before {
				w.violate("OneLeaderPerGeneration", fmt.Sprintf("%s of an old generation removed/replaced the newer registered generation %d", c.Label, w.id(before)))
				return nil
			}
			if wasTO != genTimedOut(g) {
				w.violate("TimedOutGenerationIsTombstone", fmt.Sprintf("%s changed the timed-out status of generation %d", c.Label, c.G))
				return nil
			}
		case "timeout":
			if c.G < 1 || c.G > len(w.gens) {
				return fmt.Errorf("timeout of unknown generation %d", c.G)
			}
			g := w.gens[c.G-1]
			select {
			case <-g.Done():
			case <-time.After(10 * time.Second):
				return fmt.Errorf("generation %d did not expire", c.G)
			}
			if !genTimedOut(g) {
				return fmt.Errorf("generation %d finished without timing out (schedule control failed)", c.G)
			}
			w.expired[c.G] = true
		default:
			return fmt.Errorf("unknown op %q", c.Op)
		}
		w.res.Count("calls", 1)
		if !w.standing() {
			return nil
		}
		w.compare(c)
	}
	return nil
}

func TestWaitGroupReplay(t *testing.T) {
	var in wgInput
	vh.Input(t, &in)
	res := vh.NewResult()
	defer res.Write(t)
	short := time.Duration(in.ShortMs) * time.Millisecond
	if short <= 0 {
		short = 15 * time.Millisecond
	}
	sem := make(chan struct{}, 16)
	var wg sync.WaitGroup
	for i := range in.Behaviours {
		b := &in.Behaviours[i]
		wg.Add(1)
		sem <- struct{}{}
		go func() {
			defer wg.Done()
			defer func() { <-sem }()
			r := &wgReplay{res: res, b: b, wg: waitgroup.New(time.Hour), doneBy: map[*waitgroup.Generation]bool{},
				expired: map[int]bool{}, shortDur: short}
			if err := r.run(); err != nil {
				res.Skip("behaviour %s: %v (after %v)", b.ID, err, r.hist)
				return
			}
			key := ""
			for _, c := range b.Calls {
				key += c.Label + ";"
			}
			res.Case("wg:" + key)
			if i < 2 {
				res.Sample(map[string]any{"driver": "waitgroup", "calls": r.hist})
			}
		}()
	}
	wg.Wait()
}
