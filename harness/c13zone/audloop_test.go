package c13zone

// AUDIT C13 (aud13) reproduction, not part of the normal tier (runs only with
// VERIF_AUD13=1):  an NS-address loop cut that is LOCAL TO ONE REQUEST TREE is
// published as an RFC 9520 zone failure for a zone none of whose servers was
// ever asked.
//
//	test.     glue
//	c.test.   glue, holds ns2.c.test. A  -> server B
//	b.test.   NS { ns.a.test. , ns2.c.test. }   both glue-less, server B
//	a.test.   NS { ns.b.test. }                 glue-less, server A
//	d.test.   NS { ns.b.test. }                 glue-less, server A
//
// Every zone is resolvable: b.test. through ns2.c.test., then ns.b.test. (held by
// b.test.) gives server A for a.test. and d.test..  A cold "www.d.test. A" walks
// ns.b.test. -> b.test. -> ns.a.test. -> a.test. -> ns.b.test. -> ... until
// checkLoop cuts the second lap inside lookupV4Nss(a.test.): the only NS host is
// skipped, the server list is empty and processDelegation calls
// recordResolutionZoneFailure(a.test.) -- shared state -- although the cut is a
// property of this request tree (its NS list), not of a.test.'s servers.  The
// outer laps go on through ns2.c.test.; while they do (c.test.'s answer for
// ns2.c.test. is delayed here to hold the window open) an independent client
// asking "www.a.test. A" is answered SERVFAIL + EDE 13 with no packet for it at
// a.test.'s server.

import (
	"os"
	"strings"
	"sync"
	"testing"
	"time"

	"github.com/miekg/dns"
	"github.com/semihalev/sdns/verifharness/authkit"
	"github.com/semihalev/sdns/verifharness/pipe"
)

func TestAudLoopCutZoneFailure(t *testing.T) {
	if os.Getenv("VERIF_AUD13") == "" {
		t.Skip("audit reproduction; set VERIF_AUD13=1")
	}
	n, err := authkit.NewNet(false)
	if err != nil {
		t.Fatal(err)
	}
	defer n.Stop()
	must := func(z *authkit.Zone, s *authkit.Server, err error) (*authkit.Zone, *authkit.Server) {
		if err != nil {
			t.Fatal(err)
		}
		return z, s
	}
	tz, _ := must(n.Delegate("test.", authkit.DelegateOpts{}))
	cz, cSrv := must(n.Delegate("c.test.", authkit.DelegateOpts{}))
	bz, bSrv := must(n.Delegate("b.test.", authkit.DelegateOpts{Glueless: "ns.a.test."}))
	az, aSrv := must(n.Delegate("a.test.", authkit.DelegateOpts{Glueless: "ns.b.test."}))
	dz, _ := must(n.Delegate("d.test.", authkit.DelegateOpts{Glueless: "ns.b.test.", OnServer: aSrv}))

	// b.test. has two glue-less NS hosts
	bNS := []dns.RR{authkit.NSRR("b.test.", "ns.a.test.", 3600), authkit.NSRR("b.test.", "ns2.c.test.", 3600)}
	tz.Delegate(&authkit.Cut{Name: "b.test.", NS: bNS})
	bz.Remove("b.test.", dns.TypeNS)
	for _, rr := range bNS {
		bz.AddRR(rr)
	}
	ipB := n.AllocGlue(bSrv)
	ipA := n.AllocGlue(aSrv)
	cz.AddRR(authkit.ARR("ns2.c.test.", ipB, 3600))
	az.AddRR(authkit.ARR("ns.a.test.", ipB, 3600))
	bz.AddRR(authkit.ARR("ns.b.test.", ipA, 3600))
	az.Add("www.a.test. 300 IN A 192.0.2.80")
	dz.Add("www.d.test. 300 IN A 192.0.2.81")

	hold := 1200 * time.Millisecond
	var mu sync.Mutex
	var firstNs2 time.Time
	cSrv.SetHook(func(ex *authkit.Exchange) {
		if strings.EqualFold(ex.Q.Name, "ns2.c.test.") && ex.Q.Qtype == dns.TypeA {
			mu.Lock()
			if firstNs2.IsZero() {
				firstNs2 = time.Now()
			}
			mu.Unlock()
			ex.Delay = hold
		}
	})

	dir, _ := os.MkdirTemp("", "verif-aud13-")
	defer os.RemoveAll(dir)
	s, _ := pipe.NewResolverServer(pipe.ResolverOpts{RootAddr: n.RootSrv.Addr, Dir: dir, Mapper: n.Mapper()})

	ask := func(name string, ip string) *dns.Msg {
		q := new(dns.Msg)
		q.SetQuestion(name, dns.TypeA)
		q.SetEdns0(1232, false)
		return pipe.Ask(s, q, "udp", ip)
	}
	countFor := func(srv *authkit.Server, name string) int {
		c := 0
		for _, e := range srv.Log() {
			if strings.EqualFold(e.Q.Name, name) {
				c++
			}
		}
		return c
	}
	ede13 := func(m *dns.Msg) bool {
		if m == nil {
			return false
		}
		if o := m.IsEdns0(); o != nil {
			for _, opt := range o.Option {
				if e, ok := opt.(*dns.EDNS0_EDE); ok && e.InfoCode == dns.ExtendedErrorCodeCachedError {
					return true
				}
			}
		}
		return false
	}

	done := make(chan *dns.Msg, 1)
	go func() { done <- ask("www.d.test.", "203.0.113.9") }()

	// Independent clients poll a name of a.test. that nobody asked before, while the
	// first tree is still working.
	var bad *dns.Msg
	var badAt time.Duration
	t0 := time.Now()
	i := 0
poll:
	for time.Since(t0) < 8*time.Second {
		select {
		case r := <-done:
			done <- r
			break poll
		default:
		}
		mu.Lock()
		started := !firstNs2.IsZero()
		mu.Unlock()
		if started {
			i++
			before := countFor(aSrv, "www.a.test.")
			r := ask("www.a.test.", "203.0.113.77")
			after := countFor(aSrv, "www.a.test.")
			if r != nil && r.Rcode == dns.RcodeServerFailure && ede13(r) && after == before {
				bad, badAt = r, time.Since(t0)
				break poll
			}
		}
		time.Sleep(20 * time.Millisecond)
	}
	first := <-done
	if first == nil || first.Rcode != dns.RcodeSuccess || len(first.Answer) == 0 {
		t.Logf("note: the first tree (www.d.test. A) ended %v", first)
	} else {
		t.Logf("first tree: www.d.test. A answered NOERROR (%d answer RRs): every zone involved is resolvable", len(first.Answer))
	}
	// and a.test. is healthy for a fresh request once the entry is gone / cleared
	after := ask("www.a.test.", "203.0.113.78")
	if after != nil {
		t.Logf("afterwards: www.a.test. A -> %s, %d answers, packets for it at a.test.'s server: %d",
			dns.RcodeToString[after.Rcode], len(after.Answer), countFor(aSrv, "www.a.test."))
	}
	t.Logf("packets at a.test.'s server before the verdict, by question: %v", func() map[string]int {
		m := map[string]int{}
		for _, e := range aSrv.Log() {
			m[strings.ToLower(e.Q.Name)+"/"+dns.TypeToString[e.Q.Qtype]]++
		}
		return m
	}())
	if bad != nil {
		t.Fatalf("VIOLATION (C13 zone failure without a failed server): %v after the start an independent client asking "+
			"www.a.test. A was answered SERVFAIL + EDE 13 with no packet for it at a.test.'s only server, which never "+
			"failed to answer anything:\n%v", badAt, bad)
	}
	t.Logf("no cached zone failure observed for a.test. in %d polls", i)
}
