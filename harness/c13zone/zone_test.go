package c13zone

// C13, zone-failure pipeline tier.  Server-behaviour vectors enumerated by TLC
// (tla/ZoneFail) are played by scripted authoritative servers against the REAL
// full pipeline (pipe.NewResolverServer: default chain incl. cache + resolver,
// DNSSEC off, rfc9520 on): one zone per vector, delegated to N servers with
// distinct glue, every server playing its script attempt by attempt.
//
// Per vector the client asks
//
//	Q1  a.<zone> A        the request whose fan-out is under test
//	Q2  b.<zone> A        a SIBLING name of the same zone, never asked before
//	Q3  a.<zone> A        the same question again, inside the back-off
//	Q4  a.<zone> AAAA     the same name, another type, never asked before
//	Q5  a.<other> A       a name in another zone, never asked before
//	Q6  a.<zone> A, CD=1  (when Q1 failed) the same question under the other CD value
//	Q7  c.<zone> A        (when Q1 failed) one more sibling, never asked before
//
// The oracle is the scripted servers' own record (which attempt reached which
// server, what the script made it answer, when the answer left) and the
// client-visible replies -- nothing of the resolver's internals:
//
//	OnlyWhatFailed   Q2 / Q4 answered SERVFAIL + EDE 13 without any packet for
//	                 them at the zone's servers (a zone-level cached failure is
//	                 being served) is legal only if, in some earlier request
//	                 tree of this zone, EVERY server of the zone failed to give
//	                 a usable response: each server that was asked got only
//	                 no-reply / garbage / failure-rcode scripts on every attempt
//	                 made on it, and no server that was never asked would have
//	                 answered usefully.
//	QuestionFailed   Q3 answered from the failure cache without upstream packets
//	                 is legal only if an earlier reply for that very question was
//	                 a failure, or the zone legally failed as above.
//	ExactCD          Q6 answered from the failure cache without upstream packets is
//	                 legal only if a ZONE failure is being served (then Q7, a name
//	                 nobody asked before, is answered the same way): Q1..Q5 all
//	                 carried CD = 0, so no question failure exists for CD = 1.
//	OtherZone        Q5 is never answered from the failure cache.
//	KillSwitch       with rfc9520 off nothing is ever answered SERVFAIL + EDE 13.
//
// Timing: a healthy-slow server answers after SlowMs (150-300 ms), the
// per-attempt upstream timeout is several times that and the client deadline
// is far away, so a healthy server's answer never loses a legitimate race. A
// case in which a scripted answer left its server late (the machine starved
// the scripted server) is not judged, and a flagged case is re-run on fresh
// zones, alone: only a reproduced predicate failure is reported.

import (
	"encoding/json"
	"fmt"
	"net"
	"os"
	"path/filepath"
	"sort"
	"strings"
	"sync"
	"testing"
	"time"

	"github.com/miekg/dns"
	"github.com/semihalev/sdns/config"
	"github.com/semihalev/sdns/middleware"
	"github.com/semihalev/sdns/server"
	"github.com/semihalev/sdns/verifharness/authkit"
	"github.com/semihalev/sdns/verifharness/pipe"
	"github.com/semihalev/sdns/verifharness/vh"
)

type zCase struct {
	ID     string     `json:"id"`
	Script [][]string `json:"script"` // per server: behaviour on its 1st, 2nd, ... attempt (last repeats)
	Pred   string     `json:"pred"`   // the model's verdict for the fan-out ("" = not predicted)
	Src    string     `json:"src"`
}

type zInput struct {
	Cases          []zCase `json:"cases"`
	KillCases      []zCase `json:"killCases"`
	SlowMs         int     `json:"slowMs"`
	UpTimeoutMs    int     `json:"upTimeoutMs"`
	QueryTimeoutMs int     `json:"queryTimeoutMs"`
	Parallel       int     `json:"parallel"`
	BackoffS       int     `json:"backoffS"`
	Confirm        bool    `json:"confirm"` // a --replay run: no first pass, judge the re-run directly
}

func useful(b string) bool { return b == "fast" || b == "slow" || b == "nxdomain" }

// ------------------------------------------------------------------ scripted zone

type attempt struct {
	Epoch int
	Srv   int
	Nth   int
	Proto string
	Beh   string
	At    time.Time
	Wrote time.Time // when the scripted reply left (zero: nothing was sent, or not yet)
	Delay time.Duration
}

type zoneState struct {
	mu     sync.Mutex
	name   string
	n      int
	script [][]string
	epoch  int
	qname  string
	qtype  uint16
	att    map[int]int
	log    []*attempt
	other  int // packets for questions that are not the epoch's (NS / address lookups): answered honestly
}

func (z *zoneState) begin(qname string, qtype uint16) int {
	z.mu.Lock()
	defer z.mu.Unlock()
	z.epoch++
	z.qname, z.qtype = strings.ToLower(qname), qtype
	z.att = map[int]int{}
	return z.epoch
}

type player struct {
	mu     sync.Mutex
	zones  map[string]*zoneState
	slow   time.Duration
	played sync.Map // behaviour -> *int64 (coverage)
}

func (p *player) zone(name string) *zoneState {
	p.mu.Lock()
	defer p.mu.Unlock()
	return p.zones[name]
}

func (p *player) hook(j int) func(*authkit.Exchange) {
	return func(ex *authkit.Exchange) {
		if ex.Zone == nil {
			return
		}
		zs := p.zone(ex.Zone.Name)
		if zs == nil || j >= zs.n {
			return
		}
		name := strings.ToLower(ex.Q.Name)
		zs.mu.Lock()
		if name != zs.qname || ex.Q.Qtype != zs.qtype {
			zs.other++
			zs.mu.Unlock()
			return
		}
		a := zs.att[j]
		zs.att[j] = a + 1
		sc := zs.script[j]
		beh := sc[min(a, len(sc)-1)]
		rec := &attempt{Epoch: zs.epoch, Srv: j, Nth: a + 1, Proto: ex.Proto, Beh: beh, At: time.Now()}
		zs.log = append(zs.log, rec)
		zs.mu.Unlock()
		sent := true
		switch beh {
		case "fast":
		case "slow":
			rec.Delay = p.slow
			time.Sleep(p.slow)
		case "nxdomain":
			m := new(dns.Msg)
			m.SetRcode(ex.Req, dns.RcodeNameError)
			m.Authoritative = true
			m.Ns = ex.Zone.RRset(ex.Zone.Name, dns.TypeSOA)
			ex.Resp = m
		case "badref":
			// NOERROR, no answer, the zone's own NS set in the authority section: a referral that does not progress
			// (configErrors in Resolver.lookup; if nothing better comes back the resolution ends in errParentDetection)
			m := new(dns.Msg)
			m.SetReply(ex.Req)
			m.Ns = ex.Zone.RRset(ex.Zone.Name, dns.TypeNS)
			ex.Resp = m
		case "servfail", "refused", "formerr":
			m := new(dns.Msg)
			m.SetRcode(ex.Req, map[string]int{"servfail": dns.RcodeServerFailure, "refused": dns.RcodeRefused, "formerr": dns.RcodeFormatError}[beh])
			ex.Resp = m
		case "drop":
			sent = false
			if ex.Proto == "tcp" {
				ex.CloseTCP = true // connection error
			} else {
				ex.Drop = true // no reply
			}
		case "garbage":
			ex.Garbage = true
		}
		if sent {
			zs.mu.Lock()
			rec.Wrote = time.Now()
			zs.mu.Unlock()
		}
	}
}

// ------------------------------------------------------------------ world

type world struct {
	n       *authkit.Net
	tz      *authkit.Zone
	fault   []*authkit.Server
	okSrv   *authkit.Server
	p       *player
	srv     *server.Server
	enabled bool
	serial  int
	mu      sync.Mutex
}

const maxServers = 5

var truthIP = net.IPv4(10, 13, 0, 1)

func newWorld(in *zInput, enabled bool) (*world, error) {
	n, err := authkit.NewNet(false)
	if err != nil {
		return nil, err
	}
	w := &world{n: n, enabled: enabled, p: &player{zones: map[string]*zoneState{}, slow: time.Duration(in.SlowMs) * time.Millisecond}}
	if w.tz, _, err = n.Delegate("test.", authkit.DelegateOpts{}); err != nil {
		return nil, err
	}
	for j := 0; j < maxServers; j++ {
		s, err := n.AddServer(fmt.Sprintf("zf-%d", j+1))
		if err != nil {
			return nil, err
		}
		s.SetHook(w.p.hook(j))
		w.fault = append(w.fault, s)
	}
	if w.okSrv, err = n.AddServer("zf-ok"); err != nil {
		return nil, err
	}
	srv, _ := pipe.NewResolverServer(pipe.ResolverOpts{RootAddr: n.RootSrv.Addr, Mapper: n.Mapper(), Dir: "",
		Mutate: func(c *config.Config) {
			c.Timeout.Duration = time.Duration(in.UpTimeoutMs) * time.Millisecond
			c.QueryTimeout.Duration = time.Duration(in.QueryTimeoutMs) * time.Millisecond
			c.RecursionFirewall.FailureCacheSize = 1 << 14
			c.RecursionFirewall.FailureCacheMinTTL.Duration = time.Duration(in.BackoffS) * time.Second
			c.RecursionFirewall.FailureCacheMaxTTL.Duration = 5 * time.Minute
			if !enabled {
				off := false
				c.RFC9520 = &off
			}
		}})
	w.srv = srv
	return w, nil
}

func (w *world) stop() {
	w.n.Stop()
	middleware.Reset()
}

// addZone creates <label>.test. hosted on the first n fault servers (or, honest, on the ok server).
func (w *world) addZone(label string, script [][]string) *zoneState {
	zn := label + ".test."
	z := authkit.NewZone(zn, false)
	z.Remove(zn, dns.TypeNS)
	var hosts []*authkit.Server
	if script == nil {
		hosts = []*authkit.Server{w.okSrv}
	} else {
		hosts = w.fault[:len(script)]
	}
	cut := &authkit.Cut{Name: zn}
	for j, s := range hosts {
		h := fmt.Sprintf("ns%d.%s", j+1, zn)
		ip := w.n.AllocGlue(s) // a distinct advertised address per (zone, server): per-address resolver state stays per zone
		z.AddRR(authkit.NSRR(zn, h, 3600))
		z.AddRR(authkit.ARR(h, ip, 3600))
		cut.NS = append(cut.NS, authkit.NSRR(zn, h, 3600))
		cut.Glue = append(cut.Glue, authkit.ARR(h, ip, 3600))
	}
	z.AddRR(authkit.ARR("*."+zn, truthIP, 300))
	var zs *zoneState
	if script != nil {
		zs = &zoneState{name: zn, n: len(script), script: script, att: map[int]int{}}
		w.p.mu.Lock()
		w.p.zones[zn] = zs
		w.p.mu.Unlock()
	}
	for _, s := range hosts {
		s.AddZone(z)
	}
	w.n.AdoptZone(z, hosts[0])
	w.tz.Delegate(cut)
	return zs
}

type rep struct {
	Name   string `json:"name"`
	Type   string `json:"type"`
	Born   string `json:"born"`
	Got    bool   `json:"got"`
	Rcode  string `json:"rcode"`
	EDE    int    `json:"ede"`
	Cached bool   `json:"cached"` // SERVFAIL + EDE 13
	Ans    int    `json:"answers"`
	Ms     int64  `json:"ms"`
	Epoch  int    `json:"epoch"`
	CD     bool   `json:"cd,omitempty"`
	rcode  int
}

func (w *world) ask(name string, qt uint16, wire bool, client string, cd ...bool) rep {
	q := new(dns.Msg)
	q.SetQuestion(name, qt)
	q.RecursionDesired = true
	q.CheckingDisabled = len(cd) > 0 && cd[0]
	q.SetEdns0(1232, false)
	t0 := time.Now()
	var m *dns.Msg
	out := rep{Name: name, Type: dns.TypeToString[qt], Born: "msg", EDE: -1, rcode: -1, CD: q.CheckingDisabled}
	if wire {
		out.Born = "wire"
		m = pipe.AskRaw(w.srv, q, "udp", client)
	} else {
		m = pipe.Ask(w.srv, q, "udp", client)
	}
	out.Ms = time.Since(t0).Milliseconds()
	if m == nil {
		return out
	}
	out.Got, out.rcode, out.Rcode, out.Ans = true, m.Rcode, dns.RcodeToString[m.Rcode], len(m.Answer)
	if opt := m.IsEdns0(); opt != nil {
		for _, o := range opt.Option {
			if e, ok := o.(*dns.EDNS0_EDE); ok {
				out.EDE = int(e.InfoCode)
			}
		}
	}
	out.Cached = m.Rcode == dns.RcodeServerFailure && out.EDE == int(dns.ExtendedErrorCodeCachedError)
	return out
}

// ------------------------------------------------------------------ one case

type epochTruth struct {
	Epoch     int        `json:"epoch"`
	Q         string     `json:"q"`
	Packets   int        `json:"packets"`
	Played    [][]string `json:"played"`  // per server: behaviours played, in order ("beh/proto")
	Healthy   []int      `json:"healthy"` // servers (1-based) that gave, or would have given, a usable response
	AllFailed bool       `json:"allFailed"`
	Starved   bool       `json:"starved"`
}

type caseObs struct {
	Case    zCase        `json:"case"`
	Zone    string       `json:"zone"`
	Replies []rep        `json:"replies"`
	Epochs  []epochTruth `json:"epochs"`
	// the CD = 1 follow-up and the sibling asked after it (only when Q1 failed)
	CDReply  *rep        `json:"cdReply,omitempty"`
	CDEpoch  *epochTruth `json:"cdEpoch,omitempty"`
	SibReply *rep        `json:"sibReply,omitempty"`
	SibEpoch *epochTruth `json:"sibEpoch,omitempty"`
	Flags   []flag       `json:"flags,omitempty"`
	Starved bool         `json:"starved"`
	Infra   string       `json:"infra,omitempty"`
}

type flag struct {
	Pred string `json:"pred"`
	What string `json:"what"`
}

const starvedAfter = 400 * time.Millisecond

// truth computes the ground truth of one epoch from the scripted servers' record.
func (zs *zoneState) truth(epoch int, q string) epochTruth {
	zs.mu.Lock()
	defer zs.mu.Unlock()
	t := epochTruth{Epoch: epoch, Q: q, Played: make([][]string, zs.n)}
	good := make([]bool, zs.n)
	for _, a := range zs.log {
		if a.Epoch != epoch {
			continue
		}
		t.Packets++
		t.Played[a.Srv] = append(t.Played[a.Srv], a.Beh+"/"+a.Proto)
		if useful(a.Beh) {
			good[a.Srv] = true
			if a.Wrote.IsZero() || a.Wrote.Sub(a.At)-a.Delay > starvedAfter {
				t.Starved = true
			}
		}
	}
	t.AllFailed = t.Packets > 0
	for j := 0; j < zs.n; j++ {
		h := good[j] || (len(t.Played[j]) == 0 && useful(zs.script[j][0]))
		if h {
			t.Healthy = append(t.Healthy, j+1)
			t.AllFailed = false
		}
	}
	return t
}

// settle waits until every scripted reply of the zone that is going to leave has left.
func (zs *zoneState) settle(max time.Duration) {
	deadline := time.Now().Add(max)
	for time.Now().Before(deadline) {
		pending := false
		zs.mu.Lock()
		for _, a := range zs.log {
			if a.Beh != "drop" && a.Wrote.IsZero() {
				pending = true
			}
		}
		zs.mu.Unlock()
		if !pending {
			return
		}
		time.Sleep(10 * time.Millisecond)
	}
}

func (w *world) runCase(c zCase, tag string) caseObs {
	w.mu.Lock()
	w.serial++
	label := fmt.Sprintf("z%s%d", tag, w.serial)
	other := fmt.Sprintf("o%s%d", tag, w.serial)
	client := fmt.Sprintf("198.51.100.%d", 1+w.serial%250)
	wireQ2 := w.serial%2 == 1
	w.mu.Unlock()
	zs := w.addZone(label, c.Script)
	w.addZone(other, nil)
	zone := label + ".test."
	obs := caseObs{Case: c, Zone: zone}
	type step struct {
		name string
		qt   uint16
		wire bool
	}
	steps := []step{
		{"a." + zone, dns.TypeA, false},
		{"b." + zone, dns.TypeA, wireQ2},
		{"a." + zone, dns.TypeA, !wireQ2},
		{"a." + zone, dns.TypeAAAA, false},
	}
	epochs := []int{}
	for _, s := range steps {
		e := zs.begin(s.name, s.qt)
		r := w.ask(s.name, s.qt, s.wire, client)
		r.Epoch = e
		obs.Replies = append(obs.Replies, r)
		epochs = append(epochs, e)
		if !r.Got {
			obs.Infra = fmt.Sprintf("no reply to %s %s", s.name, r.Type)
			return obs
		}
	}
	zs.begin("-", 0)
	r5 := w.ask("a."+other+".test.", dns.TypeA, wireQ2, client)
	obs.Replies = append(obs.Replies, r5)
	if !r5.Got {
		obs.Infra = "no reply to the other-zone question"
		return obs
	}
	// "exactly that CD value": the same question with CD = 1, then a sibling nobody asked before (which tells whether
	// a ZONE failure is what the cache is serving)
	var e6, e7 int
	if failureRcode(obs.Replies[0].rcode) {
		e6 = zs.begin("a."+zone, dns.TypeA)
		r6 := w.ask("a."+zone, dns.TypeA, false, client, true)
		r6.Epoch = e6
		obs.CDReply = &r6
		e7 = zs.begin("c."+zone, dns.TypeA)
		r7 := w.ask("c."+zone, dns.TypeA, false, client)
		r7.Epoch = e7
		obs.SibReply = &r7
		zs.begin("-", 0)
		if !r6.Got || !r7.Got {
			obs.Infra = "no reply to the CD follow-up"
			return obs
		}
	}
	zs.settle(3 * time.Second)
	if obs.CDReply != nil {
		t6 := zs.truth(e6, "a."+zone+" A cd=1")
		t7 := zs.truth(e7, "c."+zone+" A")
		obs.CDEpoch, obs.SibEpoch = &t6, &t7
		obs.Starved = obs.Starved || t6.Starved || t7.Starved
	}
	for i, e := range epochs {
		t := zs.truth(e, steps[i].name+" "+dns.TypeToString[steps[i].qt])
		obs.Epochs = append(obs.Epochs, t)
		obs.Starved = obs.Starved || t.Starved
	}
	obs.judge(w.enabled)
	return obs
}

// judge evaluates the C13 predicates on the scripted servers' record and the replies.
func (o *caseObs) judge(enabled bool) {
	add := func(pred, format string, a ...any) {
		o.Flags = append(o.Flags, flag{pred, fmt.Sprintf(format, a...)})
	}
	if !enabled {
		for _, r := range o.Replies {
			if r.Cached {
				add("KillSwitch", "rfc9520 is off, yet %s %s was answered SERVFAIL with EDE 13 (cached error)", r.Name, r.Type)
			}
		}
		return
	}
	// a zone failure is legal once every server of the zone failed in some earlier request tree
	legalBefore := func(i int) (bool, string) {
		var why []string
		for k := 0; k < i; k++ {
			t := o.Epochs[k]
			if t.Packets == 0 {
				continue
			}
			if t.AllFailed {
				return true, ""
			}
			why = append(why, fmt.Sprintf("while resolving %s server(s) %v of the %d were healthy (scripts played per server: %v)",
				t.Q, t.Healthy, len(t.Played), t.Played))
		}
		if len(why) == 0 {
			why = append(why, "no earlier request reached the zone's servers at all")
		}
		return false, strings.Join(why, "; ")
	}
	vec := vecString(o.Case.Script)
	for i := 1; i <= 3; i++ {
		r, t := o.Replies[i], o.Epochs[i]
		if !r.Cached || t.Packets > 0 {
			continue
		}
		legal, why := legalBefore(i)
		if legal {
			continue
		}
		if i == 2 {
			failedBefore := false
			for k := 0; k < i; k++ {
				if o.Replies[k].Name == r.Name && o.Replies[k].Type == r.Type && failureRcode(o.Replies[k].rcode) {
					failedBefore = true
				}
			}
			if failedBefore {
				continue // the question itself did end in failure: its own entry may answer it
			}
			add("QuestionFailed", "zone %s served by %s: %s %s, asked again, was answered SERVFAIL/EDE 13 from the failure cache without upstream traffic, "+
				"although its first resolution was answered %s and the zone never failed: %s", o.Zone, vec, r.Name, r.Type, o.Replies[0].Rcode, why)
			continue
		}
		what := map[int]string{1: "the sibling name", 3: "another type of the same name"}[i]
		add("OnlyWhatFailed", "zone %s served by %s: %s (%s %s, never asked before) was answered SERVFAIL/EDE 13 from the failure cache without any packet "+
			"reaching the zone's servers, i.e. a ZONE failure is being served, although not every server of the zone failed: %s (first reply: %s)",
			o.Zone, vec, what, r.Name, r.Type, why, o.Replies[0].Rcode)
	}
	// Q1 .. Q5 carried CD = 0: a CD = 1 client can only be answered from the failure cache by a ZONE failure, and a zone
	// failure also answers the sibling asked right after it
	if o.CDReply != nil && o.CDReply.Cached && o.CDEpoch.Packets == 0 && !(o.SibReply.Cached && o.SibEpoch.Packets == 0) {
		add("ExactCD", "zone %s served by %s: %s A asked with CD=1 was answered SERVFAIL/EDE 13 from the failure cache without upstream traffic, although only CD=0 "+
			"clients ever asked (and failed) that question and no zone failure is being served (the sibling %s, never asked before, was answered %s after %d packet(s) "+
			"reached the zone's servers): the CD=0 client's failure (first reply %s, ede %d) is applied to the CD value that never failed",
			o.Zone, vec, o.CDReply.Name, o.SibReply.Name, o.SibReply.Rcode, o.SibEpoch.Packets, o.Replies[0].Rcode, o.Replies[0].EDE)
	}
	if r := o.Replies[4]; r.Cached {
		add("OtherZone", "zone %s served by %s failed; %s %s in ANOTHER zone, never asked before and served by a healthy server, was answered SERVFAIL/EDE 13 from the failure cache",
			o.Zone, vec, r.Name, r.Type)
	}
}

// final is ZoneFail.tla's Final: what one server's script comes to under exchange's retry rules
// (once: the server is the exploration probe, one attempt only).
func final(sc []string, once bool) bool {
	i, r, e := 0, 0, true
	for guard := 0; guard < 8; guard++ {
		b := sc[min(i, len(sc)-1)]
		switch {
		case useful(b):
			return true
		case b == "servfail" || b == "refused" || b == "badref" || once:
			return false
		case b == "formerr":
			if !e {
				return false
			}
			e = false
		case r < 2:
			r++
		default:
			return false
		}
		i++
	}
	return false
}

// modelVerdicts: which verdicts the model allows for the vector, the probe being nobody or any one server
// (which address takes the second slot is the resolver's ranking, not the script's).
func modelVerdicts(script [][]string) (canFail, canAnswer bool) {
	for probe := -1; probe < len(script); probe++ {
		if probe >= 0 && len(script) < 2 {
			break
		}
		any := false
		for j, sc := range script {
			if final(sc, j == probe) {
				any = true
			}
		}
		if any {
			canAnswer = true
		} else {
			canFail = true
		}
	}
	return
}

// failureRcode: the client was not given a usable answer.
func failureRcode(rc int) bool { return rc != dns.RcodeSuccess && rc != dns.RcodeNameError }

func vecString(sc [][]string) string {
	var parts []string
	for _, s := range sc {
		parts = append(parts, strings.Join(s, ">"))
	}
	return "[" + strings.Join(parts, " | ") + "]"
}

func sig(sc [][]string) string {
	var parts []string
	for _, s := range sc {
		parts = append(parts, strings.Join(s, ">"))
	}
	sort.Strings(parts)
	return strings.Join(parts, "|")
}

// ------------------------------------------------------------------ driver

func runWorld(t *testing.T, in *zInput, res *vh.Result, cases []zCase, enabled bool) {
	if len(cases) == 0 {
		return
	}
	w, err := newWorld(in, enabled)
	if err != nil {
		res.Skip("world: %v", err)
		return
	}
	defer w.stop()
	// warm the path to test. and make sure the pipeline resolves at all
	warm := w.addZone("warm", [][]string{{"fast"}})
	warm.begin("a.warm.test.", dns.TypeA)
	if r := w.ask("a.warm.test.", dns.TypeA, false, "198.51.100.254"); !r.Got || r.rcode != dns.RcodeSuccess || r.Ans == 0 {
		res.Skip("the pipeline does not resolve an honest zone: %+v", r)
		return
	}
	kind := map[bool]string{true: "on", false: "off"}[enabled]
	var flagged []caseObs
	if !in.Confirm {
		pass := func(cs []zCase, par int) []caseObs {
			jobs := make(chan zCase)
			out := make(chan caseObs, len(cs))
			var wg sync.WaitGroup
			for i := 0; i < par; i++ {
				wg.Add(1)
				go func() {
					defer wg.Done()
					for c := range jobs {
						out <- w.runCase(c, "")
					}
				}()
			}
			for _, c := range cs {
				jobs <- c
			}
			close(jobs)
			wg.Wait()
			close(out)
			var all []caseObs
			for o := range out {
				all = append(all, o)
			}
			return all
		}
		first := pass(cases, max(1, in.Parallel))
		// a case whose scripted servers were starved by the machine says nothing: play it again, a few at a time
		var judged []caseObs
		var again []zCase
		for _, o := range first {
			if o.Infra == "" && o.Starved {
				again = append(again, o.Case)
				res.Count("cases_starved_replayed", 1)
				continue
			}
			judged = append(judged, o)
		}
		if len(again) > 0 {
			judged = append(judged, pass(again, 3)...)
		}
		for i := range judged {
			o := judged[i]
			dumpObs(&o, kind)
			account(res, &o, kind)
			if o.Infra == "" && !o.Starved && len(o.Flags) > 0 {
				flagged = append(flagged, o)
			}
		}
	} else {
		for _, c := range cases {
			flagged = append(flagged, caseObs{Case: c, Flags: []flag{{"-", "replay"}}})
		}
	}
	// a flagged case is re-run alone on fresh zones; only a reproduced predicate failure counts
	sort.Slice(flagged, func(i, j int) bool { return flagged[i].Case.ID < flagged[j].Case.ID })
	for i, f := range flagged {
		if i >= 12 {
			break
		}
		var again caseObs
		for try := 0; try < 3; try++ {
			again = w.runCase(f.Case, "r")
			if again.Infra == "" && !again.Starved {
				break
			}
		}
		res.Count("cases_rerun", 1)
		if again.Infra != "" || again.Starved {
			res.Skip("case %s: the confirmation run could not be judged (infra=%q starved=%v)", f.Case.ID, again.Infra, again.Starved)
			continue
		}
		if len(again.Flags) == 0 {
			res.DriftNote("case %s %s: %s was not reproduced when run alone", f.Case.ID, vecString(f.Case.Script), f.Flags[0].Pred)
			res.Count("flags_not_reproduced", 1)
			continue
		}
		for _, fl := range again.Flags {
			res.Violate("c13zone/"+fl.Pred+"/"+sig(f.Case.Script), fl.Pred+": "+fl.What,
				map[string]any{"driver": "TestZoneFailure", "rfc9520": enabled, "case": f.Case, "first": f, "confirmed": again,
					"params": map[string]int{"slowMs": in.SlowMs, "upTimeoutMs": in.UpTimeoutMs, "queryTimeoutMs": in.QueryTimeoutMs, "backoffS": in.BackoffS}})
		}
	}
}

var (
	dumpMu sync.Mutex
	dumpF  *os.File
)

// dumpObs appends the full observation of a case to $VERIF_SCRATCH/c13zone_obs.ndjson (evidence / debugging).
func dumpObs(o *caseObs, kind string) {
	dir := os.Getenv("VERIF_SCRATCH")
	if dir == "" {
		return
	}
	dumpMu.Lock()
	defer dumpMu.Unlock()
	if dumpF == nil {
		f, err := os.OpenFile(filepath.Join(dir, "c13zone_obs.ndjson"), os.O_CREATE|os.O_WRONLY|os.O_APPEND, 0o644)
		if err != nil {
			return
		}
		dumpF = f
	}
	b, _ := json.Marshal(map[string]any{"rfc9520": kind, "obs": o})
	dumpF.Write(append(b, '\n'))
}

// account folds one judged case into the counters / drift notes.
func account(res *vh.Result, o *caseObs, kind string) {
	res.Case(fmt.Sprintf("zone/%s/%s", kind, vecString(o.Case.Script)))
	res.Count("cases_"+kind, 1)
	if o.Infra != "" {
		res.Skip("case %s %s: %s", o.Case.ID, vecString(o.Case.Script), o.Infra)
		return
	}
	if o.Starved {
		res.Count("cases_starved_not_judged", 1)
		return
	}
	res.Count(fmt.Sprintf("n%d", len(o.Case.Script)), 1)
	for _, e := range o.Epochs {
		res.Count("upstream_packets", e.Packets)
		for _, pl := range e.Played {
			for _, b := range pl {
				res.Count("played_"+strings.SplitN(b, "/", 2)[0], 1)
				if strings.HasSuffix(b, "/tcp") {
					res.Count("played_over_tcp", 1)
				}
			}
			if len(pl) > 4 {
				res.DriftNote("case %s: a server was asked %d times within one request tree (model: at most 4): %v", o.Case.ID, len(pl), pl)
			}
		}
	}
	r1, e1 := o.Replies[0], o.Epochs[0]
	failed := failureRcode(r1.rcode)
	if e1.AllFailed {
		res.Count("q1_every_server_failed", 1)
		if !failed {
			res.DriftNote("case %s %s: every server failed, the client was answered %s", o.Case.ID, vecString(o.Case.Script), r1.Rcode)
		}
		if kind == "on" {
			if o.Replies[1].Cached && o.Epochs[1].Packets == 0 {
				res.Count("zone_failure_served", 1)
				if o.Replies[1].Born == "wire" {
					res.Count("zone_failure_served_wire", 1)
				}
			} else {
				res.Count("zone_failure_not_served", 1)
			}
			if o.Replies[2].Cached {
				res.Count("question_failure_served", 1)
			}
		}
	} else if e1.Packets > 0 {
		res.Count("q1_some_server_healthy", 1)
		if failed {
			res.Count("q1_failed_although_healthy", 1)
			res.DriftNote("case %s %s: server(s) %v healthy, yet the client was answered SERVFAIL (ede %d) after %d ms", o.Case.ID,
				vecString(o.Case.Script), e1.Healthy, r1.EDE, r1.Ms)
		}
	}
	if o.CDReply != nil {
		res.Count("cd_followups", 1)
		switch {
		case o.CDReply.Cached && o.CDEpoch.Packets == 0 && o.SibReply.Cached && o.SibEpoch.Packets == 0:
			res.Count("cd_zone_failure_covers_both", 1) // a zone failure is not partitioned by CD
		case o.CDEpoch.Packets > 0 && o.Replies[2].Cached && o.Epochs[2].Packets == 0:
			res.Count("cd_partition_seen", 1) // the CD=0 question failure was served to CD=0 and not to CD=1
		}
	}
	if canFail, canAnswer := modelVerdicts(o.Case.Script); (failed && !canFail) || (!failed && !canAnswer) {
		res.DriftNote("case %s %s: ZoneFail.tla allows failure=%v answer=%v (any placement of the exploration probe), client reply %s",
			o.Case.ID, vecString(o.Case.Script), canFail, canAnswer, r1.Rcode)
		res.Count("verdict_not_in_model", 1)
	}
	for i, r := range o.Replies {
		if r.Cached && i < len(o.Epochs) && o.Epochs[i].Packets > 0 {
			res.DriftNote("case %s: %s %s answered SERVFAIL/EDE 13 while %d packet(s) for it reached the zone's servers", o.Case.ID, r.Name, r.Type, o.Epochs[i].Packets)
		}
	}
	if len(o.Flags) > 0 {
		res.Count("cases_flagged", 1)
	}
	if len(res.Samples) < 3 && (len(o.Flags) > 0 || e1.AllFailed) {
		res.Sample(o)
	}
}

func TestZoneFailure(t *testing.T) {
	var in zInput
	vh.Input(t, &in)
	res := vh.NewResult()
	defer res.Write(t)
	if in.SlowMs == 0 || in.UpTimeoutMs < 3*in.SlowMs || in.QueryTimeoutMs < 4*in.UpTimeoutMs {
		res.Skip("timing parameters leave no margin: slow=%d up=%d query=%d", in.SlowMs, in.UpTimeoutMs, in.QueryTimeoutMs)
		return
	}
	runWorld(t, &in, res, in.Cases, true)
	runWorld(t, &in, res, in.KillCases, false)
}
