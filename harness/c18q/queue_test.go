package c18q

// Gated schedule replay (spec -> code) and trace recording (code -> spec) for
// BlQueue.tla: the wait queue of b.saveMu in BlockList.persist.
//
// Unlike harness/c18 (which lets a writer leave the PersistEnter gate only
// while saveMu is free), writers here are released INTO a held lock and really
// block inside b.saveMu.Lock(); several can wait at once, and when the holder
// unlocks, the Go runtime -- not the driver -- decides who is next.
//
// How the driver knows where a goroutine is (no sleeping):
//   - at a verifGate point: the hook reports (point, snapshot version) and
//     blocks; the writer is identified by the VERSION of the snapshot it
//     carries (learnt at the PersistEnter gate), never by "the writer I
//     released last", because a queued writer moves on its own;
//   - inside saveMu.Lock(): the goroutine dump (runtime.Stack, all goroutines)
//     shows the writer's goroutine in wait state "sync.Mutex.Lock" with
//     (*Mutex).Lock called from (*BlockList).persist.  That is the runtime's own
//     record of the block, so "parked on the mutex" is observed, not guessed;
//   - returned: the goroutine that made the API call says so.
// After every release the driver waits until EVERY writer is in one of these
// three places (settle) and only then reads memory and the directory.
//
// A schedule is a behaviour of BlQueue.tla's GSpec (the schedules a gated
// driver can force).  Labels:  Mutate/Noop/Queue/QueueAcquire/WriteHeader/
// WriteLine/Sync/Close/Rename/Unlock/SkipReturn(p) = "writer p takes its next
// step"; Acquire(p) is never forced: it is what the code did after the holder
// unlocked.  If the code picked another waiter than TLC, the schedule goes on
// with whoever is able to step (re-synchronisation, counted, not drift).
//
// Predicates judged on the real directory / memory (C18, second sentence):
//   DiskIsASnapshot  after every step `local` is absent or lists exactly the
//                    entries of one complete snapshot (never a partial file)
//   Converged        every call returned => no temp file, `local` lists
//                    exactly memory, and a fresh BlockList loading the
//                    directory answers every name of the universe as memory
//   NewestWins       every call returned => `local` is the LAST snapshot
//   CrashLeavesSnapshot  at a Crash label: a fresh BlockList loading the
//                    copied `local` answers as the snapshot it lists
// The steps are also written as NDJSON for Trace_BlQueue.tla.

import (
	"bufio"
	"encoding/json"
	"fmt"
	"os"
	"path/filepath"
	"regexp"
	"runtime"
	"sort"
	"strconv"
	"strings"
	"sync"
	"testing"
	"time"

	"github.com/semihalev/sdns/config"
	"github.com/semihalev/sdns/middleware/blocklist"
	"github.com/semihalev/sdns/verifharness/vh"
	"github.com/semihalev/zlog/v2"
)

func init() { zlog.SetLevel(zlog.LevelError) }

const (
	gEnter = iota + 1
	gSkipped
	gTempCreated
	gWroteHeader
	gWroteLine
	gSynced
	gClosed
	gRenamed
)

var gatePC = map[int]string{gEnter: "snapped", gSkipped: "skipping", gTempCreated: "tmp", gWroteHeader: "hdr",
	gWroteLine: "hdr", gSynced: "synced", gClosed: "closed", gRenamed: "renamed"}

const (
	stIdle    = iota // no call in progress
	stRunning        // released / started, not yet seen anywhere
	stGate           // blocked in the gate hook at w.at
	stQueued         // blocked inside saveMu.Lock() under persist (goroutine dump)
)

type qEntry struct {
	K string   `json:"k"`
	N []string `json:"n"`
}

type qOp struct {
	Op   string   `json:"op"`
	Keys []string `json:"keys"` // entry ids
}

type qJob struct {
	Model     string           `json:"model"` // configuration of MC_Queue.tla (Q2, Q3, Q3b)
	InitMem   []string         `json:"initMem"`
	Prog      map[string][]qOp `json:"prog"`
	Schedules [][]string       `json:"schedules"`
	TraceOut  string           `json:"traceOut"`
}

type qInput struct {
	Entries  map[string]qEntry `json:"entries"`
	WL       [][]string        `json:"wl"`
	Shape    map[string]string `json:"shape"`
	Universe [][]string        `json:"universe"`
	Jobs     []qJob            `json:"jobs"`
	BudgetS  float64           `json:"budgetS"` // soft wall budget for all jobs (0 = none); schedules beyond it are counted as cut
}

type qArrival struct {
	w     int
	point int
	ver   uint64
	ret   bool
}

type qWriter struct {
	id      int
	opi     int // next op index
	status  int
	at      int
	snapVer uint64
	goid    string
	release chan struct{}
}

type fileObs struct {
	Ex    bool     `json:"ex"`
	Hdr   bool     `json:"hdr"`
	Lines []string `json:"lines"` // entry ids (unknown text: "?text")
	raw   []string // canonical strings
}

type qRun struct {
	t        *testing.T
	in       *qInput
	job      *qJob
	res      *vh.Result
	dir      string
	bl       *blocklist.BlockList
	born     time.Time
	wl       []string
	arrive   chan qArrival
	writers  map[int]*qWriter
	nw       int
	mu       sync.Mutex          // owner / starting (read by the gate hook on writer goroutines)
	owner    map[uint64]*qWriter // snapshot version -> the writer that carries it
	starting *qWriter            // the one writer between the start of its call and the PersistEnter gate
	events   []map[string]any
	hist     []string
	snaps    map[uint64][]string // version -> canonical entries in memory at the snapshot
	localVer uint64
	lastLoc  string
	strOf    map[string]string // entry id -> canonical string
	idOf     map[string]string
	seq      int
	universe []string
	tainted  bool
	verdicts int
	maxWait  int   // most writers seen inside saveMu.Lock() at once in this schedule
	waitQ    []int // the waiting writers in the order they were seen to block (observation only)
}

var labelRe = regexp.MustCompile(`^(\w+)(?:\((\d+))?`)

func (r *qRun) concrete(n []string) string {
	parts := make([]string, len(n))
	for i, l := range n {
		parts[i] = r.in.Shape[l]
	}
	if len(parts) == 0 {
		return "."
	}
	return strings.Join(parts, ".") + "."
}

func newBlockList(dir string, whitelist []string) *blocklist.BlockList {
	cfg := new(config.Config)
	cfg.Nullroute = "192.0.2.66"
	cfg.Nullroutev6 = "2001:db8::66"
	cfg.BlockListDir = dir
	cfg.Whitelist = whitelist
	return blocklist.New(cfg)
}

// ---- where is every goroutine ------------------------------------------------

// the gate hook: runs on the writer's goroutine
func (r *qRun) gate(point int, ver uint64) {
	r.mu.Lock()
	var w *qWriter
	if point == gEnter {
		if w = r.starting; w != nil {
			r.owner[ver] = w
		}
	} else {
		w = r.owner[ver]
	}
	r.mu.Unlock()
	if w == nil {
		return // not a writer of this schedule
	}
	r.arrive <- qArrival{w: w.id, point: point, ver: ver}
	<-w.release
}

var goroutineHdr = regexp.MustCompile(`^goroutine (\d+) \[([^\]]*)\]:`)

func goid() string {
	var buf [64]byte
	n := runtime.Stack(buf[:], false)
	if m := goroutineHdr.FindSubmatch(buf[:n]); m != nil {
		return string(m[1])
	}
	// the header may be cut before "]:" in 64 bytes
	f := strings.Fields(string(buf[:n]))
	if len(f) >= 2 {
		return f[1]
	}
	return ""
}

// parkedOnSaveMu returns the ids of the goroutines that the runtime reports as
// blocked in a sync.Mutex Lock called directly from (*BlockList).persist.
var dumpBuf = make([]byte, 64<<10) // only the driver goroutine takes dumps

func parkedOnSaveMu() map[string]bool {
	var buf []byte
	for {
		n := runtime.Stack(dumpBuf, true)
		if n < len(dumpBuf) {
			buf = dumpBuf[:n]
			break
		}
		dumpBuf = make([]byte, 2*len(dumpBuf))
	}
	out := map[string]bool{}
	for _, blk := range strings.Split(string(buf), "\n\n") {
		m := goroutineHdr.FindStringSubmatch(blk)
		if m == nil {
			continue
		}
		state := m[2]
		if !strings.HasPrefix(state, "sync.Mutex.Lock") && !strings.HasPrefix(state, "semacquire") {
			continue
		}
		// function lines of the stack, innermost first (file lines start with a tab)
		var fns []string
		for _, ln := range strings.Split(blk, "\n")[1:] {
			if ln != "" && !strings.HasPrefix(ln, "\t") {
				fns = append(fns, ln)
			}
		}
		for i, fn := range fns {
			if strings.Contains(fn, "blocklist.(*BlockList).persist(") {
				if i > 0 && strings.Contains(fns[i-1], "(*Mutex).Lock") {
					out[m[1]] = true
				}
				break
			}
		}
	}
	return out
}

func (r *qRun) apply(a qArrival) {
	w := r.writers[a.w]
	if a.ret {
		w.status = stIdle
		w.at = 0
		return
	}
	w.status = stGate
	w.at = a.point
	if a.point == gEnter {
		w.snapVer = a.ver
	}
}

// settle waits until every writer is at a gate, inside saveMu.Lock(), or idle.
func (r *qRun) settle() error {
	deadline := time.Now().Add(15 * time.Second)
	poll := 50 * time.Microsecond
	for {
		running := 0
		for _, w := range r.writers {
			if w.status == stRunning {
				running++
			}
		}
		if running == 0 {
			// a writer believed to wait may have been handed the lock
			queued := 0
			for _, w := range r.writers {
				if w.status == stQueued {
					queued++
				}
			}
			if queued == 0 {
				return nil
			}
			parked := parkedOnSaveMu()
			woke := false
			for _, w := range r.writers {
				if w.status == stQueued && !parked[w.goid] {
					w.status = stRunning
					woke = true
				}
			}
			if !woke {
				return nil
			}
			continue
		}
		select {
		case a := <-r.arrive:
			r.apply(a)
		case <-time.After(poll):
			if poll < 2*time.Millisecond {
				poll *= 2
			}
			parked := parkedOnSaveMu()
			for _, w := range r.writers {
				if w.status == stRunning && w.goid != "" && parked[w.goid] {
					w.status = stQueued
				}
			}
		}
		if time.Now().After(deadline) {
			var where []string
			for p := 1; p <= r.nw; p++ {
				w := r.writers[p]
				where = append(where, fmt.Sprintf("writer %d status %d at %d", p, w.status, w.at))
			}
			return fmt.Errorf("goroutines did not settle: %v", where)
		}
	}
}

// ---- observation -----------------------------------------------------------

func setKey(ss []string) string { return strings.Join(ss, ",") }

func (r *qRun) ids(ss []string) []string {
	out := make([]string, 0, len(ss))
	for _, s := range ss {
		if id, ok := r.idOf[s]; ok {
			out = append(out, id)
		} else {
			out = append(out, "?"+s)
		}
	}
	sort.Strings(out)
	return out
}

func memEntries(bl *blocklist.BlockList) []string {
	m, wild, _ := bl.VerifLists()
	out := append([]string{}, m...)
	for _, s := range wild {
		out = append(out, "*."+s)
	}
	sort.Strings(out)
	return out
}

func readListFile(path string) (fileObs, error) {
	data, err := os.ReadFile(path)
	if os.IsNotExist(err) {
		return fileObs{}, nil
	}
	if err != nil {
		return fileObs{}, err
	}
	o := fileObs{Ex: true}
	sc := bufio.NewScanner(strings.NewReader(string(data)))
	for sc.Scan() {
		line := sc.Text()
		if strings.HasPrefix(line, "#") {
			o.Hdr = true
			continue
		}
		if strings.TrimSpace(line) == "" {
			continue
		}
		o.raw = append(o.raw, line)
	}
	if len(data) > 0 && data[len(data)-1] != '\n' && len(o.raw) > 0 {
		o.raw[len(o.raw)-1] += "<unterminated>" // a partial write
	}
	sort.Strings(o.raw)
	return o, nil
}

type observation struct {
	mem        []string
	local, tmp fileObs
	ver, lp    uint64
	free       bool
}

func (r *qRun) observe() (o observation, err error) {
	o.mem = memEntries(r.bl)
	if o.local, err = readListFile(filepath.Join(r.dir, "local")); err != nil {
		return
	}
	o.local.Lines = r.ids(o.local.raw)
	tmps, _ := filepath.Glob(filepath.Join(r.dir, "local.tmp.*"))
	if len(tmps) > 1 {
		r.res.DriftNote("%d temp files at once under schedule %v", len(tmps), r.hist)
	}
	if len(tmps) >= 1 {
		if o.tmp, err = readListFile(tmps[0]); err != nil {
			return
		}
	}
	o.tmp.Lines = r.ids(o.tmp.raw)
	o.ver, o.lp = r.bl.VerifVersions()
	o.free = r.bl.VerifSaveMuFree()
	return
}

type proj struct {
	pcs  []string
	opis []int
	hold int
}

func (r *qRun) project(lockFree bool) proj {
	pj := proj{pcs: make([]string, r.nw), opis: make([]int, r.nw)}
	inside, skipper := 0, 0
	waiting := 0
	for p := 1; p <= r.nw; p++ {
		w := r.writers[p]
		prog := r.job.Prog[strconv.Itoa(p)]
		switch w.status {
		case stGate:
			pj.pcs[p-1] = gatePC[w.at]
			pj.opis[p-1] = w.opi
			if w.at >= gTempCreated {
				if inside != 0 {
					r.res.DriftNote("writers %d and %d are both between Lock and Unlock of saveMu under schedule %v", inside, p, r.hist)
				}
				inside = p
			} else if w.at == gSkipped {
				skipper = p
			}
		case stQueued:
			pj.pcs[p-1] = "queued"
			pj.opis[p-1] = w.opi
			waiting++
		case stRunning:
			pj.pcs[p-1] = "running"
			pj.opis[p-1] = w.opi
		default:
			if w.opi >= len(prog) {
				pj.pcs[p-1] = "done"
				pj.opis[p-1] = len(prog)
				if len(prog) == 0 {
					pj.opis[p-1] = 1
				}
			} else {
				pj.pcs[p-1] = "idle"
				pj.opis[p-1] = w.opi + 1
			}
		}
	}
	if waiting > r.maxWait {
		r.maxWait = waiting
	}
	// who holds saveMu: the writer between TempCreated and Renamed, else the one at
	// the Skipped gate -- provided the lock really is held (TryLock by the shim)
	if !lockFree {
		pj.hold = inside
		if pj.hold == 0 {
			pj.hold = skipper
		}
	}
	return pj
}

func (r *qRun) violate(pred, what string, extra map[string]any) {
	if time.Since(r.born) > 850*time.Millisecond {
		// New()'s background refresh (1 s after construction) may have touched the
		// directory behind the schedule: not a verdict, run it again
		r.tainted = true
		return
	}
	rep := map[string]any{"driver": "queue", "model": r.job.Model, "schedule": r.hist, "prog": r.job.Prog,
		"initMem": r.job.InitMem, "shape": r.in.Shape, "events": r.events}
	for k, v := range extra {
		rep[k] = v
	}
	r.verdicts++
	r.res.Violate("queue/"+r.job.Model+"/"+pred, fmt.Sprintf("BlockList %s under schedule %v: %s", pred, r.hist, what), rep)
}

func (r *qRun) initStrings() []string {
	out := []string{}
	for _, id := range r.job.InitMem {
		out = append(out, r.strOf[id])
	}
	sort.Strings(out)
	return out
}

func (r *qRun) snapList() map[string][]string {
	out := map[string][]string{"initial": r.initStrings()}
	for v, s := range r.snaps {
		out[fmt.Sprint(v)] = s
	}
	return out
}

func (r *qRun) line(ev string, p int, g int, ver uint64, o observation, pj proj) map[string]any {
	return map[string]any{"ev": ev, "p": p, "g": g, "ver": ver, "mem": r.ids(o.mem), "local": o.local, "tmp": o.tmp,
		"version": o.ver, "lp": o.lp, "hold": pj.hold, "pc": pj.pcs, "opi": pj.opis}
}

// record what one release did: the step of writer p (0 = none, a crash point),
// then the Acquire of every waiter the code handed the lock to meanwhile;
// evaluate the per-state predicates on the real directory.
func (r *qRun) record(ev string, p int, before proj) error {
	o, err := r.observe()
	if err != nil {
		return err
	}
	pj := r.project(o.free)
	var autos []int
	for q := 1; q <= r.nw; q++ {
		if q != p && before.pcs[q-1] != pj.pcs[q-1] {
			autos = append(autos, q)
		}
	}
	// who had waited longest?  (sync.Mutex promises no order; this is only reported)
	for _, q := range autos {
		if len(r.waitQ) > 1 && before.pcs[q-1] == "queued" {
			if r.waitQ[0] == q {
				r.res.Count("handoff_to_longest_waiting", 1)
			} else {
				r.res.Count("handoff_not_to_longest_waiting", 1)
			}
		}
	}
	keep := r.waitQ[:0]
	for _, q := range r.waitQ {
		if r.writers[q].status == stQueued {
			keep = append(keep, q)
		}
	}
	r.waitQ = keep
	if w := r.writers[p]; w != nil && w.status == stQueued && !containsInt(r.waitQ, p) {
		r.waitQ = append(r.waitQ, p)
	}
	g, ver := 0, uint64(0)
	if w := r.writers[p]; w != nil {
		if w.status == stGate {
			g = w.at
		}
		ver = w.snapVer
		if g == gEnter {
			r.snaps[ver] = o.mem
		}
	}
	if len(autos) == 0 {
		r.events = append(r.events, r.line(ev, p, g, ver, o, pj))
	} else {
		// the release first: the observed state with the winners' Acquire taken back
		syn := proj{pcs: append([]string{}, pj.pcs...), opis: pj.opis, hold: pj.hold}
		so := o
		for _, q := range autos {
			syn.pcs[q-1] = before.pcs[q-1]
			if syn.hold == q {
				syn.hold = 0
			}
			if r.writers[q].status == stGate && r.writers[q].at == gTempCreated {
				so.tmp = fileObs{Lines: []string{}}
			}
		}
		e := r.line(ev, p, g, ver, so, syn)
		e["syn"] = 1
		r.events = append(r.events, e)
		for i, q := range autos {
			wq := r.writers[q]
			gq := 0
			if wq.status == stGate {
				gq = wq.at
			}
			if i == len(autos)-1 {
				e := r.line("step", q, gq, wq.snapVer, o, pj)
				e["auto"] = 1
				r.events = append(r.events, e)
			} else {
				part := proj{pcs: append([]string{}, syn.pcs...), opis: pj.opis, hold: syn.hold}
				part.pcs[q-1] = pj.pcs[q-1]
				syn = part
				e := r.line("step", q, gq, wq.snapVer, so, part)
				e["auto"] = 1
				r.events = append(r.events, e)
			}
			r.hist = append(r.hist, fmt.Sprintf("Acquire(%d)", q))
			r.res.Count("handoffs", 1)
		}
		if len(autos) > 1 {
			r.res.DriftNote("%d waiting writers moved on after one release (%v) under schedule %v", len(autos), autos, r.hist)
		}
	}
	// DiskIsASnapshot
	if o.local.Ex {
		ok := setKey(o.local.raw) == setKey(r.initStrings())
		for _, s := range r.snaps {
			if setKey(s) == setKey(o.local.raw) {
				ok = true
			}
		}
		if !ok {
			r.violate("DiskIsASnapshot", fmt.Sprintf("the file `local` holds %v, which is not the entry set of any complete snapshot taken so far (%v)",
				o.local.raw, r.snapList()), nil)
			return nil
		}
	}
	// a rename that replaces a newer snapshot by an older one: the statement only
	// speaks about the end state (Converged / NewestWins decide); noted as drift
	cur := "absent"
	if o.local.Ex {
		cur = setKey(o.local.raw)
	}
	if w := r.writers[p]; w != nil && (cur != r.lastLoc || g == gRenamed) {
		if w.snapVer < r.localVer && setKey(r.snaps[w.snapVer]) != setKey(r.snaps[r.localVer]) {
			r.res.DriftNote("snapshot version %d (%v) replaced the newer version %d on disk under schedule %v",
				w.snapVer, r.snaps[w.snapVer], r.localVer, r.hist)
		}
		r.localVer = w.snapVer
	}
	r.lastLoc = cur
	return nil
}

// ---- stepping --------------------------------------------------------------

func (r *qRun) call(op qOp) {
	keys := make([]string, len(op.Keys))
	for i, id := range op.Keys {
		keys[i] = r.strOf[id]
	}
	switch op.Op {
	case "Set":
		r.bl.Set(keys[0])
	case "Remove":
		r.bl.Remove(keys[0])
	case "SetBatch":
		r.bl.SetBatch(keys)
	case "RemoveBatch":
		r.bl.RemoveBatch(keys)
	default:
		panic("unknown op " + op.Op)
	}
}

func (r *qRun) canStep(p int) bool {
	w := r.writers[p]
	if w == nil {
		return false
	}
	switch w.status {
	case stIdle:
		return w.opi < len(r.job.Prog[strconv.Itoa(p)])
	case stGate:
		return true
	}
	return false // waiting inside Lock(): only the holder's Unlock moves it
}

// writer p takes its next step
func (r *qRun) stepWriter(p int) (bool, error) {
	if !r.canStep(p) {
		return false, nil
	}
	w := r.writers[p]
	free := r.bl.VerifSaveMuFree()
	before := r.project(free)
	if w.status == stIdle {
		op := r.job.Prog[strconv.Itoa(p)][w.opi]
		w.opi++
		w.status = stRunning
		w.at = 0
		w.goid = ""
		r.mu.Lock()
		r.starting = w
		r.mu.Unlock()
		started := make(chan string)
		go func() {
			started <- goid()
			r.call(op)
			r.arrive <- qArrival{w: p, ret: true}
		}()
		w.goid = <-started
	} else {
		if w.at == gEnter {
			// name the step in the history by what it is, whatever TLC's label said
			kind := "Queue"
			if free {
				kind = "QueueAcquire"
				r.res.Count("released_into_free_lock", 1)
			} else {
				r.res.Count("released_into_held_lock", 1)
			}
			if n := len(r.hist); n > 0 && !strings.HasPrefix(r.hist[n-1], "drain(") {
				r.hist[n-1] = fmt.Sprintf("%s(%d)", kind, p)
			}
		}
		w.status = stRunning
		w.release <- struct{}{}
	}
	if err := r.settle(); err != nil {
		return false, err
	}
	r.mu.Lock()
	r.starting = nil
	r.mu.Unlock()
	return true, r.record("step", p, before)
}

// ---- reference matcher (the statement; harness/c18 checks it against TLC's table) ----

func refBlocked(entries []string, wl []string, name string) bool {
	m, wild, w := map[string]bool{}, map[string]bool{}, map[string]bool{}
	for _, e := range entries {
		if strings.HasPrefix(e, "*.") {
			wild[e[2:]] = true
		} else {
			m[e] = true
		}
	}
	for _, e := range wl {
		w[e] = true
	}
	labels := strings.Split(strings.TrimSuffix(name, "."), ".")
	if name == "." {
		labels = nil
	}
	hit := false
	for i := 0; i <= len(labels); i++ {
		suf := strings.Join(labels[i:], ".") + "."
		if i == len(labels) {
			suf = "."
		}
		if w[suf] {
			return false
		}
		if m[suf] || (i > 0 && wild[suf]) {
			hit = true
		}
	}
	return hit
}

func copyDir(src, dst string, only string) error {
	if err := os.MkdirAll(dst, 0o750); err != nil {
		return err
	}
	ents, err := os.ReadDir(src)
	if err != nil {
		return err
	}
	for _, e := range ents {
		if only != "" && e.Name() != only {
			continue
		}
		b, err := os.ReadFile(filepath.Join(src, e.Name()))
		if err != nil {
			return err
		}
		if err := os.WriteFile(filepath.Join(dst, e.Name()), b, 0o640); err != nil {
			return err
		}
	}
	return nil
}

func containsInt(xs []int, x int) bool {
	for _, y := range xs {
		if y == x {
			return true
		}
	}
	return false
}

func contains(ss []string, s string) bool {
	for _, x := range ss {
		if x == s {
			return true
		}
	}
	return false
}

// an interruption: `local` as it is right now (writers may be waiting on the
// lock, one may be mid-write), loaded by a fresh BlockList
func (r *qRun) crash() error {
	o, err := r.observe()
	if err != nil {
		return err
	}
	if err := r.record("crash", 0, r.project(o.free)); err != nil {
		return err
	}
	r.res.Count("crashes", 1)
	local, err := readListFile(filepath.Join(r.dir, "local"))
	if err != nil {
		return err
	}
	r.seq++
	cp := filepath.Join(r.dir+"-crash", fmt.Sprint(r.seq))
	if err := copyDir(r.dir, cp, "local"); err != nil {
		return err
	}
	fresh := newBlockList(cp, r.wl)
	for _, n := range r.universe {
		want := refBlocked(local.raw, r.wl, n)
		if got := fresh.Exists(n); got != want {
			r.violate("CrashLeavesSnapshot", fmt.Sprintf("after an interruption a restart loading `local` (%v) answers Exists(%q) = %v, the snapshot it holds says %v",
				local.raw, n, got, want), map[string]any{"local": local.raw})
			return nil
		}
	}
	for _, e := range memEntries(fresh) {
		if !contains(local.raw, e) {
			r.violate("CrashLeavesSnapshot", fmt.Sprintf("a restart loading `local` (%v) holds the entry %q that the file does not list", local.raw, e), nil)
			return nil
		}
	}
	return nil
}

// every call has returned
func (r *qRun) converged() error {
	o, err := r.observe()
	if err != nil {
		return err
	}
	mem, local := o.mem, o.local
	if o.tmp.Ex {
		r.violate("Converged", fmt.Sprintf("every call returned but a temp file is left behind: %v", o.tmp.raw), nil)
		return nil
	}
	if o.ver > 0 && !local.Ex {
		r.violate("Converged", fmt.Sprintf("%d snapshots were taken and every call returned, but there is no file `local`", o.ver), nil)
		return nil
	}
	if setKey(local.raw) != setKey(mem) {
		r.violate("Converged", fmt.Sprintf("every call returned: `local` lists %v (snapshot version %d, lastPersisted = %d), memory holds %v (version %d)",
			local.raw, r.localVer, o.lp, mem, o.ver), map[string]any{"local": local.raw, "mem": mem})
		return nil
	}
	if o.ver > 0 && setKey(local.raw) != setKey(r.snaps[o.ver]) {
		r.violate("NewestWins", fmt.Sprintf("every call returned: last snapshot is version %d = %v, lastPersisted = %d, `local` lists %v",
			o.ver, r.snaps[o.ver], o.lp, local.raw), nil)
		return nil
	}
	r.seq++
	cp := filepath.Join(r.dir+"-reload", fmt.Sprint(r.seq))
	if err := copyDir(r.dir, cp, ""); err != nil {
		return err
	}
	fresh := newBlockList(cp, r.wl)
	for _, n := range r.universe {
		got, want := fresh.Exists(n), r.bl.Exists(n)
		if got != want || want != refBlocked(mem, r.wl, n) {
			r.violate("Converged", fmt.Sprintf("every call returned: the reloaded list answers Exists(%q) = %v, memory %v, the statement %v (memory %v, `local` %v)",
				n, got, want, refBlocked(mem, r.wl, n), mem, local.raw), nil)
			return nil
		}
	}
	fm := memEntries(fresh)
	for _, e := range fm {
		if !contains(mem, e) {
			r.violate("Converged", fmt.Sprintf("the reloaded list holds %q which memory (%v) does not", e, mem), nil)
			return nil
		}
	}
	for _, e := range mem {
		if !contains(fm, e) {
			// dropped by the loader: must be covered by what was kept (DESIGN 9)
			if !fresh.Exists(e) {
				r.violate("Converged", fmt.Sprintf("the reloaded list dropped %q although nothing it kept (%v) covers it", e, fm), nil)
				return nil
			}
			r.res.Count("reload_dropped_subsumed", 1)
		}
	}
	return nil
}

var errTainted = fmt.Errorf("schedule outlived the 1 s refresh timer of New()")

func (r *qRun) runSchedule(sched []string) error {
	r.seq++
	r.dir = filepath.Join(vh.Scratch(r.t), "c18q", fmt.Sprintf("%d-%d", os.Getpid(), r.seq))
	if err := os.MkdirAll(r.dir, 0o750); err != nil {
		return err
	}
	r.snaps = map[uint64][]string{}
	r.owner = map[uint64]*qWriter{}
	r.localVer = 0
	r.lastLoc = "absent"
	r.events = nil
	r.hist = nil
	r.maxWait = 0
	r.waitQ = nil
	if len(r.job.InitMem) > 0 {
		var sb strings.Builder
		sb.WriteString("# The file generated by auto. DO NOT EDIT\n")
		for _, s := range r.initStrings() {
			sb.WriteString(s + "\n")
		}
		if err := os.WriteFile(filepath.Join(r.dir, "local"), []byte(sb.String()), 0o640); err != nil {
			return err
		}
		r.lastLoc = setKey(r.initStrings())
	}
	r.starting = nil
	r.bl = newBlockList(r.dir, r.wl)
	r.born = time.Now()
	r.writers = map[int]*qWriter{}
	for p := 1; p <= r.nw; p++ {
		r.writers[p] = &qWriter{id: p, release: make(chan struct{})}
	}
	r.events = append(r.events, map[string]any{"ev": "Reset"})
	r.tainted = false
	r.verdicts = 0
	for _, lab := range sched {
		m := labelRe.FindStringSubmatch(lab)
		if m == nil {
			return fmt.Errorf("bad label %q", lab)
		}
		if m[1] == "Crash" {
			r.hist = append(r.hist, "Crash")
			if err := r.crash(); err != nil {
				return err
			}
			break
		}
		p, _ := strconv.Atoi(m[2])
		if m[1] == "Acquire" {
			// never forced.  Either the code already handed the lock to p (recorded
			// then), or it chose another waiter / p is not waiting: go on
			if w := r.writers[p]; w != nil && w.status == stQueued {
				r.res.Count("handoff_to_another_waiter", 1)
			}
			continue
		}
		// the step is part of the history before it runs: a predicate that
		// fails during it must name it
		r.hist = append(r.hist, fmt.Sprintf("%s(%d)", m[1], p))
		ok, err := r.stepWriter(p)
		if err != nil {
			return err
		}
		if !ok {
			r.hist = r.hist[:len(r.hist)-1]
			r.res.Count("steps_not_enabled", 1)
			continue
		}
		r.res.Count("steps", 1)
		if r.verdicts > 0 || r.tainted {
			break
		}
	}
	// drain: let every call return (a Crash was evaluated on a copy of the directory)
	for guard := 0; guard < 100000; guard++ {
		progress := false
		for p := 1; p <= r.nw; p++ {
			if !r.canStep(p) {
				continue
			}
			r.hist = append(r.hist, fmt.Sprintf("drain(%d)", p))
			ok, err := r.stepWriter(p)
			if err != nil {
				return err
			}
			if ok {
				progress = true
			} else {
				r.hist = r.hist[:len(r.hist)-1]
			}
		}
		if !progress {
			break
		}
	}
	for _, w := range r.writers {
		if w.status != stIdle {
			return fmt.Errorf("writer %d never returned (status %d at gate %d)", w.id, w.status, w.at)
		}
	}
	r.res.Count(fmt.Sprintf("schedules_with_%d_waiting", r.maxWait), 1)
	if r.tainted || time.Since(r.born) > 850*time.Millisecond {
		return errTainted
	}
	if r.verdicts > 0 {
		return nil
	}
	if err := r.converged(); err != nil {
		return err
	}
	if r.tainted {
		return errTainted
	}
	return nil
}

func TestQueueSchedules(t *testing.T) {
	var in qInput
	vh.Input(t, &in)
	res := vh.NewResult()
	defer res.Write(t)
	start := time.Now()
	r := &qRun{t: t, in: &in, res: res, arrive: make(chan qArrival), strOf: map[string]string{}, idOf: map[string]string{}}
	for id, e := range in.Entries {
		s := r.concrete(e.N)
		if e.K == "w" {
			s = "*." + s
		}
		r.strOf[id] = s
		r.idOf[s] = id
	}
	for _, n := range in.WL {
		r.wl = append(r.wl, r.concrete(n))
	}
	for _, n := range in.Universe {
		r.universe = append(r.universe, r.concrete(n))
	}
	blocklist.SetVerifGate(r.gate)
	defer blocklist.SetVerifGate(nil)

	// the goroutine dump must show a writer blocked in saveMu.Lock(): if this toolchain
	// prints it differently, nothing below means anything (machinery fault, not a verdict)
	if err := r.selfTestDump(); err != nil {
		res.Skip("goroutine dump self-test: %v", err)
		return
	}

	total, upTo := 0, make([]int, len(in.Jobs))
	for ji := range in.Jobs {
		total += len(in.Jobs[ji].Schedules)
		upTo[ji] = total
	}
	for ji := range in.Jobs {
		r.job = &in.Jobs[ji]
		r.nw = len(r.job.Prog)
		var out *os.File
		if r.job.TraceOut != "" {
			var err error
			out, err = os.Create(filepath.Clean(r.job.TraceOut))
			if err != nil {
				t.Fatal(err)
			}
		}
		for si, sched := range r.job.Schedules {
			// the soft budget is shared in proportion to the number of schedules
			if in.BudgetS > 0 && time.Since(start).Seconds() > in.BudgetS*float64(upTo[ji])/float64(total) {
				res.Count("schedules_cut_by_budget", len(r.job.Schedules)-si)
				break
			}
			var err error
			for attempt := 0; attempt < 5; attempt++ {
				if err = r.runSchedule(sched); err != errTainted {
					break
				}
				res.Count("tainted_retries", 1)
			}
			if err != nil {
				res.Skip("%s schedule %d: %v", r.job.Model, si, err)
				break
			}
			res.Case(r.job.Model + ":" + strings.Join(r.hist, ";"))
			res.Count("schedules_"+r.job.Model, 1)
			if si < 1 {
				res.Sample(map[string]any{"model": r.job.Model, "schedule": r.hist})
			}
			if out != nil {
				for _, e := range r.events {
					b, _ := json.Marshal(e)
					out.Write(append(b, '\n'))
				}
			}
			res.Count("events", len(r.events))
			if res.NViolations() >= 10 {
				break
			}
		}
		if out != nil {
			out.Close()
		}
	}
}

// selfTestDump: two goroutines contend for a real BlockList's saveMu through
// persist; the second must show up in parkedOnSaveMu().
func (r *qRun) selfTestDump() error {
	r.job = &qJob{Model: "selftest", Prog: map[string][]qOp{"1": {{Op: "Set", Keys: []string{"E1"}}}, "2": {{Op: "Set", Keys: []string{"E4"}}}}}
	r.nw = 2
	r.seq++
	r.dir = filepath.Join(vh.Scratch(r.t), "c18q", fmt.Sprintf("%d-selftest", os.Getpid()))
	if err := os.MkdirAll(r.dir, 0o750); err != nil {
		return err
	}
	r.snaps = map[uint64][]string{}
	r.owner = map[uint64]*qWriter{}
	r.lastLoc = "absent"
	r.bl = newBlockList(r.dir, r.wl)
	r.born = time.Now()
	r.writers = map[int]*qWriter{1: {id: 1, release: make(chan struct{})}, 2: {id: 2, release: make(chan struct{})}}
	for _, p := range []int{1, 2, 1, 2} { // both snapshot; 1 takes the lock; 2 is released into it
		if ok, err := r.stepWriter(p); err != nil || !ok {
			return fmt.Errorf("step of writer %d: ok=%v err=%v", p, ok, err)
		}
	}
	w1, w2 := r.writers[1], r.writers[2]
	if w1.status != stGate || w1.at != gTempCreated {
		return fmt.Errorf("writer 1 is not at the TempCreated gate (status %d at %d)", w1.status, w1.at)
	}
	if w2.status != stQueued {
		return fmt.Errorf("writer 2 was released into the held lock but the goroutine dump does not show it in saveMu.Lock() (status %d at %d)", w2.status, w2.at)
	}
	for guard := 0; guard < 100; guard++ {
		if !r.canStep(1) && !r.canStep(2) {
			break
		}
		for _, p := range []int{1, 2} {
			if _, err := r.stepWriter(p); err != nil {
				return err
			}
		}
	}
	if w1.status != stIdle || w2.status != stIdle {
		return fmt.Errorf("self-test writers did not return")
	}
	r.events, r.hist = nil, nil
	return nil
}
