package c07

// Observations: behaviours of the pinned code next to C07 that do NOT make a predicate of the
// statement false as it is worded (so: never a VIOLATION, never an exit code), reproduced on
// the real pipeline and logged by checks/c07.py so that they are not lost.
//
//  dname_nodata_relay   Resolver.answer returns before clearAdditional when a DNAME target is
//                       NODATA / empty: the authority and additional sections Z's server sent
//                       (records owned outside Z) reach the client and the cache entry of that
//                       question.  The statement forbids such records "inside the answer"; it
//                       calls the message a "reply" and names "answers/authority/additional
//                       sections" separately, so the answer section is what it speaks of (and
//                       what NoForeignRelayed judges).  Nothing is cached under the records' own
//                       names and no other question is answered from them.
//  priming_loopback     Resolver.checkPriming installs the addresses found in the additional
//                       section of the priming reply as the root server list without usableAddr:
//                       a priming reply naming 127.0.0.1 makes the resolver send every client's
//                       queries to its own loopback.  The statement's address clause is about
//                       glue of a referral ("nameserver names inside the delegating zone"); the
//                       priming reply is not a referral and the root's servers are the configured
//                       trust root (Bailiwick.tla D1).

import (
	"os"
	"strings"
	"testing"
	"time"

	"github.com/miekg/dns"
	"github.com/semihalev/sdns/config"
	"github.com/semihalev/sdns/verifharness/authkit"
	"github.com/semihalev/sdns/verifharness/pipe"
	"github.com/semihalev/sdns/verifharness/vh"
)

func observeAsk(w *world, hookRoot func(*authkit.Exchange), names []string) ([]*dns.Msg, error) {
	dir, err := os.MkdirTemp(vhScratch(), "c07o-")
	if err != nil {
		return nil, err
	}
	defer os.RemoveAll(dir)
	if hookRoot != nil {
		w.n.RootSrv.SetHook(hookRoot)
	}
	inner := w.n.Mapper()
	srv, _ := pipe.NewResolverServer(pipe.ResolverOpts{RootAddr: w.n.RootSrv.Addr, Dir: dir,
		Mapper: func(a string) string {
			if w.dead.Load() {
				return blackHole
			}
			w.noteDial(a)
			return inner(a)
		},
		Mutate: func(c *config.Config) { c.QnameMinLevel = 0; c.CacheSize = 1024 }})
	defer stopServer(srv)
	if hookRoot != nil {
		// Resolver.run primes once the middleware chain is ready: wait for that query, then for the list to be installed
		for t0 := time.Now(); time.Since(t0) < 5*time.Second; time.Sleep(20 * time.Millisecond) {
			primed := false
			for _, e := range w.n.RootSrv.Log() {
				if e.Q.Name == "." && e.Q.Qtype == dns.TypeNS {
					primed = true
				}
			}
			if primed {
				break
			}
		}
		time.Sleep(200 * time.Millisecond)
	}
	var out []*dns.Msg
	for _, name := range names {
		q := new(dns.Msg)
		q.SetQuestion(name, dns.TypeA)
		q.SetEdns0(1232, false)
		out = append(out, pipe.Ask(srv, q, "udp", "203.0.113.5"))
	}
	return out, nil
}

func TestObserve(t *testing.T) {
	var in struct{}
	vh.Input(t, &in)
	res := vh.NewResult()
	defer res.Write(t)

	// --- dname_nodata_relay
	w, err := newWorld(false, false, []move{{Pre: "none", Kind: "honest", Glue: "na"}})
	if err != nil {
		res.Skip("observe: %v", err)
		return
	}
	att := w.n.Zones[w.zAtt]
	att.Add("d."+w.zAtt+" 300 IN DNAME nodata."+w.zAtt, "x.nodata."+w.zAtt+" 300 IN TXT \"t\"")
	w.attSrv.SetHook(func(ex *authkit.Exchange) {
		if strings.HasPrefix(lc(ex.Q.Name), "x.d.") { // Z's server decorates its DNAME answer with records of the victim zone
			_, opt := splitOPT(ex.Resp.Extra)
			ex.Resp.Ns = []dns.RR{mustRR(w.zBank + " 300 IN NS " + w.trapNS)}
			ex.Resp.Extra = append([]dns.RR{mustRR(w.trapNS + " 300 IN A " + trapIP), mustRR(w.victim + " 300 IN A " + poisonIP)}, opt...)
		}
	})
	rs, err := observeAsk(w, nil, []string{"x.d." + w.zAtt, "x.d." + w.zAtt, w.victim})
	if err == nil {
		foreign := func(r *dns.Msg) (out []string) {
			if r == nil {
				return nil
			}
			for _, sec := range [][]dns.RR{r.Ns, r.Extra} {
				for _, rr := range sec {
					if rr.Header().Rrtype != dns.TypeOPT && !authkit.IsSub(rr.Header().Name, w.zAtt) {
						out = append(out, w.canon(strings.Join(strings.Fields(rr.String()), " ")))
					}
				}
			}
			return
		}
		first, again := foreign(rs[0]), foreign(rs[1])
		if len(first) > 0 {
			res.Count("dname_nodata_relay", 1)
		}
		if len(again) > 0 {
			res.Count("dname_nodata_relay_from_cache", 1)
		}
		if len(w.foreignLies(rs[0])) > 0 || len(w.foreignLies(rs[2])) > 0 || w.mine(w.trap) > 0 {
			// would be a violation of the statement proper; the replay tier judges that, here it is only noted
			res.Count("dname_nodata_relay_went_further", 1)
		}
		res.Sample(map[string]any{"observation": "dname_nodata_relay", "question": w.canon("x.d." + w.zAtt),
			"authority+additional owned outside Z, first reply": first, "second reply (cache)": again,
			"victim query": w.rrStrings(answerOf(rs[2]))})
		res.Case("observe|dname_nodata_relay")
	}
	w.stop()

	// --- priming_loopback
	w, err = newWorld(false, false, []move{{Pre: "none", Kind: "honest", Glue: "na"}})
	if err != nil {
		res.Skip("observe: %v", err)
		return
	}
	rs, err = observeAsk(w, func(ex *authkit.Exchange) {
		if ex.Q.Name == "." && ex.Q.Qtype == dns.TypeNS {
			_, opt := splitOPT(ex.Resp.Extra)
			var extra []dns.RR
			for _, rr := range ex.Resp.Answer {
				if ns, ok := rr.(*dns.NS); ok {
					extra = append(extra, mustRR(ns.Ns+" 300 IN A "+loopIP))
				}
			}
			ex.Resp.Extra = append(extra, opt...)
		}
	}, []string{w.wName(1)})
	if err == nil {
		if w.dialled(loopIP+":53") || w.mine(w.canary) > 0 {
			res.Count("priming_loopback", 1)
		}
		w.mu.Lock()
		d := append([]string(nil), w.dials...)
		w.mu.Unlock()
		res.Sample(map[string]any{"observation": "priming_loopback", "dialled": d, "canary_queries": w.mine(w.canary), "reply": rcSym(rs[0])})
		res.Case("observe|priming_loopback")
	}
	w.stop()
}
