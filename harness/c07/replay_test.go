// Package c07 replays the attack scripts enumerated by tla/Bailiwick (TLC) against the
// REAL full sdns pipeline (cache + resolver) resolving in a scripted namespace:
//
//	.  ->  test.  ->  bank.test.      victim zone, honest server
//	               ->  attacker.test.  = Z, adversarial server (authkit hook)
//	                     ->  sub<i>.attacker.test.   one child per move
//
// Every script gets a fresh namespace and a fresh resolver.  After each move the same
// question is asked again by another client (cache-hit path), then the model's victim
// queries are asked.  The verdict comes only from predicates on real replies and on what
// the real resolver dialled; the model's prediction is compared for drift.
package c07

import (
	"fmt"
	"net"
	"os"
	"sort"
	"strings"
	"sync"
	"sync/atomic"
	"testing"
	"time"

	"github.com/miekg/dns"
	"github.com/semihalev/sdns/config"
	"github.com/semihalev/sdns/server"
	"github.com/semihalev/sdns/verifharness/authkit"
	"github.com/semihalev/sdns/verifharness/pipe"
	"github.com/semihalev/sdns/verifharness/vh"
)

// ---- input (the JSON the model emits, see Bailiwick.tla Outcome) ------------------------

type move struct {
	Pre  string `json:"pre"`
	Kind string `json:"kind"`
	Glue string `json:"glue"`
	// Race (Bailiwick.tla ConcurrentCold): while the attack query of this move waits for test.'s
	// referral to Z, another client's cold query for a name below Z runs to completion, so Z's
	// delegation is already cached when the attack query's processDelegation looks.
	Race bool `json:"race"`
}

type rrBrief struct {
	O  []string `json:"o"`
	T  string   `json:"t"`
	D  string   `json:"d"`
	Tn []string `json:"tn"`
}

type replyExp struct {
	Kind string    `json:"kind"`
	I    int       `json:"i"`
	Rc   string    `json:"rc"`
	Ans  []rrBrief `json:"ans"`
}

type victimExp struct {
	Qn  []string  `json:"qn"`
	Rc  string    `json:"rc"`
	Ans []rrBrief `json:"ans"`
}

type scriptIn struct {
	Script  []move      `json:"script"`
	Replies []replyExp  `json:"replies"`
	Victims []victimExp `json:"victims"`
	Dialled []string    `json:"dialled"`
	BankLog [][]string  `json:"bankLog"`
	Broken  []string    `json:"broken"`
	// Deep (the model constant): Z and the victim zone sit two labels below test.
	// (attacker.co.test., bank.co.test.; co.test. is an empty non-terminal of test.)
	Deep bool `json:"deep"`
	// the same script under the all-filters-on model (F_sound); a tree that conforms to it
	// where it differs from the as-is transcription is not drifting
	AltReplies []replyExp  `json:"altReplies"`
	AltVictims []victimExp `json:"altVictims"`
	AltDialled []string    `json:"altDialled"`
}

type input struct {
	Scripts  []scriptIn `json:"scripts"`
	Variants []string   `json:"variants"` // "unsigned" | "signedcd"
	MinLevel []int      `json:"minLevel"` // qname_min_level values to run under
	Workers  int        `json:"workers"`
	Verbose  bool       `json:"verbose"`
}

// ---- fixed names and data -----------------------------------------------------------------

// names of one world.  Every world has its own top-level label instead of the model's
// "test": resolvers of finished worlds (and of other checks running on this machine) may
// still have packets in flight to loopback ports the kernel has handed to a new world's
// servers, so server-log evidence only counts queries for this world's own names.
type names struct {
	tld, zTest, zBank, zAtt, victim, nohost, wwwBank, nsBank, trapNS, offPath string
	// shop.test.: an unrelated zone delegated by test. WITHOUT glue to the victim zone's
	// nameserver host (served by the bank's server)
	zShop, wwwShop string
}

var worldSeq atomic.Uint64

func mkNames(deep bool) names {
	tld := fmt.Sprintf("t%x-%x", os.Getpid()&0xffffff, worldSeq.Add(1))
	z := tld + "."
	m := z // the name Z and the victim zone hang off: test. itself, or the empty non-terminal co.test.
	if deep {
		m = "co." + z
	}
	return names{tld: tld, zTest: z, zBank: "bank." + m, zAtt: "attacker." + m, victim: "victim.bank." + m,
		nohost: "nohost.bank." + m, wwwBank: "www.bank." + m, nsBank: "ns.bank." + m,
		trapNS: "nstrap.attacker." + m, offPath: "zzz.attacker." + m,
		zShop: "shop." + z, wwwShop: "www.shop." + z}
}

// canon spells a name (or a text containing names) with the model's "test" label, so keys,
// messages and replay files do not depend on the world's private label.
func (n names) canon(s string) string { return strings.ReplaceAll(s, n.tld+".", "test.") }

func (n names) subZone(i int) string { return fmt.Sprintf("sub%d.%s", i, n.zAtt) }
func (n names) subHost(i int) string { return "h." + n.subZone(i) }
func (n names) wName(i int) string   { return fmt.Sprintf("w%d.%s", i, n.zAtt) }

// raceName is what the concurrent client of a race move asks: an ordinary name of Z that is
// nobody's trigger (Z's server answers it honestly).
func (n names) raceName(i int) string { return fmt.Sprintf("race%d.%s", i, n.zAtt) }
func (n names) trigger(i int, m move) string {
	if refKinds[m.Kind] {
		return n.subHost(i)
	}
	return n.wName(i)
}

// mine reports how many queries for this world's own names a server has logged.
func (n names) mine(s *authkit.Server) int {
	c := 0
	for _, e := range s.Log() {
		if authkit.IsSub(e.Q.Name, n.zTest) {
			c++
		}
	}
	return c
}

const (
	truthVictim = "192.0.2.200"
	truthWww    = "192.0.2.201"
	truthShop   = "192.0.2.202"
	poisonIP    = "6.6.6.6"  // carried by Z's forged records
	spoofID     = "6.6.6.7"  // carried by the wrong-ID datagram
	spoofQ      = "6.6.6.8"  // carried by the wrong-question datagram
	spoofFlood  = "6.6.6.13" // carried by each of a run of twelve wrong-ID datagrams
	spoofTwoQ   = "6.6.6.12" // carried by the two-question datagram (victim's question first, the real one second)
	spoofIDQ    = "6.6.6.9"  // wrong ID and wrong question
	spoofTCP    = "6.6.6.10" // wrong ID on the TCP retry (after a truncated UDP reply)
	trapServed  = "6.6.6.66" // whatever the adversary's second server (the trap) answers
	trapIP      = "192.0.2.66"
	trapIP6     = "2001:db8:66::66"
	loopIP      = "127.0.0.1"
)

// blackHole is where the resolver of a finished world is sent (discard port, nobody listens).
const blackHole = "127.0.0.1:9"

var refKinds = map[string]bool{"ref_ok": true, "ref_self": true, "ref_up": true, "ref_side": true,
	"ref_mixed": true, "ref_mixed2": true, "ref_class": true, "ref_offpath": true}

func wAddr(i int) string { return fmt.Sprintf("198.51.100.%d", 10+i) }
func rAddr(i int) string { return fmt.Sprintf("198.51.100.%d", 30+i) }
func hAddr(i int) string { return fmt.Sprintf("198.51.100.%d", 20+i) }

func lc(s string) string { return strings.ToLower(dns.Fqdn(s)) }

func localIfaceIP() string {
	ifs, err := net.Interfaces()
	if err != nil {
		return ""
	}
	for _, it := range ifs {
		addrs, _ := it.Addrs()
		for _, a := range addrs {
			if ipn, ok := a.(*net.IPNet); ok {
				if ip4 := ipn.IP.To4(); ip4 != nil && !ip4.IsLoopback() {
					return ip4.String()
				}
			}
		}
	}
	return ""
}

func mustRR(s string) dns.RR {
	rr, err := dns.NewRR(s)
	if err != nil {
		panic(err)
	}
	return rr
}

// ---- one scripted world -------------------------------------------------------------------

type world struct {
	names
	dead     atomic.Bool // set when the world is torn down: its resolver is sent to a black hole
	n        *authkit.Net
	signed   bool
	moves    []move
	bankSrv  *authkit.Server
	attSrv   *authkit.Server
	subSrv   []*authkit.Server
	subIP    []string
	trap     *authkit.Server
	canary   *authkit.Server
	localIP  string
	mu       sync.Mutex
	dials    []string // advertised addresses the resolver dialled, in order
	hookHits []int    // how often Z's server played move i

	// the concurrent cold query of a race move (Bailiwick.tla ConcurrentCold), see raceHook
	deep      bool
	minLevel  int
	testSrv   *authkit.Server
	raceArm   atomic.Int32      // k of the race move whose attack query is in flight; 0 = not armed
	raceAsk   func(name string) // sends the concurrent client's query through the pipeline
	raceDone  chan struct{}     // closed when that query has been answered
	raceFired int               // how often the hook started one
	raceFirst int               // ... and it was answered before test.'s referral was released
}

func (w *world) noteDial(addr string) {
	w.mu.Lock()
	w.dials = append(w.dials, addr)
	w.mu.Unlock()
}

func (w *world) dialled(addr string) bool {
	w.mu.Lock()
	defer w.mu.Unlock()
	for _, d := range w.dials {
		if d == addr {
			return true
		}
	}
	return false
}

// newWorld builds the namespace.  miekg/dns refuses to sign with a key whose tag is 0
// (authkit panics on it; 1 key in 65536): such a world is thrown away and rebuilt.
func newWorld(signed, deep bool, moves []move) (*world, error) {
	for try := 0; ; try++ {
		w, err := newWorldOnce(signed, deep, moves)
		if err != nil || try > 5 {
			return w, err
		}
		ok := true
		for _, z := range w.n.Zones {
			if z.Signed && len(z.Keys) > 0 && z.Keys[0].RR.KeyTag() == 0 {
				ok = false
			}
		}
		if ok {
			return w, nil
		}
		w.stop()
	}
}

func newWorldOnce(signed, deep bool, moves []move) (*world, error) {
	n, err := authkit.NewNet(signed)
	if err != nil {
		return nil, err
	}
	w := &world{names: mkNames(deep), deep: deep, n: n, signed: signed, moves: moves, localIP: localIfaceIP(), hookHits: make([]int, len(moves))}
	o := authkit.DelegateOpts{Signed: signed, PublishDS: signed}
	if _, w.testSrv, err = n.Delegate(w.zTest, o); err != nil {
		return nil, err
	}
	w.testSrv.SetHook(w.raceHook)
	bank, bankSrv, err := n.Delegate(w.zBank, o)
	if err != nil {
		return nil, err
	}
	att, attSrv, err := n.Delegate(w.zAtt, o)
	if err != nil {
		return nil, err
	}
	w.bankSrv, w.attSrv = bankSrv, attSrv
	bank.Add(w.victim+" 300 IN A "+truthVictim, w.wwwBank+" 300 IN A "+truthWww)
	// shop.test.: on the bank's server, delegated by test. to the bank's nameserver host without glue
	so := o
	so.OnServer, so.Glueless = bankSrv, w.nsBank
	shop, _, err := n.Delegate(w.zShop, so)
	if err != nil {
		return nil, err
	}
	shop.Add(w.wwwShop + " 300 IN A " + truthShop)
	for i := range moves {
		k := i + 1
		att.Add(w.wName(k) + " 300 IN A " + wAddr(k))
		att.Add(w.raceName(k) + " 300 IN A " + rAddr(k))
		sub, srv, err := n.Delegate(w.subZone(k), o)
		if err != nil {
			return nil, err
		}
		sub.Add(w.subHost(k) + " 300 IN A " + hAddr(k))
		w.subSrv = append(w.subSrv, srv)
		ip := ""
		if c := att.Cuts[w.subZone(k)]; c != nil && len(c.Glue) > 0 {
			ip = c.Glue[0].(*dns.A).A.String()
		}
		w.subIP = append(w.subIP, ip)
	}
	// the adversary's second server: reachable only through addresses the resolver must not use
	if w.trap, err = authkit.StartServer("trap"); err != nil {
		return nil, err
	}
	w.trap.SetHook(func(ex *authkit.Exchange) {
		m := new(dns.Msg)
		m.SetReply(ex.Req)
		m.Authoritative = true
		if ex.Q.Qtype == dns.TypeA {
			m.Answer = []dns.RR{mustRR(lc(ex.Q.Name) + " 300 IN A " + trapServed)}
		}
		m.Extra = ex.Resp.Extra
		ex.Resp = m
	})
	n.MapGlue(trapIP, w.trap)
	n.MapGlue(trapIP6, w.trap)
	// a canary stands on the addresses that must never be dialled at all
	if w.canary, err = authkit.StartServer("canary"); err != nil {
		return nil, err
	}
	n.MapGlue(loopIP, w.canary)
	if w.localIP != "" {
		n.MapGlue(w.localIP, w.canary)
	}
	attSrv.SetHook(w.attackerHook)
	return w, nil
}

// raceHook sits on test.'s server.  When the attack query of a race move is about to get its
// referral to Z, a second client asks another name below Z through the same pipeline and the
// referral is held back until that query has been answered: by then Z's delegation is in the
// cache, and the attack query's processDelegation takes resolveWithCachedNameservers.  No
// timing is involved with qname minimisation off (the two questions differ, so the lookups are
// not coalesced; the attack query just waits on the network).  With minimisation on both
// clients send the same minimised question, the second lookup joins the first one's flight and
// cannot finish before it: the hold is then bounded and the two race for real.
func (w *world) raceHook(ex *authkit.Exchange) {
	if ex.Truth.Kind != "referral" || lc(ex.Truth.Cut) != w.zAtt {
		return
	}
	if k := w.raceArm.Swap(0); k != 0 && w.raceAsk != nil {
		done := make(chan struct{})
		w.mu.Lock()
		w.raceDone = done
		w.raceFired++
		w.mu.Unlock()
		name := w.raceName(int(k))
		go func() {
			defer close(done)
			w.raceAsk(name)
		}()
	}
	w.mu.Lock()
	done := w.raceDone
	w.mu.Unlock()
	if done == nil || strings.HasPrefix(lc(ex.Q.Name), "race") {
		return // nothing in flight, or this is the concurrent client's own query
	}
	hold := 8 * time.Second
	if w.minLevel > 0 {
		hold = 150 * time.Millisecond
	}
	select {
	case <-done:
		w.mu.Lock()
		w.raceFirst++
		w.mu.Unlock()
	case <-time.After(hold):
	}
}

// raceWait returns once the concurrent client (if any) has its reply.
func (w *world) raceWait() {
	w.mu.Lock()
	done := w.raceDone
	w.mu.Unlock()
	if done != nil {
		<-done
	}
}

func (w *world) stop() {
	w.dead.Store(true)
	w.n.Stop()
	w.trap.Stop()
	w.canary.Stop()
}

// preDatagrams builds the raw datagrams Z sends ahead of its real reply.
func (w *world) preDatagrams(pre string, req *dns.Msg) [][]byte {
	q := req.Question[0]
	var m *dns.Msg
	switch pre {
	case "flood":
		var out [][]byte
		for i := 1; i <= 12; i++ {
			f := new(dns.Msg)
			f.SetReply(req)
			f.Id = req.Id + uint16(i)*257
			f.Authoritative = true
			f.Answer = []dns.RR{mustRR(lc(q.Name) + " 300 IN A " + spoofFlood)}
			if opt := req.IsEdns0(); opt != nil {
				o := &dns.OPT{Hdr: dns.RR_Header{Name: ".", Rrtype: dns.TypeOPT}}
				o.SetUDPSize(1232)
				o.SetDo(opt.Do())
				f.Extra = append(f.Extra, o)
			}
			if b, err := f.Pack(); err == nil {
				out = append(out, b)
			}
		}
		return out
	case "wrongid":
		m = new(dns.Msg)
		m.SetReply(req)
		m.Id = req.Id ^ 0x0101
		m.Answer = []dns.RR{mustRR(lc(q.Name) + " 300 IN A " + spoofID)}
	case "wrongq", "wrongidq":
		fake := new(dns.Msg)
		fake.SetQuestion(w.victim, dns.TypeA)
		fake.Id = req.Id
		ip := spoofQ
		if pre == "wrongidq" {
			fake.Id = req.Id ^ 0x0101
			ip = spoofIDQ
		}
		m = new(dns.Msg)
		m.SetReply(fake)
		m.Answer = []dns.RR{mustRR(w.victim + " 300 IN A " + ip)}
	case "twoq":
		fake := new(dns.Msg)
		fake.SetQuestion(w.victim, dns.TypeA)
		fake.Id = req.Id
		m = new(dns.Msg)
		m.SetReply(fake)
		m.Question = append(m.Question, q)
		m.Answer = []dns.RR{mustRR(w.victim + " 300 IN A " + spoofTwoQ)}
	default:
		return nil
	}
	m.Authoritative = true
	if opt := req.IsEdns0(); opt != nil {
		o := &dns.OPT{Hdr: dns.RR_Header{Name: ".", Rrtype: dns.TypeOPT}}
		o.SetUDPSize(1232)
		o.SetDo(opt.Do())
		m.Extra = append(m.Extra, o)
	}
	b, err := m.Pack()
	if err != nil {
		return nil
	}
	return [][]byte{b}
}

func splitOPT(extra []dns.RR) (rest []dns.RR, opt []dns.RR) {
	for _, rr := range extra {
		if rr.Header().Rrtype == dns.TypeOPT {
			opt = append(opt, rr)
		} else {
			rest = append(rest, rr)
		}
	}
	return
}

// attackerHook is Z's server: it plays move i whenever it is asked the i-th trigger name
// (answer moves) or anything the honest engine would refer to the i-th child (referral moves).
func (w *world) attackerHook(ex *authkit.Exchange) {
	name := lc(ex.Q.Name)
	for i, m := range w.moves {
		k := i + 1
		isRef := refKinds[m.Kind]
		switch {
		case !isRef && name == w.wName(k) && ex.Q.Qtype == dns.TypeA:
		case isRef && ex.Truth.Kind == "referral" && lc(ex.Truth.Cut) == w.subZone(k):
		default:
			continue
		}
		w.mu.Lock()
		w.hookHits[i]++
		w.mu.Unlock()
		if m.Pre == "tcpwrongid" {
			// strict ID on streams: truncate on UDP, then answer the TCP retry under a foreign ID
			t := new(dns.Msg)
			t.SetReply(ex.Req)
			_, opt := splitOPT(ex.Resp.Extra)
			t.Extra = opt
			if ex.Proto == "udp" {
				t.Truncated = true
			} else {
				t.Id = ex.Req.Id ^ 0x0101
				t.Authoritative = true
				t.Answer = []dns.RR{mustRR(name + " 300 IN A " + spoofTCP)}
			}
			ex.Resp = t
			return
		}
		ex.Pre = w.preDatagrams(m.Pre, ex.Req)
		w.tamper(ex, k, m)
		return
	}
}

func (w *world) tamper(ex *authkit.Exchange, k int, m move) {
	r := ex.Resp
	glue, opt := splitOPT(r.Extra)
	poisonV := mustRR(w.victim + " 300 IN A " + poisonIP)
	trapGlue := mustRR(w.trapNS + " 300 IN A " + trapIP)
	nsTo := func(owner string) dns.RR { return mustRR(owner + " 300 IN NS " + w.trapNS) }
	switch m.Kind {
	case "honest":
	case "ans_foreign":
		r.Answer = append(r.Answer, poisonV)
	case "cname_out":
		r.Answer = []dns.RR{mustRR(w.wName(k) + " 300 IN CNAME " + w.victim), poisonV}
	case "dname_out":
		// a DNAME at Z's apex redirects the asked name into bank.test.; the answer carries the DNAME, the CNAME
		// synthesised from it and a forged address for that (out-of-zone) target
		tgt := strings.TrimSuffix(w.wName(k), w.zAtt) + w.zBank
		r.Answer = []dns.RR{mustRR(w.zAtt + " 300 IN DNAME " + w.zBank), mustRR(w.wName(k) + " 300 IN CNAME " + tgt),
			mustRR(tgt + " 300 IN A " + poisonIP)}
	case "cname_bare":
		r.Answer = []dns.RR{mustRR(w.wName(k) + " 300 IN CNAME " + w.victim)}
	case "auth_foreign":
		r.Ns = []dns.RR{nsTo(w.zBank)}
		glue = []dns.RR{trapGlue, poisonV}
	case "neg_foreign":
		r.Answer = nil
		r.Ns = []dns.RR{mustRR(w.zBank + " 300 IN SOA ns.bank.test. hostmaster.bank.test. 1 3600 600 86400 60")}
		glue = []dns.RR{poisonV}
	case "ref_ok":
		switch m.Glue {
		case "in":
		case "out": // NS host outside the delegating zone, with "glue" for it
			for _, rr := range r.Ns {
				if ns, ok := rr.(*dns.NS); ok {
					ns.Ns = w.nsBank
				}
			}
			r.Ns = dropSigs(r.Ns, dns.TypeNS)
			glue = []dns.RR{mustRR(w.nsBank + " 300 IN A " + trapIP)}
		case "out6": // the same with an IPv6 "glue" address (IPv6 access is switched on for these scripts)
			for _, rr := range r.Ns {
				if ns, ok := rr.(*dns.NS); ok {
					ns.Ns = w.nsBank
				}
			}
			r.Ns = dropSigs(r.Ns, dns.TypeNS)
			glue = []dns.RR{mustRR(w.nsBank + " 300 IN AAAA " + trapIP6)}
		case "loop":
			glue = []dns.RR{mustRR("ns." + w.subZone(k) + " 300 IN A " + loopIP)}
		case "local":
			glue = []dns.RR{mustRR("ns." + w.subZone(k) + " 300 IN A " + w.localIP)}
		}
	case "ref_self":
		r.Ns, glue = []dns.RR{nsTo(w.zAtt)}, []dns.RR{trapGlue}
	case "ref_up":
		r.Ns, glue = []dns.RR{nsTo(w.zTest)}, []dns.RR{trapGlue}
	case "ref_side":
		r.Ns, glue = []dns.RR{nsTo(w.zBank)}, []dns.RR{trapGlue}
	case "ref_mixed":
		r.Ns = append(r.Ns, nsTo(w.zBank))
		glue = append(glue, trapGlue)
	case "ref_mixed2":
		r.Ns = append([]dns.RR{nsTo(w.zBank)}, r.Ns...)
		glue = append(glue, trapGlue)
	case "ref_class":
		ns := nsTo(w.subZone(k))
		ns.Header().Class = dns.ClassCHAOS
		r.Ns, glue = []dns.RR{ns}, []dns.RR{trapGlue}
	case "ref_offpath":
		r.Ns, glue = []dns.RR{nsTo(w.offPath)}, []dns.RR{trapGlue}
	}
	r.Extra = append(glue, opt...)
}

func dropSigs(rrs []dns.RR, covered uint16) []dns.RR {
	var out []dns.RR
	for _, rr := range rrs {
		if s, ok := rr.(*dns.RRSIG); ok && s.TypeCovered == covered {
			continue
		}
		out = append(out, rr)
	}
	return out
}

// ---- symbols: the model's abstract data <-> the namespace's concrete data -----------------

func nameOf(labels []string) string { // root-first label tuple -> fqdn (canonical spelling)
	if len(labels) == 0 {
		return "."
	}
	out := make([]string, len(labels))
	for i, l := range labels {
		out[len(labels)-1-i] = l
	}
	return strings.Join(out, ".") + "."
}

func (w *world) symbolOf(ip string) string {
	switch ip {
	case truthVictim:
		return "t_victim"
	case truthWww:
		return "t_www"
	case truthShop:
		return "t_shop"
	case poisonIP, trapServed:
		return "poison"
	case spoofID, spoofQ, spoofIDQ, spoofTCP, spoofTwoQ, spoofFlood:
		return "spoof"
	}
	for i := range w.moves {
		if ip == wAddr(i+1) {
			return "t_w"
		}
		if ip == hAddr(i+1) {
			return "t_h"
		}
		if ip == rAddr(i+1) {
			return "t_r"
		}
	}
	if tr := w.n.GroundTruth(dns.Question{Name: w.nsBank, Qtype: dns.TypeA, Qclass: dns.ClassINET}); len(tr.Answer) > 0 &&
		tr.Answer[0].(*dns.A).A.String() == ip {
		return "a_bank"
	}
	return "ip:" + ip
}

// addrSymbol names an advertised "ip:53" the way the model does.
func (w *world) addrSymbol(addr string) string {
	host, _, err := net.SplitHostPort(addr)
	if err != nil {
		return addr
	}
	switch host {
	case trapIP, trapIP6:
		return "a_trap"
	case loopIP:
		return "a_loop"
	case w.localIP:
		return "a_local"
	}
	for i, ip := range w.subIP {
		if ip == host {
			return fmt.Sprintf("a_sub%d", i+1)
		}
	}
	for zone, sym := range map[string]string{w.zTest: "a_test", w.zBank: "a_bank", w.zAtt: "a_att"} {
		ns := "ns." + zone
		if tr := w.n.GroundTruth(dns.Question{Name: ns, Qtype: dns.TypeA, Qclass: dns.ClassINET}); len(tr.Answer) > 0 {
			if a, ok := tr.Answer[0].(*dns.A); ok && a.A.String() == host {
				return sym
			}
		}
	}
	return addr
}

func (w *world) briefOfReal(rrs []dns.RR) []string {
	var out []string
	for _, rr := range rrs {
		switch v := rr.(type) {
		case *dns.A:
			out = append(out, w.canon(lc(v.Hdr.Name))+" A "+w.symbolOf(v.A.String()))
		case *dns.CNAME:
			out = append(out, w.canon(lc(v.Hdr.Name))+" CNAME "+w.canon(lc(v.Target)))
		case *dns.RRSIG, *dns.OPT:
		default:
			out = append(out, w.canon(lc(rr.Header().Name))+" "+dns.TypeToString[rr.Header().Rrtype])
		}
	}
	sort.Strings(out)
	return out
}

func briefOfModel(rrs []rrBrief) []string {
	var out []string
	for _, r := range rrs {
		switch r.T {
		case "A":
			out = append(out, nameOf(r.O)+" A "+r.D)
		case "CNAME":
			out = append(out, nameOf(r.O)+" CNAME "+nameOf(r.Tn))
		default:
			out = append(out, nameOf(r.O)+" "+r.T)
		}
	}
	sort.Strings(out)
	return out
}

func rcSym(r *dns.Msg) string {
	if r == nil {
		return "NOREPLY"
	}
	switch r.Rcode {
	case dns.RcodeSuccess:
		return "OK"
	case dns.RcodeNameError:
		return "NXDOMAIN"
	case dns.RcodeServerFailure:
		return "SERVFAIL"
	}
	return dns.RcodeToString[r.Rcode]
}

// ---- oracle -------------------------------------------------------------------------------

func sameRR(a, b dns.RR) bool {
	x, y := dns.Copy(a), dns.Copy(b)
	x.Header().Ttl, y.Header().Ttl = 0, 0
	x.Header().Name, y.Header().Name = lc(x.Header().Name), lc(y.Header().Name)
	return x.String() == y.String()
}

// foreignLies lists the answer-section records owned outside Z that are not the honest
// owner zone's data (ground truth, which the harness owns).
func (w *world) foreignLies(r *dns.Msg) []dns.RR {
	var bad []dns.RR
	if r == nil {
		return nil
	}
	for _, rr := range r.Answer {
		h := rr.Header()
		if h.Rrtype == dns.TypeRRSIG || authkit.IsSub(h.Name, w.zAtt) {
			continue
		}
		tr := w.n.GroundTruth(dns.Question{Name: lc(h.Name), Qtype: h.Rrtype, Qclass: h.Class})
		ok := false
		for _, t := range tr.Answer {
			if sameRR(t, rr) {
				ok = true
				break
			}
		}
		if !ok {
			bad = append(bad, rr)
		}
	}
	return bad
}

// spoofMarks lists records (any section) that only a wrong-ID / wrong-question datagram carried.
func spoofMarks(r *dns.Msg) []string {
	var out []string
	if r == nil {
		return nil
	}
	for _, sec := range [][]dns.RR{r.Answer, r.Ns, r.Extra} {
		for _, rr := range sec {
			if a, ok := rr.(*dns.A); ok {
				switch a.A.String() {
				case spoofID:
					out = append(out, "wrongid")
				case spoofQ:
					out = append(out, "wrongq")
				case spoofIDQ:
					out = append(out, "wrongidq")
				case spoofTCP:
					out = append(out, "tcpwrongid")
				case spoofTwoQ:
					out = append(out, "twoq")
				case spoofFlood:
					out = append(out, "flood")
				}
			}
		}
	}
	return out
}

func kindsOf(moves []move) string {
	var s []string
	for _, m := range moves {
		k := m.Kind
		if m.Glue != "" && m.Glue != "na" {
			k += "/" + m.Glue
		}
		if m.Race {
			k += "@race"
		}
		s = append(s, k)
	}
	return strings.Join(s, "+")
}

func scriptKey(moves []move) string {
	var s []string
	for _, m := range moves {
		k := m.Pre + ":" + m.Kind + ":" + m.Glue
		if m.Race {
			k += ":race" // keys of race-free scripts stay what they were
		}
		s = append(s, k)
	}
	return strings.Join(s, ",")
}

type exchangeLog struct {
	Phase string   `json:"phase"`
	Q     string   `json:"q"`
	CD    bool     `json:"cd"`
	Rcode string   `json:"rcode"`
	Ans   []string `json:"answer"`
	Ns    []string `json:"authority,omitempty"`
	Extra []string `json:"additional,omitempty"`
}

func (n names) rrStrings(rrs []dns.RR) []string {
	var out []string
	for _, rr := range rrs {
		if rr.Header().Rrtype == dns.TypeRRSIG || rr.Header().Rrtype == dns.TypeOPT {
			continue
		}
		out = append(out, n.canon(strings.Join(strings.Fields(rr.String()), " ")))
	}
	return out
}

type cand struct {
	rank   string
	what   string
	replay any
}

type runner struct {
	res     *vh.Result
	verbose bool
	mu      sync.Mutex
	cands   map[string]cand // per violation key, the simplest script that showed it
}

// propose keeps, per violation key, the simplest failing script (fewest moves, fewest
// pre-datagrams), so the reported replay does not depend on worker scheduling.
func (rn *runner) propose(key, rank, what string, replay any) {
	rn.mu.Lock()
	defer rn.mu.Unlock()
	if c, ok := rn.cands[key]; !ok || rank < c.rank {
		rn.cands[key] = cand{rank, what, replay}
	}
}

func (rn *runner) flush() {
	keys := make([]string, 0, len(rn.cands))
	for k := range rn.cands {
		keys = append(keys, k)
	}
	sort.Strings(keys)
	for _, k := range keys {
		rn.res.Violate(k, rn.cands[k].what, rn.cands[k].replay)
	}
}

func rankOf(moves []move, minLevel int) string {
	pres := 0
	for _, m := range moves {
		if m.Pre != "none" {
			pres++
		}
	}
	return fmt.Sprintf("%d/%d/%d/%s", len(moves), pres, minLevel, scriptKey(moves))
}

// runScript plays one script under one variant and judges it.
func (rn *runner) runScript(sc scriptIn, variant string, minLevel int) error {
	signed := variant == "signedcd"
	for _, m := range sc.Script {
		if m.Glue == "local" && localIfaceIP() == "" {
			rn.res.Count("skipped_no_local_interface", 1)
			return nil
		}
	}
	w, err := newWorld(signed, sc.Deep, sc.Script)
	if err != nil {
		return err
	}
	w.minLevel = minLevel
	defer w.stop()
	dir, err := os.MkdirTemp(vhScratch(), "c07-")
	if err != nil {
		return err
	}
	defer os.RemoveAll(dir)
	var keys []string
	if signed {
		keys = []string{w.n.Root.Keys[0].RR.String()}
	}
	inner := w.n.Mapper()
	srv, _ := pipe.NewResolverServer(pipe.ResolverOpts{RootAddr: w.n.RootSrv.Addr, RootKeys: keys, DNSSEC: signed, Dir: dir,
		Mapper: func(addr string) string {
			if w.dead.Load() {
				return blackHole // the world is gone: nothing of it may reach the next world's sockets
			}
			w.noteDial(addr)
			return inner(addr)
		},
		Mutate: func(c *config.Config) {
			c.QnameMinLevel = minLevel
			c.CacheSize = 1024
			for _, mv := range sc.Script {
				if mv.Glue == "out6" {
					c.IPv6Access = true
				}
			}
		}})
	defer stopServer(srv)

	var xlog []exchangeLog
	var xmu sync.Mutex // the concurrent client of a race move logs from its own goroutine
	query := func(phase, name string, cd bool, client string) *dns.Msg {
		q := new(dns.Msg)
		q.SetQuestion(name, dns.TypeA)
		q.SetEdns0(1232, signed)
		q.CheckingDisabled = cd
		r := pipe.Ask(srv, q, "udp", client)
		e := exchangeLog{Phase: phase, Q: w.canon(name), CD: cd, Rcode: rcSym(r)}
		if r != nil {
			e.Ans, e.Ns, e.Extra = w.rrStrings(r.Answer), w.rrStrings(r.Ns), w.rrStrings(r.Extra)
		}
		xmu.Lock()
		xlog = append(xlog, e)
		xmu.Unlock()
		return r
	}
	w.raceAsk = func(name string) { query("concurrent", name, signed, "203.0.113.99") }
	kinds := kindsOf(sc.Script)
	sk := scriptKey(sc.Script)
	// keys and messages of the shallow namespace stay what they were; the deep one is marked
	shape, shapeKey := "", ""
	if sc.Deep {
		shape, shapeKey = ", deep namespace (Z = attacker.co.test.)", "@deep"
	}
	replay := func() any {
		w.mu.Lock()
		d := append([]string(nil), w.dials...)
		w.mu.Unlock()
		xmu.Lock()
		xl := append([]exchangeLog(nil), xlog...)
		xmu.Unlock()
		return map[string]any{"script": sc.Script, "variant": variant, "qname_min_level": minLevel, "deep": sc.Deep,
			"exchanges": xl, "dialled": d, "model": map[string]any{"replies": sc.Replies, "victims": sc.Victims, "broken": sc.Broken}}
	}
	violate := func(key, what string) {
		rn.propose(key+shapeKey+"|"+variant, rankOf(sc.Script, minLevel),
			fmt.Sprintf("%s [script %s, %s, qname_min_level=%d%s]", what, sk, variant, minLevel, shape), replay())
	}
	// predicates evaluated on every client-visible reply
	judge := func(phase string, culprit string, r *dns.Msg) {
		for _, rr := range w.foreignLies(r) {
			violate("relayed-foreign-answer|"+w.canon(phase)+"|"+culprit,
				fmt.Sprintf("%s reply carries %q in the answer section: owned outside Z=attacker.test. and not the owner zone's data", w.canon(phase),
					w.canon(strings.Join(strings.Fields(rr.String()), " "))))
		}
		for _, pre := range spoofMarks(r) {
			violate("unmatched-datagram-accepted|"+pre+"|"+w.canon(phase),
				fmt.Sprintf("%s reply carries data that only the %s datagram (not matching the outstanding ID/question) contained", w.canon(phase), pre))
		}
	}

	// what the resolver dialled since the last look (the mapper sees every advertised address
	// before the dial); attributed to the move / phase that was being played
	seenDials, seenTrapQ, seenCanaryQ := 0, 0, 0
	checkDials := func(culprit string) {
		w.mu.Lock()
		fresh := append([]string(nil), w.dials[seenDials:]...)
		seenDials = len(w.dials)
		w.mu.Unlock()
		has := func(ip string) bool {
			for _, d := range fresh {
				if d == net.JoinHostPort(ip, "53") {
					return true
				}
			}
			return false
		}
		tq, cq := w.mine(w.trap), w.mine(w.canary)
		if has(loopIP) {
			violate("unroutable-glue-dialled|loopback|"+culprit, "the resolver dialled 127.0.0.1:53, which it learnt only from glue")
		}
		if w.localIP != "" && has(w.localIP) {
			violate("unroutable-glue-dialled|local-interface|"+culprit, "the resolver dialled its own interface address "+w.localIP+":53, which it learnt only from glue")
		}
		if cq > seenCanaryQ {
			violate("unroutable-glue-dialled|canary|"+culprit, "the canary standing on the loopback / local-interface address received a query")
		}
		if has(trapIP) || has(trapIP6) || tq > seenTrapQ {
			violate("forbidden-server-used|"+culprit,
				fmt.Sprintf("the resolver contacted %s, an address it could learn only from out-of-bailiwick glue or from a referral it must reject (trap got %d queries)", trapIP, tq-seenTrapQ))
		}
		seenTrapQ, seenCanaryQ = tq, cq
	}

	expReply, altReply := map[string]replyExp{}, map[string]replyExp{}
	for _, e := range sc.Replies {
		expReply[fmt.Sprintf("%s/%d", e.Kind, e.I)] = e
	}
	for _, e := range sc.AltReplies {
		altReply[fmt.Sprintf("%s/%d", e.Kind, e.I)] = e
	}
	for i, m := range sc.Script {
		k := i + 1
		name := w.trigger(k, m)
		culprit := m.Kind
		if m.Glue != "" && m.Glue != "na" {
			culprit += "/" + m.Glue
		}
		if m.Race {
			culprit += "@race"
		}
		for _, phase := range []string{"attack", "repeat"} {
			bankBefore := len(w.bankSrv.Log())
			client := fmt.Sprintf("203.0.113.%d", 10*k+map[string]int{"attack": 1, "repeat": 2}[phase])
			if m.Race && phase == "attack" {
				w.raceArm.Store(int32(k)) // test.'s server starts the concurrent client when it is about to refer this query to Z
			}
			r := query(phase, name, signed, client)
			if m.Race && phase == "attack" {
				// a later move finds Z cached and never reaches test.: the race is then moot, as in the model
				w.raceArm.Store(0)
				w.raceWait()
			}
			judge(phase, culprit, r)
			// drift: the model's prediction of this reply
			if e, ok := expReply[fmt.Sprintf("%s/%d", phase, k)]; ok {
				got, want := w.briefOfReal(answerOf(r)), briefOfModel(e.Ans)
				a, hasAlt := altReply[fmt.Sprintf("%s/%d", phase, k)]
				switch {
				case rcSym(r) == e.Rc && strings.Join(got, ";") == strings.Join(want, ";"):
				case hasAlt && rcSym(r) == a.Rc && strings.Join(got, ";") == strings.Join(briefOfModel(a.Ans), ";"):
					rn.res.Count("conforms_to_sound_model", 1)
				default:
					rn.res.DriftNote("%s %s [%s %s]: model %s %v, code %s %v", phase, culprit, sk, variant, e.Rc, want, rcSym(r), got)
					rn.res.Count("drift_reply_"+phase, 1)
				}
			}
			// did the resolver go to the honest victim server itself for the alias target?
			if m.Kind == "cname_out" || m.Kind == "cname_bare" {
				asked := false
				for _, e := range w.bankSrv.Log()[bankBefore:] {
					if lc(e.Q.Name) == w.victim && e.Q.Qtype == dns.TypeA {
						asked = true
					}
				}
				if asked {
					rn.res.Count("alias_target_asked_at_owner_"+phase+"_"+m.Kind, 1)
				} else {
					rn.res.Count("alias_target_not_asked_"+phase+"_"+m.Kind, 1)
				}
			}
		}
		checkDials(culprit)
	}

	// victim queries, from another client; in the signed world with CD (the attack's cache
	// partition) and without (validating)
	cds := []bool{false}
	if signed {
		cds = []bool{true, false}
	}
	// the shop query first: its glue-less delegation makes the resolver look the victim zone's nameserver host up,
	// glue cache first -- before a referral to the victim zone refreshes that entry with the honest glue
	vnames := []string{w.wwwShop, w.victim, w.nohost, w.wwwBank, w.nsBank}
	for _, cd := range cds {
		for vi, vn := range vnames {
			trapBefore := w.mine(w.trap)
			r := query("victim", vn, cd, "203.0.113.77")
			judge("victim:"+vn, kinds, r)
			if w.mine(w.trap) > trapBefore {
				violate("victim-query-served-by-adversary|"+w.canon(vn)+"|"+kinds,
					fmt.Sprintf("the later query for %s was taken to the adversary's server", w.canon(vn)))
			}
			tr := w.n.GroundTruth(dns.Question{Name: vn, Qtype: dns.TypeA, Qclass: dns.ClassINET})
			want := "OK"
			if tr.Kind == "nxdomain" {
				want = "NXDOMAIN"
			}
			got := rcSym(r)
			switch {
			case got == want && (want == "NXDOMAIN" || len(answerOf(r)) > 0):
				rn.res.Count("victim_truth", 1)
			case got == "SERVFAIL":
				rn.res.Count("victim_servfail", 1)
				rn.res.DriftNote("victim %s cd=%v [%s %s]: SERVFAIL instead of the truth (fail-closed, no predicate broken)", w.canon(vn), cd, sk, variant)
			default:
				// neither the victim's real data / real non-existence nor a failure
				rn.res.Count("victim_other", 1)
				violate("victim-answer-not-truth|"+w.canon(vn)+"|"+kinds,
					fmt.Sprintf("the later query for %s (cd=%v) returned %s with %d answers; the owner zone's truth is %s", w.canon(vn), cd, got, len(answerOf(r)), tr.Kind))
			}
			if vi < len(sc.Victims) && cd == cds[0] {
				e := sc.Victims[vi]
				g, m := w.briefOfReal(answerOf(r)), briefOfModel(e.Ans)
				altOK := vi < len(sc.AltVictims) && got == sc.AltVictims[vi].Rc &&
					strings.Join(g, ";") == strings.Join(briefOfModel(sc.AltVictims[vi].Ans), ";")
				if (got != e.Rc || strings.Join(g, ";") != strings.Join(m, ";")) && !altOK {
					rn.res.DriftNote("victim %s [%s %s]: model %s %v, code %s %v", w.canon(vn), sk, variant, e.Rc, m, got, g)
					rn.res.Count("drift_victim", 1)
				}
			}
		}
	}

	checkDials("victims-after|" + kinds)
	for i, m := range sc.Script {
		if m.Kind == "ref_mixed" || m.Kind == "ref_mixed2" || m.Kind == "ref_class" {
			if w.mine(w.subSrv[i]) > 0 || (w.subIP[i] != "" && w.dialled(net.JoinHostPort(w.subIP[i], "53"))) {
				violate("bad-referral-accepted|"+m.Kind,
					fmt.Sprintf("the child's server was contacted although Z only ever sent a %s referral for it", m.Kind))
			}
		}
		w.mu.Lock()
		hits := w.hookHits[i]
		w.mu.Unlock()
		if m.Pre == "tcpwrongid" {
			tcpHits := 0
			for _, e := range w.attSrv.Log() {
				if e.Proto == "tcp" && authkit.IsSub(e.Q.Name, w.zTest) {
					tcpHits++
				}
			}
			if tcpHits > 0 {
				rn.res.Count("tcp_wrong_id_rejected", 1) // the stream reply with a foreign ID was read and refused
			}
		}
		if m.Pre == "wrongq" && hits >= 3 {
			rn.res.Count("wrongq_rejected_and_retried", 1) // udp, udp, then tcp
		}
		if hits == 0 {
			// an earlier move may legitimately make a later one unreachable (cached failure);
			// count it so that vacuity is visible
			rn.res.Count("move_not_played", 1)
		} else {
			rn.res.Count("moves_played", 1)
		}
	}
	// drift: addresses dialled vs the model (the root hop is not modelled, D1)
	realD := map[string]bool{}
	w.mu.Lock()
	for _, d := range w.dials {
		if d != w.n.RootSrv.Addr {
			realD[w.addrSymbol(d)] = true
		}
	}
	w.mu.Unlock()
	dialDiff := func(model []string) []string {
		modelD := map[string]bool{}
		for _, d := range model {
			modelD[d] = true
		}
		var diff []string
		for d := range realD {
			if !modelD[d] {
				diff = append(diff, "+"+d)
			}
		}
		for d := range modelD {
			if !realD[d] {
				diff = append(diff, "-"+d)
			}
		}
		return diff
	}
	diff := dialDiff(sc.Dialled)
	if len(diff) > 0 && sc.AltDialled != nil && len(dialDiff(sc.AltDialled)) == 0 {
		diff = nil // dials what the all-filters-on model dials
		rn.res.Count("conforms_to_sound_model_dialled", 1)
	}
	if len(diff) > 0 {
		sort.Strings(diff)
		rn.res.DriftNote("dialled [%s %s]: code vs model %v", sk, variant, diff)
		rn.res.Count("drift_dialled", 1)
	}
	if len(sc.Script) > 0 && sc.Script[0].Race {
		rn.res.Count("race_cases", 1)
		if minLevel == 0 {
			rn.res.Count("race_cases_nomin", 1)
		}
	}
	w.mu.Lock()
	rn.res.Count("race_started", w.raceFired)
	rn.res.Count("race_answered_before_referral_released", w.raceFirst)
	w.mu.Unlock()
	rn.res.Case(variant + "|" + sk + shapeKey)
	if rn.verbose {
		rn.res.Sample(replay())
	} else if len(sc.Script) > 0 && (sc.Script[0].Kind == "cname_out" || sc.Script[0].Kind == "ref_side") && sc.Script[0].Pre == "none" {
		rn.res.Sample(replay())
	}
	return nil
}

// stopServer stops every handler of the server's pipeline that can be stopped (cache
// workers, TCP pool), so thousands of short-lived resolvers do not pile up.
func stopServer(s *server.Server) {
	for _, h := range s.VerifC07Handlers() {
		if st, ok := h.(interface{ Stop() }); ok {
			st.Stop()
		}
	}
	s.Stop()
}

func answerOf(r *dns.Msg) []dns.RR {
	if r == nil {
		return nil
	}
	return r.Answer
}

func vhScratch() string {
	if d := os.Getenv("VERIF_SCRATCH"); d != "" {
		return d
	}
	return os.TempDir()
}

func TestBailiwickReplay(t *testing.T) {
	var in input
	vh.Input(t, &in)
	res := vh.NewResult()
	defer res.Write(t)
	if in.Workers <= 0 {
		in.Workers = 4
	}
	if len(in.MinLevel) == 0 {
		in.MinLevel = []int{0}
	}
	rn := &runner{res: res, verbose: in.Verbose, cands: map[string]cand{}}
	type job struct {
		sc      scriptIn
		variant string
		min     int
	}
	jobs := make(chan job)
	var wg sync.WaitGroup
	var errMu sync.Mutex
	var firstErr error
	t0 := time.Now()
	for i := 0; i < in.Workers; i++ {
		wg.Add(1)
		go func() {
			defer wg.Done()
			for j := range jobs {
				if err := rn.runScript(j.sc, j.variant, j.min); err != nil {
					errMu.Lock()
					if firstErr == nil {
						firstErr = err
					}
					errMu.Unlock()
				}
			}
		}()
	}
	for _, sc := range in.Scripts {
		for _, v := range in.Variants {
			for _, ml := range in.MinLevel {
				jobs <- job{sc, v, ml}
			}
		}
	}
	close(jobs)
	wg.Wait()
	rn.flush()
	res.Count("wall_ms", int(time.Since(t0).Milliseconds()))
	if firstErr != nil {
		res.Skip("harness error: %v", firstErr)
	}
}
