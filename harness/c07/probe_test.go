package c07

import (
	"fmt"
	"os"
	"testing"

	"github.com/miekg/dns"
	"github.com/semihalev/sdns/verifharness/authkit"
	"github.com/semihalev/sdns/verifharness/pipe"
)

func TestProbeCnameOut(t *testing.T) {
	for _, signed := range []bool{false, true} {
		n, err := authkit.NewNet(signed)
		if err != nil {
			t.Fatal(err)
		}
		n.Delegate("test.", authkit.DelegateOpts{Signed: signed, PublishDS: signed})
		bank, bankSrv, _ := n.Delegate("bank.test.", authkit.DelegateOpts{Signed: signed, PublishDS: signed})
		att, attSrv, _ := n.Delegate("attacker.test.", authkit.DelegateOpts{Signed: signed, PublishDS: signed})
		bank.Add("victim.bank.test. 300 IN A 192.0.2.200")
		att.Add("www.attacker.test. 300 IN CNAME victim.bank.test.")
		attSrv.SetHook(func(ex *authkit.Exchange) {
			if ex.Q.Name == "www.attacker.test." && ex.Q.Qtype == dns.TypeA {
				rr, _ := dns.NewRR("victim.bank.test. 300 IN A 6.6.6.6")
				ex.Resp.Answer = append(ex.Resp.Answer, rr)
			}
		})
		dir, _ := os.MkdirTemp("", "c07-")
		var keys []string
		if signed {
			keys = []string{n.Root.Keys[0].RR.String()}
		}
		s, _ := pipe.NewResolverServer(pipe.ResolverOpts{RootAddr: n.RootSrv.Addr, RootKeys: keys, DNSSEC: signed, Dir: dir, Mapper: n.Mapper()})
		q := new(dns.Msg)
		q.SetQuestion("www.attacker.test.", dns.TypeA)
		q.SetEdns0(1232, signed)
		q.CheckingDisabled = signed
		if signed {
			q0 := new(dns.Msg)
			q0.SetQuestion("www.attacker.test.", dns.TypeA)
			q0.SetEdns0(1232, true)
			r0 := pipe.Ask(s, q0, "udp", "203.0.113.8")
			fmt.Printf("=== signed CD=0 attack reply:\n%v\n", r0)
		}
		r := pipe.Ask(s, q, "udp", "203.0.113.9")
		fmt.Printf("=== signed=%v attack reply:\n%v\n", signed, r)
		for _, e := range bankSrv.Log() {
			fmt.Printf("bank log: %s %d %s\n", e.Q.Name, e.Q.Qtype, e.Kind)
		}
		for _, cd := range []bool{false, true} {
			q2 := new(dns.Msg)
			q2.SetQuestion("victim.bank.test.", dns.TypeA)
			q2.SetEdns0(1232, signed)
			q2.CheckingDisabled = cd
			r2 := pipe.Ask(s, q2, "udp", "203.0.113.10")
			fmt.Printf("=== victim reply cd=%v:\n%v\n", cd, r2)
		}
		// repeat attack query (cache hit path)
		r3 := pipe.Ask(s, q.Copy(), "udp", "203.0.113.11")
		fmt.Printf("=== attack reply again:\n%v\n", r3)
		n.Stop()
		os.RemoveAll(dir)
	}
}
