package c03

// Replay of TLC-generated CacheKey behaviours (spec -> code) on the real
// edns+cache pipeline.
//
// The model's adversarial key function cannot be imposed on xxhash64, so a
// model collision K(p1) = K(p2) is staged for real through the exported
// pre-keyed writers (Store.SetFromResponseWithKey / SetFromResponseScoped):
// whatever the model holds in slot k is filed under the real hash of EVERY
// preimage of the adversarial domain that the model maps to k.  A lookup for
// p2 therefore finds, under its own real key, the entry the model says it
// collides with -- exactly what a 64-bit collision would put there.  The
// failure cache and the cut wire index have no pre-keyed writer; overlay shims
// (VerifC03*) file entries under a chosen hash through the code's own writers.
//
// After every step every route is probed with message-born and wire-born
// requests, the resolver-internal Get route and a wire alias chase.  The
// property predicate (C03) is evaluated on each reply from the provenance uid
// carried in its rdata: a reply built from an entry is acceptable only if the
// entry's identity equals the query's on name (ASCII case only), type, class,
// CD and -- for scoped answers -- the audience lies inside the scope.  The
// model's own verdict for the probe is compared too; a difference that does
// not break the predicate is drift.

import (
	"context"
	"encoding/json"
	"fmt"
	"math/rand"
	"net/netip"
	"sort"
	"strconv"
	"strings"
	"testing"
	"time"

	"github.com/miekg/dns"
	"github.com/semihalev/sdns/config"
	"github.com/semihalev/sdns/internal/mock"
	"github.com/semihalev/sdns/middleware"
	mcache "github.com/semihalev/sdns/middleware/cache"
	"github.com/semihalev/sdns/middleware/edns"
	"github.com/semihalev/sdns/verifharness/vh"
)

type opIn struct {
	Op    string    `json:"op"`
	ID    *absID    `json:"id"`
	Under *absID    `json:"under"`
	Rn    string    `json:"rn"`
	Rcd   bool      `json:"rcd"`
	Q     *absQuery `json:"q"`
	Rs    string    `json:"rs"`
	C     *absCut   `json:"c"`
	Hit   bool      `json:"hit"`
}

type obsIn struct {
	Route string   `json:"route"`
	Q     absQuery `json:"q"`
	Res   absRes   `json:"res"`
}

type stepIn struct {
	Op    opIn              `json:"op"`
	Pos   map[string]absID  `json:"pos"`
	Fail  map[string]absID  `json:"fail"`
	Cuts  []absCut          `json:"cuts"`
	Chash map[string]absCut `json:"chash"`
	Obs   []obsIn           `json:"obs"`
}

type behaviourIn struct {
	Name  string   `json:"name"`
	Kdom  []absID  `json:"kdom"`
	Kfun  []int    `json:"kfun"`
	Steps []stepIn `json:"steps"`
}

type replayInput struct {
	Tables     tables        `json:"tables"`
	Behaviours []behaviourIn `json:"behaviours"`
	Families   []string      `json:"families"`
	OnlyFamily string        `json:"onlyFamily"`
	Variant    *int          `json:"variant"`
	// IndexOffset re-creates the concretisation of a recorded case (names, prefixes and
	// request shapes are drawn from VERIF_SEED and the behaviour's index)
	IndexOffset int `json:"indexOffset"`
}

// terminal stands where the resolver would be.
type terminal struct {
	calls int
	ask   func(req *dns.Msg) *dns.Msg // nil: probe mode (uncacheable TC reply)
}

func (t *terminal) Name() string { return "verif-c03-tail" }

func (t *terminal) ServeDNS(ctx context.Context, ch *middleware.Chain) {
	_, req := ch.Materialize(ctx)
	if req == nil {
		return
	}
	t.calls++
	if t.ask != nil {
		if resp := t.ask(req); resp != nil {
			_ = ch.Writer.WriteMsg(resp)
			ch.Cancel()
			return
		}
	}
	// A truncated reply passes through cache.ResponseWriter.WriteMsg without
	// being stored or recorded as a failure: probes leave no trace.
	m := new(dns.Msg)
	m.SetReply(req)
	m.Truncated = true
	_ = ch.Writer.WriteMsg(m)
	ch.Cancel()
}

type outcome struct {
	kind  string // pos | cut | fail | miss | other | none
	uids  []uint32
	rcode int
	text  string
}

type run struct {
	res  *vh.Result
	in   *replayInput
	beh  *behaviourIn
	bi   int
	u    *universe
	rng  *rand.Rand
	c    *mcache.Cache
	e    *edns.EDNS
	st   *mcache.Store
	term *terminal
	qy   middleware.Queryer

	uids       map[uint32]*ident
	nextUID    uint32
	failsEver  []ident
	history    []string
	kinv       map[int][]absID // model key -> adversarial preimages mapped to it
	inDom      map[string]int  // preimage -> model key
	prev       map[string]outcome
	aliasNames map[string]string // chase combo -> alias owner name
	dead       bool              // behaviour abandoned after a divergence
	variant    int
}

func preKey(p absID) string {
	return fmt.Sprintf("%s|%s|%s|%v|%s", p.Name, p.Type, p.Class, p.CD, p.Scope)
}

func (r *run) fold(name string) string { return r.in.Tables.FoldOf[name] }

// norm: normal form of a scope name (identity on names that already are one)
func (r *run) norm(s string) string {
	if v, ok := r.in.Tables.NormOf[s]; ok {
		return v
	}
	return s
}

func (r *run) preOfID(id absID) absID {
	return absID{Name: r.fold(id.Name), Type: id.Type, Class: id.Class, CD: id.CD, Scope: r.norm(id.Scope)}
}

// siblings: the adversarial preimages the model maps to the same key as p
// (p itself included); a preimage outside the adversarial domain is alone.
func (r *run) siblings(p absID) []absID {
	if k, ok := r.inDom[preKey(p)]; ok {
		return r.kinv[k]
	}
	return []absID{p}
}

func (r *run) question(name, ty, cl string) dns.Question {
	return dns.Question{Name: r.u.name[name], Qtype: r.u.types[ty], Qclass: r.u.classes[cl]}
}

// realKey is the 64-bit key the code computes for an answer preimage.
func (r *run) realKey(p absID) uint64 {
	return mcache.CacheKey{Question: r.question(p.Name, p.Type, p.Class), CD: p.CD, Scope: r.u.scope[p.Scope]}.Hash()
}

func (r *run) newUID(id ident) uint32 {
	r.nextUID++
	uid := r.nextUID
	cp := id
	r.uids[uid] = &cp
	return uid
}

// answerFor builds the response the cache is handed for identity id: the
// question as spelled, the CD header bit, one RR whose rdata carries uid.
func (r *run) answerFor(name string, qtype, qclass uint16, cdHeader bool, uid uint32) *dns.Msg {
	m := new(dns.Msg)
	m.Question = []dns.Question{{Name: name, Qtype: qtype, Qclass: qclass}}
	m.Response = true
	m.RecursionDesired = true
	m.RecursionAvailable = true
	m.CheckingDisabled = cdHeader
	m.Answer = []dns.RR{provenanceRR(name, qtype, qclass, uid)}
	return m
}

func (r *run) identOf(id absID, gen int) ident {
	name := r.u.name[id.Name]
	sc := normScope(r.u.scope[id.Scope])
	return ident{wireName: r.u.wire[id.Name], name: name, qtype: r.u.types[id.Type], qclass: r.u.classes[id.Class],
		cd: id.CD, scope: sc, kind: "pos",
		abs: absRes{Kind: "pos", Name: id.Name, Type: id.Type, Class: id.Class, CD: id.CD, Scope: r.norm(id.Scope), Gen: gen}}
}

// write files resp (an answer produced for identity id) under every real key of keys.
func (r *run) write(keys []absID, resp *dns.Msg, rawScope netip.Prefix) {
	for _, p := range keys {
		k := r.realKey(p)
		if rawScope.IsValid() {
			r.st.SetFromResponseScoped(k, resp.Copy(), rawScope, time.Time{}, 0)
		} else {
			r.st.SetFromResponseWithKey(k, resp.Copy(), time.Time{}, 0)
		}
	}
}

func (r *run) note(format string, a ...any) { r.history = append(r.history, fmt.Sprintf(format, a...)) }

// ---------------------------------------------------------------------------
// requests

func (r *run) buildQuery(name string, qtype, qclass uint16, cd bool, client netip.Prefix, opt, do bool) *dns.Msg {
	q := new(dns.Msg)
	q.Id = uint16(r.rng.Intn(65536))
	q.RecursionDesired = true
	q.CheckingDisabled = cd
	q.Question = []dns.Question{{Name: name, Qtype: qtype, Qclass: qclass}}
	if client.IsValid() || opt {
		q.SetEdns0(1232, do)
	}
	if client.IsValid() {
		sub := &dns.EDNS0_SUBNET{Code: dns.EDNS0SUBNET, SourceNetmask: uint8(client.Bits())}
		if client.Addr().Is4() {
			sub.Family = 1
			a := client.Addr().As4()
			sub.Address = a[:]
		} else {
			sub.Family = 2
			a := client.Addr().As16()
			sub.Address = a[:]
		}
		o := q.IsEdns0()
		o.Option = append(o.Option, sub)
	}
	return q
}

type served struct {
	reply *dns.Msg
	term  int
	wire  map[string]int64 // byte-path counters that moved
}

func counterDelta(a, b map[string]int64) map[string]int64 {
	d := map[string]int64{}
	for k, v := range b {
		if v != a[k] {
			d[k] = v - a[k]
		}
	}
	return d
}

func (r *run) serve(born string, q *dns.Msg) (served, error) {
	w := mock.NewWriter("udp", r.u.remote)
	ch := middleware.NewChain([]middleware.Handler{r.e, r.c, r.term})
	before := r.term.calls
	cb := mcache.VerifC03WireCounters()
	switch born {
	case "msg":
		ch.Reset(w, q.Copy())
	case "wire":
		raw, err := q.Pack()
		if err != nil {
			return served{}, fmt.Errorf("pack: %v", err)
		}
		req := new(middleware.Request)
		if !req.ParseWire(raw, time.Now(), nil) {
			return served{}, fmt.Errorf("wire-born request refused by ParseWire: %v", q.Question[0])
		}
		ch.ResetWire(w, req)
	default:
		return served{}, fmt.Errorf("bad born %q", born)
	}
	ch.AllowDirectPack()
	ch.Next(context.Background())
	ch.Finish()
	s := served{term: r.term.calls - before, wire: counterDelta(cb, mcache.VerifC03WireCounters())}
	if w.Written() {
		s.reply = w.Msg()
	}
	return s, nil
}

func (r *run) classify(reply *dns.Msg, term int) outcome {
	if reply == nil {
		return outcome{kind: "none"}
	}
	o := outcome{rcode: reply.Rcode, text: strings.ReplaceAll(reply.String(), "\n", " | ")}
	if len(o.text) > 600 {
		o.text = o.text[:600]
	}
	for _, rr := range reply.Answer {
		if rr.Header().Rrtype == dns.TypeCNAME {
			continue
		}
		if uid, ok := readProvenance(rr); ok {
			o.uids = append(o.uids, uid)
		}
	}
	switch {
	case len(o.uids) > 0:
		o.kind = "pos"
	case reply.Rcode == dns.RcodeNameError:
		for _, rr := range reply.Ns {
			if soa, ok := rr.(*dns.SOA); ok {
				o.uids = append(o.uids, soa.Serial)
			}
		}
		if len(o.uids) > 0 {
			o.kind = "cut"
		} else {
			o.kind = "other"
		}
	case term > 0:
		o.kind = "miss"
	case reply.Rcode == dns.RcodeServerFailure:
		o.kind = "fail"
	default:
		o.kind = "other"
	}
	return o
}

// ---------------------------------------------------------------------------
// the property predicate on one reply

func (r *run) dimsPos(id *ident, x absQuery) []string {
	var d []string
	if foldWire(id.wireName) != foldWire(r.u.wire[x.Name]) {
		d = append(d, "name")
	}
	if id.qtype != r.u.types[x.Type] {
		d = append(d, "type")
	}
	if id.qclass != r.u.classes[x.Class] {
		d = append(d, "class")
	}
	if id.cd != x.CD {
		d = append(d, "cd")
	}
	if !r.u.clientInside(x.Client, id.scope) {
		d = append(d, "scope")
	}
	return d
}

func (r *run) dimsCut(id *ident, x absQuery) []string {
	var d []string
	if !isUnder(r.u.wire[x.Name], id.wireName) {
		d = append(d, "name")
	}
	if id.qclass != r.u.classes[x.Class] {
		d = append(d, "class")
	}
	if x.CD {
		d = append(d, "cd")
	}
	if x.Client != "none" {
		d = append(d, "scope")
	}
	return d
}

// judge evaluates C03 on the reply to query x served over route.
// strictClass=false tolerates class IN on a message-path alias chase hop (the
// decoded chase asks its sub-question in class IN by construction).
func (r *run) judge(route string, x absQuery, o outcome, detail string) {
	violate := func(kind string, dims []string, what string) {
		key := fmt.Sprintf("exact-audience/%s/%s/%s", kind, strings.Join(dims, "+"), r.u.family)
		r.res.Violate(key, fmt.Sprintf("[%s %s] route %s: query %s got %s", r.beh.Name, r.u.family, route, r.describeQuery(x), what),
			r.replayObj(route, x, o, detail))
	}
	switch o.kind {
	case "pos", "cut":
		for _, uid := range o.uids {
			id := r.uids[uid]
			if id == nil {
				r.res.Skip("%s: reply carries unknown provenance uid %d (%s)", r.beh.Name, uid, o.text)
				continue
			}
			var dims []string
			if id.kind == "cut" {
				dims = r.dimsCut(id, x)
			} else {
				dims = r.dimsPos(id, x)
			}
			if len(dims) > 0 {
				violate(id.kind, dims, fmt.Sprintf("a reply built from an entry stored for %s (differs in %s)", id, strings.Join(dims, ",")))
			}
		}
	case "fail":
		// The synthesized SERVFAIL does not say which failure entry produced it: the reply is
		// acceptable iff SOME recorded failure has this question and audience.  Otherwise the
		// closest recorded identity names the violated dimension (ties broken in a fixed order so
		// that the digest is stable).
		rank := map[string]int{"name": 0, "scope": 1, "cd": 2, "class": 3, "type": 4}
		less := func(a, b []string) bool {
			if len(a) != len(b) {
				return len(a) < len(b)
			}
			for i := range a {
				if rank[a[i]] != rank[b[i]] {
					return rank[a[i]] < rank[b[i]]
				}
			}
			return false
		}
		var best []string
		for i := range r.failsEver {
			d := r.dimsPos(&r.failsEver[i], x)
			if len(d) == 0 {
				return
			}
			sort.Slice(d, func(i, j int) bool { return rank[d[i]] < rank[d[j]] })
			if best == nil || less(d, best) {
				best = d
			}
		}
		if best == nil {
			best = []string{"nothing-recorded"}
		}
		violate("fail", best, fmt.Sprintf("a cached-failure reply although no failure was ever recorded for this question and audience (closest recorded differs in %s)", strings.Join(best, ",")))
	}
}

func (r *run) describeQuery(x absQuery) string {
	cp := "no-ECS"
	if p := r.u.client[x.Client]; p.IsValid() {
		cp = "ECS " + p.String()
	}
	return fmt.Sprintf("{%q %s %s cd=%v %s}", r.u.name[x.Name], dns.Type(r.u.types[x.Type]), dns.Class(r.u.classes[x.Class]), x.CD, cp)
}

func (r *run) replayObj(route string, x absQuery, o outcome, detail string) any {
	names := map[string]string{}
	for k, v := range r.u.name {
		names[k] = strconv.QuoteToASCII(v)
	}
	return map[string]any{
		"behaviour": r.beh, "behaviourIndex": r.bi, "family": r.u.family, "variant": r.variant, "seed": vh.Seed(),
		"names": names, "history": r.history, "route": route, "query": x, "queryConcrete": r.describeQuery(x),
		"outcome": o.kind, "reply": o.text, "detail": detail,
	}
}

// ---------------------------------------------------------------------------
// probing

func probeID(route string, x absQuery) string {
	return fmt.Sprintf("%s|%s|%s|%s|%v|%s", route, x.Name, x.Type, x.Class, x.CD, x.Client)
}

// relevant: the query computes at least one key from an adversarial preimage
// (the spec's relq); every other query only ever computes keys under which
// nothing was filed.  Those are probed at the last step of a behaviour only.
func (r *run) relevant(x absQuery) bool {
	t := &r.in.Tables
	scopes := map[string]bool{"sh": true, t.OwnScope[x.Client]: true}
	for _, s := range t.ProbesOf[x.Client] {
		scopes[s] = true
	}
	for ns := range scopes {
		if r.inAdv(absID{Name: r.fold(x.Name), Type: x.Type, Class: x.Class, CD: x.CD, Scope: ns}) {
			return true
		}
	}
	for _, sf := range t.SuffixesOf[r.fold(x.Name)] {
		if r.inAdv(absID{Name: sf, Type: "T0", Class: x.Class, CD: false, Scope: "sh"}) {
			return true
		}
	}
	return false
}

func (r *run) expected(st *stepIn) map[string]absRes {
	m := map[string]absRes{}
	for _, o := range st.Obs {
		m[probeID(o.Route, o.Q)] = o.Res
	}
	return m
}

// compare books a model/code difference that broke no predicate.
func (r *run) compare(route string, x absQuery, o outcome, exp absRes, hasExp bool) {
	want := "miss"
	if hasExp {
		want = exp.Kind
	}
	got := o.kind
	same := want == got
	if same && got == "pos" {
		same = false
		for _, uid := range o.uids {
			if id := r.uids[uid]; id != nil && id.abs == exp {
				same = true
			}
		}
	}
	if same && got == "cut" {
		same = false
		for _, uid := range o.uids {
			if id := r.uids[uid]; id != nil && id.abs.Name == exp.Name && id.abs.Class == exp.Class {
				same = true
			}
		}
	}
	if same {
		return
	}
	if !r.u.canonical && want != "miss" && got == "miss" && (route == "wire" || route == "chase") {
		// Presentation text with raw bytes >= 0x80 is keyed as spelled, the wire form of the
		// same name as \DDD: the two spellings do not meet in the cache (a miss, never a
		// wrong hit).  Counted, not drift.
		r.res.Count("noncanonical_keyed_apart", 1)
		return
	}
	r.res.Count("drift_"+r.u.family, 1)
	r.res.DriftNote("[%s %s] route %s query %s: model expects %s %+v, code gave %s %v", r.beh.Name, r.u.family, route,
		r.describeQuery(x), want, exp, got, r.describeUIDs(o.uids))
}

func (r *run) describeUIDs(uids []uint32) string {
	var s []string
	for _, u := range uids {
		if id := r.uids[u]; id != nil {
			s = append(s, id.String())
		}
	}
	return strings.Join(s, ";")
}

// probeAll exercises every route after a step.
func (r *run) probeAll(st *stepIn, full bool) map[string]outcome {
	exp := r.expected(st)
	now := map[string]outcome{}
	for _, nm := range absQNames {
		for _, ty := range absTypes {
			for _, cl := range absClasses {
				for _, cd := range []bool{false, true} {
					for _, cli := range absClients {
						x := absQuery{Name: nm, Type: ty, Class: cl, CD: cd, Client: cli}
						if !full && !r.relevant(x) {
							continue
						}
						for _, born := range []string{"msg", "wire"} {
							q := r.buildQuery(r.u.name[nm], r.u.types[ty], r.u.classes[cl], cd, r.u.client[cli],
								r.rng.Intn(2) == 0, r.rng.Intn(2) == 0)
							s, err := r.serve(born, q)
							if err != nil {
								r.res.Skip("%s: %v", r.beh.Name, err)
								continue
							}
							o := r.classify(s.reply, s.term)
							r.res.Case("")
							r.res.Count("probes_"+born, 1)
							r.res.Count("outcome_"+born+"_"+o.kind, 1)
							for k := range s.wire {
								r.res.Count("wire_served_"+k, 1)
							}
							r.judge(born, x, o, "")
							e, ok := exp[probeID(born, x)]
							r.compare(born, x, o, e, ok)
							now[probeID(born, x)] = o
						}
						if cli == "none" {
							r.probeGet(x, exp, now)
						}
					}
					if nm != "s" && (full || r.inAdv(absID{Name: r.fold(nm), Type: ty, Class: cl, CD: cd, Scope: "sh"})) {
						r.probeChase(absQuery{Name: nm, Type: ty, Class: cl, CD: cd, Client: "none"}, exp)
					}
				}
			}
		}
	}
	return now
}

func (r *run) inAdv(p absID) bool { _, ok := r.inDom[preKey(p)]; return ok }

// probeGet: the resolver's DS/DNSKEY sub-query route (Store.GetWithContext).
func (r *run) probeGet(x absQuery, exp map[string]absRes, now map[string]outcome) {
	q := r.buildQuery(r.u.name[x.Name], r.u.types[x.Type], r.u.classes[x.Class], x.CD, netip.Prefix{}, true, true)
	var cs middleware.ContextStore = r.st
	msg, ok := cs.GetWithContext(context.Background(), q)
	var o outcome
	if !ok || msg == nil {
		o = outcome{kind: "miss"}
	} else {
		o = r.classify(msg, 0)
	}
	r.res.Case("")
	r.res.Count("probes_get", 1)
	r.res.Count("outcome_get_"+o.kind, 1)
	r.judge("get", x, o, "")
	e, has := exp[probeID("get", x)]
	r.compare("get", x, o, e, has)
	now[probeID("get", x)] = o
}

// probeChase: an alias entry al -> CNAME target(x.Name) is cached under its own
// key; a wire-born query for al makes collectWireChase look the target up under
// KeyWire(target, qtype, qclass, cd) (route chaseHop); a decline falls to the
// decoded chase through the real Queryer sub-pipeline.
func (r *run) probeChase(x absQuery, exp map[string]absRes) {
	qt := r.u.types[x.Type]
	if qt == dns.TypeDS || qt == dns.TypeCNAME {
		return
	}
	combo := fmt.Sprintf("%s|%s|%s|%v", x.Name, x.Type, x.Class, x.CD)
	al, ok := r.aliasNames[combo]
	qc := r.u.classes[x.Class]
	if !ok {
		al = fmt.Sprintf("al%d.%s", len(r.aliasNames), r.u.zone)
		r.aliasNames[combo] = al
		m := new(dns.Msg)
		m.Question = []dns.Question{{Name: al, Qtype: qt, Qclass: qc}}
		m.Response, m.RecursionDesired, m.RecursionAvailable, m.CheckingDisabled = true, true, true, x.CD
		m.Answer = []dns.RR{&dns.CNAME{Hdr: dns.RR_Header{Name: al, Rrtype: dns.TypeCNAME, Class: qc, Ttl: 300}, Target: r.u.name[x.Name]}}
		r.st.SetFromResponseWithKey(mcache.CacheKey{Question: m.Question[0], CD: x.CD}.Hash(), m, time.Time{}, 0)
	}
	q := r.buildQuery(al, qt, qc, x.CD, netip.Prefix{}, r.rng.Intn(2) == 0, r.rng.Intn(2) == 0)
	s, err := r.serve("wire", q)
	if err != nil {
		r.res.Skip("%s: chase: %v", r.beh.Name, err)
		return
	}
	r.res.Case("")
	r.res.Count("probes_chase", 1)
	byWire := s.wire["chase"] > 0
	if byWire {
		r.res.Count("wire_served_chase", 1)
	}
	o := outcome{kind: "miss"}
	if s.reply != nil {
		o.text = strings.ReplaceAll(s.reply.String(), "\n", " | ")
		o.rcode = s.reply.Rcode
		for _, rr := range s.reply.Answer {
			if rr.Header().Rrtype == dns.TypeCNAME {
				continue
			}
			if uid, ok := readProvenance(rr); ok {
				o.uids = append(o.uids, uid)
				o.kind = "pos"
			}
		}
		if o.kind == "miss" && s.reply.Rcode == dns.RcodeNameError {
			for _, rr := range s.reply.Ns {
				if soa, ok := rr.(*dns.SOA); ok {
					o.uids = append(o.uids, soa.Serial)
					o.kind = "cut"
				}
			}
		}
		if o.kind == "miss" && s.reply.Rcode == dns.RcodeServerFailure && s.term == 0 {
			o.kind = "fail"
		}
	}
	r.res.Count("outcome_chase_"+o.kind, 1)
	// the hop question is (target, qtype, qclass, cd, shared audience)
	if o.kind == "pos" || o.kind == "cut" {
		for _, uid := range o.uids {
			id := r.uids[uid]
			if id == nil {
				continue
			}
			var dims []string
			if id.kind == "cut" {
				dims = r.dimsCut(id, x)
			} else {
				dims = r.dimsPos(id, x)
			}
			if !byWire {
				// the decoded chase builds its sub-question with SetQuestion, i.e. in class IN
				var kept []string
				for _, d := range dims {
					if d == "class" && id.qclass == dns.ClassINET {
						r.res.Count("msg_chase_asks_class_IN", 1)
						continue
					}
					kept = append(kept, d)
				}
				dims = kept
			}
			if len(dims) > 0 {
				key := fmt.Sprintf("exact-audience/%s/%s/%s", id.kind, strings.Join(dims, "+"), r.u.family)
				r.res.Violate(key, fmt.Sprintf("[%s %s] alias chase (byWire=%v): hop %s was completed from an entry stored for %s (differs in %s)",
					r.beh.Name, r.u.family, byWire, r.describeQuery(x), id, strings.Join(dims, ",")),
					r.replayObj("chase", x, o, "alias="+al))
			}
		}
	}
	e, has := exp[probeID("msg", x)]
	if qc != dns.ClassINET && !byWire {
		return // decoded chase asked class IN: the model's verdict for this class does not apply
	}
	if has && e.Kind == "fail" {
		return // a failed hop yields an alias-only or SERVFAIL reply; nothing to compare
	}
	r.compare("chase", x, o, e, has)
}

// ---------------------------------------------------------------------------
// steps

func (r *run) cutProof(name string, qclass uint16, uid uint32) (*dns.Msg, string) {
	zone := r.u.zone
	sig := func(owner string, covered uint16) *dns.RRSIG {
		return &dns.RRSIG{
			Hdr:         dns.RR_Header{Name: owner, Rrtype: dns.TypeRRSIG, Class: qclass, Ttl: 300},
			TypeCovered: covered, Algorithm: dns.ECDSAP256SHA256, Labels: 2, OrigTtl: 300,
			Expiration: uint32(time.Now().Add(24 * time.Hour).Unix()), Inception: uint32(time.Now().Add(-time.Hour).Unix()),
			KeyTag: 4242, SignerName: zone, Signature: "Tm90QVJlYWxTaWduYXR1cmVCdXRWYWxpZEJhc2U2NA==",
		}
	}
	proof := new(dns.Msg)
	proof.Question = []dns.Question{{Name: name, Qtype: dns.TypeA, Qclass: qclass}}
	proof.Response = true
	proof.Rcode = dns.RcodeNameError
	proof.Ns = []dns.RR{
		&dns.SOA{Hdr: dns.RR_Header{Name: zone, Rrtype: dns.TypeSOA, Class: qclass, Ttl: 300}, Ns: "ns." + zone,
			Mbox: "hostmaster." + zone, Serial: uid, Refresh: 3600, Retry: 600, Expire: 86400, Minttl: 300},
		sig(zone, dns.TypeSOA),
		&dns.NSEC{Hdr: dns.RR_Header{Name: "0." + zone, Rrtype: dns.TypeNSEC, Class: qclass, Ttl: 300},
			NextDomain: "zzzz." + zone, TypeBitMap: []uint16{dns.TypeA, dns.TypeRRSIG, dns.TypeNSEC}},
		sig("0."+zone, dns.TypeNSEC),
	}
	return proof, zone
}

func (r *run) failKey(p absID) mcache.FailureQuestionKey {
	return mcache.FailureQuestionKey{Question: r.question(p.Name, p.Type, p.Class), CD: p.CD, Scope: r.u.scope[p.Scope]}
}

func (r *run) apply(si int, st *stepIn, prevStep *stepIn) error {
	op := st.Op
	switch op.Op {
	case "store", "forge":
		id := *op.ID
		uid := r.newUID(r.identOf(id, 0))
		resp := r.answerFor(r.u.name[id.Name], r.u.types[id.Type], r.u.classes[id.Class], id.CD, uid)
		raw := r.u.scope[id.Scope]
		var keys []absID
		if op.Op == "store" {
			// the key the writer's caller computes itself (ResponseWriter.WriteMsg does the same)
			own := mcache.CacheKey{Question: resp.Question[0], CD: id.CD, Scope: raw}.Hash()
			if raw.IsValid() {
				r.st.SetFromResponseScoped(own, resp.Copy(), raw, time.Time{}, 0)
			} else {
				r.st.SetFromResponseWithKey(own, resp.Copy(), time.Time{}, 0)
			}
			keys = r.others(r.preOfID(id))
		} else {
			keys = r.siblings(*op.Under)
		}
		r.write(keys, resp, raw)
		r.note("%s %v -> uid %d %s", op.Op, id, uid, r.uids[uid])
	case "refresh":
		for _, p := range r.siblings(*op.Under) {
			k := r.realKey(p)
			old, ok := r.st.LookupByKey(k)
			if !ok {
				r.res.DriftNote("[%s] refresh: model has an entry under %v, code has none", r.beh.Name, p)
				r.dead = true
				return nil
			}
			oq, ocd, _ := old.VerifC03EntryIdentity()
			_ = oq
			prevEntry := prevStep.Pos[strconv.Itoa(r.inDom[preKey(*op.Under)])]
			// the refresh was issued for the identity of the entry it replaces
			nid := absID{Name: op.Rn, Type: prevEntry.Type, Class: prevEntry.Class, CD: prevEntry.CD, Scope: prevEntry.Scope}
			if ocd != prevEntry.CD {
				r.res.DriftNote("[%s] refresh: entry under %v has cd=%v, model cd=%v", r.beh.Name, p, ocd, prevEntry.CD)
			}
			uid := r.newUID(r.identOf(nid, 1))
			// the response header's CD bit is whatever the upstream path left there
			resp := r.answerFor(r.u.name[op.Rn], r.u.types[prevEntry.Type], r.u.classes[prevEntry.Class], op.Rcd, uid)
			if !r.st.ReplaceIfCurrent(k, old, resp, time.Time{}, 0) {
				r.res.DriftNote("[%s] refresh: ReplaceIfCurrent declined under %v", r.beh.Name, p)
			}
			r.note("refresh under %v rn=%s respCD=%v -> uid %d %s", p, op.Rn, op.Rcd, uid, r.uids[uid])
		}
	case "ask":
		x := *op.Q
		born := []string{"msg", "wire"}[r.rng.Intn(2)]
		rs := op.Rs
		var stored *dns.Msg
		var storedScope netip.Prefix
		r.term.ask = func(req *dns.Msg) *dns.Msg {
			if len(req.Question) != 1 || !strings.EqualFold(req.Question[0].Name, r.u.name[x.Name]) {
				return nil // a sub-query of the chase, not the client's question
			}
			sc := normScope(r.u.scope[rs])
			id := ident{wireName: r.u.wire[x.Name], name: req.Question[0].Name, qtype: req.Question[0].Qtype,
				qclass: req.Question[0].Qclass, cd: req.CheckingDisabled, scope: sc, kind: "pos",
				abs: absRes{Kind: "pos", Name: x.Name, Type: x.Type, Class: x.Class, CD: x.CD, Scope: rs, Gen: 0}}
			uid := r.newUID(id)
			m := r.answerFor(req.Question[0].Name, req.Question[0].Qtype, req.Question[0].Qclass, req.CheckingDisabled, uid)
			m.Id = req.Id
			if sc.IsValid() {
				o := new(dns.OPT)
				o.Hdr.Name, o.Hdr.Rrtype = ".", dns.TypeOPT
				o.SetUDPSize(1232)
				sub := &dns.EDNS0_SUBNET{Code: dns.EDNS0SUBNET, SourceScope: uint8(sc.Bits())}
				cp := r.u.client[x.Client]
				sub.SourceNetmask = uint8(cp.Bits())
				if cp.Addr().Is4() {
					sub.Family = 1
					a := cp.Addr().As4()
					sub.Address = a[:]
				} else {
					sub.Family = 2
					a := cp.Addr().As16()
					sub.Address = a[:]
				}
				o.Option = []dns.EDNS0{sub}
				m.Extra = []dns.RR{o}
			}
			stored, storedScope = m, sc
			r.note("ask: downstream answered %v with uid %d scope %v", req.Question[0], uid, sc)
			return m
		}
		q := r.buildQuery(r.u.name[x.Name], r.u.types[x.Type], r.u.classes[x.Class], x.CD, r.u.client[x.Client], true, r.rng.Intn(2) == 0)
		s, err := r.serve(born, q)
		r.term.ask = nil
		if err != nil {
			return err
		}
		o := r.classify(s.reply, 0)
		r.res.Count("asks", 1)
		r.judge(born, x, o, "ask")
		if (stored != nil) == op.Hit {
			r.res.Count("drift_"+r.u.family, 1)
			r.res.DriftNote("[%s %s] ask %s: model hit=%v, code reached downstream=%v", r.beh.Name, r.u.family, r.describeQuery(x), op.Hit, stored != nil)
			r.dead = true
			return nil
		}
		if stored != nil {
			r.write(r.others(absID{Name: r.fold(x.Name), Type: x.Type, Class: x.Class, CD: x.CD, Scope: rs}), stored, storedScope)
		}
	case "recfail", "forgefail":
		id := *op.ID
		f := r.identOf(id, 0)
		f.kind = "fail"
		r.failsEver = append(r.failsEver, f)
		idKey := mcache.FailureQuestionKey{Question: r.question(id.Name, id.Type, id.Class), CD: id.CD, Scope: r.u.scope[id.Scope]}
		var keys []absID
		if op.Op == "recfail" {
			req := r.buildQuery(r.u.name[id.Name], r.u.types[id.Type], r.u.classes[id.Class], id.CD, netip.Prefix{}, false, false)
			r.st.RecordFailure(req, r.u.scope[id.Scope], mcache.FailureProvenance("verif"), nil)
			keys = r.others(r.preOfID(id))
		} else {
			keys = r.siblings(*op.Under)
		}
		for _, p := range keys {
			r.st.VerifC03ForgeFailure(r.failKey(p), idKey)
		}
		r.note("%s %v", op.Op, id)
	case "reccut", "forgecut":
		c := *op.C
		name, qclass := r.u.name[c.Name], r.u.classes[c.Class]
		var keys []absID
		if op.Op == "reccut" {
			id := ident{wireName: r.u.wire[c.Name], name: name, qclass: qclass, kind: "cut",
				abs: absRes{Kind: "cut", Name: c.Name, Class: c.Class}}
			uid := r.newUID(id)
			proof, zone := r.cutProof(name, qclass, uid)
			if !r.st.RecordNXDomainCut(proof, name, zone, time.Time{}) {
				return fmt.Errorf("RecordNXDomainCut refused the cut %q class %d", name, qclass)
			}
			if !r.st.VerifC03CutWireServable(name, qclass) {
				r.res.Count("cut_without_wire_template", 1)
			}
			keys = r.others(absID{Name: c.Name, Type: "T0", Class: c.Class, Scope: "sh"})
			r.note("reccut %v uid %d", c, uid)
		} else {
			keys = r.siblings(*op.Under)
			r.note("forgecut %v under %v", c, *op.Under)
		}
		for _, p := range keys {
			if !r.st.VerifC03ForgeCut(r.u.name[p.Name], r.u.classes[p.Class], name, qclass) {
				r.res.DriftNote("[%s] forgecut: cut %v is not recorded in the code", r.beh.Name, c)
			}
		}
	case "purge":
		pq := *op.Q
		q := r.question(pq.Name, pq.Type, pq.Class)
		// purge route under a collision (aud03): the slot of the purged question's own shared key
		// holds, in the model, the entry of a DIFFERENT question (staged for real under that real
		// key).  "... purge - and even when two different questions collide on the 64-bit cache
		// key, in which case the entry behaves as a miss": it must still be there afterwards.
		type victim struct {
			own absID
			ent absID
		}
		var victims []victim
		for _, cd := range []bool{false, true} {
			own := absID{Name: r.fold(pq.Name), Type: pq.Type, Class: pq.Class, CD: cd, Scope: "sh"}
			k, in := r.inDom[preKey(own)]
			if !in {
				continue
			}
			ent, held := prevStep.Pos[strconv.Itoa(k)]
			if !held || (r.fold(ent.Name) == r.fold(pq.Name) && ent.Type == pq.Type && ent.Class == pq.Class) {
				continue
			}
			if _, there := r.st.LookupByKey(r.realKey(own)); there {
				victims = append(victims, victim{own, ent})
			}
		}
		r.c.Purge(q)
		r.note("purge %v", q)
		for _, v := range victims {
			r.res.Count("purge_collision_victims", 1)
			if _, there := r.st.LookupByKey(r.realKey(v.own)); !there {
				var dims []string
				if r.fold(v.ent.Name) != r.fold(pq.Name) {
					dims = append(dims, "name")
				}
				if v.ent.Type != pq.Type {
					dims = append(dims, "type")
				}
				if v.ent.Class != pq.Class {
					dims = append(dims, "class")
				}
				key := "purge-collision/" + strings.Join(dims, "+") // independent of the name family
				r.res.Violate(key, fmt.Sprintf("[%s %s] Purge(%q %s %s) evicted the entry of a different question (%q %s %s cd=%v scope=%s) "+
					"that collides with it on the 64-bit key (cd=%v slot): the colliding entry did not behave as a miss on the purge route",
					r.beh.Name, r.u.family, q.Name, dns.Type(q.Qtype), dns.Class(q.Qclass),
					r.u.name[v.ent.Name], dns.Type(r.u.types[v.ent.Type]), dns.Class(r.u.classes[v.ent.Class]), v.ent.CD, v.ent.Scope, v.own.CD),
					map[string]any{"behaviour": r.beh, "family": r.u.family, "variant": r.variant, "behaviourIndex": r.bi, "kind": "purge-collision"})
			}
		}
		// An emulated collision: the slot the real purge emptied by key is, in the model, the
		// same slot as its siblings' -- drop those copies (never the purged question's own keys).
		own := map[string]bool{}
		for _, cd := range []bool{false, true} {
			own[preKey(absID{Name: r.fold(pq.Name), Type: pq.Type, Class: pq.Class, CD: cd, Scope: "sh"})] = true
		}
		for _, cd := range []bool{false, true} {
			p := absID{Name: r.fold(pq.Name), Type: pq.Type, Class: pq.Class, CD: cd, Scope: "sh"}
			k, in := r.inDom[preKey(p)]
			if !in {
				continue
			}
			if _, still := st.Pos[strconv.Itoa(k)]; still {
				continue
			}
			for _, sib := range r.kinv[k] {
				if !own[preKey(sib)] && sib.Type != "T0" {
					r.st.VerifC03DropKey(r.realKey(sib))
				}
			}
		}
		for ks := range prevStep.Chash {
			if _, still := st.Chash[ks]; still {
				continue
			}
			k, _ := strconv.Atoi(ks)
			for _, sib := range r.kinv[k] {
				if sib.Type == "T0" && !(sib.Name == prevStep.Chash[ks].Name && sib.Class == prevStep.Chash[ks].Class) {
					r.st.VerifC03DropCutHash(r.u.name[sib.Name], r.u.classes[sib.Class])
				}
			}
		}
	default:
		return fmt.Errorf("unknown op %q", op.Op)
	}
	return nil
}

// others: the siblings of p except p itself.
func (r *run) others(p absID) []absID {
	var out []absID
	for _, s := range r.siblings(p) {
		if preKey(s) != preKey(p) {
			out = append(out, s)
		}
	}
	return out
}

// purgeChecks: the purge clauses of C03 on what the code really did.
func (r *run) purgeChecks(st *stepIn, before, after map[string]outcome) {
	pq := *st.Op.Q
	exp := r.expected(st)
	for id, was := range before {
		parts := strings.Split(id, "|")
		x := absQuery{Name: parts[1], Type: parts[2], Class: parts[3], CD: parts[4] == "true", Client: parts[5]}
		now, probed := after[id]
		if !probed {
			continue
		}
		sameQ := foldWire(r.u.wire[x.Name]) == foldWire(r.u.wire[pq.Name]) && x.Type == pq.Type && x.Class == pq.Class
		if sameQ && (now.kind == "pos" || now.kind == "fail" || now.kind == "cut") {
			key := fmt.Sprintf("purge-incomplete/%s/%s", now.kind, r.u.family)
			r.res.Violate(key, fmt.Sprintf("[%s %s] after Purge(%q %s %s) route %s still answers %s from cache (%s %s)", r.beh.Name, r.u.family,
				r.u.name[pq.Name], dns.Type(r.u.types[pq.Type]), dns.Class(r.u.classes[pq.Class]), parts[0], r.describeQuery(x), now.kind, r.describeUIDs(now.uids)),
				r.replayObj(parts[0], x, now, "purge"))
		}
		if !sameQ && was.kind == "pos" && now.kind == "miss" {
			// removed although it is another question's entry: legitimate only for the entry
			// sitting under the purged question's own two shared keys (model says so)
			if e, ok := exp[id]; ok && e.Kind == "pos" {
				var dims []string
				for _, uid := range was.uids {
					if idn := r.uids[uid]; idn != nil {
						if foldWire(idn.wireName) != foldWire(r.u.wire[pq.Name]) {
							dims = append(dims, "name")
						}
						if idn.qtype != r.u.types[pq.Type] {
							dims = append(dims, "type")
						}
						if idn.qclass != r.u.classes[pq.Class] {
							dims = append(dims, "class")
						}
					}
				}
				key := fmt.Sprintf("purge-overbroad/%s/%s", strings.Join(dims, "+"), r.u.family)
				r.res.Violate(key, fmt.Sprintf("[%s %s] Purge(%q %s %s) removed the entry of a different question: %s was answered from %s before and is a miss now",
					r.beh.Name, r.u.family, r.u.name[pq.Name], dns.Type(r.u.types[pq.Type]), dns.Class(r.u.classes[pq.Class]), r.describeQuery(x), r.describeUIDs(was.uids)),
					r.replayObj(parts[0], x, now, "purge-overbroad"))
			}
		}
	}
}

func (r *run) execute() error {
	tb := &r.in.Tables
	if err := r.u.checkTables(tb); err != nil {
		return fmt.Errorf("spec tables do not describe the real prefixes/names: %v", err)
	}
	r.kinv, r.inDom = map[int][]absID{}, map[string]int{}
	for i, p := range r.beh.Kdom {
		r.kinv[r.beh.Kfun[i]] = append(r.kinv[r.beh.Kfun[i]], p)
		r.inDom[preKey(p)] = r.beh.Kfun[i]
	}
	empty := &stepIn{}
	prevStep := empty
	var prevOut map[string]outcome
	for si := range r.beh.Steps {
		st := &r.beh.Steps[si]
		if err := r.apply(si, st, prevStep); err != nil {
			return err
		}
		if r.dead {
			r.res.Count("behaviours_abandoned_after_divergence", 1)
			return nil
		}
		r.res.Count("steps", 1)
		r.res.Count("op_"+st.Op.Op, 1)
		out := r.probeAll(st, si == len(r.beh.Steps)-1)
		if st.Op.Op == "purge" && prevOut != nil {
			r.purgeChecks(st, prevOut, out)
		}
		prevOut, prevStep = out, st
	}
	return nil
}

func newConfig() *config.Config {
	cfg := &config.Config{CacheSize: 2048, Expire: 300}
	cfg.ECS = config.ECSConfig{Enabled: true, ForwardV4Max: 32, ForwardV6Max: 64, MinScopeV4: 32, MinScopeV6: 64}
	return cfg
}

func TestC03Replay(t *testing.T) {
	var in replayInput
	vh.Input(t, &in)
	res := vh.NewResult()
	defer res.Write(t)
	fams := in.Families
	if len(fams) == 0 {
		fams = families
	}
	seed := vh.Seed()
	for pos := range in.Behaviours {
		beh := &in.Behaviours[pos]
		bi := pos + in.IndexOffset
		fam := fams[(bi+int(seed))%len(fams)]
		if in.OnlyFamily != "" {
			fam = in.OnlyFamily
		}
		variant := bi/len(fams) + int(seed)
		if in.Variant != nil {
			variant = *in.Variant
		}
		rng := rand.New(rand.NewSource(seed*1_000_003 + int64(bi)))
		u, err := newUniverse(rng, fam, variant)
		if err != nil {
			res.Skip("behaviour %s: %v", beh.Name, err)
			continue
		}
		for _, nm := range absQNames {
			checkKeyParity(res, rng, u.wire[nm], u.name[nm], u.canonical, fam)
		}
		cfg := newConfig()
		c := mcache.New(cfg)
		e := edns.New(cfg)
		term := &terminal{}
		reg := middleware.NewRegistry()
		reg.Register("edns", func(*config.Config) middleware.Handler { return e })
		reg.Register("cache", func(*config.Config) middleware.Handler { return c })
		reg.Register("tail", func(*config.Config) middleware.Handler { return term })
		qy := middleware.NewPipelineQueryer(reg.Build(cfg))
		c.SetQueryer(qy)
		st, ok := c.Store().(*mcache.Store)
		if !ok {
			t.Fatalf("cache.Store() is not *cache.Store")
		}
		r := &run{res: res, in: &in, beh: beh, bi: bi, u: u, rng: rng, c: c, e: e, st: st, term: term, qy: qy,
			uids: map[uint32]*ident{}, nextUID: uint32(1000 + rng.Intn(30000)), aliasNames: map[string]string{}, variant: variant}
		if err := r.execute(); err != nil {
			res.Skip("behaviour %s (%s): %v", beh.Name, fam, err)
		}
		res.Count("behaviours", 1)
		res.Count("family_"+fam, 1)
		c.Stop()
		var ops []string
		for _, s := range beh.Steps {
			ops = append(ops, s.Op.Op)
		}
		sort.Strings(ops)
		res.Case("beh:" + fam + ":" + strings.Join(ops, ","))
		if pos < 3 {
			b, _ := json.Marshal(map[string]any{"behaviour": beh.Name, "family": fam, "names": map[string]string{
				"n": strconv.QuoteToASCII(u.name["n"]), "N": strconv.QuoteToASCII(u.name["N"]), "e": strconv.QuoteToASCII(u.name["e"])}, "history": r.history})
			var v any
			_ = json.Unmarshal(b, &v)
			res.Sample(v)
		}
	}
}
