package c03

// Concretisation of the abstract universe of tla/CacheKey/CacheKey.tla:
// names (several "confusable pair" families, label bytes sampled from 0-255
// with VERIF_SEED), types, classes, ECS scopes and request audiences, plus the
// provenance encoding: every response the harness hands to the cache carries,
// in its rdata, the uid of the identity it was produced for, so what a reply
// was built from is decidable.

import (
	"encoding/base64"
	"encoding/binary"
	"encoding/hex"
	"fmt"
	"math/rand"
	"net"
	"net/netip"
	"sort"
	"strings"

	"github.com/miekg/dns"
)

// ---- abstract records (as printed by TLC, converted by checks/c03.py) ----

type absID struct {
	Name  string `json:"name"`
	Type  string `json:"type"`
	Class string `json:"class"`
	CD    bool   `json:"cd"`
	Scope string `json:"scope"` // raw scope for identities, normal form for preimages/entries
	Gen   int    `json:"gen,omitempty"`
}

type absQuery struct {
	Name   string `json:"name"`
	Type   string `json:"type"`
	Class  string `json:"class"`
	CD     bool   `json:"cd"`
	Client string `json:"client"`
}

type absCut struct {
	Name  string `json:"name"`
	Class string `json:"class"`
}

type absRes struct {
	Kind  string `json:"kind"`
	Name  string `json:"name"`
	Type  string `json:"type"`
	Class string `json:"class"`
	CD    bool   `json:"cd"`
	Scope string `json:"scope"`
	Gen   int    `json:"gen"`
}

// tables of the spec's universe (printed by TLC from MC_Tables, passed in by
// the check) -- validated against real netip arithmetic in checkTables.
type tables struct {
	FoldOf     map[string]string   `json:"FoldOf"`
	NormOf     map[string]string   `json:"NormOf"`
	ProbesOf   map[string][]string `json:"ProbesOf"`
	OwnScope   map[string]string   `json:"OwnScope"`
	InScope    map[string][]string `json:"InScope"`
	SuffixesOf map[string][]string `json:"SuffixesOf"`
}

var (
	absNames   = []string{"n", "N", "e"}
	absQNames  = []string{"n", "N", "e", "s"}
	absTypes   = []string{"T1", "T2"}
	absClasses = []string{"C1", "C2"}
	absClients = []string{"none", "c0", "c4w", "c4", "c4b", "c4o", "c6"}
)

// ---- name families ----------------------------------------------------------

// family: how the pair (n, e) of DIFFERENT names is made confusable.
//
//	plain    ordinary LDH labels, e differs in one letter
//	dotlabel e is one label containing an escaped dot where n has a label break
//	octets   labels sampled from bytes 0-255; e differs from n by 0x20 in a byte
//	         that is NOT an ASCII letter ('@'/'`', '['/'{', 0xC9/0xE9, 0x00/0x20 ...)
//	kelvin   presentation text with raw non-ASCII: e spells n's 'k'/'s' with U+212A/U+017F
//	rawhi    presentation text with raw bytes >= 0x80 that are not UTF-8: 0xC9 vs 0xE9
var families = []string{"plain", "dotlabel", "octets", "kelvin", "rawhi"}

type universe struct {
	family    string
	canonical bool // presentation names are what the library's decoder prints
	zone      string
	name      map[string]string // abstract query name -> presentation text
	wire      map[string][]byte // abstract query name -> uncompressed wire name
	types     map[string]uint16
	classes   map[string]uint16
	scope     map[string]netip.Prefix // abstract scope -> prefix as handed to the writers
	client    map[string]netip.Prefix // abstract client -> ECS source prefix (invalid = no ECS)
	remote    string
}

const ldh = "abcdefghijklmnopqrstuvwxyz0123456789"

func randLabel(r *rand.Rand, n int) string {
	b := make([]byte, n)
	for i := range b {
		b[i] = ldh[r.Intn(26)] // letters only, so case variants exist
	}
	return string(b)
}

// presentationOf is the library's own wire -> text decoder (the canonical
// presentation form of a wire name).
func presentationOf(wire []byte) (string, error) {
	s, _, err := dns.UnpackDomainName(wire, 0)
	return s, err
}

// wireOf packs presentation text exactly as the library would put it on the
// wire (escapes decoded, raw bytes kept).
func wireOf(name string) ([]byte, error) {
	buf := make([]byte, 300)
	n, err := dns.PackDomainName(name, buf, 0, nil, false)
	if err != nil {
		return nil, err
	}
	return buf[:n], nil
}

func wireFromLabels(labels ...[]byte) []byte {
	var w []byte
	for _, l := range labels {
		w = append(w, byte(len(l)))
		w = append(w, l...)
	}
	return append(w, 0)
}

// mixCase flips the case of ASCII letters (at least one) and nothing else.
func mixCase(r *rand.Rand, s string) string {
	b := []byte(s)
	var letters []int
	inEscape := 0
	for i := 0; i < len(b); i++ {
		if inEscape > 0 {
			inEscape--
			continue
		}
		if b[i] == '\\' {
			if i+3 < len(b) && b[i+1] >= '0' && b[i+1] <= '9' {
				inEscape = 3
			} else {
				inEscape = 1
			}
			continue
		}
		if (b[i] >= 'a' && b[i] <= 'z') || (b[i] >= 'A' && b[i] <= 'Z') {
			letters = append(letters, i)
		}
	}
	if len(letters) == 0 {
		return s
	}
	forced := letters[r.Intn(len(letters))]
	for _, i := range letters {
		if i == forced || r.Intn(2) == 0 {
			b[i] ^= 0x20
		}
	}
	return string(b)
}

// foldWire lower-cases ASCII letters of label octets: the identity of a DNS name.
func foldWire(w []byte) string {
	out := make([]byte, len(w))
	copy(out, w)
	for off := 0; off < len(out); {
		l := int(out[off])
		if l == 0 || l > 63 || off+1+l > len(out) {
			break
		}
		for i := off + 1; i <= off+l; i++ {
			if out[i] >= 'A' && out[i] <= 'Z' {
				out[i] += 0x20
			}
		}
		off += 1 + l
	}
	return string(out)
}

// isUnder: a is at or below b on label boundaries (wire, folded).
func isUnder(a, b []byte) bool {
	fa, fb := foldWire(a), foldWire(b)
	for off := 0; off < len(fa); {
		if fa[off:] == fb {
			return true
		}
		l := int(fa[off])
		if l == 0 {
			break
		}
		off += 1 + l
	}
	return false
}

var twinBytes = [][2]byte{{'@', '`'}, {'[', '{'}, {'\\', '|'}, {']', '}'}, {'^', '~'}, {0xC9, 0xE9}, {0x00, 0x20},
	{0x10, 0x30}, {0xD7, 0xF7}, {0x8A, 0xAA}, {'.', 0x0E}, {0xC0, 0xE0}, {0xDF, 0xFF}, {0x1F, '?'}}

func newUniverse(r *rand.Rand, family string, variant int) (*universe, error) {
	u := &universe{family: family, canonical: true,
		name: map[string]string{}, wire: map[string][]byte{}}
	u.zone = "z" + randLabel(r, 5) + ".test."
	zw, _ := wireOf(u.zone)
	var nW, eW, sW []byte
	switch family {
	case "plain":
		l := randLabel(r, 3+r.Intn(8))
		e := []byte(l)
		i := r.Intn(len(e))
		e[i] = 'a' + (e[i]-'a'+1+byte(r.Intn(24)))%26
		nW = append(wireFromLabels([]byte(l))[:1+len(l)], zw...)
		eW = append(wireFromLabels(e)[:1+len(e)], zw...)
	case "dotlabel":
		l1, l2 := randLabel(r, 2+r.Intn(4)), randLabel(r, 2+r.Intn(4))
		// n = l2.zone ; s = l1.l2.zone (below n) ; e = "l1\.l2".zone : ONE label that merely
		// looks like a child of n
		nW = append(wireFromLabels([]byte(l2))[:1+len(l2)], zw...)
		sW = append(wireFromLabels([]byte(l1), []byte(l2))[:2+len(l1)+len(l2)], zw...)
		eW = append(wireFromLabels([]byte(l1 + "." + l2))[:2+len(l1)+len(l2)], zw...)
	case "octets":
		n := 2 + r.Intn(10)
		lab := make([]byte, n)
		for i := range lab {
			lab[i] = byte(r.Intn(256))
		}
		// one ASCII letter (so a case variant exists) and, elsewhere, the twin byte
		li := r.Intn(n)
		lab[li] = 'a' + byte(r.Intn(26))
		tw := twinBytes[r.Intn(len(twinBytes))]
		pos := (li + 1 + r.Intn(n-1)) % n
		e := append([]byte{}, lab...)
		lab[pos], e[pos] = tw[0], tw[1]
		nW = append(wireFromLabels(lab)[:1+len(lab)], zw...)
		eW = append(wireFromLabels(e)[:1+len(e)], zw...)
	case "kelvin":
		u.canonical = false
		l := randLabel(r, 2+r.Intn(5))
		ins := []struct{ a, b string }{{"k", "\u212a"}, {"s", "\u017f"}}[r.Intn(2)]
		p := r.Intn(len(l) + 1)
		u.name["n"] = l[:p] + ins.a + l[p:] + "." + u.zone
		u.name["e"] = l[:p] + ins.b + l[p:] + "." + u.zone
	case "rawhi":
		u.canonical = false
		l := randLabel(r, 2+r.Intn(5))
		p := r.Intn(len(l) + 1)
		tw := [][2]string{{"\xc9", "\xe9"}, {"\xff", "\xfe"}, {"\x80", "\xa0"}, {"\xc3", "\xe3"}}[r.Intn(4)]
		u.name["n"] = l[:p] + tw[0] + l[p:] + "." + u.zone
		u.name["e"] = l[:p] + tw[1] + l[p:] + "." + u.zone
	default:
		return nil, fmt.Errorf("unknown family %q", family)
	}
	if u.canonical {
		var err error
		if u.name["n"], err = presentationOf(nW); err != nil {
			return nil, err
		}
		if u.name["e"], err = presentationOf(eW); err != nil {
			return nil, err
		}
		if sW != nil {
			if u.name["s"], err = presentationOf(sW); err != nil {
				return nil, err
			}
		}
	}
	if _, ok := u.name["s"]; !ok {
		u.name["s"] = "sub." + u.name["n"]
	}
	u.name["N"] = mixCase(r, u.name["n"])
	if u.name["N"] == u.name["n"] {
		return nil, fmt.Errorf("no case variant for %q", u.name["n"])
	}
	for k, v := range u.name {
		w, err := wireOf(v)
		if err != nil {
			return nil, fmt.Errorf("pack %q: %v", v, err)
		}
		u.wire[k] = w
	}
	if foldWire(u.wire["n"]) != foldWire(u.wire["N"]) || foldWire(u.wire["n"]) == foldWire(u.wire["e"]) ||
		!isUnder(u.wire["s"], u.wire["n"]) || isUnder(u.wire["e"], u.wire["n"]) || isUnder(u.wire["n"], u.wire["e"]) ||
		isUnder(u.wire["s"], u.wire["e"]) {
		return nil, fmt.Errorf("family %s produced an inconsistent name set %q", family, u.name)
	}

	typeMaps := [][2]uint16{{dns.TypeA, dns.TypeTXT}, {dns.TypeDS, dns.TypeDNSKEY}, {dns.TypeAAAA, dns.TypeA},
		{dns.TypeTXT, dns.TypeAAAA}, {dns.TypeDNSKEY, dns.TypeA}, {dns.TypeA, dns.TypeDS}}
	tm := typeMaps[variant%len(typeMaps)]
	u.types = map[string]uint16{"T1": tm[0], "T2": tm[1]}
	classMaps := [][2]uint16{{dns.ClassINET, dns.ClassCHAOS}, {dns.ClassINET, dns.ClassHESIOD}, {dns.ClassCHAOS, dns.ClassINET}}
	cm := classMaps[(variant/len(typeMaps))%len(classMaps)]
	u.classes = map[string]uint16{"C1": cm[0], "C2": cm[1]}

	// scopes / audiences
	oct := func() byte {
		for {
			b := byte(1 + r.Intn(222))
			if b != 10 && b != 127 && b != 169 && b != 172 && b != 192 {
				return b
			}
		}
	}
	a := [3]byte{oct(), byte(r.Intn(256)), byte(r.Intn(256))}
	b := [3]byte{oct(), byte(r.Intn(256)), byte(r.Intn(256))}
	for b == a {
		b[2]++
	}
	v4 := func(p [3]byte, last byte) netip.Addr { return netip.AddrFrom4([4]byte{p[0], p[1], p[2], last}) }
	var a6 [16]byte
	a6[0], a6[1], a6[2], a6[3] = 0x20, 0x01, 0x0d, 0xb8
	a6[4], a6[5] = byte(r.Intn(256)), byte(1+r.Intn(255))
	h6 := a6
	h6[7] = 2
	u.scope = map[string]netip.Prefix{
		"none": {},
		"z4":   netip.PrefixFrom(netip.IPv4Unspecified(), 0),
		"a4":   netip.PrefixFrom(v4(a, 0), 24),
		"a4h":  netip.PrefixFrom(v4(a, 77), 24), // host bits set, as an API caller might pass it
		"a4n":  netip.PrefixFrom(v4(a, 64), 26),
		"b4":   netip.PrefixFrom(v4(b, 0), 24),
		"a6":   netip.PrefixFrom(netip.AddrFrom16(a6), 48),
		"h4":   netip.PrefixFrom(v4(a, 77), 32),
		"h4b":  netip.PrefixFrom(v4(a, 200), 32),
		"h4o":  netip.PrefixFrom(v4(b, 9), 32),
		"h6":   netip.PrefixFrom(netip.AddrFrom16(h6), 64),
		"sh":   {},
	}
	u.client = map[string]netip.Prefix{
		"none": {},
		"c0":   netip.PrefixFrom(netip.IPv4Unspecified(), 0),
		"c4w":  u.scope["a4"],
		"c4":   u.scope["h4"],
		"c4b":  u.scope["h4b"],
		"c4o":  u.scope["h4o"],
		"c6":   u.scope["h6"],
	}
	u.remote = fmt.Sprintf("192.0.2.%d:%d", 1+r.Intn(250), 1024+r.Intn(60000))
	return u, nil
}

// checkTables validates the spec's constant tables against the real prefixes:
// what Cache.scopedLookup can probe, real containment, normalizeKeyScope.
func (u *universe) checkTables(t *tables) error {
	norm := func(p netip.Prefix) netip.Prefix {
		if !p.IsValid() || p.Bits() == 0 {
			return netip.Prefix{}
		}
		return p.Masked()
	}
	nscopes := map[string]netip.Prefix{}
	for raw, n := range t.NormOf {
		p, ok := u.scope[raw]
		if !ok {
			return fmt.Errorf("spec scope %q has no concretisation", raw)
		}
		if want, ok := u.scope[n]; !ok || norm(p) != norm(want) {
			return fmt.Errorf("NormOf[%s]=%s but normalizeKeyScope(%v)=%v", raw, n, p, norm(p))
		}
		nscopes[n] = norm(p)
	}
	for _, c := range absClients {
		cp := u.client[c]
		var want []string
		if cp.IsValid() {
			for name, sp := range nscopes {
				if !sp.IsValid() || sp.Bits() > cp.Bits() || sp.Addr().Is4() != cp.Addr().Is4() {
					continue
				}
				if probe, err := cp.Addr().Prefix(sp.Bits()); err == nil && probe == sp {
					want = append(want, name)
				}
			}
			sort.Slice(want, func(i, j int) bool { return nscopes[want[i]].Bits() > nscopes[want[j]].Bits() })
		}
		if strings.Join(want, ",") != strings.Join(t.ProbesOf[c], ",") {
			return fmt.Errorf("ProbesOf[%s]=%v but the real prefixes give %v", c, t.ProbesOf[c], want)
		}
		own := "sh"
		for name, sp := range nscopes {
			if sp.IsValid() && sp == norm(cp) {
				own = name
			}
		}
		if t.OwnScope[c] != own {
			return fmt.Errorf("OwnScope[%s]=%s but the real prefix normalises to %s", c, t.OwnScope[c], own)
		}
	}
	for name, sp := range nscopes {
		var want []string
		for _, c := range absClients {
			if u.clientInside(c, sp) {
				want = append(want, c)
			}
		}
		got := append([]string{}, t.InScope[name]...)
		sort.Strings(want)
		sort.Strings(got)
		if strings.Join(want, ",") != strings.Join(got, ",") {
			return fmt.Errorf("InScope[%s]=%v but real containment gives %v", name, got, want)
		}
	}
	for _, q := range absQNames {
		f := t.FoldOf[q]
		if foldWire(u.wire[q]) != foldWire(u.wire[f]) {
			return fmt.Errorf("FoldOf[%s]=%s but the names differ", q, f)
		}
	}
	for f, sfx := range t.SuffixesOf {
		for _, q := range []string{"n", "e", "s"} {
			in := false
			for _, x := range sfx {
				in = in || x == q
			}
			if in != isUnder(u.wire[f], u.wire[q]) {
				return fmt.Errorf("SuffixesOf[%s]=%v disagrees with the real names about %s", f, sfx, q)
			}
		}
	}
	return nil
}

// clientInside: the audience (its whole source prefix) lies inside scope; the
// shared scope contains everyone.
func (u *universe) clientInside(c string, scope netip.Prefix) bool {
	if !scope.IsValid() || scope.Bits() == 0 {
		return true
	}
	cp := u.client[c]
	if !cp.IsValid() || cp.Addr().Is4() != scope.Addr().Is4() {
		return false
	}
	return cp.Bits() >= scope.Bits() && scope.Masked().Contains(cp.Addr())
}

// ---- concrete identities and provenance -----------------------------------

// ident is the question and audience a response was produced for.
type ident struct {
	wireName []byte
	name     string
	qtype    uint16
	qclass   uint16
	cd       bool
	scope    netip.Prefix // normalised; invalid = shared
	kind     string       // "pos", "cut", "fresh"
	abs      absRes       // the abstract twin (for comparison with the model)
}

func (i ident) String() string {
	s := "shared"
	if i.scope.IsValid() {
		s = i.scope.String()
	}
	return fmt.Sprintf("%s{%q %s %s cd=%v scope=%s}", i.kind, i.name, dns.Type(i.qtype), dns.Class(i.qclass), i.cd, s)
}

func normScope(p netip.Prefix) netip.Prefix {
	if !p.IsValid() || p.Bits() == 0 {
		return netip.Prefix{}
	}
	return p.Masked()
}

// provenanceRR builds one RR of the given type whose rdata encodes uid.
func provenanceRR(owner string, qtype, qclass uint16, uid uint32) dns.RR {
	h := dns.RR_Header{Name: owner, Rrtype: qtype, Class: qclass, Ttl: 300}
	var b4 [4]byte
	binary.BigEndian.PutUint32(b4[:], uid)
	switch qtype {
	case dns.TypeA:
		return &dns.A{Hdr: h, A: net.IPv4(10, b4[1], b4[2], b4[3]).To4()}
	case dns.TypeAAAA:
		ip := make(net.IP, 16)
		ip[0], ip[1] = 0xfd, 0xc3
		copy(ip[12:], b4[:])
		return &dns.AAAA{Hdr: h, AAAA: ip}
	case dns.TypeTXT:
		return &dns.TXT{Hdr: h, Txt: []string{fmt.Sprintf("vc03=%d", uid)}}
	case dns.TypeDS:
		return &dns.DS{Hdr: h, KeyTag: uint16(uid), Algorithm: 13, DigestType: 2, Digest: fmt.Sprintf("%064x", uid)}
	case dns.TypeDNSKEY:
		key := make([]byte, 64)
		copy(key[60:], b4[:])
		return &dns.DNSKEY{Hdr: h, Flags: 256, Protocol: 3, Algorithm: 13, PublicKey: base64.StdEncoding.EncodeToString(key)}
	}
	return nil
}

// readProvenance recovers the uid from an RR built by provenanceRR (or the
// SOA serial of a subtree-cut proof).
func readProvenance(rr dns.RR) (uint32, bool) {
	switch v := rr.(type) {
	case *dns.A:
		ip := v.A.To4()
		if ip == nil || ip[0] != 10 {
			return 0, false
		}
		return uint32(ip[1])<<16 | uint32(ip[2])<<8 | uint32(ip[3]), true
	case *dns.AAAA:
		ip := v.AAAA.To16()
		if ip == nil || ip[0] != 0xfd || ip[1] != 0xc3 {
			return 0, false
		}
		return binary.BigEndian.Uint32(ip[12:]), true
	case *dns.TXT:
		var uid uint32
		if len(v.Txt) == 1 {
			if _, err := fmt.Sscanf(v.Txt[0], "vc03=%d", &uid); err == nil {
				return uid, true
			}
		}
	case *dns.DS:
		raw, err := hex.DecodeString(v.Digest)
		if err == nil && len(raw) == 32 {
			return binary.BigEndian.Uint32(raw[28:]), true
		}
	case *dns.DNSKEY:
		raw, err := base64.StdEncoding.DecodeString(v.PublicKey)
		if err == nil && len(raw) == 64 {
			return binary.BigEndian.Uint32(raw[60:]), true
		}
	case *dns.SOA:
		return v.Serial, true
	}
	return 0, false
}
