package c03

// By-product check of C03's last sentence: a name is keyed identically whether
// it arrives as wire labels or as presentation text, escaped and non-printable
// octets included.  Label bytes are SAMPLED from 0-255 with VERIF_SEED (the
// model cannot enumerate them); every name the replay generates goes through
// here too.

import (
	"fmt"
	"math/rand"
	"net/netip"
	"strconv"
	"testing"

	"github.com/miekg/dns"
	icache "github.com/semihalev/sdns/internal/cache"
	"github.com/semihalev/sdns/verifharness/vh"
)

func samplePrefixes(r *rand.Rand) []netip.Prefix {
	a4 := netip.AddrFrom4([4]byte{byte(1 + r.Intn(222)), byte(r.Intn(256)), byte(r.Intn(256)), byte(r.Intn(256))})
	var b16 [16]byte
	for i := range b16 {
		b16[i] = byte(r.Intn(256))
	}
	b16[0] = 0x20
	a6 := netip.AddrFrom16(b16)
	p4, _ := a4.Prefix(1 + r.Intn(32))
	p6, _ := a6.Prefix(1 + r.Intn(128))
	return []netip.Prefix{{}, netip.PrefixFrom(netip.IPv4Unspecified(), 0), p4, p6,
		netip.PrefixFrom(a4, 8*(1+r.Intn(4))), // byte-aligned length, host bits possibly set
		netip.PrefixFrom(a6, 8*(1+r.Intn(16)))}
}

// checkKeyParity keys one name through Key, KeyString, KeyWire, KeyWithPrefix
// and KeyWireWithPrefix.  given is the presentation text the caller uses for
// the name (canonical=false: a non-canonical spelling such as raw bytes >= 0x80).
func checkKeyParity(res *vh.Result, r *rand.Rand, wire []byte, given string, canonical bool, family string) {
	pres, err := presentationOf(wire)
	if err != nil {
		res.Skip("key parity: cannot decode wire name %x: %v", wire, err)
		return
	}
	res.Count("key_parity_names", 1)
	qtype := []uint16{dns.TypeA, dns.TypeAAAA, dns.TypeTXT, dns.TypeDS, dns.TypeDNSKEY, dns.TypeSOA, 0, 65280}[r.Intn(8)]
	qclass := []uint16{dns.ClassINET, dns.ClassCHAOS, dns.ClassHESIOD, dns.ClassANY}[r.Intn(4)]
	cd := r.Intn(2) == 0
	bad := func(which, what string) {
		res.Violate("key-parity/"+which+"/"+family,
			fmt.Sprintf("wire name %x (presentation %s) type %d class %d cd=%v: %s", wire, strconv.QuoteToASCII(pres), qtype, qclass, cd, what),
			map[string]any{"wire": fmt.Sprintf("%x", wire), "presentation": strconv.QuoteToASCII(pres), "qtype": qtype, "qclass": qclass, "cd": cd, "seed": vh.Seed()})
	}
	for _, spelled := range []string{pres, mixCase(r, pres)} {
		q := dns.Question{Name: spelled, Qtype: qtype, Qclass: qclass}
		w := append([]byte{}, wire...)
		if spelled != pres {
			// the same case mix on the wire
			if mw, err := wireOf(spelled); err == nil {
				w = mw
			}
		}
		k := icache.Key(q, cd)
		if ks := icache.KeyString(spelled, qtype, qclass, cd); ks != k {
			bad("keystring", fmt.Sprintf("KeyString=%#x Key=%#x", ks, k))
		}
		if k0 := icache.Key(dns.Question{Name: pres, Qtype: qtype, Qclass: qclass}, cd); k0 != k {
			bad("case", fmt.Sprintf("Key(%s)=%#x differs from Key of the lower/original spelling %#x", strconv.QuoteToASCII(spelled), k, k0))
		}
		kw, ok := icache.KeyWire(w, qtype, qclass, cd)
		if !ok {
			bad("keywire-refused", "KeyWire refused a well-formed uncompressed name")
		} else if kw != k {
			bad("wire-vs-text", fmt.Sprintf("KeyWire=%#x Key=%#x", kw, k))
		}
		if !icache.WireNameEqualsPresentation(w, pres) {
			bad("wire-equals-text", "WireNameEqualsPresentation(wire, its own presentation form) = false")
		}
		for _, p := range samplePrefixes(r) {
			kp := icache.KeyWithPrefix(q, cd, p)
			kwp, ok := icache.KeyWireWithPrefix(w, qtype, qclass, cd, p)
			if !ok {
				bad("keywireprefix-refused", "KeyWireWithPrefix refused a well-formed name")
				continue
			}
			if kp != kwp {
				bad("prefix-wire-vs-text", fmt.Sprintf("prefix %v: KeyWireWithPrefix=%#x KeyWithPrefix=%#x", p, kwp, kp))
			}
			if !p.IsValid() && kp != k {
				bad("prefix-invalid", fmt.Sprintf("invalid prefix: KeyWithPrefix=%#x Key=%#x", kp, k))
			}
			res.Count("key_parity_comparisons", 1)
		}
	}
	if !canonical && given != pres {
		// a non-canonical spelling of the same name (e.g. raw bytes >= 0x80 from a text front end)
		kg := icache.Key(dns.Question{Name: given, Qtype: qtype, Qclass: qclass}, cd)
		kw, _ := icache.KeyWire(wire, qtype, qclass, cd)
		if kg != kw {
			res.Count("noncanonical_presentation_keyed_apart", 1)
		} else {
			res.Count("noncanonical_presentation_keyed_same", 1)
		}
	}
}

func randomWireName(r *rand.Rand) []byte {
	var labels [][]byte
	total := 1
	n := r.Intn(6)
	for i := 0; i < n; i++ {
		l := 1 + r.Intn(12)
		if r.Intn(20) == 0 {
			l = 63
		}
		if total+1+l > 255 {
			break
		}
		lab := make([]byte, l)
		switch r.Intn(4) {
		case 0: // any octet
			for j := range lab {
				lab[j] = byte(r.Intn(256))
			}
		case 1: // specials and escapes heavy
			sp := []byte{'.', ' ', '\'', '@', ';', '(', ')', '"', '\\', 0, 127, 128, 255, 'A', 'z', '0', '9', 31, 32, 126}
			for j := range lab {
				lab[j] = sp[r.Intn(len(sp))]
			}
		case 2: // mixed-case letters
			for j := range lab {
				lab[j] = "aAbBzZkKsS"[r.Intn(10)]
			}
		default:
			for j := range lab {
				lab[j] = ldh[r.Intn(len(ldh))]
			}
		}
		labels = append(labels, lab)
		total += 1 + l
	}
	return wireFromLabels(labels...)
}

type keyParityInput struct {
	Names int `json:"names"`
}

func TestC03KeyParity(t *testing.T) {
	var in keyParityInput
	vh.Input(t, &in)
	res := vh.NewResult()
	defer res.Write(t)
	r := vh.Rand()
	seen := [256]bool{}
	for i := 0; i < in.Names; i++ {
		w := randomWireName(r)
		for _, b := range w {
			seen[b] = true
		}
		checkKeyParity(res, r, w, "", true, "sampled")
		res.Case("")
	}
	// every single octet value once, alone in a label
	for b := 0; b < 256; b++ {
		w := wireFromLabels([]byte{byte(b)}, []byte("vf"))
		checkKeyParity(res, r, w, "", true, "single-octet")
		res.Case(fmt.Sprintf("octet:%d", b))
	}
	n := 0
	for _, s := range seen {
		if s {
			n++
		}
	}
	res.Count("distinct_octets_sampled_in_random_names", n)
	// malformed wire names must be refused, never keyed
	for _, bad := range [][]byte{{}, {3, 'a', 'b'}, {0xC0, 0x0C}, {1, 'a', 0, 0}, {64, 'a'}} {
		if _, ok := icache.KeyWire(bad, dns.TypeA, dns.ClassINET, false); ok && len(bad) != 0 {
			// {64,...}: 64 has no top bits set, so it is a 64-octet label that runs past the buffer
			res.DriftNote("KeyWire accepted malformed name %x", bad)
		}
	}
}
