package c03

// AUDIT reproduction (aud03), not part of the C03 tiers (the check runs
// ^TestC03Replay$ / ^TestC03KeyParity$ only).
//
// Property C03: "... This holds on every lookup route - ..., purge - and even
// when two different questions collide on the 64-bit cache key, in which case
// the entry behaves as a miss."
//
// Store.Purge(q) removes the two shared keys Key(q, cd=0/1) from the positive
// and the negative cache BY KEY, without the preimage verification every other
// route performs (entryMatchesKey).  A collision K(B) = K(A) is staged the same
// way replay_test.go stages it (the exported pre-keyed writer files B's entry
// under the real hash of A): Purge(A) then evicts B's live entry although B's
// entry must behave as a miss for A.
//
// The resolver's DNSHandler.Purge does the same on the delegation cache
// (delegations.Remove(cache.Key(ns question, cd))); not driven here.
//
// Run:  [VERIF_REPO=/tmp/wt-patched] python3 tools/aud03_purge_repro.py
// (FAILs on the unchanged tree, passes with hooks/fix-c03-purge-collision.patch).
// The same predicate is judged inside TestC03Replay on every model purge whose
// own slot holds another question's entry (digests purge-collision/<dims>).

import (
	"net"
	"testing"
	"time"

	"github.com/miekg/dns"
	mcache "github.com/semihalev/sdns/middleware/cache"
)

func auditResp(name string, qtype uint16, cd bool, ip string) *dns.Msg {
	m := new(dns.Msg)
	m.SetQuestion(name, qtype)
	m.Response = true
	m.RecursionAvailable = true
	m.CheckingDisabled = cd
	m.Answer = []dns.RR{&dns.A{
		Hdr: dns.RR_Header{Name: name, Rrtype: dns.TypeA, Class: dns.ClassINET, Ttl: 300},
		A:   net.ParseIP(ip).To4(),
	}}
	return m
}

func TestAuditPurgeCollision(t *testing.T) {
	c := mcache.New(newConfig())
	defer c.Stop()
	st, ok := c.Store().(*mcache.Store)
	if !ok {
		t.Fatalf("cache.Store() is not *cache.Store")
	}

	qA := dns.Question{Name: "purged.vf.", Qtype: dns.TypeA, Qclass: dns.ClassINET}
	qB := dns.Question{Name: "bystander.vf.", Qtype: dns.TypeA, Qclass: dns.ClassINET}

	for _, cd := range []bool{false, true} {
		keyA := mcache.CacheKey{Question: qA, CD: cd}.Hash()
		keyB := mcache.CacheKey{Question: qB, CD: cd}.Hash()

		// B's entry under B's own key (control) and under A's key (the
		// staged 64-bit collision K(B) = K(A)).
		st.SetFromResponseWithKey(keyB, auditResp(qB.Name, qB.Qtype, cd, "192.0.2.2"), time.Time{}, 0)
		st.SetFromResponseWithKey(keyA, auditResp(qB.Name, qB.Qtype, cd, "192.0.2.2"), time.Time{}, 0)

		// Lookup route: the colliding entry is a miss for A (verified) ...
		if _, hit := st.LookupByKeyVerified(keyA, mcache.CacheKey{Question: qA, CD: cd}); hit {
			t.Fatalf("cd=%v: lookup of A hit B's colliding entry", cd)
		}
		// ... and a hit for B (it is B's live entry).
		if _, hit := st.LookupByKeyVerified(keyA, mcache.CacheKey{Question: qB, CD: cd}); !hit {
			t.Fatalf("cd=%v: staging failed, B's entry is not under the shared key", cd)
		}
	}

	st.Purge(qA)

	for _, cd := range []bool{false, true} {
		keyA := mcache.CacheKey{Question: qA, CD: cd}.Hash()
		keyB := mcache.CacheKey{Question: qB, CD: cd}.Hash()
		if _, hit := st.LookupByKeyVerified(keyB, mcache.CacheKey{Question: qB, CD: cd}); !hit {
			t.Fatalf("cd=%v: control entry of B under its own key vanished", cd)
		}
		if _, hit := st.LookupByKeyVerified(keyA, mcache.CacheKey{Question: qB, CD: cd}); !hit {
			t.Errorf("cd=%v: Purge(%s A) evicted the entry of %s A that collides on the 64-bit key "+
				"(the entry did not behave as a miss on the purge route)", cd, qA.Name, qB.Name)
		}
	}
}

// A purge of A must still remove A's own entries (the repair must not turn
// Purge into a no-op).
func TestAuditPurgeOwn(t *testing.T) {
	c := mcache.New(newConfig())
	defer c.Stop()
	st := c.Store().(*mcache.Store)
	qA := dns.Question{Name: "Purged.vf.", Qtype: dns.TypeA, Qclass: dns.ClassINET}
	for _, cd := range []bool{false, true} {
		key := mcache.CacheKey{Question: qA, CD: cd}.Hash()
		st.SetFromResponseWithKey(key, auditResp(qA.Name, qA.Qtype, cd, "192.0.2.1"), time.Time{}, 0)
	}
	nx := auditResp("gone.vf.", dns.TypeA, false, "192.0.2.3")
	nx.Answer = nil
	nx.Rcode = dns.RcodeNameError
	nx.Ns = []dns.RR{&dns.SOA{Hdr: dns.RR_Header{Name: "vf.", Rrtype: dns.TypeSOA, Class: dns.ClassINET, Ttl: 60},
		Ns: "ns.vf.", Mbox: "h.vf.", Serial: 1, Refresh: 60, Retry: 60, Expire: 60, Minttl: 60}}
	qN := nx.Question[0]
	st.SetFromResponseWithKey(mcache.CacheKey{Question: qN}.Hash(), nx, time.Time{}, 0)

	st.Purge(dns.Question{Name: "pURGED.vf.", Qtype: dns.TypeA, Qclass: dns.ClassINET})
	st.Purge(qN)
	for _, cd := range []bool{false, true} {
		if _, hit := st.LookupByKey(mcache.CacheKey{Question: qA, CD: cd}.Hash()); hit {
			t.Errorf("cd=%v: Purge left A's own entry", cd)
		}
	}
	if _, hit := st.LookupByKey(mcache.CacheKey{Question: qN}.Hash()); hit {
		t.Errorf("Purge left the NXDOMAIN entry")
	}
}
