package c03

import (
	"context"
	"fmt"
	"net/netip"
	"testing"
	"time"

	"github.com/miekg/dns"
	"github.com/semihalev/sdns/config"
	"github.com/semihalev/sdns/internal/mock"
	"github.com/semihalev/sdns/middleware"
	mcache "github.com/semihalev/sdns/middleware/cache"
	"github.com/semihalev/sdns/middleware/edns"
)

func probeCfg() *config.Config {
	cfg := &config.Config{CacheSize: 4096, Expire: 300}
	cfg.ECS = config.ECSConfig{Enabled: true, ForwardV4Max: 32, ForwardV6Max: 64, MinScopeV4: 32, MinScopeV6: 64}
	return cfg
}

func TestProbe(t *testing.T) {
	cfg := probeCfg()
	c := mcache.New(cfg)
	defer c.Stop()
	e := edns.New(cfg)
	st := c.Store().(*mcache.Store)
	reached := 0
	term := middleware.HandlerFunc(func(_ context.Context, ch *middleware.Chain) {
		reached++
		req := ch.Request.Msg()
		m := new(dns.Msg)
		m.SetReply(req)
		m.Rcode = dns.RcodeServerFailure
		_ = ch.Writer.WriteMsg(m)
		ch.Cancel()
	})
	serveMsg := func(q *dns.Msg) *dns.Msg {
		w := mock.NewWriter("udp", "203.0.113.5:53000")
		ch := middleware.NewChain([]middleware.Handler{e, c, term})
		ch.Reset(w, q.Copy())
		ch.AllowDirectPack()
		ch.Next(context.Background())
		if !w.Written() {
			return nil
		}
		return w.Msg()
	}
	// 1. failure cache with raw invalid UTF-8 names
	a := new(dns.Msg)
	a.SetQuestion("\xc9x.vf.", dns.TypeA)
	st.RecordFailure(a, netip.Prefix{}, mcache.FailureProvenance("test"), nil)
	b := new(dns.Msg)
	b.SetQuestion("\xe9x.vf.", dns.TypeA)
	_, ok := st.LookupFailure(b, netip.Prefix{})
	fmt.Println("failure recorded for \\xc9x.vf., lookup \\xe9x.vf. hit =", ok)
	r := serveMsg(b)
	fmt.Println("pipeline reached downstream:", reached, "rcode", r.Rcode, r.Extra)
	pa, _ := a.Pack()
	pb, _ := b.Pack()
	fmt.Printf("wire a=%x\nwire b=%x\n", pa[12:], pb[12:])
	// 2. purge with Kelvin
	kel := new(dns.Msg)
	kel.SetQuestion("K.vf.", dns.TypeA)
	kel.Response = true
	kel.Answer = []dns.RR{&dns.A{Hdr: dns.RR_Header{Name: "K.vf.", Rrtype: dns.TypeA, Class: dns.ClassINET, Ttl: 300}, A: []byte{10, 0, 0, 1}}}
	sc := netip.MustParsePrefix("198.51.100.0/24")
	key := mcache.CacheKey{Question: kel.Question[0], Scope: sc}.Hash()
	st.SetFromResponseScoped(key, kel, sc, time.Time{}, 0)
	fmt.Println("positive len before purge", st.PositiveLen())
	st.Purge(dns.Question{Name: "k.vf.", Qtype: dns.TypeA, Qclass: dns.ClassINET})
	fmt.Println("positive len after purge(k.vf.)", st.PositiveLen())
	_ = time.Now
}
