package xviews

// views_test.go: TestXViews, the driver of bin/check XVIEWS.
//
//	replay  spec -> code: TLC-simulated behaviours of tla/Views/Views.tla (Query(client, name, type, internal) over
//	        three configurations) forced on the REAL default chain (everything ahead of `failover`: accesslist ...
//	        chaos, hostsfile, views, blocklist, as112, ..., cache) with a scripted downstream that answers every
//	        question with recognisable "down" data and records that it was reached.  Every step enters either decoded
//	        (Server.ServeMsg) or wire-born (Server.ServeRaw on a strict-slot transport) or, for internal steps, through
//	        the middleware.Queryer the chain hands to its consumers.  After every step the real outcome is judged by
//	        the documentation's predicates (a reference reading written here with net.IPNet, independent of
//	        internal/ipset and of views.go) and compared with the model's outcome (differences = drift).
//	probes  scripted observations (behaviour the documentation does not cover): class CH / ANY questions,
//	        a question the view knows under another type.

import (
	"context"
	"fmt"
	"math/rand"
	"net"
	"os"
	"sort"
	"strings"
	"sync"
	"testing"
	"time"

	"github.com/miekg/dns"
	"github.com/semihalev/sdns/config"
	"github.com/semihalev/sdns/middleware"
	"github.com/semihalev/sdns/middleware/defaults"
	"github.com/semihalev/sdns/server"
	"github.com/semihalev/sdns/verifharness/pipe"
	"github.com/semihalev/sdns/verifharness/vh"
	"github.com/semihalev/zlog/v2"
)

// ---------------------------------------------------------------------------
// input
// ---------------------------------------------------------------------------

type Client struct {
	IP   string `json:"ip"`
	Form string `json:"form"` // "v4" (4-byte peer) | "mapped" (16-byte ::ffff: peer) | "v6"
}

type Rec struct {
	O string `json:"o"` // owner, fully qualified
	T string `json:"t"`
	D string `json:"d"` // data id
}

type View struct {
	Zone string   `json:"zone"`
	Nets []string `json:"nets"` // net ids
	Recs []Rec    `json:"recs"`
}

type Universe struct {
	Clients    map[string]Client         `json:"clients"`
	Nets       map[string]string         `json:"nets"`       // id -> CIDR
	Data       map[string]string         `json:"data"`       // data id -> rdata (presentation)
	Down       map[string]string         `json:"down"`       // type -> rdata the scripted downstream answers with
	Configs    map[string][]View         `json:"configs"`    // config id -> views in declaration order
	Acl        map[string][]string       `json:"acl"`        // config id -> net ids the access list allows (none = the open default)
	Empty      []string                  `json:"empty"`      // the AS112 empty zones the universe's names touch (all in the default list)
	ChaosNames []string                  `json:"chaosNames"` // asked in class CH
	ChaosKnown []string                  `json:"chaosKnown"` // the ones the documentation says the responder knows
	ChaosOn    map[string]bool           `json:"chaosOn"`    // config id -> chaos = true
	TTL        uint32                    `json:"ttl"`
	Names      []string                  `json:"names"`
	Types      []string                  `json:"types"`
	member     map[string]bool           // client|net (reference, net.IPNet)
	dataID     map[string]string         // type|rdata -> id
	viewOf     map[string]map[string]int // cfg -> data id -> view index (1-based)
}

type Step struct {
	C    string   `json:"c"`
	N    string   `json:"n"`
	T    string   `json:"t"`
	Int  bool     `json:"int"`
	Kind string   `json:"kind"` // model: view | pass | cached
	View int      `json:"view"`
	RRs  []string `json:"rrs"`
}

type History struct {
	ID    string `json:"id"`
	Cfg   string `json:"cfg"`
	Steps []Step `json:"steps"`
}

type Input struct {
	U         Universe  `json:"universe"`
	Histories []History `json:"histories"`
	Stages    []string  `json:"stages"`
}

func (in *Input) has(stage string) bool {
	for _, s := range in.Stages {
		if s == stage {
			return true
		}
	}
	return false
}

func quiet() {
	l := zlog.NewStructured()
	l.SetLevel(zlog.LevelFatal)
	zlog.SetDefault(l)
}

// ---------------------------------------------------------------------------
// the documentation's reading
// ---------------------------------------------------------------------------

func (u *Universe) prepare() error {
	u.member, u.dataID, u.viewOf = map[string]bool{}, map[string]string{}, map[string]map[string]int{}
	for cid, c := range u.Clients {
		ip := net.ParseIP(c.IP)
		if ip == nil {
			return fmt.Errorf("client %s: bad address %q", cid, c.IP)
		}
		for nid, cidr := range u.Nets {
			_, n, err := net.ParseCIDR(cidr)
			if err != nil {
				return fmt.Errorf("net %s: %v", nid, err)
			}
			// net.IPNet.Contains reads a v4-mapped address as the IPv4 address it carries
			u.member[cid+"|"+nid] = n.Contains(ip)
		}
	}
	for cfg, views := range u.Configs {
		u.viewOf[cfg] = map[string]int{}
		for i, v := range views {
			for _, r := range v.Recs {
				u.viewOf[cfg][r.D] = i + 1
				u.dataID[r.T+"|"+u.Data[r.D]] = r.D
			}
		}
	}
	for t, d := range u.Down {
		u.dataID[t+"|"+d] = "down"
	}
	return nil
}

func (u *Universe) inView(c string, v View) bool {
	for _, n := range v.Nets {
		if u.member[c+"|"+n] {
			return true
		}
	}
	return false
}

// docAllowed: "CIDR notation for allowed client IP ranges"
func (u *Universe) docAllowed(cfg, c string) bool {
	if len(u.Acl[cfg]) == 0 {
		return true
	}
	for _, n := range u.Acl[cfg] {
		if u.member[c+"|"+n] {
			return true
		}
	}
	return false
}

// docEmpty: "apex" = the name is an empty zone, "below" = it lies under one, "no" otherwise
func (u *Universe) docEmpty(q string) string {
	l := labels(q)
	for _, z := range u.Empty {
		zl := labels(z)
		if len(l) < len(zl) || strings.Join(l[len(l)-len(zl):], ".") != strings.Join(zl, ".") {
			continue
		}
		if len(l) == len(zl) {
			return "apex"
		}
		return "below"
	}
	return "no"
}

// docFirst: "the first view whose source CIDR contains the client IP" (1-based, 0 = none)
func (u *Universe) docFirst(cfg, c string) int {
	for i, v := range u.Configs[cfg] {
		if u.inView(c, v) {
			return i + 1
		}
	}
	return 0
}

func labels(n string) []string { return dns.SplitDomainName(strings.ToLower(n)) }

// docMatches: non-wildcard owners match exactly; "*.<suffix>" matches names strictly more specific than the suffix
func docMatches(owner, q string) bool {
	o, l := labels(owner), labels(q)
	if len(o) > 0 && o[0] == "*" {
		suf := o[1:]
		if len(l) <= len(suf) {
			return false
		}
		return strings.Join(l[len(l)-len(suf):], ".") == strings.Join(suf, ".")
	}
	return strings.Join(o, ".") == strings.Join(l, ".")
}

// docAnswer: exact owners override a covering wildcard; among wildcards the closest encloser
func (u *Universe) docAnswer(v View, q, t string) []string {
	var exact, wild []string
	best := -1
	for _, r := range v.Recs {
		if r.T != t || !docMatches(r.O, q) {
			continue
		}
		if !strings.HasPrefix(r.O, "*.") {
			exact = append(exact, r.D)
			continue
		}
		k := len(labels(r.O))
		switch {
		case k > best:
			best, wild = k, []string{r.D}
		case k == best:
			wild = append(wild, r.D)
		}
	}
	if len(exact) > 0 {
		sort.Strings(exact)
		return exact
	}
	sort.Strings(wild)
	return wild
}

// ---------------------------------------------------------------------------
// the real chain with a scripted downstream
// ---------------------------------------------------------------------------

type tailH struct {
	mu    sync.Mutex
	calls int
	qy    middleware.Queryer
	u     *Universe
}

func (t *tailH) Name() string                    { return "verif-tail" }
func (t *tailH) SetQueryer(q middleware.Queryer) { t.qy = q }
func (t *tailH) ServeDNS(ctx context.Context, ch *middleware.Chain) {
	_, req := ch.Materialize(ctx)
	if req == nil {
		return
	}
	t.mu.Lock()
	t.calls++
	t.mu.Unlock()
	resp := new(dns.Msg)
	q := req.Question[0]
	if d, ok := t.u.Down[dns.TypeToString[q.Qtype]]; ok && q.Qclass == dns.ClassINET {
		resp.SetReply(req)
		resp.RecursionAvailable = true
		rr, err := dns.NewRR(fmt.Sprintf("%s 300 IN %s %s", q.Name, dns.TypeToString[q.Qtype], d))
		if err == nil && rr != nil {
			resp.Answer = []dns.RR{rr}
		}
	} else {
		resp.SetRcode(req, dns.RcodeRefused)
	}
	_ = ch.Writer.WriteMsg(resp)
	ch.Cancel()
}

func (t *tailH) n() int {
	t.mu.Lock()
	defer t.mu.Unlock()
	return t.calls
}

type front struct {
	srv  *server.Server
	tail *tailH
}

var setupMu sync.Mutex

func newFront(u *Universe, cfgID string) *front {
	setupMu.Lock()
	defer setupMu.Unlock()
	cfg := pipe.BaseConfig()
	for _, v := range u.Configs[cfgID] {
		vc := config.ViewConfig{Zone: v.Zone}
		for _, n := range v.Nets {
			vc.Networks = append(vc.Networks, u.Nets[n])
		}
		for _, r := range v.Recs {
			vc.Answers = append(vc.Answers, fmt.Sprintf("%s %d IN %s %s", r.O, u.TTL, r.T, u.Data[r.D]))
		}
		cfg.Views = append(cfg.Views, vc)
	}
	for _, n := range u.Acl[cfgID] {
		cfg.AccessList = append(cfg.AccessList, u.Nets[n])
	}
	cfg.Chaos = u.ChaosOn[cfgID]
	t := &tailH{u: u}
	middleware.Reset()
	defaults.RegisterUpTo("failover")
	middleware.Register("verif-tail", func(*config.Config) middleware.Handler { return t })
	middleware.Setup(cfg)
	s := server.New(cfg)
	middleware.Reset()
	return &front{srv: s, tail: t}
}

type qspec struct {
	client string
	name   string // as sent
	qtype  uint16
	class  uint16
	tcp    bool
	id     uint16
}

func (q qspec) msg() *dns.Msg {
	m := new(dns.Msg)
	m.Id = q.id
	m.RecursionDesired = true
	m.Question = []dns.Question{{Name: q.name, Qtype: q.qtype, Qclass: q.class}}
	return m
}

func (u *Universe) addr(client string, tcp bool) net.Addr {
	c := u.Clients[client]
	ip := net.ParseIP(c.IP)
	switch c.Form {
	case "v4":
		ip = ip.To4()
	case "mapped":
		ip = ip.To16()
	}
	if tcp {
		return &net.TCPAddr{IP: ip, Port: 40000}
	}
	return &net.UDPAddr{IP: ip, Port: 40000}
}

type outcome struct {
	kind  string   // view | pass | cached | nodata | lost | other | mixed
	ids   []string // data ids seen in the answer section (sorted, "?" = unknown data)
	reply *dns.Msg
	entry string // decoded | wire | wire-fallback | internal
	tail  int    // how often the scripted downstream was reached
}

func has(list []string, name string) bool {
	for _, x := range list {
		if strings.EqualFold(x, name) {
			return true
		}
	}
	return false
}

func (u *Universe) classify(q qspec, reply *dns.Msg, tailCalls int) outcome {
	o := outcome{reply: reply, tail: tailCalls}
	if reply == nil {
		o.kind = "lost"
		return o
	}
	if q.class == dns.ClassCHAOS {
		o.kind = "chpass"
		for _, rr := range reply.Answer {
			if _, ok := rr.(*dns.TXT); ok && rr.Header().Class == dns.ClassCHAOS && tailCalls == 0 {
				o.kind, o.ids = "chaos", []string{"chaos"}
			}
		}
		return o
	}
	down, viewd := 0, 0
	for _, rr := range reply.Answer {
		full := rr.String()
		hdr := rr.Header().String()
		rdata := strings.TrimSpace(strings.TrimPrefix(full, hdr))
		id, ok := u.dataID[dns.TypeToString[rr.Header().Rrtype]+"|"+rdata]
		if !ok {
			id = "?" + rdata
		}
		if id == "down" {
			down++
		} else {
			viewd++
		}
		o.ids = append(o.ids, id)
	}
	sort.Strings(o.ids)
	for _, rr := range reply.Ns {
		// the empty-zone answer: SOA <zone> . 0 28800 7200 604800 86400 in the authority section
		if soa, ok := rr.(*dns.SOA); ok && soa.Mbox == "." && len(reply.Answer) == 0 {
			o.kind, o.ids = "empty", []string{"below"}
			if reply.Rcode == dns.RcodeSuccess {
				o.ids = []string{"apex"}
			}
			return o
		}
	}
	switch {
	case down > 0 && viewd > 0:
		o.kind = "mixed"
	case down > 0 && tailCalls > 0:
		o.kind = "pass"
	case down > 0:
		o.kind = "cached"
	case viewd > 0:
		o.kind = "view"
	case reply.Rcode == dns.RcodeSuccess:
		o.kind = "nodata"
	default:
		o.kind = "other"
	}
	return o
}

func (f *front) ask(u *Universe, q qspec, entry string) outcome {
	c0 := f.tail.n()
	var reply *dns.Msg
	took := entry
	switch entry {
	case "internal":
		r, err := f.tail.qy.Query(context.Background(), q.msg())
		if err == nil {
			reply = r
		}
	case "wire":
		raw, err := q.msg().Pack()
		if err != nil {
			return outcome{kind: "lost", entry: entry}
		}
		job := &server.VerifStrictJob{Remote: u.addr(q.client, q.tcp)}
		f.srv.ServeRaw(job, raw, time.Now())
		if n := len(job.Writes); n > 0 {
			reply = new(dns.Msg)
			if err := reply.Unpack(job.Writes[n-1]); err != nil {
				reply = nil
			}
		}
		if !job.VerifTookWirePath() {
			took = "wire-fallback"
		}
	default:
		sink := &pipe.Sink{Remote: u.addr(q.client, q.tcp)}
		f.srv.ServeMsg(context.Background(), sink, q.msg())
		if n := len(sink.Writes); n > 0 {
			reply = new(dns.Msg)
			if err := reply.Unpack(sink.Writes[n-1]); err != nil {
				reply = nil
			}
		}
	}
	o := u.classify(q, reply, f.tail.n()-c0)
	o.entry = took
	return o
}

// ---------------------------------------------------------------------------
// the predicates the documentation bears, on one real outcome
// ---------------------------------------------------------------------------

func eqSet(a, b []string) bool {
	if len(a) != len(b) {
		return false
	}
	for i := range a {
		if a[i] != b[i] {
			return false
		}
	}
	return true
}

// judge returns (class, what) of the first predicate that is false, "" if none.
func (u *Universe) judge(cfg string, st Step, q qspec, o outcome) (string, string) {
	first := 0
	if !st.Int {
		first = u.docFirst(cfg, st.C)
	}
	var want []string
	if first != 0 {
		want = u.docAnswer(u.Configs[cfg][first-1], st.N, st.T)
	}
	who := fmt.Sprintf("client %s (%s, %s)", st.C, u.Clients[st.C].IP, u.Clients[st.C].Form)
	if st.Int {
		who = "internal sub-query"
	}
	if !st.Int && !u.docAllowed(cfg, st.C) {
		// outside the allowed ranges: silence is what accesslist.go announces; any data is a breach
		if o.reply != nil && (len(o.reply.Answer) > 0 || o.kind == "empty") {
			return "acl/denied-answered", fmt.Sprintf("%s is outside accesslist %v and was answered: %s %v", who, u.Acl[cfg], o.kind, o.ids)
		}
		return "", ""
	}
	if o.kind == "lost" {
		if st.Int {
			return "acl/internal-dropped", fmt.Sprintf("an internal sub-query got no reply (accesslist %v; \"an internal sub-query isn't denied by a source-IP rule\")", u.Acl[cfg])
		}
		return "chain/no-reply", fmt.Sprintf("%s is allowed and got no reply at all", who)
	}
	if q.class == dns.ClassCHAOS {
		known := has(u.ChaosKnown, st.N) && st.T == "TXT"
		switch {
		case !u.ChaosOn[cfg] && o.kind == "chaos":
			return "chaos/disabled-answered", fmt.Sprintf("chaos = false and %s was told %q", who, o.reply.Answer[0].String())
		case u.ChaosOn[cfg] && known && !st.Int && o.kind != "chaos":
			return "chaos/silent", fmt.Sprintf("chaos = true and %s got no CHAOS TXT answer for %s (rcode %s, %d answers, downstream called %d time(s))",
				who, st.N, dns.RcodeToString[o.reply.Rcode], len(o.reply.Answer), o.tail)
		}
		return "", ""
	}
	if o.reply.Id != q.id || len(o.reply.Question) != 1 || !strings.EqualFold(o.reply.Question[0].Name, q.name) ||
		o.reply.Question[0].Qtype != q.qtype {
		return "views/reply", fmt.Sprintf("the reply does not carry the query's id / question: id %d, question %v", o.reply.Id, o.reply.Question)
	}
	// view data seen: whose?
	for _, id := range o.ids {
		if id == "down" || o.kind == "empty" {
			continue
		}
		vi := u.viewOf[cfg][id]
		switch {
		case st.Int:
			return "views/internal", fmt.Sprintf("an internal sub-query was answered with view data %s (\"Internal sub-queries skip views entirely\")", id)
		case vi == 0:
			return "views/answer-unlisted", fmt.Sprintf("%s got data no view lists: %s", who, id)
		case u.docFirst(cfg, st.C) == 0:
			src := "the views handler"
			if o.kind != "view" {
				src = "a mixture"
			}
			return "views/outside", fmt.Sprintf("%s is in no view's networks and got %s of view #%d %q from %s", who, id, vi, u.Configs[cfg][vi-1].Zone, src)
		case !u.inView(st.C, u.Configs[cfg][vi-1]):
			return "views/foreign-view", fmt.Sprintf("%s got %s of view #%d %q whose networks do not contain it", who, id, vi, u.Configs[cfg][vi-1].Zone)
		case vi != first:
			return "views/first-match", fmt.Sprintf("%s got %s of view #%d %q; the first view (declaration order) containing it is #%d %q",
				who, id, vi, u.Configs[cfg][vi-1].Zone, first, u.Configs[cfg][first-1].Zone)
		}
	}
	switch {
	case len(want) > 0:
		if o.kind != "view" {
			return "views/missed", fmt.Sprintf("%s is in view #%d %q which lists %v for the question; outcome %s %v", who, first, u.Configs[cfg][first-1].Zone, want, o.kind, o.ids)
		}
		if !eqSet(o.ids, want) {
			return "views/answer", fmt.Sprintf("%s, view #%d %q: answer %v, the view's matching records (exact over wildcard, closest wildcard, same type) are %v",
				who, first, u.Configs[cfg][first-1].Zone, o.ids, want)
		}
		for _, rr := range o.reply.Answer {
			if !strings.EqualFold(rr.Header().Name, q.name) || rr.Header().Ttl != u.TTL || rr.Header().Class != dns.ClassINET {
				return "views/record", fmt.Sprintf("%s: record %q is not the configured one under the question's name (ttl %d)", who, rr.String(), u.TTL)
			}
		}
		if o.reply.Rcode != dns.RcodeSuccess {
			return "views/record", fmt.Sprintf("view answer with rcode %s", dns.RcodeToString[o.reply.Rcode])
		}
		if o.tail > 0 {
			return "views/short-circuit", fmt.Sprintf("%s was answered by view #%d %q and the request still reached the rest of the chain (downstream called %d time(s)); \"the synthesised reply is written and the chain is short-circuited\"",
				who, first, u.Configs[cfg][first-1].Zone, o.tail)
		}
	default:
		// nobody's view question: the rest of the chain answers it
		if e := u.docEmpty(st.N); e != "no" {
			// ... unless it is an empty-zone name: "Prevents queries for private IP reverse zones from leaking"
			if o.tail > 0 || o.kind == "pass" || o.kind == "cached" {
				return "as112/leak", fmt.Sprintf("%s: %s lies in an empty zone (%s) and was handed to the rest of the chain (outcome %s %v, downstream called %d time(s))",
					who, st.N, e, o.kind, o.ids, o.tail)
			}
			if o.kind != "empty" {
				return "as112/answer", fmt.Sprintf("%s: %s lies in an empty zone (%s); outcome %s %v rcode %s", who, st.N, e, o.kind, o.ids, dns.RcodeToString[o.reply.Rcode])
			}
			return "", ""
		}
		if o.kind != "pass" && o.kind != "cached" {
			why := "the client is in no view"
			if st.Int {
				why = "internal sub-queries skip views"
			} else if first != 0 {
				why = fmt.Sprintf("view #%d %q has no record for the question: the request falls through", first, u.Configs[cfg][first-1].Zone)
			}
			return "views/fall-through", fmt.Sprintf("%s: outcome %s %v rcode %s; %s", who, o.kind, o.ids, dns.RcodeToString[o.reply.Rcode], why)
		}
	}
	return "", ""
}

func spellCase(rng *rand.Rand, s string) string {
	b := []byte(s)
	for i := range b {
		if b[i] >= 'a' && b[i] <= 'z' && rng.Intn(2) == 0 {
			b[i] -= 32
		}
	}
	return string(b)
}

func TestXViewsNothing(t *testing.T) {}

func TestXViews(t *testing.T) {
	var in Input
	vh.Input(t, &in)
	res := vh.NewResult()
	defer res.Write(t)
	quiet()
	u := &in.U
	if err := u.prepare(); err != nil {
		res.Skip("universe: %v", err)
		return
	}
	if in.has("replay") {
		stageReplay(&in, res)
	}
	if in.has("probes") {
		stageProbes(&in, res)
	}
}

func stageReplay(in *Input, res *vh.Result) {
	u := &in.U
	rng := rand.New(rand.NewSource(vh.Seed()))
	for _, h := range in.Histories {
		f := newFront(u, h.Cfg)
		if f.tail.qy == nil {
			res.Skip("no queryer wired into the tail")
			return
		}
		res.Count("histories", 1)
		for i, st := range h.Steps {
			q := qspec{client: st.C, name: st.N, qtype: dns.StringToType[st.T], class: dns.ClassINET, tcp: rng.Intn(4) == 0, id: uint16(1 + rng.Intn(65000))}
			if has(u.ChaosNames, st.N) {
				q.class = dns.ClassCHAOS
			} else if rng.Intn(3) == 0 {
				q.name = spellCase(rng, q.name)
				res.Count("case_variants", 1)
			}
			entry := "decoded"
			if st.Int {
				entry = "internal"
			} else if rng.Intn(2) == 0 {
				entry = "wire"
			}
			o := f.ask(u, q, entry)
			res.Count("steps", 1)
			res.Count("entry_"+o.entry, 1)
			res.Count("outcome_"+o.kind, 1)
			res.Case(fmt.Sprintf("%s|%s|%s|%s|%v|%s|%s", h.Cfg, st.C, st.N, st.T, st.Int, o.kind, strings.Join(o.ids, ",")))
			rp := map[string]any{"driver": "replay", "history": History{ID: h.ID, Cfg: h.Cfg, Steps: h.Steps[:i+1]}}
			if class, what := u.judge(h.Cfg, st, q, o); class != "" {
				res.Violate(class, fmt.Sprintf("[config %s, history %s step %d, entry %s] %s | query %s %s", h.Cfg, h.ID, i+1, o.entry, what, q.name, st.T), rp)
				return
			}
			// model = code?
			mids := append([]string(nil), st.RRs...)
			sort.Strings(mids)
			ck := o.kind
			if ck == "lost" {
				ck = "drop" // the model's name for "no reply to client"
			}
			if ck == st.Kind && eqSet(o.ids, mids) {
				res.Count("outcome_equals_model", 1)
			} else {
				res.Count("outcome_differs_from_model", 1)
				res.DriftNote("config %s history %s step %d (%s %s %s int=%v): model %s %v, code %s %v", h.Cfg, h.ID, i+1, st.C, st.N, st.T, st.Int, st.Kind, mids, o.kind, o.ids)
			}
			if !st.Int && !u.docAllowed(h.Cfg, st.C) {
				res.Count("denied_judged", 1)
			}
			if o.kind == "view" {
				if o.reply.Authoritative && o.reply.RecursionAvailable {
					res.Count("view_reply_aa_ra", 1)
				} else {
					res.Count("view_reply_other_flags", 1)
				}
			}
			if (o.kind == "view" || o.kind == "empty") && !st.Int {
				// a local answer leaves no state behind: the other entry must give the same answer
				other := "wire"
				if o.entry != "decoded" {
					other = "decoded"
				}
				o2 := f.ask(u, q, other)
				res.Count("parity_asked", 1)
				if class, what := u.judge(h.Cfg, st, q, o2); class != "" {
					res.Violate(class, fmt.Sprintf("[config %s, history %s step %d, entry %s (second entry)] %s | query %s %s", h.Cfg, h.ID, i+1, o2.entry, what, q.name, st.T), rp)
					return
				}
				if o2.reply != nil && o.reply != nil && (o2.kind != o.kind || !eqSet(o2.ids, o.ids) || o2.reply.Rcode != o.reply.Rcode) {
					class := "views/parity"
					if o.kind == "empty" || o2.kind == "empty" {
						class = "as112/parity"
					}
					res.Violate(class, fmt.Sprintf("[config %s, history %s step %d] the same question from the same client: entry %s -> %s %v rcode %s, entry %s -> %s %v rcode %s | query %s %s",
						h.Cfg, h.ID, i+1, o.entry, o.kind, o.ids, dns.RcodeToString[o.reply.Rcode], o2.entry, o2.kind, o2.ids, dns.RcodeToString[o2.reply.Rcode], q.name, st.T), rp)
					return
				}
			}
		}
	}
}

// stageProbes: behaviour the documentation does not cover (reported as OBSERVATION lines, never judged).
func stageProbes(in *Input, res *vh.Result) {
	u := &in.U
	cfgID := "AB"
	if _, ok := u.Configs[cfgID]; !ok {
		return
	}
	f := newFront(u, cfgID)
	var lines []string
	probe := func(class, what string, q qspec) {
		c0 := f.tail.n()
		sink := &pipe.Sink{Remote: u.addr(q.client, false)}
		f.srv.ServeMsg(context.Background(), sink, q.msg())
		got := "no reply"
		if n := len(sink.Writes); n > 0 {
			m := new(dns.Msg)
			if err := m.Unpack(sink.Writes[n-1]); err == nil {
				var rrs []string
				for _, rr := range m.Answer {
					rrs = append(rrs, strings.Join(strings.Fields(rr.String()), " "))
				}
				got = fmt.Sprintf("rcode %s aa=%v answer [%s]", dns.RcodeToString[m.Rcode], m.Authoritative, strings.Join(rrs, "; "))
			}
		}
		if f.tail.n() > c0 {
			got += " (handed to the rest of the chain)"
		} else {
			got += " (answered locally)"
		}
		res.Count("probes", 1)
		res.Case("probe|" + class + "|" + got)
		lines = append(lines, fmt.Sprintf("%s\t%s: client %s asks %s %s %s -> %s", class, what, q.client, q.name, dns.ClassToString[q.class], dns.TypeToString[q.qtype], got))
	}
	probe("class-ignored", "views does not look at the question's class", qspec{client: "lan", name: "a.example.lan.", qtype: dns.TypeA, class: dns.ClassCHAOS, id: 9})
	probe("exact-per-type", "an exact owner overrides the covering wildcard for its own type only (a.example.lan. exists with A; RFC 4592 would make AAAA a NODATA)",
		qspec{client: "lan", name: "a.example.lan.", qtype: dns.TypeAAAA, class: dns.ClassINET, id: 10})
	probe("other-type-to-resolver", "a name the view owns is handed to the resolver for every type the view does not list (no NODATA)",
		qspec{client: "lan", name: "a.example.lan.", qtype: dns.TypeTXT, class: dns.ClassINET, id: 11})
	probe("any", "type ANY for a name the view owns", qspec{client: "lan", name: "a.example.lan.", qtype: dns.TypeANY, class: dns.ClassINET, id: 12})
	probe("later-view-not-consulted", "the client is in both views; the first has no TXT for b.example.lan., the second has: not consulted",
		qspec{client: "nest", name: "b.example.lan.", qtype: dns.TypeTXT, class: dns.ClassINET, id: 13})
	if p := os.Getenv("XVIEWS_OBS_OUT"); p != "" {
		_ = os.WriteFile(p, []byte(strings.Join(lines, "\n")+"\n"), 0o644)
	}
}
