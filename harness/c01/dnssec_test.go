package c01

// Replay of Dnssec.tla cases through the real edns+cache+resolver pipeline
// against a scripted, really-signed hierarchy (authkit):
//
//     . (signed, trust anchor)  ->  test. (signed)  ->  zone.test. (per case)
//
// The case's tampering is applied by a server hook to the one upstream
// response it names.  Verdict = the C01 predicates on the client-visible
// reply, against the honest zone data (ground truth):
//   - the reply is SERVFAIL or exactly what the signer published;
//   - an effective tampering of a signed path never yields data (CD=0);
//   - AD only if the whole path is secure, CD=0 and DO or AD was set;
//   - an unsigned zone is accepted only on an intact proof of no DS;
//   - no trust anchor => SERVFAIL;
//   - SERVFAIL toward an EDNS client carries an extended error.
// A second, identical query (served from the caches the first one filled)
// is judged by the same predicates.

import (
	"encoding/base64"
	"fmt"
	"net"
	"os"
	"sort"
	"strings"
	"sync/atomic"
	"testing"
	"time"

	"github.com/miekg/dns"
	"github.com/semihalev/sdns/config"
	"github.com/semihalev/sdns/verifharness/authkit"
	"github.com/semihalev/sdns/verifharness/pipe"
	"github.com/semihalev/sdns/verifharness/vh"
)

type flagsT struct {
	DO bool `json:"do"`
	AD bool `json:"ad"`
	CD bool `json:"cd"`
}

type caseT struct {
	Zone   string            `json:"zone"`
	QK     string            `json:"qk"`
	Flags  flagsT            `json:"flags"`
	Tamper map[string]string `json:"tamper"` // position -> kind ("none" = untouched)
	Anchor bool              `json:"anchor"`
	// Fallback: is a `fallbackservers` entry configured, and what does that resolver answer?
	//   "" / "none"  not configured (the failover middleware is inert)
	//   "honest"     a validating resolver whose own path to the authorities is clean: the zone's truth, AD=1 when the chain is signed
	//   "lying"      forged data with AD=1
	Fallback string `json:"fallback"`
	Exp      struct {
		Rcode string `json:"rcode"`
		AD    bool   `json:"ad"`
	} `json:"exp"`
}

type input struct {
	Cases []caseT `json:"cases"`
}

const zoneName = "zone.test."

type world struct {
	n               *authkit.Net
	tld, zone, evil *authkit.Zone
	tldSrv, zoneSrv *authkit.Server
	qname           string
	qtype           uint16
	rogue           *authkit.Key // the on-path attacker's own key, owner name = the target zone
	fb              *fallbackSrv // the configured fallback resolver (nil = none)
}

// ---- the configured fallback resolver ------------------------------------------

// fallbackSrv is a scripted recursive resolver on loopback, the target of `fallbackservers`.
type fallbackSrv struct {
	addr  string
	mode  string
	udp   *dns.Server
	asked atomic.Int64
}

const forgedA = "6.6.6.66"

const inflatedTTL = 7 * 86400

func startFallback(w *world, mode string) (*fallbackSrv, error) {
	pc, err := net.ListenPacket("udp", "127.0.0.1:0")
	if err != nil {
		return nil, err
	}
	f := &fallbackSrv{addr: pc.LocalAddr().String(), mode: mode}
	h := dns.HandlerFunc(func(rw dns.ResponseWriter, r *dns.Msg) {
		f.asked.Add(1)
		m := new(dns.Msg)
		m.SetReply(r)
		m.RecursionAvailable = true
		q := r.Question[0]
		do := false
		if o := r.IsEdns0(); o != nil {
			do = o.Do()
			m.SetEdns0(1232, do)
		}
		switch f.mode {
		case "lying":
			// whatever was asked exists and says what the attacker wants; "validated", says the AD bit
			m.AuthenticatedData = true
			hdr := dns.RR_Header{Name: q.Name, Rrtype: q.Qtype, Class: dns.ClassINET, Ttl: 300}
			if q.Qtype == dns.TypeTXT {
				m.Answer = []dns.RR{&dns.TXT{Hdr: hdr, Txt: []string{"forged"}}}
			} else {
				hdr.Rrtype = dns.TypeA
				m.Answer = []dns.RR{&dns.A{Hdr: hdr, A: net.ParseIP(forgedA)}}
			}
		default: // honest: the zone's own answer as a validating resolver relays it
			z := w.n.ZoneOf(q.Name)
			if z == nil {
				m.Rcode = dns.RcodeServerFailure
				break
			}
			a, _ := z.Answer(q, do)
			m.Rcode, m.Answer, m.Ns = a.Rcode, a.Answer, a.Ns
			m.AuthenticatedData = w.n.GroundTruth(q).Secure && !r.CheckingDisabled
		}
		_ = rw.WriteMsg(m)
	})
	// UDP only: failover asks over UDP and would turn to TCP on a truncated reply; these replies are small
	f.udp = &dns.Server{PacketConn: pc, Handler: h}
	go func() { _ = f.udp.ActivateAndServe() }()
	return f, nil
}

func (f *fallbackSrv) stop() {
	if f == nil {
		return
	}
	_ = f.udp.Shutdown()
}

func build(c caseT) (*world, error) {
	n, err := authkit.NewNet(true)
	if err != nil {
		return nil, err
	}
	w := &world{n: n}
	tldOpts := authkit.DelegateOpts{Signed: true, PublishDS: true}
	if c.Zone == "optout" {
		tldOpts.NSEC3, tldOpts.OptOut = true, true
	}
	w.tld, w.tldSrv, err = n.Delegate("test.", tldOpts)
	if err != nil {
		return nil, err
	}
	zo := authkit.DelegateOpts{}
	switch c.Zone {
	case "signed":
		zo = authkit.DelegateOpts{Signed: true, PublishDS: true}
	case "signed-same":
		zo = authkit.DelegateOpts{Signed: true, PublishDS: true, OnServer: w.tldSrv}
	case "nsec3":
		zo = authkit.DelegateOpts{Signed: true, PublishDS: true, NSEC3: true}
	case "insecure", "optout":
		zo = authkit.DelegateOpts{Signed: false}
	}
	w.zone, w.zoneSrv, err = n.Delegate(zoneName, zo)
	if err != nil {
		return nil, err
	}
	// a signed sibling: source of foreign proofs, foreign signer, injected records.  Its name is a TEXTUAL suffix
	// of the target zone's ("zone.test." ends in "ne.test.") without being an ancestor: an ancestor test has to
	// compare whole labels
	w.evil, _, err = n.Delegate("ne.test.", authkit.DelegateOpts{Signed: true, PublishDS: true})
	if err != nil {
		return nil, err
	}
	w.evil.Add("victim.ne.test. 300 IN A 6.6.6.6")
	w.zone.Add(
		"www.zone.test. 300 IN A 192.0.2.80",
		"www.zone.test. 300 IN AAAA 2001:db8::80",
		"alias.zone.test. 300 IN CNAME www.zone.test.",
		"*.wild.zone.test. 300 IN A 192.0.2.81",
		"d.zone.test. 300 IN DNAME tgt.zone.test.",
		"x.tgt.zone.test. 300 IN A 192.0.2.82",
		"mail.zone.test. 300 IN MX 10 www.zone.test.",
		"x.ent.wild.zone.test. 300 IN A 192.0.2.84", // makes ent.wild.zone.test. an empty non-terminal
		"host.wild.zone.test. 300 IN A 192.0.2.85",  // a name of its own next to the wildcard
	)
	w.qtype = dns.TypeA
	switch c.QK {
	case "a":
		w.qname = "www.zone.test."
	case "cname":
		w.qname = "alias.zone.test."
	case "wild":
		w.qname = "q.wild.zone.test."
	case "nodata":
		w.qname, w.qtype = "www.zone.test.", dns.TypeTXT
	case "nx":
		w.qname = "nope.zone.test."
	case "dname":
		w.qname = "x.d.zone.test."
	case "ent":
		w.qname = "ent.wild.zone.test."
	case "whost":
		w.qname = "host.wild.zone.test."
	case "rootnx":
		w.qname = "nxtld-verif." // denied by the root zone itself
	}
	if c.Fallback == "honest" || c.Fallback == "lying" {
		if w.fb, err = startFallback(w, c.Fallback); err != nil {
			return nil, err
		}
	}
	w.rogue = authkit.NewKey(zoneName, 0)
	if c.Tamper["dnskey"] == "clonetag" && w.zone.Key0() != nil {
		if clone := authkit.CloneTagKey(zoneName, w.zone.Key0(), 400000); clone != nil {
			w.zone.AddKey(clone)
		}
	}
	return w, nil
}

func (w *world) fbAsked() int64 {
	if w.fb == nil {
		return 0
	}
	return w.fb.asked.Load()
}

// ---- tampering ---------------------------------------------------------------

func isDNSSECProof(rr dns.RR) bool {
	switch rr.(type) {
	case *dns.NSEC, *dns.NSEC3:
		return true
	}
	return false
}

func sigCovering(rrs []dns.RR, t uint16, owner string) (int, *dns.RRSIG) {
	for i, rr := range rrs {
		if s, ok := rr.(*dns.RRSIG); ok && s.TypeCovered == t && strings.EqualFold(s.Hdr.Name, owner) {
			return i, s
		}
	}
	return -1, nil
}

// alterData changes the rdata of rr in place.
func alterData(rr dns.RR) {
	switch v := rr.(type) {
	case *dns.A:
		v.A = net.IPv4(6, 6, 6, 6)
	case *dns.AAAA:
		v.AAAA = net.ParseIP("2001:db8::666")
	case *dns.CNAME:
		v.Target = "victim.ne.test."
	case *dns.DNAME:
		v.Target = "ne.test."
	case *dns.DS:
		b := []byte(v.Digest)
		if b[0] == 'a' {
			b[0] = 'b'
		} else {
			b[0] = 'a'
		}
		v.Digest = string(b)
	case *dns.DNSKEY:
		raw, _ := base64.StdEncoding.DecodeString(v.PublicKey)
		raw[len(raw)-1] ^= 0x01
		v.PublicKey = base64.StdEncoding.EncodeToString(raw)
	case *dns.NSEC:
		v.NextDomain = "zzzz." + v.NextDomain
	case *dns.NSEC3:
		v.TypeBitMap = []uint16{}
	case *dns.SOA:
		v.Minttl += 7
	case *dns.TXT:
		v.Txt = []string{"forged"}
	}
}

// targets returns the (owner,type) RRsets of sec the tampering applies to.
func rrsets(sec []dns.RR) map[string][]dns.RR {
	out := map[string][]dns.RR{}
	for _, rr := range sec {
		if rr.Header().Rrtype == dns.TypeRRSIG || rr.Header().Rrtype == dns.TypeOPT {
			continue
		}
		k := fmt.Sprintf("%s/%d", strings.ToLower(rr.Header().Name), rr.Header().Rrtype)
		out[k] = append(out[k], rr)
	}
	return out
}

// tamperSection applies kind to every RRset of the section accepted by pick.
func (w *world) tamperSection(sec []dns.RR, kind string, signerZone *authkit.Zone, pick func(dns.RR) bool) []dns.RR {
	sets := rrsets(sec)
	keys := make([]string, 0, len(sets))
	for k := range sets {
		keys = append(keys, k)
	}
	sort.Strings(keys)
	for _, k := range keys {
		set := sets[k]
		if !pick(set[0]) {
			continue
		}
		owner, t := set[0].Header().Name, set[0].Header().Rrtype
		si, sig := sigCovering(sec, t, owner)
		switch kind {
		case "data":
			alterData(set[0])
		case "ttlup":
			// the TTL of the RRset and of its signature raised in flight.  The signature still verifies: the signed
			// form carries the RRSIG's Original TTL field in place of the TTL (RFC 4034 3.1.8.1)
			for _, rr := range set {
				rr.Header().Ttl = inflatedTTL
			}
			if sig != nil {
				sig.Hdr.Ttl = inflatedTTL
			}
		case "sigbytes":
			if sig != nil {
				raw, _ := base64.StdEncoding.DecodeString(sig.Signature)
				raw[len(raw)/2] ^= 0x20
				sig.Signature = base64.StdEncoding.EncodeToString(raw)
			}
		case "labels":
			if sig != nil {
				sig.Labels++
			}
		case "signer":
			// validly signed -- by a zone that is not an ancestor of the name
			if sig != nil {
				sec[si] = authkit.SignRRset(set, "ne.test.", w.evil.Key0(), time.Now().Add(-time.Hour), time.Now().Add(24*time.Hour))
			}
		case "expired":
			if sig != nil && signerZone.Key0() != nil {
				sec[si] = authkit.SignRRset(set, signerZone.Name, signerZone.Key0(), time.Now().Add(-72*time.Hour), time.Now().Add(-24*time.Hour))
			}
		case "notyet":
			if sig != nil && signerZone.Key0() != nil {
				sec[si] = authkit.SignRRset(set, signerZone.Name, signerZone.Key0(), time.Now().Add(24*time.Hour), time.Now().Add(72*time.Hour))
			}
		}
	}
	if kind == "strip" {
		var out []dns.RR
		for _, rr := range sec {
			if s, ok := rr.(*dns.RRSIG); ok {
				// strip only the signatures of picked sets
				if set, ok2 := sets[fmt.Sprintf("%s/%d", strings.ToLower(s.Hdr.Name), s.TypeCovered)]; ok2 && pick(set[0]) {
					continue
				}
			}
			out = append(out, rr)
		}
		return out
	}
	return sec
}

func (w *world) foreignProof() []dns.RR {
	return w.evil.DenialFor("nope.ne.test.", true)
}

func dropProofs(sec []dns.RR) []dns.RR {
	var out []dns.RR
	for _, rr := range sec {
		if isDNSSECProof(rr) {
			continue
		}
		if s, ok := rr.(*dns.RRSIG); ok && (s.TypeCovered == dns.TypeNSEC || s.TypeCovered == dns.TypeNSEC3) {
			continue
		}
		out = append(out, rr)
	}
	return out
}

func (w *world) install(c caseT) (applied *int) {
	count := 0
	hooks := map[*authkit.Server][]func(*authkit.Exchange){}
	for _, pos := range []string{"rootkey", "rootref", "referral", "dnskey", "answer"} {
		kind := c.Tamper[pos]
		if kind == "" || kind == "none" || kind == "clonetag" {
			continue
		}
		srv, h := w.hookFor(pos, kind, &count)
		if h != nil {
			hooks[srv] = append(hooks[srv], h)
		}
	}
	for srv, hs := range hooks {
		hs := hs
		srv.SetHook(func(ex *authkit.Exchange) {
			for _, h := range hs {
				h(ex)
			}
		})
	}
	return &count
}

func (w *world) hookFor(pos, kind string, count *int) (*authkit.Server, func(*authkit.Exchange)) {
	switch pos {
	case "rootkey":
		// the root's own DNSKEY RRset: what the trust anchors authenticate with no DS in between
		return w.n.RootSrv, func(ex *authkit.Exchange) {
			if ex.Zone == nil || ex.Zone.Name != "." || ex.Q.Qtype != dns.TypeDNSKEY || ex.Q.Name != "." {
				return
			}
			*count++
			ex.Resp.Answer = w.tamperSection(ex.Resp.Answer, kind, w.n.Root, func(rr dns.RR) bool { return rr.Header().Rrtype == dns.TypeDNSKEY })
		}
	case "rootref":
		// the ROOT's referral for test. (and its answer to a DS query for test.): the one delegation whose
		// DS the trust anchors authenticate directly
		return w.n.RootSrv, func(ex *authkit.Exchange) {
			if ex.Zone == nil || ex.Zone.Name != "." {
				return
			}
			isRef := ex.Truth.Kind == "referral" && ex.Truth.Cut == "test."
			isDSQ := ex.Q.Qtype == dns.TypeDS && strings.EqualFold(ex.Q.Name, "test.")
			if !isRef && !isDSQ {
				return
			}
			*count++
			dsPick := func(rr dns.RR) bool { return rr.Header().Rrtype == dns.TypeDS }
			apply := func(sec []dns.RR) []dns.RR {
				switch kind {
				case "dropds":
					var out []dns.RR
					for _, rr := range sec {
						if rr.Header().Rrtype == dns.TypeDS {
							continue
						}
						if s, ok := rr.(*dns.RRSIG); ok && s.TypeCovered == dns.TypeDS {
							continue
						}
						out = append(out, rr)
					}
					return out
				case "swapds":
					var out []dns.RR
					for _, rr := range sec {
						if rr.Header().Rrtype == dns.TypeDS {
							other := authkit.NewKey("test.", 0)
							ds := other.RR.ToDS(dns.SHA256)
							ds.Hdr.Ttl = rr.Header().Ttl
							out = append(out, ds, authkit.SignRRset([]dns.RR{ds}, ".", w.n.Root.Key0(), time.Now().Add(-time.Hour), time.Now().Add(24*time.Hour)))
							continue
						}
						if s, ok := rr.(*dns.RRSIG); ok && s.TypeCovered == dns.TypeDS {
							continue
						}
						out = append(out, rr)
					}
					return out
				}
				return w.tamperSection(sec, kind, w.n.Root, dsPick)
			}
			ex.Resp.Ns = apply(ex.Resp.Ns)
			ex.Resp.Answer = apply(ex.Resp.Answer)
		}
	case "referral":
		return w.tldSrv, func(ex *authkit.Exchange) {
			if ex.Zone == nil || ex.Zone.Name != "test." {
				return
			}
			isRef := ex.Truth.Kind == "referral" && ex.Truth.Cut == zoneName
			isDSQ := ex.Q.Qtype == dns.TypeDS && strings.EqualFold(ex.Q.Name, zoneName)
			if !isRef && !isDSQ {
				return
			}
			*count++
			dsPick := func(rr dns.RR) bool {
				t := rr.Header().Rrtype
				return t == dns.TypeDS || t == dns.TypeNSEC || t == dns.TypeNSEC3
			}
			apply := func(sec []dns.RR) []dns.RR {
				switch kind {
				case "dropds":
					var out []dns.RR
					for _, rr := range sec {
						if rr.Header().Rrtype == dns.TypeDS {
							continue
						}
						if s, ok := rr.(*dns.RRSIG); ok && s.TypeCovered == dns.TypeDS {
							continue
						}
						out = append(out, rr)
					}
					return out
				case "swapds":
					var out []dns.RR
					for _, rr := range sec {
						if rr.Header().Rrtype == dns.TypeDS {
							other := authkit.NewKey(zoneName, 0)
							ds := other.RR.ToDS(dns.SHA256)
							ds.Hdr.Ttl = rr.Header().Ttl
							out = append(out, ds, authkit.SignRRset([]dns.RR{ds}, "test.", w.tld.Key0(), time.Now().Add(-time.Hour), time.Now().Add(24*time.Hour)))
							continue
						}
						if s, ok := rr.(*dns.RRSIG); ok && s.TypeCovered == dns.TypeDS {
							continue
						}
						out = append(out, rr)
					}
					return out
				case "dropproof":
					return dropProofs(sec)
				case "foreignproof":
					had := false
					for _, rr := range sec {
						if isDNSSECProof(rr) {
							had = true
						}
					}
					if !had {
						return sec
					}
					return append(dropProofs(sec), w.foreignProof()...)
				}
				return w.tamperSection(sec, kind, w.tld, dsPick)
			}
			ex.Resp.Ns = apply(ex.Resp.Ns)
			ex.Resp.Answer = apply(ex.Resp.Answer)
		}
	case "dnskey":
		return w.zoneSrv, func(ex *authkit.Exchange) {
			if ex.Q.Qtype != dns.TypeDNSKEY || !strings.EqualFold(ex.Q.Name, zoneName) {
				return
			}
			*count++
			if kind == "roguekey" {
				// the attacker's key joins the DNSKEY RRset and the set is re-signed with that key alone;
				// the DS-matched key is still published, only its signature over the set is gone
				var set, rest []dns.RR
				for _, rr := range ex.Resp.Answer {
					switch v := rr.(type) {
					case *dns.DNSKEY:
						set = append(set, rr)
					case *dns.RRSIG:
						if v.TypeCovered != dns.TypeDNSKEY {
							rest = append(rest, rr)
						}
					default:
						rest = append(rest, rr)
					}
				}
				if len(set) == 0 {
					return
				}
				rk := dns.Copy(w.rogue.RR)
				rk.Header().Ttl = set[0].Header().Ttl
				set = append(set, rk)
				sig := authkit.SignRRset(set, zoneName, w.rogue, time.Now().Add(-time.Hour), time.Now().Add(24*time.Hour))
				ex.Resp.Answer = append(append(set, sig), rest...)
				return
			}
			ex.Resp.Answer = w.tamperSection(ex.Resp.Answer, kind, w.zone, func(rr dns.RR) bool { return rr.Header().Rrtype == dns.TypeDNSKEY })
		}
	case "answer":
		ansSrv, ansZone, signer := w.zoneSrv, zoneName, w.zone
		if w.qname == "nxtld-verif." { // the root answers this question itself
			ansSrv, ansZone, signer = w.n.RootSrv, ".", w.n.Root
		}
		return ansSrv, func(ex *authkit.Exchange) {
			if ex.Zone == nil || ex.Zone.Name != ansZone {
				return
			}
			if ex.Q.Qtype != w.qtype || !strings.EqualFold(ex.Q.Name, w.qname) {
				return
			}
			*count++
			if ansZone == "." {
				switch kind {
				case "inject", "fakedname", "foreigndeny", "wildrep", "wildforeign", "roguesig":
					*count-- // these replies are built for zone.test. only
					return
				}
			}
			switch kind {
			case "lame":
				// a FAULT, not a tampering of signed data: the zone's server refuses the question (a lame server).
				// Nothing is there to validate; the resolution fails for want of an answer
				ex.Resp.Rcode = dns.RcodeRefused
				ex.Resp.Authoritative = false
				ex.Resp.Answer, ex.Resp.Ns = nil, nil
			case "barenx":
				ex.Resp.Rcode = dns.RcodeNameError
				ex.Resp.Answer, ex.Resp.Ns = nil, nil
			case "bareempty":
				ex.Resp.Rcode = dns.RcodeSuccess
				ex.Resp.Answer, ex.Resp.Ns = nil, nil
			case "dropproof":
				ex.Resp.Ns = dropProofs(ex.Resp.Ns)
			case "foreignproof":
				had := false
				for _, rr := range ex.Resp.Ns {
					if isDNSSECProof(rr) {
						had = true
					}
				}
				if had {
					ex.Resp.Ns = append(dropProofs(ex.Resp.Ns), w.foreignProof()...)
				}
			case "foreigndeny":
				// NXDOMAIN for whatever was asked: the zone's genuine signed SOA plus unsigned NSEC records that
				// live in the PARENT zone and span the whole child
				neg, _ := w.zone.Answer(dns.Question{Name: "nope." + zoneName, Qtype: dns.TypeA, Qclass: dns.ClassINET}, true)
				var ns []dns.RR
				if neg != nil {
					for _, rr := range neg.Ns {
						if rr.Header().Rrtype == dns.TypeSOA {
							ns = append(ns, rr)
						}
						if s, ok := rr.(*dns.RRSIG); ok && s.TypeCovered == dns.TypeSOA {
							ns = append(ns, rr)
						}
					}
				}
				ns = append(ns,
					&dns.NSEC{Hdr: dns.RR_Header{Name: "test.", Rrtype: dns.TypeNSEC, Class: dns.ClassINET, Ttl: 300}, NextDomain: "ne.test.",
						TypeBitMap: []uint16{dns.TypeNS, dns.TypeSOA, dns.TypeRRSIG, dns.TypeNSEC, dns.TypeDNSKEY}},
					&dns.NSEC{Hdr: dns.RR_Header{Name: "ne.test.", Rrtype: dns.TypeNSEC, Class: dns.ClassINET, Ttl: 300}, NextDomain: "zzz.test.",
						TypeBitMap: []uint16{dns.TypeNS, dns.TypeDS, dns.TypeRRSIG, dns.TypeNSEC}})
				ex.Resp.Rcode = dns.RcodeNameError
				ex.Resp.Answer = nil
				ex.Resp.Ns = ns
			case "wildforeign":
				// the wildcard expansion replayed over a name that exists, "proved" by an unsigned NSEC of the
				// PARENT zone spanning the whole child
				if w.qname != "ent.wild.zone.test." && w.qname != "host.wild.zone.test." {
					*count--
					return
				}
				exp, _ := w.zone.Answer(dns.Question{Name: "zz.wild." + zoneName, Qtype: w.qtype, Qclass: dns.ClassINET}, true)
				if exp == nil || len(exp.Answer) == 0 {
					return
				}
				var ans []dns.RR
				for _, rr := range exp.Answer {
					cp := dns.Copy(rr)
					cp.Header().Name = w.qname
					ans = append(ans, cp)
				}
				ex.Resp.Rcode = dns.RcodeSuccess
				ex.Resp.Answer = ans
				ex.Resp.Ns = []dns.RR{
					&dns.NSEC{Hdr: dns.RR_Header{Name: "ne.test.", Rrtype: dns.TypeNSEC, Class: dns.ClassINET, Ttl: 300}, NextDomain: "zzz.test.",
						TypeBitMap: []uint16{dns.TypeNS, dns.TypeDS, dns.TypeRRSIG, dns.TypeNSEC}}}
			case "wildrep":
				// over an empty non-terminal: the zone's genuine wildcard expansion (as any name under
				// wild.zone.test. that does not exist would get it) re-owned to the asked name, next to the
				// genuine NSEC/NSEC3 records of the honest NODATA (for NSEC: the interval that spans the name
				// and ends below it)
				if w.qname != "ent.wild.zone.test." {
					*count--
					return
				}
				exp, _ := w.zone.Answer(dns.Question{Name: "zz.wild." + zoneName, Qtype: w.qtype, Qclass: dns.ClassINET}, true)
				if exp == nil || len(exp.Answer) == 0 {
					return
				}
				var ans, ns []dns.RR
				for _, rr := range exp.Answer {
					cp := dns.Copy(rr)
					cp.Header().Name = w.qname
					ans = append(ans, cp)
				}
				for _, rr := range ex.Resp.Ns {
					if rr.Header().Rrtype == dns.TypeSOA {
						continue
					}
					if s, ok := rr.(*dns.RRSIG); ok && s.TypeCovered == dns.TypeSOA {
						continue
					}
					ns = append(ns, rr)
				}
				ex.Resp.Rcode = dns.RcodeSuccess
				ex.Resp.Answer = ans
				ex.Resp.Ns = ns
			case "fakedname":
				// the answer becomes a forged CNAME with a junk signature naming the real signer, "justified"
				// by an unsigned DNAME that the signed zone's PARENT would own, in the authority section
				tgt := strings.TrimSuffix(strings.ToLower(w.qname), "test.") + "ne.test."
				forged := &dns.CNAME{Hdr: dns.RR_Header{Name: w.qname, Rrtype: dns.TypeCNAME, Class: dns.ClassINET, Ttl: 300}, Target: tgt}
				junk := &dns.RRSIG{Hdr: dns.RR_Header{Name: w.qname, Rrtype: dns.TypeRRSIG, Class: dns.ClassINET, Ttl: 300},
					TypeCovered: dns.TypeCNAME, Algorithm: dns.ECDSAP256SHA256, Labels: uint8(dns.CountLabel(w.qname)), OrigTtl: 300,
					Expiration: uint32(time.Now().Add(24 * time.Hour).Unix()), Inception: uint32(time.Now().Add(-time.Hour).Unix()),
					KeyTag: 4242, SignerName: zoneName, Signature: "Tm90QVJlYWxTaWduYXR1cmVCdXRWYWxpZEJhc2U2NA=="}
				if k := w.zone.Key0(); k != nil {
					junk.KeyTag = k.RR.KeyTag()
				}
				ex.Resp.Rcode = dns.RcodeSuccess
				ex.Resp.Answer = []dns.RR{forged, junk}
				ex.Resp.Ns = []dns.RR{&dns.DNAME{Hdr: dns.RR_Header{Name: "test.", Rrtype: dns.TypeDNAME, Class: dns.ClassINET, Ttl: 300}, Target: "ne.test."}}
			case "roguesig":
				// every RRset of the reply is altered and re-signed, signer name = the zone, with the attacker's key
				resign := func(sec []dns.RR) []dns.RR {
					sets := rrsets(sec)
					var names []string
					for k := range sets {
						names = append(names, k)
					}
					sort.Strings(names)
					var out []dns.RR
					for _, k := range names {
						set := sets[k]
						if set[0].Header().Rrtype == dns.TypeOPT {
							out = append(out, set...)
							continue
						}
						alterData(set[0])
						out = append(out, set...)
						out = append(out, authkit.SignRRset(set, zoneName, w.rogue, time.Now().Add(-time.Hour), time.Now().Add(24*time.Hour)))
					}
					return out
				}
				ex.Resp.Answer = resign(ex.Resp.Answer)
				ex.Resp.Ns = resign(ex.Resp.Ns)
			case "inject":
				victim := w.evil.RRset("victim.ne.test.", dns.TypeA)
				ex.Resp.Answer = append(ex.Resp.Answer, victim...)
				ex.Resp.Answer = append(ex.Resp.Answer, authkit.SignRRset(victim, "ne.test.", w.evil.Key0(), time.Now().Add(-time.Hour), time.Now().Add(24*time.Hour)))
			default:
				all := func(rr dns.RR) bool { return true }
				ex.Resp.Answer = w.tamperSection(ex.Resp.Answer, kind, signer, all)
				if len(ex.Resp.Answer) == 0 {
					ex.Resp.Ns = w.tamperSection(ex.Resp.Ns, kind, signer, all)
				}
			}
		}
	}
	return nil, nil
}

// ---- oracle -------------------------------------------------------------------

func zoneSigned(k string) bool { return k == "signed" || k == "signed-same" || k == "nsec3" }

func effectiveAt(c caseT, pos string) bool {
	kind := c.Tamper[pos]
	needsProof := c.QK == "nodata" || c.QK == "nx" || c.QK == "wild" || c.QK == "ent" || c.QK == "rootnx"
	rootOnly := c.QK == "rootnx"
	switch {
	case kind == "" || kind == "none" || kind == "clonetag":
		return false
	case kind == "ttlup":
		return false // authenticity is intact (the TTL is not in the signed form); the lifetime is C04's subject: see ttlAboveOrig
	case kind == "lame":
		return false // a fault (the server refuses), not a tampering with anything a validator looks at: see lame()
	case rootOnly && pos != "rootkey" && pos != "answer":
		return false // the root answers the question: nothing below it is asked
	case pos == "rootkey":
		return true
	case rootOnly && pos == "answer":
		switch kind {
		case "wildrep", "wildforeign", "fakedname", "foreigndeny", "inject":
			return false
		case "dropproof", "foreignproof":
			return needsProof
		}
		return kind != "roguesig"
	case pos == "rootref":
		return true // the parent (test.) is signed in every configuration
	case pos == "referral" && (kind == "dropproof" || kind == "foreignproof"):
		return !zoneSigned(c.Zone)
	case pos == "referral" && (kind == "dropds" || kind == "swapds"):
		return zoneSigned(c.Zone)
	case pos == "dnskey":
		return zoneSigned(c.Zone)
	case pos == "answer" && (kind == "dropproof" || kind == "foreignproof"):
		return zoneSigned(c.Zone) && needsProof
	case pos == "answer" && kind == "wildrep":
		return zoneSigned(c.Zone) && c.QK == "ent"
	case pos == "answer" && kind == "wildforeign":
		return zoneSigned(c.Zone) && (c.QK == "ent" || c.QK == "whost")
	case pos == "answer" && kind == "inject":
		return zoneSigned(c.Zone) // unsigned zone: the foreign RRset is filtered (C07), the honest rest is served
	case pos == "answer":
		return zoneSigned(c.Zone)
	}
	return true
}

func effective(c caseT) bool {
	return effectiveAt(c, "rootkey") || effectiveAt(c, "rootref") || effectiveAt(c, "referral") || effectiveAt(c, "dnskey") || effectiveAt(c, "answer")
}

// lame: the server that holds the answer refuses the question.  sdns can only fail (SERVFAIL, no validation verdict)
// or, with a fallback resolver configured, relay that resolver's answer - which sdns has not validated.
func lame(c caseT) bool { return c.Tamper["answer"] == "lame" }

func fallbackOf(c caseT) string {
	if c.Fallback == "" {
		return "none"
	}
	return c.Fallback
}

func tamperString(c caseT) string {
	if rk := c.Tamper["rootkey"]; rk != "" && rk != "none" {
		return fmt.Sprintf("rootkey=%s rootref=%s referral=%s dnskey=%s answer=%s", rk, c.Tamper["rootref"], c.Tamper["referral"], c.Tamper["dnskey"], c.Tamper["answer"])
	}
	if rr := c.Tamper["rootref"]; rr != "" && rr != "none" {
		return fmt.Sprintf("rootref=%s referral=%s dnskey=%s answer=%s", rr, c.Tamper["referral"], c.Tamper["dnskey"], c.Tamper["answer"])
	}
	return fmt.Sprintf("referral=%s dnskey=%s answer=%s", c.Tamper["referral"], c.Tamper["dnskey"], c.Tamper["answer"])
}

func rrKey(rr dns.RR) string {
	c := dns.Copy(rr)
	c.Header().Ttl = 0
	c.Header().Name = strings.ToLower(c.Header().Name)
	return strings.ToLower(c.String())
}

func nonSig(rrs []dns.RR) []string {
	var out []string
	for _, rr := range rrs {
		switch rr.Header().Rrtype {
		case dns.TypeRRSIG, dns.TypeNSEC, dns.TypeNSEC3, dns.TypeOPT:
			continue
		}
		out = append(out, rrKey(rr))
	}
	sort.Strings(out)
	// a record repeated in a section is not altered data: compare as sets
	// (sdns repeats the terminal RRset of a DNAME-redirected answer; booked as an observation)
	ded := out[:0]
	for i, s := range out {
		if i == 0 || s != out[i-1] {
			ded = append(ded, s)
		}
	}
	return ded
}

func hasEDE(m *dns.Msg) bool {
	if o := m.IsEdns0(); o != nil {
		for _, e := range o.Option {
			if _, ok := e.(*dns.EDNS0_EDE); ok {
				return true
			}
		}
	}
	return false
}

// ttlAboveOrig: the largest excess of a served TTL over what the zone's signer published for that RRset (the
// covering RRSIG's Original TTL when the reply carries signatures, else the zone's uniform 300 s in the answer
// section).  RFC 4035 5.3.3 has a validator cap the TTL of an authenticated RRset at the RRSIG's Original TTL; the
// C01 statement speaks about data and AD, C04's lifetime list has no such term, so this is an OBSERVATION only.
func ttlAboveOrig(r *dns.Msg) (uint32, string) {
	var worst uint32
	what := ""
	orig := map[string]uint32{}
	for _, sec := range [][]dns.RR{r.Answer, r.Ns} {
		for _, rr := range sec {
			if s, ok := rr.(*dns.RRSIG); ok {
				orig[fmt.Sprintf("%s/%d", strings.ToLower(s.Hdr.Name), s.TypeCovered)] = s.OrigTtl
			}
		}
	}
	for si, sec := range [][]dns.RR{r.Answer, r.Ns} {
		for _, rr := range sec {
			h := rr.Header()
			if h.Rrtype == dns.TypeRRSIG || h.Rrtype == dns.TypeOPT {
				continue
			}
			o, ok := orig[fmt.Sprintf("%s/%d", strings.ToLower(h.Name), h.Rrtype)]
			if !ok {
				if si != 0 || len(orig) > 0 {
					continue
				}
				o = 300
			}
			if h.Ttl > o && h.Ttl-o > worst {
				worst, what = h.Ttl-o, fmt.Sprintf("%s %s served with TTL %d, signer published %d", h.Name, dns.TypeToString[h.Rrtype], h.Ttl, o)
			}
		}
	}
	return worst, what
}

// judge returns (clause, what) for the first violated predicate.
func judge(c caseT, w *world, r *dns.Msg, edns bool) (string, string) {
	truth := w.n.GroundTruth(dns.Question{Name: w.qname, Qtype: w.qtype, Qclass: dns.ClassINET})
	wantRcode := dns.RcodeSuccess
	if truth.Kind == "nxdomain" || truth.Kind == "answer-nxdomain" {
		wantRcode = dns.RcodeNameError
	}
	pathSecure := c.Anchor && (zoneSigned(c.Zone) || c.QK == "rootnx") && !effective(c)
	src := ""
	if w.fb != nil && w.fb.asked.Load() > 0 {
		src = fmt.Sprintf("; the %s fallback resolver was asked %d time(s) and its answer served in place of the resolver's SERVFAIL", w.fb.mode, w.fb.asked.Load())
	}
	if r.AuthenticatedData {
		if c.Flags.CD || !(c.Flags.DO || c.Flags.AD) {
			return "ad-unasked", fmt.Sprintf("AD set toward a client with CD=%v DO=%v AD=%v", c.Flags.CD, c.Flags.DO, c.Flags.AD)
		}
		if !pathSecure {
			return "ad-insecure", fmt.Sprintf("AD set although the path is not secure (zone %s, tamper %s), reply is %s with answers %v%s", c.Zone, tamperString(c), dns.RcodeToString[r.Rcode], nonSig(r.Answer), src)
		}
		if lame(c) {
			// the only server holding the answer refused: whatever is in this reply, sdns validated none of it
			return "ad-unvalidated", "AD set on a reply sdns did not validate: the answering server is lame, the data is the " + fallbackOf(c) + " fallback resolver's, its AD bit was passed through"
		}
	}
	if r.Rcode == dns.RcodeServerFailure {
		if edns && !hasEDE(r) {
			return "servfail-no-ede", "SERVFAIL toward an EDNS client without an extended error"
		}
		return "", ""
	}
	if c.Flags.CD {
		return "", "" // validation is off for this client; only the AD clause applies
	}
	if !c.Anchor {
		return "no-anchor", fmt.Sprintf("no trust anchor configured, reply is %s not SERVFAIL%s", dns.RcodeToString[r.Rcode], src)
	}
	if effective(c) {
		return "tampered-accepted", fmt.Sprintf("tampering %s was effective on a validated path, reply is %s with answers %v%s", tamperString(c), dns.RcodeToString[r.Rcode], nonSig(r.Answer), src)
	}
	if lame(c) && c.Fallback == "lying" {
		// NOT judged: no response on the path was tampered with and sdns reached no validation verdict; the
		// operator-designated fallback resolver is trusted for the data (as a forwarder is).  Only the AD bit
		// above is sdns's own statement.  Counted as an observation by the caller.
		return "", ""
	}
	if !zoneSigned(c.Zone) && c.QK != "rootnx" {
		if k := c.Tamper["answer"]; k != "" && k != "none" {
			// an unsigned zone has no signer: tampering with its answers is outside
			// the statement ("a name under an unbroken signed chain"); C07 covers it
			return "", ""
		}
	}
	// must be exactly what the signer published
	if r.Rcode != wantRcode {
		return "wrong-rcode", fmt.Sprintf("rcode %s, the zone says %s (%s)", dns.RcodeToString[r.Rcode], dns.RcodeToString[wantRcode], truth.Kind)
	}
	got := nonSig(r.Answer)
	var want []string
	for _, rr := range truth.Answer {
		want = append(want, rrKey(rr))
	}
	sort.Strings(want)
	if strings.Join(got, "\n") != strings.Join(want, "\n") {
		return "altered-data", fmt.Sprintf("answer %v, the signer published %v", got, want)
	}
	return "", ""
}

func TestDnssecReplay(t *testing.T) {
	var in input
	vh.Input(t, &in)
	res := vh.NewResult()
	defer res.Write(t)
	honestOK, honestAll := 0, 0
	for ci, c := range in.Cases {
		w, err := build(c)
		if err != nil {
			res.Skip("build: %v", err)
			continue
		}
		applied := w.install(c)
		dir, _ := os.MkdirTemp("", "verif-c01-")
		var keys []string
		if c.Anchor {
			keys = []string{w.n.Root.Keys[0].RR.String()}
		}
		s, _ := pipe.NewResolverServer(pipe.ResolverOpts{RootAddr: w.n.RootSrv.Addr, RootKeys: keys, DNSSEC: true, Dir: dir, Mapper: w.n.Mapper(),
			Mutate: func(cfg *config.Config) {
				if w.fb != nil {
					cfg.FallbackServers = []string{w.fb.addr}
				}
			}})
		key := fmt.Sprintf("%s|%s|%v|%s|%v", c.Zone, c.QK, c.Flags, tamperString(c), c.Anchor)
		if w.fb != nil {
			key += "|fallback=" + w.fb.mode
		}
		clause0 := ""
		for round := 0; round < 2; round++ {
			q := new(dns.Msg)
			q.SetQuestion(w.qname, w.qtype)
			q.AuthenticatedData = c.Flags.AD
			q.CheckingDisabled = c.Flags.CD
			edns := c.Flags.DO || ci%2 == 0
			if edns {
				q.SetEdns0(1232, c.Flags.DO)
			}
			r := pipe.Ask(s, q, "udp", fmt.Sprintf("203.0.113.%d", 10+round))
			res.Case(key)
			if r == nil {
				res.Count("no_reply", 1)
				continue
			}
			if clause, what := judge(c, w, r, edns); clause != "" && round == 1 && clause == clause0 {
				// the reply from the caches repeats the first reply's violation: one finding, not two
				res.Count("round1_repeats_round0_violation", 1)
			} else if clause != "" {
				if round == 0 {
					clause0 = clause
				}
				res.Violate("c01/"+clause+"/"+key+fmt.Sprintf("/round%d", round),
					fmt.Sprintf("[zone %s, query %s %s, flags %+v, tamper %s, anchor %v, round %d] %s", c.Zone, w.qname, dns.TypeToString[w.qtype], c.Flags, tamperString(c), c.Anchor, round, what),
					map[string]any{"driver": "c01", "case": c, "reply": r.String(), "tamper_applied": *applied, "fallback_asked": w.fbAsked()})
			}
			if w.fb != nil && lame(c) && c.Fallback == "lying" && !c.Flags.CD && r.Rcode != dns.RcodeServerFailure {
				res.Count("obs_lying_fallback_data_relayed_on_availability_failure", 1)
			}
			if r.Rcode != dns.RcodeServerFailure && zoneSigned(c.Zone) && !c.Flags.CD {
				if over, what := ttlAboveOrig(r); over > 0 {
					res.Count("obs_ttl_above_rrsig_original_ttl", 1)
					if r.AuthenticatedData {
						res.Count("obs_ttl_above_rrsig_original_ttl_with_ad", 1)
					}
					if round == 0 {
						res.Count("obs_ttl_sample: "+what+" [tamper "+tamperString(c)+"]", 1)
					}
				}
			}
			// which extended error does a validation failure carry?  (diagnostic: the failover decision of a repaired
			// tree may rest on it)
			if round == 0 && r.Rcode == dns.RcodeServerFailure && effective(c) && c.Anchor && !c.Flags.CD {
				code, text := "none", ""
				if o := r.IsEdns0(); o != nil {
					for _, e := range o.Option {
						if ede, ok := e.(*dns.EDNS0_EDE); ok {
							code, text = fmt.Sprint(ede.InfoCode), ede.ExtraText
							break
						}
					}
				}
				res.Count("bogus_ede_"+code, 1)
				if os.Getenv("C01_EDE_SURVEY") != "" {
					res.Count(fmt.Sprintf("survey ede=%s %q tamper[%s]", code, text, tamperString(c)), 1)
				}
			}
			// drift against the model's predicted outcome
			got := "noerror"
			switch r.Rcode {
			case dns.RcodeServerFailure:
				got = "servfail"
			case dns.RcodeNameError:
				got = "nxdomain"
			}
			if round == 0 && (got != c.Exp.Rcode || r.AuthenticatedData != c.Exp.AD) {
				res.DriftNote("model %s/ad=%v, code %s/ad=%v for %s (tamper applied %d times, fallback asked %d)", c.Exp.Rcode, c.Exp.AD, got, r.AuthenticatedData, key, *applied, w.fbAsked())
			}
			if round == 0 && !effective(c) && c.Anchor && !c.Flags.CD {
				honestAll++
				if r.Rcode != dns.RcodeServerFailure {
					honestOK++
				}
			}
		}
		if effective(c) && *applied == 0 {
			res.Count("tamper_never_applied", 1)
		}
		if w.fb != nil {
			res.Count("fallback_cases", 1)
			if w.fbAsked() > 0 {
				res.Count("fallback_cases_asked", 1)
			}
			w.fb.stop()
		}
		if ci < 3 {
			res.Sample(c)
		}
		w.n.Stop()
		os.RemoveAll(dir)
	}
	res.Count("honest_cases", honestAll)
	res.Count("honest_resolved", honestOK)
}
