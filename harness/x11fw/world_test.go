package x11fw

// The scripted world of the Forward binding: NF forwarder + NB fallback
// upstreams on loopback (UDP and TCP on one port, or DoT / DoH for the
// forwarders) that play the per-case fault a TLC behaviour scripted for them
// and log every packet they receive, and the REAL default chain
// (defaults.Register: ... cache -> failover -> resolver -> forwarder) with
// two observation handlers of the harness's own between the real ones:
//
//	cache -> [x11fw-outer] -> failover -> [x11fw-inner] -> resolver -> forwarder
//
// outer: pins the request context of the case (the upstreams read the request
// tree's work ledger through it at the moment a packet arrives), pre-exhausts
// the attempt-guard tuples the behaviour lists, and observes what failover
// hands up.  inner: observes what the forwarder writes into failover; for a
// behaviour with `prework` it first spends that non-outbound budget of the
// REAL request-tree ledger the way validation / sub-queries do (one debit per
// operation) and, once the ledger refuses, answers as resolver.DNSHandler
// answers a refused resolution - the primary below failover has then failed on
// a budget while the outbound counter is untouched.

import (
	"context"
	"crypto/ecdsa"
	"crypto/elliptic"
	"crypto/rand"
	"crypto/tls"
	"crypto/x509"
	"crypto/x509/pkix"
	"encoding/binary"
	"errors"
	"fmt"
	"io"
	"math/big"
	"net"
	"net/http"
	"strings"
	"sync"
	"sync/atomic"
	"time"

	"github.com/miekg/dns"
	"github.com/semihalev/sdns/config"
	"github.com/semihalev/sdns/internal/contextutil"
	"github.com/semihalev/sdns/internal/dnsutil"
	"github.com/semihalev/sdns/middleware"
	"github.com/semihalev/sdns/middleware/defaults"
	"github.com/semihalev/sdns/middleware/forwarder"
	"github.com/semihalev/sdns/server"
)

const (
	zoneSuffix = ".x11fw.test."
	markerName = "srv.x11fw.marker."
)

// ---- cases ---------------------------------------------------------------

type msgRec struct {
	Kind string `json:"kind"` // relay | upfail | localfail | plainfail | workfail
	From int    `json:"from"`
	Rc   string `json:"rc"`
	Mark string `json:"mark"`
	Ok   bool   `json:"ok"`
	ID   string `json:"id"` // whose transaction ID the model's message carries: client | own
}

type expect struct {
	Sent    [][]any `json:"sent"` // [server, proto, ledger outbound counter when the packet left]
	Reply   msgRec  `json:"reply"`
	M       msgRec  `json:"m"`
	Debits  int     `json:"debits"`
	Passes  int     `json:"passes"`
	Latched bool    `json:"latched"`
	Engaged bool    `json:"engaged"`
	ReplyAt int     `json:"replyAt"`
}

type faultCase struct {
	ID     string   `json:"id"`
	Script []string `json:"script"` // per server 1..NF+NB; "none" = never contacted in the model (answers honestly)
	Pre    [][]any  `json:"pre"`    // [[server, proto], ...] guard tuples exhausted on arrival
	Expect *expect  `json:"expect,omitempty"`
	Dup    int      `json:"dup"`    // extra identical clients in flight
	// the non-outbound budget the primary resolution is rejected on ("" / "none": no such work):
	// internal | dnskey | rrsig | signature | dsdigest | nsec3 | crypto
	PreWork string `json:"prework,omitempty"`
	// the upstreams decorate what they send: AD=1 and, when asked with an OPT, options of their own (a client
	// subnet with a scope, a server cookie, keepalive, padding, a local-use option) - none of it is the client's
	UpOpts bool `json:"upopts,omitempty"`
	Client int      `json:"client"` // client shape selector (entry path, transport, EDNS options)
}

type sendEv struct {
	Seq     int64    `json:"seq"`
	Srv     int      `json:"srv"`
	Proto   string   `json:"proto"`
	ID      uint16   `json:"id"`
	AtMs    int64    `json:"atMs"`
	Fault   string   `json:"fault"`
	Ledger  bool     `json:"ledger"`  // a live ledger was visible
	Debits  int      `json:"debits"`  // its outbound counter when the packet arrived
	Opts    []uint16 `json:"opts"`    // EDNS option codes on the wire
	ECS     string   `json:"ecs"`     // family/source/address of an ECS option
	Problem string   `json:"problem"` // upstream-side anomaly (wrong question on the wire...)
}

type written struct {
	Seq     int64  `json:"seq"`
	N       int    `json:"n"`
	Rcode   int    `json:"rcode"`
	Kind    string `json:"kind"`
	From    int    `json:"from"`
	Via     int    `json:"via"`
	Mark    string `json:"mark"`
	Latched bool   `json:"latched"`
	Ledger  bool   `json:"ledger"`
	Debits  int    `json:"debits"`
	CtxDone bool   `json:"ctxDone"`
	RD      bool   `json:"rd"`
	EDE     []int  `json:"ede"`
	MsgID   uint16 `json:"msgId"` // the transaction ID of the message written at this layer ...
	ReqID   uint16 `json:"reqId"` // ... and of the client request it answers
	Work    string `json:"work"`  // the budget the ledger latched as the tree's first rejection ("" = none)
}

type caseRun struct {
	c     *faultCase
	name  string
	grp   *world
	mu    sync.Mutex
	first int64 // sequence number of the first arrival at the outer probe
	ctxs  []context.Context
	sends []sendEv
	inner written
	outer written
	// phase 2: every server answers honestly
	honest atomic.Bool
}

func (cr *caseRun) faultOf(srv int) string {
	if cr.honest.Load() {
		return "answer"
	}
	if srv-1 < len(cr.c.Script) {
		if f := cr.c.Script[srv-1]; f != "" && f != "none" {
			return f
		}
	}
	return "answer"
}

func (cr *caseRun) ledgerNow() (bool, int) {
	cr.mu.Lock()
	ctxs := cr.ctxs
	cr.mu.Unlock()
	if len(ctxs) != 1 {
		return false, 0 // duplicates in flight: the packet cannot be attributed to one request tree
	}
	l := middleware.RecursionWorkFrom(ctxs[0])
	if l == nil {
		return false, 0
	}
	s := l.Snapshot()
	if s.Mode == middleware.RecursionWorkOff && s.MaxOutboundQueries == 0 {
		return false, 0
	}
	return true, int(s.OutboundQueries)
}

// ---- upstreams -------------------------------------------------------------

type upstream struct {
	idx   int
	kind  string // "udp" (UDP+TCP) | "dot" | "doh"
	addr  string // host:port
	url   string // DoH
	w     *world
	pc    net.PacketConn
	ln    net.Listener
	hs    *http.Server
	conns sync.WaitGroup
}

var evSeq atomic.Int64

func markerIP(kind byte, srv int, proto string) net.IP {
	p := byte(1)
	if proto != "udp" {
		p = 2
	}
	return net.IPv4(10, kind, byte(srv), p)
}

func optOf(req *dns.Msg, m *dns.Msg) {
	if o := req.IsEdns0(); o != nil {
		m.SetEdns0(1232, o.Do())
	}
}

// decorate: an upstream that speaks for itself (UpOpts).  What it adds is addressed to the server's own query.
func (u *upstream) decorate(m *dns.Msg) *dns.Msg {
	cr := u.w.lookup(strings.ToLower(strings.TrimPrefix(strings.ToLower(m.Question[0].Name), "other-")))
	if cr == nil || !cr.c.UpOpts || cr.honest.Load() {
		return m
	}
	m.AuthenticatedData = true
	if o := m.IsEdns0(); o != nil {
		o.Option = append(o.Option,
			&dns.EDNS0_SUBNET{Code: dns.EDNS0SUBNET, Family: 1, SourceNetmask: 24, SourceScope: 24, Address: net.IPv4(192, 0, 2, 0)},
			&dns.EDNS0_COOKIE{Code: dns.EDNS0COOKIE, Cookie: "fedcba9876543210" + "00112233445566778899aabbccddeeff"},
			&dns.EDNS0_TCP_KEEPALIVE{Code: dns.EDNS0TCPKEEPALIVE, Timeout: 300},
			&dns.EDNS0_PADDING{Padding: make([]byte, 8)},
			&dns.EDNS0_LOCAL{Code: 65002, Data: []byte("upstream-private")})
	}
	return m
}

func (u *upstream) answer(req *dns.Msg, proto string, kind byte, name string) *dns.Msg {
	m := new(dns.Msg)
	m.SetReply(req)
	m.RecursionAvailable = true
	if name != req.Question[0].Name {
		m.Question = []dns.Question{{Name: name, Qtype: req.Question[0].Qtype, Qclass: req.Question[0].Qclass}}
	}
	m.Answer = []dns.RR{&dns.A{Hdr: dns.RR_Header{Name: name, Rrtype: dns.TypeA, Class: dns.ClassINET, Ttl: 60},
		A: markerIP(kind, u.idx, proto)}}
	optOf(req, m)
	return u.decorate(m)
}

func (u *upstream) rcode(req *dns.Msg, rc int) *dns.Msg {
	m := new(dns.Msg)
	m.SetRcode(req, rc)
	m.RecursionAvailable = true
	if rc != dns.RcodeSuccess {
		m.Extra = append(m.Extra, &dns.TXT{Hdr: dns.RR_Header{Name: markerName, Rrtype: dns.TypeTXT, Class: dns.ClassINET, Ttl: 0},
			Txt: []string{fmt.Sprintf("srv=%d", u.idx)}})
	}
	optOf(req, m)
	return u.decorate(m)
}

func (u *upstream) truncated(req *dns.Msg) *dns.Msg {
	m := new(dns.Msg)
	m.SetReply(req)
	m.Truncated = true
	optOf(req, m)
	return m
}

// other answers what is not a case query: the resolver handler primes its root list at start-up even in
// forwarder mode (a failed priming would be remembered as a failure of the root zone), everything else is REFUSED.
func other(req *dns.Msg) *dns.Msg {
	m := new(dns.Msg)
	if len(req.Question) == 1 && req.Question[0].Name == "." && req.Question[0].Qtype == dns.TypeNS {
		m.SetReply(req)
		m.Authoritative = true
		m.Answer = []dns.RR{&dns.NS{Hdr: dns.RR_Header{Name: ".", Rrtype: dns.TypeNS, Class: dns.ClassINET, Ttl: 3600}, Ns: "a.root.x11fw."}}
		m.Extra = []dns.RR{&dns.A{Hdr: dns.RR_Header{Name: "a.root.x11fw.", Rrtype: dns.TypeA, Class: dns.ClassINET, Ttl: 3600}, A: net.IPv4(127, 0, 0, 1)}}
		optOf(req, m)
		return m
	}
	m.SetRcode(req, dns.RcodeRefused)
	return m
}

// record logs the packet under the case it belongs to; nil = not a case query.
func (u *upstream) record(req *dns.Msg, proto string) (*caseRun, string) {
	if len(req.Question) != 1 {
		return nil, ""
	}
	name := strings.ToLower(req.Question[0].Name)
	cr := u.w.lookup(name)
	if cr == nil {
		return nil, ""
	}
	f := cr.faultOf(u.idx)
	ev := sendEv{Seq: evSeq.Add(1), Srv: u.idx, Proto: proto, ID: req.Id, AtMs: time.Since(u.w.t0).Milliseconds(), Fault: f}
	ev.Ledger, ev.Debits = cr.ledgerNow()
	if o := req.IsEdns0(); o != nil {
		for _, opt := range o.Option {
			ev.Opts = append(ev.Opts, opt.Option())
			if s, ok := opt.(*dns.EDNS0_SUBNET); ok {
				ev.ECS = fmt.Sprintf("%d/%d/%s", s.Family, s.SourceNetmask, s.Address.String())
			}
		}
	}
	if req.Question[0].Qtype != dns.TypeA || req.Question[0].Qclass != dns.ClassINET {
		ev.Problem = "question type/class changed on the way upstream"
	}
	cr.mu.Lock()
	cr.sends = append(cr.sends, ev)
	cr.mu.Unlock()
	return cr, f
}

// datagrams the fault makes the server send in reply to a UDP query, and a delay before them
func (u *upstream) udpReplies(cr *caseRun, f string, req *dns.Msg) (out [][]byte, delay time.Duration) {
	pack := func(m *dns.Msg) []byte {
		b, err := m.Pack()
		if err != nil {
			return nil
		}
		return b
	}
	q := req.Question[0].Name
	switch f {
	case "answer":
		out = append(out, pack(u.answer(req, "udp", 11, q)))
	case "strayAnswer":
		s := u.answer(req, "udp", 98, q)
		s.Id = ^s.Id
		out = append(out, pack(s), pack(u.answer(req, "udp", 11, q)))
	case "refused":
		out = append(out, pack(u.rcode(req, dns.RcodeRefused)))
	case "nxdomain":
		out = append(out, pack(u.rcode(req, dns.RcodeNameError)))
	case "servfail":
		out = append(out, pack(u.rcode(req, dns.RcodeServerFailure)))
	case "drop":
	case "delay":
		delay = u.w.qt + 500*time.Millisecond
		out = append(out, pack(u.answer(req, "udp", 97, q)))
	case "wrongId":
		s := u.answer(req, "udp", 98, q)
		s.Id = ^s.Id
		out = append(out, pack(s))
	case "garbage":
		if len(cr.name)%2 == 0 {
			out = append(out, []byte{0xde, 0xad, 0xbe, 0xef, 1, 2, 3})
		} else {
			g := make([]byte, 40)
			binary.BigEndian.PutUint16(g, req.Id)
			g[2] = 0x81
			g[3] = 0x80
			g[5] = 1 // QDCOUNT 1, then a label running off the end
			g[7] = 3 // ANCOUNT 3
			for i := 12; i < len(g); i++ {
				g[i] = 0x3f
			}
			out = append(out, g)
		}
	case "wrongQuestion":
		out = append(out, pack(u.answer(req, "udp", 99, "other-"+q)))
	case "tcAnswer", "tcStall", "tcReset", "tcWrongId", "tcServfail":
		out = append(out, pack(u.truncated(req)))
	default:
		out = append(out, pack(u.answer(req, "udp", 11, q)))
	}
	return out, delay
}

func (u *upstream) serveUDP() {
	buf := make([]byte, 65535)
	for {
		n, addr, err := u.pc.ReadFrom(buf)
		if err != nil {
			return
		}
		req := new(dns.Msg)
		if err := req.Unpack(buf[:n]); err != nil {
			continue
		}
		cr, f := u.record(req, "udp")
		if cr == nil {
			if b, err := other(req).Pack(); err == nil {
				_, _ = u.pc.WriteTo(b, addr)
			}
			continue
		}
		out, delay := u.udpReplies(cr, f, req)
		go func() {
			if delay > 0 {
				select {
				case <-time.After(delay):
				case <-u.w.stopCh:
					return
				}
			}
			for _, b := range out {
				if b != nil {
					_, _ = u.pc.WriteTo(b, addr)
				}
			}
		}()
	}
}

// streamReply: what a stream transport (TCP after TC, or DoT) does with the query.
// action: "reply" | "stall" | "close"
func (u *upstream) streamReply(cr *caseRun, f string, req *dns.Msg, proto string) (string, *dns.Msg) {
	q := req.Question[0].Name
	switch f {
	case "tcStall", "drop", "delay":
		return "stall", nil
	case "tcReset", "garbage":
		return "close", nil
	case "tcWrongId", "wrongId", "strayAnswer":
		m := u.answer(req, proto, 98, q)
		m.Id = ^m.Id
		return "reply", m
	case "tcServfail", "servfail":
		return "reply", u.rcode(req, dns.RcodeServerFailure)
	case "refused":
		return "reply", u.rcode(req, dns.RcodeRefused)
	case "nxdomain":
		return "reply", u.rcode(req, dns.RcodeNameError)
	case "wrongQuestion":
		return "reply", u.answer(req, proto, 99, "other-"+q)
	}
	return "reply", u.answer(req, proto, 11, q)
}

func (u *upstream) serveStream(ln net.Listener, proto string) {
	for {
		c, err := ln.Accept()
		if err != nil {
			return
		}
		u.conns.Add(1)
		go func() {
			defer u.conns.Done()
			defer c.Close()
			for {
				_ = c.SetReadDeadline(time.Now().Add(u.w.qt + 3*time.Second))
				var hdr [2]byte
				if _, err := io.ReadFull(c, hdr[:]); err != nil {
					return
				}
				body := make([]byte, binary.BigEndian.Uint16(hdr[:]))
				if _, err := io.ReadFull(c, body); err != nil {
					return
				}
				req := new(dns.Msg)
				if err := req.Unpack(body); err != nil {
					return
				}
				cr, f := u.record(req, proto)
				var m *dns.Msg
				action := "reply"
				if cr == nil {
					m = other(req)
				} else {
					action, m = u.streamReply(cr, f, req, proto)
				}
				switch action {
				case "close":
					return
				case "stall":
					select {
					case <-time.After(u.w.qt + 500*time.Millisecond):
					case <-u.w.stopCh:
					}
					return
				}
				b, err := m.Pack()
				if err != nil {
					return
				}
				fr := make([]byte, 2+len(b))
				binary.BigEndian.PutUint16(fr, uint16(len(b)))
				copy(fr[2:], b)
				if _, err := c.Write(fr); err != nil {
					return
				}
			}
		}()
	}
}

func (u *upstream) serveDoH(w http.ResponseWriter, r *http.Request) {
	body, err := io.ReadAll(io.LimitReader(r.Body, 65536))
	if err != nil {
		http.Error(w, "read", http.StatusBadRequest)
		return
	}
	req := new(dns.Msg)
	if err := req.Unpack(body); err != nil {
		http.Error(w, "unpack", http.StatusBadRequest)
		return
	}
	cr, f := u.record(req, "doh")
	var m *dns.Msg
	action := "reply"
	if cr == nil {
		m = other(req)
	} else {
		action, m = u.streamReply(cr, f, req, "doh")
	}
	switch action {
	case "close":
		http.Error(w, "scripted failure", http.StatusBadGateway)
		return
	case "stall":
		select {
		case <-time.After(u.w.qt + 500*time.Millisecond):
		case <-u.w.stopCh:
		case <-r.Context().Done():
		}
		http.Error(w, "late", http.StatusGatewayTimeout)
		return
	}
	b, err := m.Pack()
	if err != nil {
		http.Error(w, "pack", http.StatusInternalServerError)
		return
	}
	w.Header().Set("Content-Type", "application/dns-message")
	_, _ = w.Write(b)
}

func (u *upstream) stop() {
	if u.pc != nil {
		_ = u.pc.Close()
	}
	if u.ln != nil {
		_ = u.ln.Close()
	}
	if u.hs != nil {
		_ = u.hs.Close()
	}
}

// ---- TLS material for the DoT / DoH upstreams ------------------------------

type tlsKit struct {
	pool *x509.CertPool
	cert tls.Certificate
}

var (
	tlsOnce sync.Once
	tlsMat  *tlsKit
	tlsErr  error
)

func tlsMaterial() (*tlsKit, error) {
	tlsOnce.Do(func() {
		key, err := ecdsa.GenerateKey(elliptic.P256(), rand.Reader)
		if err != nil {
			tlsErr = err
			return
		}
		tpl := &x509.Certificate{SerialNumber: big.NewInt(11), Subject: pkix.Name{CommonName: "x11fw upstream"},
			NotBefore: time.Now().Add(-time.Hour), NotAfter: time.Now().Add(24 * time.Hour),
			KeyUsage: x509.KeyUsageDigitalSignature | x509.KeyUsageCertSign, IsCA: true, BasicConstraintsValid: true,
			ExtKeyUsage: []x509.ExtKeyUsage{x509.ExtKeyUsageServerAuth},
			IPAddresses: []net.IP{net.IPv4(127, 0, 0, 1)}, DNSNames: []string{"localhost"}}
		der, err := x509.CreateCertificate(rand.Reader, tpl, tpl, &key.PublicKey, key)
		if err != nil {
			tlsErr = err
			return
		}
		leaf, err := x509.ParseCertificate(der)
		if err != nil {
			tlsErr = err
			return
		}
		pool := x509.NewCertPool()
		pool.AddCert(leaf)
		tlsMat = &tlsKit{pool: pool, cert: tls.Certificate{Certificate: [][]byte{der}, PrivateKey: key, Leaf: leaf}}
	})
	return tlsMat, tlsErr
}

// ---- the world -------------------------------------------------------------

type groupCfg struct {
	Name      string      `json:"name"`
	NF        int         `json:"nf"`
	NB        int         `json:"nb"`
	Mode      string      `json:"mode"`
	Cap       int         `json:"cap"`
	ECS       bool        `json:"ecs"`
	Transport string      `json:"transport"` // forwarders: "udp" | "dot" | "doh"
	Trace     bool        `json:"trace"`     // record the cases' event histories for Trace_Forward.tla
	Cases     []faultCase `json:"cases"`
}

type world struct {
	g      *groupCfg
	t0     time.Time
	qt     time.Duration
	dial   time.Duration
	ups    []*upstream
	srv    *server.Server
	cfg    *config.Config
	stopCh chan struct{}
	mu     sync.RWMutex
	cases  map[string]*caseRun
}

func (w *world) lookup(name string) *caseRun {
	w.mu.RLock()
	defer w.mu.RUnlock()
	return w.cases[name]
}

func (w *world) add(cr *caseRun) {
	w.mu.Lock()
	w.cases[cr.name] = cr
	w.mu.Unlock()
}

func startUpstream(w *world, idx int, kind string) (*upstream, error) {
	u := &upstream{idx: idx, kind: kind, w: w}
	switch kind {
	case "udp":
		var err error
		for try := 0; try < 30; try++ {
			u.pc, err = net.ListenPacket("udp", "127.0.0.1:0")
			if err != nil {
				return nil, err
			}
			u.ln, err = net.Listen("tcp", u.pc.LocalAddr().String())
			if err == nil {
				break
			}
			_ = u.pc.Close()
		}
		if err != nil {
			return nil, err
		}
		u.addr = u.pc.LocalAddr().String()
		go u.serveUDP()
		go u.serveStream(u.ln, "tcp")
	case "dot":
		kit, err := tlsMaterial()
		if err != nil {
			return nil, err
		}
		ln, err := tls.Listen("tcp", "127.0.0.1:0", &tls.Config{Certificates: []tls.Certificate{kit.cert}, MinVersion: tls.VersionTLS12})
		if err != nil {
			return nil, err
		}
		u.ln = ln
		u.addr = ln.Addr().String()
		go u.serveStream(ln, "tcp-tls")
	case "doh":
		kit, err := tlsMaterial()
		if err != nil {
			return nil, err
		}
		ln, err := tls.Listen("tcp", "127.0.0.1:0", &tls.Config{Certificates: []tls.Certificate{kit.cert}, MinVersion: tls.VersionTLS12,
			NextProtos: []string{"h2", "http/1.1"}})
		if err != nil {
			return nil, err
		}
		u.ln = ln
		u.addr = ln.Addr().String()
		u.url = "https://" + u.addr + "/dns-query"
		mux := http.NewServeMux()
		mux.HandleFunc("/dns-query", u.serveDoH)
		u.hs = &http.Server{Handler: mux, ReadHeaderTimeout: 5 * time.Second}
		go func() { _ = u.hs.Serve(ln) }()
	default:
		return nil, fmt.Errorf("unknown upstream kind %q", kind)
	}
	return u, nil
}

func (u *upstream) configured() string {
	switch u.kind {
	case "dot":
		return "tls://" + u.addr
	case "doh":
		return u.url
	}
	return u.addr
}

// endpoint / transport as the forwarder names them in BeginResolutionAttempt
func (u *upstream) guardTuple(modelProto string) (string, string) {
	switch u.kind {
	case "dot":
		if modelProto != "udp" {
			return "", "" // a stream upstream has one transport: the model's first attempt
		}
		return u.addr, "tcp-tls"
	case "doh":
		if modelProto != "udp" {
			return "", ""
		}
		return u.url, "doh"
	}
	return u.addr, modelProto
}

var buildMu sync.Mutex

func buildWorld(g *groupCfg, qt, dial time.Duration) (*world, error) {
	w := &world{g: g, t0: time.Now(), qt: qt, dial: dial, stopCh: make(chan struct{}), cases: map[string]*caseRun{}}
	for i := 1; i <= g.NF+g.NB; i++ {
		kind := "udp"
		if i <= g.NF && g.Transport != "" {
			kind = g.Transport
		}
		u, err := startUpstream(w, i, kind)
		if err != nil {
			w.stop()
			return nil, err
		}
		w.ups = append(w.ups, u)
	}
	cfg := &config.Config{ //nolint:gosec
		Bind:         "127.0.0.1:0",
		Expire:       600,
		CacheSize:    10240,
		CookieSecret: "6c6f6f6b61686172646c6f6f6b6168617264",
		Maxdepth:     30,
		RateLimit:    0,
		DNSSEC:       "off",
		AccessList:   []string{"0.0.0.0/0", "::0/0"},
	}
	cfg.QueryTimeout.Duration = qt
	cfg.Timeout.Duration = dial
	for _, u := range w.ups[:g.NF] {
		cfg.ForwarderServers = append(cfg.ForwarderServers, u.configured())
	}
	for _, u := range w.ups[g.NF:] {
		cfg.FallbackServers = append(cfg.FallbackServers, u.addr)
	}
	cfg.RecursionFirewall.Mode = config.RecursionFirewallMode(g.Mode)
	if g.Cap > 0 {
		cfg.RecursionFirewall.MaxOutboundQueries = uint32(g.Cap)
	}
	if g.ECS {
		cfg.ECS.Enabled = true
		cfg.ECS.ForwardV4Max = 24
		cfg.ECS.ForwardV6Max = 56
		cfg.ECS.MinScopeV4 = 16
		cfg.ECS.MinScopeV6 = 48
		cfg.ECS.ClientNetworks = []string{"0.0.0.0/0"}
		cfg.ECS.CacheLimitTTL.Duration = 30 * time.Second
	}
	// the resolver handler is constructed (and skipped per query) in forwarder mode; it insists on a root list
	cfg.RootServers = []string{"127.0.0.1:9"}
	for _, u := range w.ups {
		if u.kind == "udp" {
			cfg.RootServers = []string{u.addr}
			break
		}
	}
	w.cfg = cfg

	buildMu.Lock()
	defer buildMu.Unlock()
	middleware.Reset()
	defaults.Register()
	middleware.RegisterBefore("x11fw-outer", func(*config.Config) middleware.Handler { return &outerProbe{w: w} }, "failover")
	middleware.RegisterBefore("x11fw-inner", func(*config.Config) middleware.Handler { return &innerProbe{w: w} }, "resolver")
	middleware.Setup(cfg)
	if f, ok := middleware.Get("forwarder").(*forwarder.Forwarder); ok && f != nil {
		if g.Transport == "dot" || g.Transport == "doh" {
			kit, err := tlsMaterial()
			if err != nil {
				return nil, err
			}
			f.VerifX11fwTrust(kit.pool)
		}
		if n := f.VerifX11fwServerCount(); n != g.NF {
			return nil, fmt.Errorf("forwarder accepted %d of %d configured upstreams", n, g.NF)
		}
	} else {
		return nil, errors.New("no forwarder handler in the pipeline")
	}
	w.srv = server.New(cfg)
	middleware.Reset()
	return w, nil
}

func (w *world) stop() {
	select {
	case <-w.stopCh:
	default:
		close(w.stopCh)
	}
	for _, u := range w.ups {
		u.stop()
	}
}

// ---- observation handlers ----------------------------------------------------

type outerProbe struct{ w *world }

func (p *outerProbe) Name() string { return "x11fw-outer" }

func caseOf(w *world, ch *middleware.Chain) (*caseRun, *dns.Msg) {
	if ch.Request == nil {
		return nil, nil
	}
	req := ch.Request.Msg()
	if req == nil || len(req.Question) != 1 {
		return nil, nil
	}
	return w.lookup(strings.ToLower(req.Question[0].Name)), req
}

func (p *outerProbe) ServeDNS(ctx context.Context, ch *middleware.Chain) {
	cr, req := caseOf(p.w, ch)
	if cr == nil {
		ch.Next(ctx)
		return
	}
	if !cr.honest.Load() && len(cr.c.Pre) > 0 {
		// attempts this request tree "already made": the real guard, the real tuple spelling
		ctx, _ = middleware.EnsureResolutionAttemptGuard(ctx)
		for _, t := range cr.c.Pre {
			srv, _ := t[0].(float64)
			proto, _ := t[1].(string)
			if int(srv) < 1 || int(srv) > len(p.w.ups) {
				continue
			}
			ep, tr := p.w.ups[int(srv)-1].guardTuple(proto)
			if ep == "" {
				continue
			}
			for i := 0; i < 3; i++ {
				_ = middleware.BeginResolutionAttempt(ctx, req.Question[0], ep, tr)
			}
		}
	}
	cr.mu.Lock()
	if cr.first == 0 {
		cr.first = evSeq.Add(1)
	}
	cr.ctxs = append(cr.ctxs, ctx)
	cr.mu.Unlock()
	w := ch.Writer
	ch.Writer = &obsWriter{ResponseWriter: w, ctx: ctx, cr: cr, into: &cr.outer, reqID: req.Id}
	defer func() { ch.Writer = w }()
	ch.Next(ctx)
}

type innerProbe struct{ w *world }

func (p *innerProbe) Name() string { return "x11fw-inner" }

func (p *innerProbe) ServeDNS(ctx context.Context, ch *middleware.Chain) {
	cr, req := caseOf(p.w, ch)
	if cr == nil {
		ch.Next(ctx)
		return
	}
	w := ch.Writer
	ow := &obsWriter{ResponseWriter: w, ctx: ctx, cr: cr, into: &cr.inner, reqID: req.Id}
	ch.Writer = ow
	defer func() { ch.Writer = w }()
	if kind, ok := workKinds[cr.c.PreWork]; ok && !cr.honest.Load() {
		if err := spendWork(ctx, kind); err != nil {
			// resolver.DNSHandler.handle on a resolution error: SERVFAIL + the error's EDE, request-local provenance
			do := false
			if opt := req.IsEdns0(); opt != nil {
				do = opt.Do()
			}
			edeCode, edeText := dnsutil.ErrorToEDE(err)
			resp := dnsutil.SetRcodeWithEDE(req, dns.RcodeServerFailure, do, edeCode, edeText)
			if middleware.IsRequestLocalResolutionError(err) {
				middleware.MarkRequestLocalFailureResponse(ctx, resp, err)
			}
			_ = ow.WriteMsg(resp)
			return
		}
	}
	ch.Next(ctx)
}

// the ledger's non-outbound budgets, by the model's names
var workKinds = map[string]middleware.RecursionWorkKind{
	"internal":  middleware.RecursionWorkInternalQuery,
	"dnskey":    middleware.RecursionWorkDNSKEYCandidate,
	"rrsig":     middleware.RecursionWorkRRsetSignature,
	"signature": middleware.RecursionWorkSignature,
	"dsdigest":  middleware.RecursionWorkDSDigest,
	"nsec3":     middleware.RecursionWorkNSEC3Hash,
	"crypto":    middleware.RecursionWorkConcurrentCrypto,
}

var workNames = func() map[middleware.RecursionWorkKind]string {
	m := map[middleware.RecursionWorkKind]string{middleware.RecursionWorkOutboundQuery: "outbound"}
	for n, k := range workKinds {
		m[k] = n
	}
	return m
}()

// spendWork debits the request tree's real ledger through the production entry points until it refuses (enforce) or
// well past every default cap (shadow / off: nothing refuses): aggregate kinds one Debit per operation, per-object
// kinds the n-th item of one object, the crypto governor a rejection without a counter.
func spendWork(ctx context.Context, kind middleware.RecursionWorkKind) error {
	for i := uint32(0); i < 80; i++ {
		var err error
		switch kind {
		case middleware.RecursionWorkDNSKEYCandidate, middleware.RecursionWorkRRsetSignature:
			err = middleware.CheckRecursionWorkLocalLimit(ctx, kind, i)
		case middleware.RecursionWorkConcurrentCrypto:
			err = middleware.RejectRecursionWork(ctx, kind)
		default:
			err = middleware.DebitRecursionWork(ctx, kind)
		}
		if err != nil {
			return err
		}
	}
	return nil
}

type obsWriter struct {
	middleware.ResponseWriter
	ctx  context.Context //nolint:containedctx
	cr   *caseRun
	into *written
	// the transaction ID of the client request (taken on the way down)
	reqID uint16
}

func describe(ctx context.Context, m *dns.Msg) written {
	wr := written{Rcode: m.Rcode, RD: m.RecursionDesired, MsgID: m.Id}
	var lim *middleware.RecursionWorkLimitError
	if errors.As(middleware.RecursionWorkEnforcementError(ctx), &lim) {
		wr.Work = workNames[lim.Kind]
	}
	if err := middleware.RequestLocalFailureForResponse(ctx, m); err != nil {
		switch {
		case errors.Is(err, middleware.ErrResolutionAttemptLimit):
			wr.Mark = "attempt"
		case errors.Is(err, context.DeadlineExceeded), errors.Is(err, context.Canceled):
			wr.Mark = "deadline"
		case errors.Is(err, middleware.ErrRecursionWorkLimit):
			// the resolver marks its over-budget SERVFAIL with the policy error; the model's workfail has no mark of
			// its own (the latched ledger is its provenance)
			wr.Mark = "none"
		default:
			wr.Mark = "other:" + err.Error()
		}
	} else {
		wr.Mark = "none"
	}
	wr.Latched = middleware.RecursionWorkEnforcementError(ctx) != nil
	if l := middleware.RecursionWorkFrom(ctx); l != nil {
		s := l.Snapshot()
		wr.Ledger = s.MaxOutboundQueries != 0
		wr.Debits = int(s.OutboundQueries)
	}
	wr.CtxDone = contextutil.EffectiveError(ctx) != nil
	if o := m.IsEdns0(); o != nil {
		for _, opt := range o.Option {
			if e, ok := opt.(*dns.EDNS0_EDE); ok {
				wr.EDE = append(wr.EDE, int(e.InfoCode))
			}
		}
	}
	marker := 0
	for _, rr := range m.Extra {
		if t, ok := rr.(*dns.TXT); ok && strings.EqualFold(t.Hdr.Name, markerName) && len(t.Txt) == 1 {
			_, _ = fmt.Sscanf(t.Txt[0], "srv=%d", &marker)
		}
	}
	switch {
	case m.Rcode == dns.RcodeSuccess:
		wr.Kind = "relay"
		for _, rr := range m.Answer {
			if a, ok := rr.(*dns.A); ok {
				if ip := a.A.To4(); ip != nil && ip[0] == 10 {
					wr.From, wr.Via = int(ip[2]), int(ip[3])
					if ip[1] != 11 && ip[1] != 97 {
						wr.Kind = fmt.Sprintf("relay-of-bad-%d", ip[1])
					}
				}
			}
		}
	case m.Rcode == dns.RcodeNameError:
		wr.Kind, wr.From = "relay", marker
	case marker != 0:
		wr.Kind, wr.From = "upfail", marker
	case wr.Latched:
		wr.Kind = "workfail"
	default:
		wr.Kind = "fail"
	}
	return wr
}

func (o *obsWriter) WriteMsg(m *dns.Msg) error {
	wr := describe(o.ctx, m)
	wr.Seq = evSeq.Add(1)
	wr.ReqID = o.reqID
	o.cr.mu.Lock()
	wr.N = o.into.N + 1
	if o.into.N == 0 {
		*o.into = wr
	} else {
		o.into.N = wr.N
	}
	o.cr.mu.Unlock()
	return o.ResponseWriter.WriteMsg(m)
}
