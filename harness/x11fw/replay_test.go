package x11fw

// spec -> code: TLC behaviours of tla/Forward (simulated runs and an edge
// cover of a small state graph) played against the real default chain in
// forwarder mode.  A behaviour fixes the configuration (NF forwarders, NB
// fallbacks, firewall mode and outbound budget), the fault every upstream
// plays, the guard tuples already exhausted, and the model's run: the packets
// in order (server, transport, ledger counter when it left), what the
// forwarder handed to failover, whether failover walked, the reply, the time.
//
// After every observable step of the real run (a packet arriving at an
// upstream, the forwarder's write into failover, failover's write upward, the
// client's reply) the projection of the real state is compared with the model
// (differences are drift) and the property predicates are evaluated on what
// the code did (a false predicate is a violation):
//
//	c11  exactly one reply per client, its own (id, question), no later than
//	     querytimeout + margin; a NOERROR reply carries only the record an
//	     upstream that was asked served for this question; a request-local
//	     failure (deadline) is not served to the next client; nothing is left
//	     running afterwards
//	c12  enforce: packets at the upstreams <= outbound budget; shadow/enforce:
//	     the k-th packet arrives with the ledger already >= k (debit first);
//	     an over-budget reply is SERVFAIL and is not served to the next client
//	     (any budget: a `prework` behaviour has the primary resolution rejected
//	     on a non-outbound one while outbound budget is left)
//	c19  no client EDNS option reaches an upstream except a policy-clamped ECS
//	c06  the reply contract on the raw bytes of every reply, whatever ended the
//	     walk (relayed answer of a forwarder / fallback, retained upstream
//	     failure of either walk, synthesised / over-budget / request-local
//	     SERVFAIL): QR, the query's ID and opcode, the question, no OPT unless
//	     asked, AD discipline, no client subnet / upstream keepalive / cookie /
//	     padding / foreign option reflected, UDP size

import (
	"context"
	"encoding/binary"
	"encoding/json"
	"fmt"
	"net"
	"os"
	"runtime"
	"sort"
	"strings"
	"sync"
	"testing"
	"time"

	"github.com/miekg/dns"
	"github.com/semihalev/sdns/server"
	"github.com/semihalev/sdns/verifharness/vh"
)

type replayInput struct {
	Groups   []groupCfg `json:"groups"`
	UnitMs   int        `json:"unitMs"`
	T        int        `json:"t"`
	QT       int        `json:"qt"`
	MarginMs int        `json:"marginMs"`
	Parallel int        `json:"parallel"`
	Followup bool       `json:"followup"`
	TraceOut string     `json:"traceOut"` // NDJSON histories of the groups marked `trace`
}

// tsSink is the plain transport double (Server.ServeMsg) with write times.
type tsSink struct {
	remote net.Addr
	mu     sync.Mutex
	writes [][]byte
	at     []time.Time
}

func (s *tsSink) LocalAddr() net.Addr {
	if _, ok := s.remote.(*net.TCPAddr); ok {
		return &net.TCPAddr{IP: net.IPv4(192, 0, 2, 1), Port: 53}
	}
	return &net.UDPAddr{IP: net.IPv4(192, 0, 2, 1), Port: 53}
}
func (s *tsSink) RemoteAddr() net.Addr { return s.remote }
func (s *tsSink) Close() error         { return nil }
func (s *tsSink) Write(b []byte) (int, error) {
	s.mu.Lock()
	s.writes = append(s.writes, append([]byte(nil), b...))
	s.at = append(s.at, time.Now())
	s.mu.Unlock()
	return len(b), nil
}
func (s *tsSink) WriteMsg(m *dns.Msg) error {
	b, err := m.Pack()
	if err != nil {
		return err
	}
	_, err = s.Write(b)
	return err
}

// tsJob is the strict-slot transport double (Server.ServeRaw) with write times.
type tsJob struct {
	*server.VerifStrictJob
	mu sync.Mutex
	at []time.Time
}

func (j *tsJob) Write(b []byte) (int, error) {
	j.mu.Lock()
	j.at = append(j.at, time.Now())
	j.mu.Unlock()
	return j.VerifStrictJob.Write(b)
}
func (j *tsJob) WriteMsg(m *dns.Msg) error {
	b, err := m.Pack()
	if err != nil {
		return err
	}
	_, err = j.Write(b)
	return err
}
func (j *tsJob) LeaseWire(int) []byte { return nil } // replies go through Write, where the time is taken

type clientObs struct {
	Shape    string   `json:"shape"`
	ID       uint16   `json:"id"`
	Replies  int      `json:"replies"`
	FirstMs  int64    `json:"firstMs"`
	ReturnMs int64    `json:"returnMs"`
	Rcode    int      `json:"rcode"`
	From     int      `json:"from"`
	Via      int      `json:"via"`
	EDE      []int    `json:"ede"`
	HasOPT   bool     `json:"hasOpt"`
	SentOPT  bool     `json:"sentOpt"`
	Problems []string `json:"problems"`
	Echo     []string `json:"echo"` // violated clauses of the C06 reply contract ("clause: detail")
}

func addr(tcp bool, ip net.IP, port int) net.Addr {
	if tcp {
		return &net.TCPAddr{IP: ip, Port: port}
	}
	return &net.UDPAddr{IP: ip, Port: port}
}

// buildQuery shapes the client query from the selector: entry path, transport, EDNS content.
func buildQuery(name string, id uint16, shape int) (q *dns.Msg, raw, tcp bool, desc string) {
	q = new(dns.Msg)
	q.SetQuestion(name, dns.TypeA)
	q.Id = id
	raw = shape%2 == 1
	tcp = (shape/2)%2 == 1
	switch (shape / 4) % 4 {
	case 0:
		desc = "noedns"
	case 1:
		q.SetEdns0(1232, true)
		desc = "do"
	case 2:
		q.SetEdns0(4096, false)
		o := q.IsEdns0()
		o.Option = append(o.Option,
			&dns.EDNS0_COOKIE{Code: dns.EDNS0COOKIE, Cookie: "0123456789abcdef"},
			&dns.EDNS0_SUBNET{Code: dns.EDNS0SUBNET, Family: 1, SourceNetmask: 32, Address: net.IPv4(203, 0, 113, 77)},
			&dns.EDNS0_PADDING{Padding: make([]byte, 12)},
			&dns.EDNS0_LOCAL{Code: 65001, Data: []byte("client-secret")})
		desc = "cookie+ecs32+padding+local"
	case 3:
		q.SetEdns0(1232, false)
		o := q.IsEdns0()
		o.Option = append(o.Option,
			&dns.EDNS0_NSID{Code: dns.EDNS0NSID},
			&dns.EDNS0_SUBNET{Code: dns.EDNS0SUBNET, Family: 1, SourceNetmask: 27, Address: net.IPv4(198, 51, 100, 224)},
			&dns.EDNS0_TCP_KEEPALIVE{Code: dns.EDNS0TCPKEEPALIVE, Timeout: 100})
		desc = "nsid+ecs27+keepalive"
	}
	return q, raw, tcp, fmt.Sprintf("%s/%s/%s", map[bool]string{false: "msg", true: "raw"}[raw], map[bool]string{false: "udp", true: "tcp"}[tcp], desc)
}

func ask(w *world, name string, id uint16, shape int, clientIP net.IP) clientObs {
	q, raw, tcp, desc := buildQuery(name, id, shape)
	asked := q.Copy() // the server normalises the request's OPT in place: the contract is judged against what was sent
	o := clientObs{Shape: desc, ID: id, Rcode: -1, SentOPT: q.IsEdns0() != nil}
	var writes [][]byte
	var at []time.Time
	t0 := time.Now()
	if raw {
		b, err := q.Pack()
		if err != nil {
			o.Problems = append(o.Problems, "pack: "+err.Error())
			return o
		}
		job := &tsJob{VerifStrictJob: &server.VerifStrictJob{Remote: addr(tcp, clientIP, 40000+int(id)%20000), NoLease: true}}
		w.srv.ServeRaw(job, b, t0)
		o.ReturnMs = time.Since(t0).Milliseconds()
		time.Sleep(30 * time.Millisecond) // a second reply would have to be written by now or by the end-of-run count
		job.mu.Lock()
		writes, at = job.Writes, job.at
		job.mu.Unlock()
	} else {
		sink := &tsSink{remote: addr(tcp, clientIP, 40000+int(id)%20000)}
		w.srv.ServeMsg(context.Background(), sink, q)
		o.ReturnMs = time.Since(t0).Milliseconds()
		time.Sleep(30 * time.Millisecond)
		sink.mu.Lock()
		writes, at = sink.writes, sink.at
		sink.mu.Unlock()
	}
	o.Replies = len(writes)
	if len(writes) == 0 {
		return o
	}
	if len(at) > 0 {
		o.FirstMs = at[0].Sub(t0).Milliseconds()
	} else {
		o.FirstMs = o.ReturnMs
	}
	o.Echo = echoContract(asked, tcp, writes[0])
	m := new(dns.Msg)
	if err := m.Unpack(writes[0]); err != nil {
		o.Problems = append(o.Problems, "reply does not unpack: "+err.Error())
		return o
	}
	o.Rcode = m.Rcode
	if m.Id != id || !m.Response {
		o.Problems = append(o.Problems, fmt.Sprintf("reply id %d / QR=%v is not the query's (id %d)", m.Id, m.Response, id))
	}
	if len(m.Question) != 1 || !strings.EqualFold(m.Question[0].Name, name) || m.Question[0].Qtype != dns.TypeA {
		o.Problems = append(o.Problems, fmt.Sprintf("reply question %v is not the query's (%s A)", m.Question, name))
	}
	if opt := m.IsEdns0(); opt != nil {
		o.HasOPT = true
		for _, x := range opt.Option {
			if e, ok := x.(*dns.EDNS0_EDE); ok {
				o.EDE = append(o.EDE, int(e.InfoCode))
			}
		}
	}
	switch m.Rcode {
	case dns.RcodeSuccess:
		if len(m.Answer) != 1 {
			o.Problems = append(o.Problems, fmt.Sprintf("NOERROR reply with %d answer records (the upstreams serve exactly one)", len(m.Answer)))
		}
		for _, rr := range m.Answer {
			a, ok := rr.(*dns.A)
			ip := net.IP(nil)
			if ok {
				ip = a.A.To4()
			}
			switch {
			case !ok || ip == nil || ip[0] != 10:
				o.Problems = append(o.Problems, "NOERROR reply carries a record no upstream serves: "+rr.String())
			case !strings.EqualFold(a.Hdr.Name, name):
				o.Problems = append(o.Problems, "NOERROR reply carries a record owned by another name: "+rr.String())
			case ip[1] != 11 && ip[1] != 97: // 97: the honest but late answer of a "delay" upstream (only its lateness can be wrong)
				o.Problems = append(o.Problems, fmt.Sprintf("NOERROR reply relays a response that did not match the outstanding query (%s: %s)",
					map[byte]string{98: "wrong transaction id", 99: "wrong question"}[ip[1]], rr.String()))
			default:
				o.From, o.Via = int(ip[2]), int(ip[3])
			}
		}
	case dns.RcodeServerFailure:
		if len(m.Answer) != 0 {
			o.Problems = append(o.Problems, "SERVFAIL with answer records")
		}
	}
	return o
}

// echoContract: the C06 statement on the raw bytes of one reply to query q (the clauses of harness/serve's contract
// that apply to a well-formed QUERY; an upstream's AD / options are the upstream's, never the client's).
func echoContract(q *dns.Msg, tcp bool, reply []byte) (out []string) {
	bad := func(clause, format string, a ...any) { out = append(out, clause+": "+fmt.Sprintf(format, a...)) }
	if len(reply) < 12 {
		bad("short", "reply shorter than a DNS header")
		return
	}
	id, fl := binary.BigEndian.Uint16(reply[0:]), binary.BigEndian.Uint16(reply[2:])
	if fl&0x8000 == 0 {
		bad("qr", "reply without QR")
	}
	if id != q.Id {
		bad("id", "reply ID %d, query ID %d", id, q.Id)
	}
	if int(fl>>11)&0xF != q.Opcode {
		bad("opcode", "reply opcode %d, query opcode %d", int(fl>>11)&0xF, q.Opcode)
	}
	m := new(dns.Msg)
	if err := m.Unpack(reply); err != nil {
		bad("undecodable", "reply does not decode: %v", err)
		return
	}
	qq := q.Question[0]
	if len(m.Question) != 1 || !strings.EqualFold(m.Question[0].Name, qq.Name) || m.Question[0].Qtype != qq.Qtype || m.Question[0].Qclass != qq.Qclass {
		bad("question", "question not echoed: %v", m.Question)
	}
	qopt, ropt := q.IsEdns0(), m.IsEdns0()
	if ropt != nil && qopt == nil {
		bad("opt-unasked", "reply carries an OPT, the query had none")
	}
	do := qopt != nil && qopt.Do()
	if !do {
		for _, rr := range append(append([]dns.RR{}, m.Answer...), m.Ns...) {
			switch rr.(type) {
			case *dns.RRSIG, *dns.NSEC, *dns.NSEC3:
				bad("dnssec-unasked", "DNSSEC record %s sent without DO", dns.TypeToString[rr.Header().Rrtype])
			}
		}
	}
	if m.AuthenticatedData && (q.CheckingDisabled || !(do || q.AuthenticatedData)) {
		bad("ad", "AD set toward a client with CD=%v DO=%v AD=%v", q.CheckingDisabled, do, q.AuthenticatedData)
	}
	var ccookie string
	var askedNSID, askedKeepalive bool
	if qopt != nil {
		for _, o := range qopt.Option {
			switch v := o.(type) {
			case *dns.EDNS0_COOKIE:
				ccookie = v.Cookie
			case *dns.EDNS0_NSID:
				askedNSID = true
			case *dns.EDNS0_TCP_KEEPALIVE:
				askedKeepalive = true
			}
		}
	}
	if ropt != nil {
		for _, o := range ropt.Option {
			switch v := o.(type) {
			case *dns.EDNS0_SUBNET:
				bad("ecs-reflected", "client-subnet option in the reply: %s", v.String())
			case *dns.EDNS0_COOKIE:
				if ccookie == "" {
					bad("cookie-unasked", "server cookie returned, no client cookie sent")
				} else if len(v.Cookie) < 16 || !strings.EqualFold(v.Cookie[:16], ccookie[:16]) {
					bad("cookie-foreign", "cookie in the reply does not start with the client cookie: %s", v.Cookie)
				}
			case *dns.EDNS0_TCP_KEEPALIVE:
				if !(askedKeepalive && tcp) {
					bad("keepalive", "keepalive option toward a client that did not ask over TCP")
				}
			case *dns.EDNS0_NSID:
				if !askedNSID {
					bad("nsid-unasked", "NSID returned, not requested")
				}
			case *dns.EDNS0_EDE:
			case *dns.EDNS0_PADDING:
				bad("foreign-option", "padding option reflected to the client")
			default:
				bad("foreign-option", "option %d in the reply (%s)", o.Option(), o.String())
			}
		}
	}
	if !tcp {
		limit := 512
		if qopt != nil {
			limit = int(qopt.UDPSize())
		}
		if limit > 1232 {
			limit = 1232
		}
		if limit < 512 {
			limit = 512
		}
		if len(reply) > limit && !(m.Truncated && len(m.Answer) == 0 && len(m.Ns) == 0 && (len(m.Extra) == 0 || (len(m.Extra) == 1 && ropt != nil))) {
			bad("udp-size", "UDP reply of %d bytes exceeds %d and is not a bare TC reply", len(reply), limit)
		}
	}
	return out
}

type caseResult struct {
	cr         *caseRun
	clients    []clientObs
	second     *clientObs
	second2    []sendEv
	conform    bool   // the packets were exactly the model's
	modelLocal string // the model marks the failure request-local although the code did not
}

func normKind(k string) string {
	if k == "localfail" || k == "plainfail" {
		return "fail"
	}
	return k
}

func rcName(rc int) string {
	switch rc {
	case dns.RcodeSuccess:
		return "noerror"
	case dns.RcodeRefused:
		return "refused"
	case dns.RcodeNameError:
		return "nxdomain"
	case dns.RcodeServerFailure:
		return "servfail"
	}
	return strings.ToLower(dns.RcodeToString[rc])
}

func protoName(u *upstream, model string) string {
	switch u.kind {
	case "dot":
		return "tcp-tls"
	case "doh":
		return "doh"
	}
	return model
}

// stuckGoroutines counts goroutines still inside the forwarder, failover or the upstream client.
func stuckGoroutines() (int, string) {
	buf := make([]byte, 4<<20)
	buf = buf[:runtime.Stack(buf, true)]
	n := 0
	var sample string
	for _, g := range strings.Split(string(buf), "\n\n") {
		if strings.Contains(g, "sdns/middleware/forwarder.") || strings.Contains(g, "sdns/middleware/failover.") ||
			strings.Contains(g, "sdns/internal/dnsclient.") {
			n++
			if sample == "" {
				sample = g
			}
		}
	}
	return n, sample
}

func TestForwardReplay(t *testing.T) {
	var in replayInput
	vh.Input(t, &in)
	res := vh.NewResult()
	defer res.Write(t)

	unit := time.Duration(in.UnitMs) * time.Millisecond
	qt := time.Duration(in.QT) * unit
	dial := time.Duration(in.T) * unit
	margin := time.Duration(in.MarginMs) * time.Millisecond
	if in.Parallel <= 0 {
		in.Parallel = 48
	}

	var worlds []*world
	defer func() {
		for _, w := range worlds {
			w.stop()
		}
	}()
	for gi := range in.Groups {
		g := &in.Groups[gi]
		w, err := buildWorld(g, qt, dial)
		if err != nil {
			res.Skip("group %s: %v", g.Name, err)
			t.Fatalf("group %s: %v", g.Name, err)
		}
		worlds = append(worlds, w)
	}

	// ---- phase 1: play every case -------------------------------------------
	var all []*caseResult
	var amu sync.Mutex
	sem := make(chan struct{}, in.Parallel)
	var wg sync.WaitGroup
	idNext := 0
	for wi, w := range worlds {
		for ci := range w.g.Cases {
			c := &w.g.Cases[ci]
			cr := &caseRun{c: c, grp: w, name: strings.ToLower(fmt.Sprintf("c%s-g%d%s", c.ID, wi, zoneSuffix))}
			w.add(cr)
			r := &caseResult{cr: cr, clients: make([]clientObs, 1+c.Dup)}
			all = append(all, r)
			for k := 0; k <= c.Dup; k++ {
				idNext++
				id := uint16(1000 + idNext%60000)
				shape := c.Client
				if k > 0 {
					shape = c.Client + 2*k // another transport / EDNS shape, same question
				}
				wg.Add(1)
				go func(r *caseResult, k int, id uint16, shape int) {
					defer wg.Done()
					sem <- struct{}{}
					defer func() { <-sem }()
					ip := net.IPv4(198, 51, 100, byte(1+int(id)%200))
					o := ask(r.cr.grp, r.cr.name, id, shape, ip)
					amu.Lock()
					r.clients[k] = o
					amu.Unlock()
				}(r, k, id, shape)
			}
		}
	}
	wg.Wait()
	// late datagrams ("delay") and stalled streams end on their own shortly after the window
	time.Sleep(150 * time.Millisecond)

	budget := qt + margin
	exact := 0
	var traceLines []map[string]any
	for _, r := range all {
		cr, c, g := r.cr, r.cr.c, r.cr.grp.g
		cr.mu.Lock()
		sends := append([]sendEv(nil), cr.sends...)
		inner, outer := cr.inner, cr.outer
		cr.mu.Unlock()
		sort.Slice(sends, func(i, j int) bool { return sends[i].Seq < sends[j].Seq })
		key := fmt.Sprintf("%s nf=%d nb=%d %s/%d %s script=%s pre=%v dup=%d", g.Transport, g.NF, g.NB, g.Mode, g.Cap,
			map[bool]string{true: "ecs", false: "noecs"}[g.ECS], strings.Join(c.Script, ","), c.Pre, c.Dup)
		if c.PreWork != "" && c.PreWork != "none" {
			key += " prework=" + c.PreWork
		}
		if c.UpOpts {
			key += " upopts"
		}
		res.Case(key)
		rep := map[string]any{"driver": "forward-replay", "group": map[string]any{"nf": g.NF, "nb": g.NB, "mode": g.Mode,
			"cap": g.Cap, "ecs": g.ECS, "transport": g.Transport}, "case": c, "name": cr.name, "packets": sends,
			"forwarderWrote": inner, "failoverWrote": outer, "clients": r.clients,
			"queryTimeoutMs": qt.Milliseconds(), "upstreamTimeoutMs": dial.Milliseconds(), "marginMs": in.MarginMs}
		vio := func(fam, k, what string) {
			res.Violate(fam+"/"+k, fmt.Sprintf("[%s] %s: %s", fam, key, what), rep)
		}
		for _, ev := range sends {
			res.Count("played_"+ev.Fault+"_"+ev.Proto, 1)
		}

		// ---- C11 at the client ----
		contacted := map[int]bool{}
		for _, ev := range sends {
			contacted[ev.Srv] = true
		}
		for k, o := range r.clients {
			who := fmt.Sprintf("client %d (%s, id %d)", k, o.Shape, o.ID)
			switch {
			case o.Replies == 0:
				vio("c11", "no-reply", fmt.Sprintf("%s got no reply (the serve call returned after %d ms)", who, o.ReturnMs))
			case o.Replies > 1:
				vio("c11", "two-replies", fmt.Sprintf("%s got %d replies", who, o.Replies))
			}
			if o.Replies >= 1 && time.Duration(o.FirstMs)*time.Millisecond > budget {
				vio("c11", "late", fmt.Sprintf("%s was answered after %d ms > querytimeout %v + margin %v", who, o.FirstMs, qt, margin))
			}
			for _, p := range o.Problems {
				if strings.Contains(p, "did not match the outstanding query") || strings.Contains(p, "another name") ||
					strings.Contains(p, "no upstream serves") {
					vio("c11", "mismatch-relayed", who+": "+p)
				} else {
					vio("c11", "not-own", who+": "+p)
				}
			}
			if o.Rcode == dns.RcodeSuccess && o.From != 0 && !contacted[o.From] && len(o.Problems) == 0 {
				vio("c11", "mismatch-relayed", fmt.Sprintf("%s got the record of upstream %d, which received no packet for this question", who, o.From))
			}
			if o.Replies >= 1 {
				res.Count("rcode_"+rcName(o.Rcode), 1)
				if o.Rcode != dns.RcodeSuccess && o.Rcode != dns.RcodeServerFailure && o.Rcode != dns.RcodeRefused && o.Rcode != dns.RcodeNameError {
					res.DriftNote("%s: %s reply rcode %s", key, who, rcName(o.Rcode))
				}
			}
		}

		// ---- C06 at the client: the reply contract, whatever ended the walk ----
		for k, o := range r.clients {
			for _, p := range o.Echo {
				clause, detail, _ := strings.Cut(p, ": ")
				layer := ""
				if outer.N >= 1 && outer.MsgID != outer.ReqID {
					layer = fmt.Sprintf(" [failover handed up a %s/%s message under transaction ID %d, the client request's is %d]",
						outer.Kind, rcName(outer.Rcode), outer.MsgID, outer.ReqID)
				}
				vio("c06", clause, fmt.Sprintf("client %d (%s, id %d), %s reply: %s%s", k, o.Shape, o.ID, rcName(o.Rcode), detail, layer))
			}
			if o.Replies >= 1 {
				res.Count("echo_judged", 1)
			}
		}
		if outer.N == 1 {
			res.Count(fmt.Sprintf("outcome_%s_%s%s", outer.Kind, outer.Mark, map[bool]string{true: "_fallback", false: ""}[outer.From > g.NF]), 1)
		}

		// ---- C19 at the upstreams ----
		for _, ev := range sends {
			for _, code := range ev.Opts {
				if code != dns.EDNS0SUBNET {
					vio("c19", "client-option-upstream", fmt.Sprintf("upstream %d received EDNS option %d over %s (clients sent %v)", ev.Srv, code, ev.Proto, shapes(r.clients)))
				}
			}
			if ev.ECS != "" {
				res.Count("ecs_forwarded", 1)
				var fam, src int
				var a string
				_, _ = fmt.Sscanf(ev.ECS, "%d/%d/%s", &fam, &src, &a)
				ip := net.ParseIP(a).To4()
				switch {
				case !g.ECS:
					vio("c19", "ecs-upstream-disabled", fmt.Sprintf("upstream %d received client subnet %s although ECS forwarding is disabled", ev.Srv, ev.ECS))
				case ev.Srv > g.NF:
					vio("c19", "ecs-upstream-fallback", fmt.Sprintf("fallback %d received client subnet %s", ev.Srv, ev.ECS))
				case fam != 1 || src > 24 || ip == nil || ip[3] != 0:
					vio("c19", "ecs-upstream-unclamped", fmt.Sprintf("upstream %d received client subnet %s (ceiling /24, host bits zero)", ev.Srv, ev.ECS))
				}
			}
			if ev.Problem != "" {
				res.DriftNote("%s: upstream %d: %s", key, ev.Srv, ev.Problem)
			}
		}

		// ---- C12 at the upstreams (one request tree only) ----
		if c.Dup == 0 {
			if g.Mode == "enforce" && len(sends) > g.Cap {
				vio("c12", "over-budget", fmt.Sprintf("the upstreams received %d packets for one client query, outbound budget %d (enforce)", len(sends), g.Cap))
			}
			if g.Mode != "off" {
				seen := 0
				for k, ev := range sends {
					if !ev.Ledger {
						continue
					}
					seen++
					if ev.Debits < k+1 {
						vio("c12", "undebited-attempt", fmt.Sprintf("packet %d (%s to upstream %d) arrived while the request tree's ledger counted %d outbound attempts: not debited before it was made",
							k+1, ev.Proto, ev.Srv, ev.Debits))
					}
					if g.Mode == "enforce" && ev.Debits > g.Cap {
						vio("c12", "ledger-over-cap", fmt.Sprintf("ledger outbound counter %d above the cap %d", ev.Debits, g.Cap))
					}
				}
				if seen > 0 {
					res.Count("packets_with_ledger", seen)
				}
			}
			if c.PreWork != "" && c.PreWork != "none" {
				res.Count("prework_"+c.PreWork+"_"+g.Mode, 1)
				if inner.N == 1 && inner.Latched {
					res.Count("prework_rejected", 1)
					if inner.Work != c.PreWork {
						res.DriftNote("%s: prework %s, the ledger latched %q", key, c.PreWork, inner.Work)
					}
				}
			}
			if outer.N > 0 && outer.Latched && g.Mode == "enforce" {
				for _, o := range r.clients {
					if o.Replies >= 1 && o.Rcode != dns.RcodeServerFailure {
						vio("c12", "over-budget-reply", fmt.Sprintf("the request tree's ledger latched a rejection on its %s budget (outbound attempts debited: %d) but the client got %s, not the over-budget SERVFAIL%s",
							outer.Work, outer.Debits, rcName(o.Rcode), map[bool]string{true: fmt.Sprintf(" (%d packets reached the upstreams after the primary resolution was refused)", len(sends)), false: ""}[c.PreWork != "" && c.PreWork != "none"]))
					}
					if o.Replies >= 1 && o.SentOPT {
						res.Count("overbudget_edns", 1)
						if len(o.EDE) > 0 {
							res.Count("overbudget_edns_ede", 1)
						}
					}
					// "the over-budget reply is a SERVFAIL (with an Extended DNS Error for EDNS clients)"
					if o.Replies >= 1 && o.SentOPT && o.Rcode == dns.RcodeServerFailure && len(o.EDE) == 0 {
						vio("c12", "over-budget-no-ede", fmt.Sprintf("the over-budget SERVFAIL (rejected budget: %s) reached the EDNS client %s without an Extended DNS Error (OPT in the reply: %v)",
							outer.Work, o.Shape, o.HasOPT))
					}
				}
			}
		}

		// ---- conformance with the model run (drift only) ----
		if c.Expect != nil && c.Dup == 0 {
			e := c.Expect
			var diffs []string
			if len(sends) != len(e.Sent) {
				diffs = append(diffs, fmt.Sprintf("packets: code %d, model %d", len(sends), len(e.Sent)))
			}
			for k := 0; k < len(sends) && k < len(e.Sent); k++ {
				ms, _ := e.Sent[k][0].(float64)
				mp, _ := e.Sent[k][1].(string)
				md, _ := e.Sent[k][2].(float64)
				if int(ms) < 1 || int(ms) > len(cr.grp.ups) {
					continue
				}
				want := protoName(cr.grp.ups[int(ms)-1], mp)
				if sends[k].Srv != int(ms) || sends[k].Proto != want {
					diffs = append(diffs, fmt.Sprintf("packet %d: code %d/%s, model %d/%s", k+1, sends[k].Srv, sends[k].Proto, int(ms), want))
				} else if sends[k].Ledger && sends[k].Debits != int(md) {
					diffs = append(diffs, fmt.Sprintf("packet %d: ledger %d, model %d", k+1, sends[k].Debits, int(md)))
				}
			}
			r.conform = len(diffs) == 0
			cmp := func(what string, got written, want msgRec) {
				if got.N != 1 {
					diffs = append(diffs, fmt.Sprintf("%s wrote %d messages", what, got.N))
					return
				}
				if got.Kind != normKind(want.Kind) || (got.Kind != "fail" && got.Kind != "workfail" && got.From != want.From) ||
					rcName(got.Rcode) != want.Rc || got.Mark != want.Mark {
					diffs = append(diffs, fmt.Sprintf("%s: code %s/%d/%s/%s, model %s/%d/%s/%s", what, got.Kind, got.From, rcName(got.Rcode), got.Mark,
						normKind(want.Kind), want.From, want.Rc, want.Mark))
				}
			}
			cmp("forwarder", inner, e.M)
			cmp("failover", outer, e.Reply)
			if outer.N == 1 && e.Reply.ID == "client" && outer.MsgID != outer.ReqID {
				diffs = append(diffs, fmt.Sprintf("failover handed up transaction ID %d for request %d, model: the client's", outer.MsgID, outer.ReqID))
			}
			if outer.N == 1 {
				if outer.Latched != e.Latched {
					diffs = append(diffs, fmt.Sprintf("latched: code %v, model %v", outer.Latched, e.Latched))
				}
				if outer.Ledger && outer.Debits != e.Debits {
					diffs = append(diffs, fmt.Sprintf("debits: code %d, model %d", outer.Debits, e.Debits))
				}
			}
			// (whether failover walked shows in the packets: the fallbacks' are part of the comparison above)
			o := r.clients[0]
			if o.Replies == 1 {
				if rcName(o.Rcode) != e.Reply.Rc {
					diffs = append(diffs, fmt.Sprintf("client rcode: code %s, model %s", rcName(o.Rcode), e.Reply.Rc))
				}
				if e.Reply.Kind == "relay" && e.Reply.Rc == "noerror" && o.From != e.Reply.From {
					diffs = append(diffs, fmt.Sprintf("client answer from upstream %d, model %d", o.From, e.Reply.From))
				}
				want := time.Duration(e.ReplyAt) * unit
				got := time.Duration(o.FirstMs) * time.Millisecond
				if got+120*time.Millisecond < want || got > want+unit {
					diffs = append(diffs, fmt.Sprintf("reply after %v, model %v", got, want))
				}
			}
			if len(diffs) == 0 {
				exact++
				res.Count("exact_"+g.Name, 1)
			} else {
				res.DriftNote("%s: %s", key, strings.Join(diffs, "; "))
				res.Count("drift_cases", 1)
				if os.Getenv("X11FW_DEBUG") != "" {
					fmt.Fprintf(os.Stderr, "DRIFT %s %s: %s\n   client=%+v\n", cr.name, key, strings.Join(diffs, "; "), r.clients[0])
				}
			}
			res.Count("cases_"+g.Name, 1)
			res.Count("reply_"+normKind(e.Reply.Kind)+"_"+e.Reply.Mark, 1)
			if e.Engaged {
				res.Count("model_failover_walks", 1)
			}
			if e.Latched {
				res.Count("model_latched", 1)
			}
		}
		if c.Dup > 0 {
			res.Count("dup_cases", 1)
		}
		if g.Trace && c.Dup == 0 && in.TraceOut != "" && inner.N == 1 && outer.N == 1 {
			// the events of this query in the order of the one harness-side sequence
			type tl struct {
				seq  int64
				line map[string]any
			}
			pre := [][]any{}
			for _, t := range c.Pre {
				pre = append(pre, t)
			}
			capv := g.Cap
			if capv == 0 {
				capv = 1
			}
			pw := c.PreWork
			if pw == "" {
				pw = "none"
			}
			ls := []tl{{cr.first, map[string]any{"ev": "reset", "c": cr.name, "mode": g.Mode, "cap": capv, "pre": pre, "prework": pw}}}
			for _, ev := range sends {
				ls = append(ls, tl{ev.Seq, map[string]any{"ev": "send", "s": ev.Srv, "p": ev.Proto, "f": ev.Fault, "ledger": ev.Ledger, "debits": ev.Debits}})
			}
			ls = append(ls, tl{inner.Seq, map[string]any{"ev": "fwd", "kind": inner.Kind, "from": inner.From, "rc": rcName(inner.Rcode), "mark": inner.Mark}})
			ls = append(ls, tl{outer.Seq, map[string]any{"ev": "reply", "kind": outer.Kind, "from": outer.From, "rc": rcName(outer.Rcode), "mark": outer.Mark, "latched": outer.Latched}})
			sort.SliceStable(ls, func(i, j int) bool { return ls[i].seq < ls[j].seq })
			for _, x := range ls {
				traceLines = append(traceLines, x.line)
			}
			res.Count("traces", 1)
		}
		if len(sends) > 0 {
			res.Sample(map[string]any{"case": key, "packets": sends, "forwarderWrote": inner, "failoverWrote": outer, "client": r.clients[0]})
		}
	}
	res.Count("cases_exact", exact)
	res.Count("cases_total", len(all))
	if in.TraceOut != "" {
		f, err := os.Create(in.TraceOut)
		if err != nil {
			res.Skip("trace file: %v", err)
			t.Fatalf("trace file: %v", err)
		}
		enc := json.NewEncoder(f)
		for _, ln := range traceLines {
			_ = enc.Encode(ln)
		}
		_ = f.Close()
	}

	// ---- phase 2: a failure that was this request's own is not served to the next client ----
	if in.Followup {
		var again []*caseResult
		for _, r := range all {
			r.cr.mu.Lock()
			outer := r.cr.outer
			r.cr.mu.Unlock()
			if r.cr.c.Dup > 0 || outer.N != 1 || outer.Rcode != dns.RcodeServerFailure {
				continue
			}
			// the failure was this request's own: the code says so (mark, latched ledger), or the model does for a
			// run whose packets were exactly the model's
			if outer.Mark != "none" || outer.Kind == "workfail" {
				again = append(again, r)
			} else if e := r.cr.c.Expect; e != nil && r.conform && e.Reply.Rc == "servfail" && (e.Reply.Mark != "none" || e.Reply.Kind == "workfail") {
				r.modelLocal = e.Reply.Mark
				if e.Reply.Kind == "workfail" {
					r.modelLocal = "workfail"
				}
				again = append(again, r)
			}
		}
		marks := make([]int, len(again))
		for i, r := range again {
			r.cr.honest.Store(true)
			r.cr.mu.Lock()
			marks[i] = len(r.cr.sends)
			r.cr.ctxs = nil
			r.cr.mu.Unlock()
		}
		var wg2 sync.WaitGroup
		for i, r := range again {
			wg2.Add(1)
			go func(i int, r *caseResult) {
				defer wg2.Done()
				sem <- struct{}{}
				defer func() { <-sem }()
				o := ask(r.cr.grp, r.cr.name, uint16(61000+i%4000), 4, net.IPv4(203, 0, 113, byte(1+i%200)))
				r.second = &o
			}(i, r)
		}
		wg2.Wait()
		for i, r := range again {
			cr, g := r.cr, r.cr.grp.g
			cr.mu.Lock()
			later := append([]sendEv(nil), cr.sends[marks[i]:]...)
			outer := cr.outer
			cr.mu.Unlock()
			r.second2 = later
			res.Count("followups", 1)
			o := r.second
			if o == nil || o.Replies != 1 {
				n := 0
				if o != nil {
					n = o.Replies
				}
				res.Violate("c11/followup-replies", fmt.Sprintf("[c11] the client asking after a request-local failure got %d replies", n),
					map[string]any{"driver": "forward-replay", "case": cr.c, "name": cr.name, "second": o})
				continue
			}
			if o.Rcode == dns.RcodeServerFailure && len(later) == 0 {
				fam, why := "c13", "an attempt-guard rejection of the first request"
				switch {
				case outer.Kind == "workfail" || r.modelLocal == "workfail":
					fam, why = "c12", "the first request's over-budget SERVFAIL (enforce)"
				case outer.Mark == "deadline" || r.modelLocal == "deadline":
					fam, why = "c11", "the first request's own expired query window"
				}
				if r.modelLocal != "" {
					why += " (the code did not mark that failure request-local; its packets were exactly the model's run, whose failure is)"
				}
				res.Violate(fam+"/local-failure-shared", fmt.Sprintf("[%s] nf=%d nb=%d %s/%d script=%s pre=%v: a second client was answered SERVFAIL without any upstream traffic after %s: the private failure became shared state",
					fam, g.NF, g.NB, g.Mode, g.Cap, strings.Join(cr.c.Script, ","), cr.c.Pre, why),
					map[string]any{"driver": "forward-replay", "case": cr.c, "name": cr.name, "first": outer, "second": o, "ede": o.EDE})
			} else if o.Rcode != dns.RcodeSuccess {
				res.DriftNote("follow-up for %s: rcode %s with %d upstream packets (every upstream honest)", cr.name, rcName(o.Rcode), len(later))
			} else {
				res.Count("followups_fresh", 1)
			}
		}
	}

	// ---- quiescence --------------------------------------------------------------
	deadline := time.Now().Add(qt + 8*time.Second)
	n, sample := stuckGoroutines()
	for n > 0 && time.Now().Before(deadline) {
		time.Sleep(50 * time.Millisecond)
		n, sample = stuckGoroutines()
	}
	res.Count("stuck_goroutines", n)
	if n > 0 {
		res.Violate("c11/after-goroutines", fmt.Sprintf("[c11] %d goroutines are still inside the forwarder / failover / upstream client %v after the last reply",
			n, qt+8*time.Second), map[string]any{"driver": "forward-replay", "stack": sample})
	}
}

func shapes(cs []clientObs) []string {
	var out []string
	for _, c := range cs {
		out = append(out, c.Shape)
	}
	return out
}
