package serve

// The "forwarder" upstream of the Serve replay: the whole default chain (... cache -> failover -> resolver ->
// forwarder) with the REAL forwarder configured toward a scripted upstream on loopback sockets.  The upstream
// answers with the very same content script as the tail (respond), but its message is packed, crosses a socket, is
// decoded by internal/dnsclient and relayed by forwarder.ServeDNS - so the replay shows what an upstream can really
// deliver to the cache writer and to edns.ResponseWriter.WriteMsg (its whole additional section: the forwarder
// passes it on as it came), and what really leaves toward it (the bytes of the upstream query).

import (
	"encoding/binary"
	"io"
	"net"
	"os"
	"path/filepath"
	"sync"
	"time"

	"github.com/miekg/dns"
	"github.com/semihalev/sdns/verifharness/pipe"
)

type sockUpstream struct {
	pc net.PacketConn
	ln net.Listener

	mu      sync.Mutex
	calls   int
	queries []*dns.Msg
}

func (u *sockUpstream) NCalls() int {
	u.mu.Lock()
	defer u.mu.Unlock()
	return u.calls
}

func (u *sockUpstream) Last() *dns.Msg {
	u.mu.Lock()
	defer u.mu.Unlock()
	if len(u.queries) == 0 {
		return nil
	}
	return u.queries[len(u.queries)-1]
}

func (u *sockUpstream) Reset() {
	u.mu.Lock()
	u.calls, u.queries = 0, nil
	u.mu.Unlock()
}

// answer decodes one upstream query from its wire bytes and builds the scripted reply (nil = say nothing)
func (u *sockUpstream) answer(raw []byte, udp bool) []byte {
	req := new(dns.Msg)
	if err := req.Unpack(raw); err != nil || len(req.Question) != 1 {
		return nil
	}
	q := req.Question[0]
	if q.Name == "." {
		// the resolver handler primes its root list at start-up even in forwarder mode: not part of any case
		// (answered honestly: a failed priming leaves a root-wide failure record behind, and every name is below the root)
		m := new(dns.Msg)
		m.SetReply(req)
		m.Authoritative = true
		if q.Qtype == dns.TypeNS {
			m.Answer = []dns.RR{&dns.NS{Hdr: dns.RR_Header{Name: ".", Rrtype: dns.TypeNS, Class: dns.ClassINET, Ttl: 3600}, Ns: "ns.root.verif."}}
			m.Extra = []dns.RR{&dns.A{Hdr: dns.RR_Header{Name: "ns.root.verif.", Rrtype: dns.TypeA, Class: dns.ClassINET, Ttl: 3600}, A: net.IPv4(127, 0, 0, 1)}}
		}
		b, _ := m.Pack()
		return b
	}
	u.mu.Lock()
	u.calls++
	u.queries = append(u.queries, req)
	u.mu.Unlock()
	resp := respond(nil, nil, req)
	b, err := resp.Pack()
	if err != nil {
		return nil
	}
	if udp && len(b) > 1232 {
		// an honest upstream truncates; the forwarder comes back over TCP
		t := new(dns.Msg)
		t.SetReply(req)
		t.Truncated = true
		b, _ = t.Pack()
	}
	return b
}

func newSockUpstream() (*sockUpstream, error) {
	for try := 0; ; try++ {
		pc, err := net.ListenPacket("udp", "127.0.0.1:0")
		if err != nil {
			return nil, err
		}
		ln, err := net.Listen("tcp", pc.LocalAddr().String())
		if err != nil {
			pc.Close()
			if try < 20 {
				continue // the TCP twin of the port is taken: pick another
			}
			return nil, err
		}
		u := &sockUpstream{pc: pc, ln: ln}
		go u.serveUDP()
		go u.serveTCP()
		return u, nil
	}
}

func (u *sockUpstream) serveUDP() {
	buf := make([]byte, 65535)
	for {
		n, addr, err := u.pc.ReadFrom(buf)
		if err != nil {
			return
		}
		if b := u.answer(append([]byte(nil), buf[:n]...), true); b != nil {
			_, _ = u.pc.WriteTo(b, addr)
		}
	}
}

func (u *sockUpstream) serveTCP() {
	for {
		c, err := u.ln.Accept()
		if err != nil {
			return
		}
		go func() {
			defer c.Close()
			for {
				_ = c.SetDeadline(time.Now().Add(5 * time.Second))
				var l [2]byte
				if _, err := io.ReadFull(c, l[:]); err != nil {
					return
				}
				body := make([]byte, binary.BigEndian.Uint16(l[:]))
				if _, err := io.ReadFull(c, body); err != nil {
					return
				}
				b := u.answer(body, false)
				if b == nil {
					return
				}
				out := make([]byte, 2, 2+len(b))
				binary.BigEndian.PutUint16(out, uint16(len(b)))
				if _, err := c.Write(append(out, b...)); err != nil {
					return
				}
			}
		}()
	}
}

func (u *sockUpstream) stop() {
	u.pc.Close()
	u.ln.Close()
}

func newForwarderTwin(name string, c absCfg) (*twin, func()) {
	u, err := newSockUpstream()
	if err != nil {
		panic("verif serve: scripted upstream: " + err.Error())
	}
	cfg := realConfig(c)
	cfg.DNSSEC = "off"
	cfg.AccessList = []string{"0.0.0.0/0", "::0/0"}
	cfg.ForwarderServers = []string{u.pc.LocalAddr().String()}
	// the resolver handler is constructed (and skipped per query) in forwarder mode; it insists on a root list
	cfg.RootServers = []string{u.pc.LocalAddr().String()}
	// the complete chain has the blocklist middleware in it, which keeps its files under the working directory
	dir, err := os.MkdirTemp("", "verif-serve-relay-")
	if err != nil {
		panic("verif serve: " + err.Error())
	}
	cfg.Directory = dir
	cfg.BlockListDir = filepath.Join(dir, "blacklists")
	cfg.Timeout.Duration = 2 * time.Second
	cfg.QueryTimeout.Duration = 5 * time.Second
	// stop = "": the complete default chain; the extra tail behind the forwarder is never reached
	s, release := pipe.NewServer(cfg, &pipe.Tail{}, "")
	release()
	return &twin{name: name, srv: s, up: u}, func() {
		u.stop()
		_ = os.RemoveAll(dir)
	}
}
