package serve

// Dual-entry replay of Serve.tla behaviours on the real default chain
// (recovery .. cache + scripted tail):
//
//   twin W : Server.ServeRaw on a strict-slot transport   (wire fast path)
//   twin M : Server.ServeMsg with the library-decoded msg (decoded path)
//   twin I : Server.ServeRawInline, then ServeRawReplay on hand-off
//
// Every twin is its own Server with identical configuration and receives the
// identical history.  Verdicts are the property predicates evaluated on the
// real replies:
//   C05  W == M == I as decoded messages (up to compression / owner case),
//        same drop/reject decisions, same tail invocations, same follow-up.
//   C06  the reply contract on the raw bytes of every reply.
//   C19  what leaves toward the upstream (the tail sees it) and what comes
//        back to the client as far as client-subnet data is concerned.
// The model's predicted outcome is compared for drift only.

import (
	"sync"
	"sync/atomic"
	"bytes"
	"context"
	"encoding/binary"
	"encoding/hex"
	"fmt"
	"math/rand"
	"net"
	"os"
	"sort"
	"strings"
	"testing"
	"time"

	"github.com/miekg/dns"
	"github.com/semihalev/sdns/config"
	"github.com/semihalev/sdns/internal/dnsutil"
	"github.com/semihalev/sdns/middleware"
	"github.com/semihalev/sdns/server"
	"github.com/semihalev/sdns/verifharness/pipe"
	"github.com/semihalev/sdns/verifharness/vh"
)

type absPkt struct {
	QR        bool   `json:"qr"`
	Opcode    int    `json:"opcode"`
	QD        int    `json:"qd"`
	AN        int    `json:"an"`
	RD        bool   `json:"rd"`
	AD        bool   `json:"ad"`
	CD        bool   `json:"cd"`
	Qtype     string `json:"qtype"`
	Qclass    string `json:"qclass"`
	Opt       string `json:"opt"`
	DO        bool   `json:"do"`
	Size      int    `json:"size"`
	Cookie    string `json:"cookie"`
	NSID      bool   `json:"nsid"`
	Keepalive bool   `json:"keepalive"`
	ECS       string `json:"ecs"`
	Pad       bool   `json:"pad"`
	Unk       bool   `json:"unk"`
	Proto     string `json:"proto"`
	// Name: "" / "own" = the behaviour's question; "sib" = a sibling below the same parent, whose upstream answer is a
	// validated NXDOMAIN of that PARENT (ladder family: the RFC 8020 cut then covers the own name as well)
	Name string `json:"name"`
}

type absCfg struct {
	NSID      bool   `json:"nsid"`
	Ratelimit bool   `json:"ratelimit"`
	ECS       string `json:"ecs"`
}

type absOut struct {
	Kind  string `json:"kind"`
	Rcode string `json:"rcode"`
	Opt   bool   `json:"opt"`
	Tc    bool   `json:"tc"`
	Ad    bool   `json:"ad"`
}

type step struct {
	Pkt     absPkt `json:"pkt"`
	Content string `json:"content"`
	Exp     absOut `json:"exp"`
	ExpTail bool   `json:"expTail"`
	// Env: an environment step of the model instead of a query (ladder family): "elapse" = every failure back-off runs
	// out (the virtual clock of each twin's failure cache jumps), "recover" = the failing upstream answers again
	Env string `json:"env"`
	// Cls: what the MODEL says this query meets (ladder family), confirmed on the decoded twin and counted, so the
	// check can tell a run in which the history never produced the state (vacuous) from one in which it held
	Cls []string `json:"cls"`
}

type behaviour struct {
	Cfg   absCfg `json:"cfg"`
	Steps []step `json:"steps"`
}

type input struct {
	Behaviours []behaviour `json:"behaviours"`
	Variants   int         `json:"variants"`
	Focus      string      `json:"focus"` // "C05" | "C06" | "C19": which predicates produce violations
	// Upstream: "" / "tail" = the scripted tail stands in the resolver's place (pipe.Tail);
	// "forwarder" = the whole default chain with the REAL forwarder in front of a scripted upstream on
	// loopback sockets (relay_test.go), so what an upstream can put on the wire reaches the cache and the
	// edns writer the way it does in production (dnsclient decode, forwarder relay of the additional section)
	Upstream string `json:"upstream"`
	// Family "ladder": names are laid out as <content>-<n>.g<n>.verif.test. (own) and cutnx-<n>.g<n>.verif.test.
	// (sibling), and every twin's failure cache runs on a frozen virtual clock (overlay shim verif_c05_shim.go)
	Family string `json:"family"`
}

// vclock is the frozen clock of one twin's RFC 9520 failure cache: time passes only in "elapse" steps, so the three
// twins (served one after the other) can never see a back-off boundary fall between them.
type vclock struct {
	mu sync.Mutex
	t  time.Time
}

func (c *vclock) Now() time.Time {
	c.mu.Lock()
	defer c.mu.Unlock()
	return c.t
}

func (c *vclock) Advance(d time.Duration) {
	c.mu.Lock()
	c.t = c.t.Add(d)
	c.mu.Unlock()
}

// recovered: own names whose failing upstream answers again (model action Recover)
var recovered sync.Map

const cookieSecret = "6c6f6f6b61686172646c6f6f6b6168617264"
const nsidString = "verif-nsid"

// upstreamLog is what the replay needs from whatever plays the upstream: the scripted tail or the socket upstream
type upstreamLog interface {
	NCalls() int
	Last() *dns.Msg
	Reset()
}

type twin struct {
	name  string
	srv   *server.Server
	tail  *pipe.Tail  // the scripted tail (nil when the real forwarder plays toward a socket upstream)
	up    upstreamLog // that socket upstream
	clock *vclock     // nil unless the ladder family installed one
}

func (t *twin) log() upstreamLog {
	if t.up != nil {
		return t.up
	}
	return t.tail
}

type twins struct {
	cfg     absCfg
	w, m, i *twin
}

func realConfig(c absCfg) *config.Config {
	cfg := pipe.BaseConfig()
	cfg.CookieSecret = cookieSecret
	if c.NSID {
		cfg.NSID = nsidString
	}
	if c.Ratelimit {
		cfg.ClientRateLimit = 2 // two tokens, slow refill: the model's bound
	}
	cfg.HostsFile = hostsPath()
	switch c.ECS {
	case "on":
		cfg.ECS.Enabled = true
		cfg.ECS.ForwardV4Max = 24
		cfg.ECS.ForwardV6Max = 56
		cfg.ECS.MinScopeV4 = 16
		cfg.ECS.MinScopeV6 = 32
		cfg.ECS.ClientNetworks = []string{"0.0.0.0/0", "::/0"}
	case "invalid":
		// one of several out-of-range settings, each of which must disable forwarding entirely
		cfg.ECS.Enabled = true
		cfg.ECS.ForwardV4Max = 24
		cfg.ECS.ForwardV6Max = 56
		cfg.ECS.ClientNetworks = []string{"0.0.0.0/0", "::/0"}
		switch invalidVariant.Add(1) % 4 {
		case 0:
			cfg.ECS.ForwardV4Max = 40
		case 1:
			cfg.ECS.ForwardV6Max = 200 // with an explicit, valid floor: the floor's own range check cannot mask it
			cfg.ECS.MinScopeV6 = 48
		case 2:
			cfg.ECS.MinScopeV4 = 33
		default:
			cfg.ECS.ClientNetworks = []string{"0.0.0.0/0", "not-a-prefix"}
		}
	}
	return cfg
}

var invalidVariant atomic.Int64

var hostsFile string

func hostsPath() string {
	if hostsFile == "" {
		f, err := os.CreateTemp("", "verif-hosts-")
		if err != nil {
			panic(err)
		}
		fmt.Fprintln(f, "192.0.2.55 hosts-entry.verif.test")
		fmt.Fprintln(f, "2001:db8::55 hosts-entry.verif.test")
		f.Close()
		hostsFile = f.Name()
	}
	return hostsFile
}

// ---- scripted upstream ------------------------------------------------------

func contentOf(name string) string {
	l := strings.SplitN(strings.ToLower(name), "-", 2)
	return l[0]
}

func soa(zone string) dns.RR {
	return &dns.SOA{Hdr: dns.RR_Header{Name: zone, Rrtype: dns.TypeSOA, Class: dns.ClassINET, Ttl: 600},
		Ns: "ns." + zone, Mbox: "h." + zone, Serial: 1, Refresh: 3600, Retry: 600, Expire: 86400, Minttl: 120}
}

// one validity window per process: the twins are served at different instants and must see the same signature bytes
var sigEpoch = time.Now().Truncate(time.Hour)

func fakeSig(name string, covered uint16) dns.RR {
	return &dns.RRSIG{
		Hdr:         dns.RR_Header{Name: name, Rrtype: dns.TypeRRSIG, Class: dns.ClassINET, Ttl: 300},
		TypeCovered: covered, Algorithm: dns.ECDSAP256SHA256, Labels: uint8(dns.CountLabel(name)), OrigTtl: 300,
		Expiration: uint32(sigEpoch.Add(24 * time.Hour).Unix()), Inception: uint32(sigEpoch.Add(-time.Hour).Unix()),
		KeyTag: 12345, SignerName: "verif.test.", Signature: "MEQCIF5edm5vY2Vhbm9ncmFwaHkgaXMgZnVuIQIgTm90QVJlYWxTaWc=",
	}
}

func respond(ctx context.Context, _ *middleware.Chain, req *dns.Msg) *dns.Msg {
	q := req.Question[0]
	resp := new(dns.Msg)
	resp.SetReply(req)
	resp.RecursionAvailable = true
	name := q.Name
	a := func(owner string, b byte) dns.RR {
		return &dns.A{Hdr: dns.RR_Header{Name: owner, Rrtype: dns.TypeA, Class: dns.ClassINET, Ttl: 300}, A: net.IPv4(192, 0, 2, b)}
	}
	content := contentOf(name)
	if _, ok := recovered.Load(strings.ToLower(name)); ok && content == "servfail" {
		content = "pos"
	}
	switch content {
	case "pos":
		resp.Answer = []dns.RR{a(name, 1)}
	case "mid":
		// fits 1232 bytes, does not fit 512: truncated only toward a client without EDNS
		for i := 0; i < 40; i++ {
			resp.Answer = append(resp.Answer, a(name, byte(i)))
		}
	case "cutnx":
		// <label>.gNNNNN.verif.test.: the validator proved the PARENT gNNNNN.verif.test. nonexistent (NSEC range private to
		// that subtree) and says so through the resolver-to-cache seam; an unscoped CD=0 request makes the cache publish
		// the RFC 8020 cut of the parent
		labels := dns.SplitDomainName(strings.ToLower(name))
		if len(labels) < 4 || len(labels[1]) < 2 {
			resp.Rcode = dns.RcodeNameError
			resp.Ns = []dns.RR{soa("verif.test.")}
			break
		}
		parent := labels[1]
		var n int
		fmt.Sscanf(parent[1:], "%d", &n)
		owner := fmt.Sprintf("g%05d~.verif.test.", n-1)
		resp.Rcode = dns.RcodeNameError
		resp.AuthenticatedData = true
		nsec := &dns.NSEC{Hdr: dns.RR_Header{Name: owner, Rrtype: dns.TypeNSEC, Class: dns.ClassINET, Ttl: 120},
			NextDomain: parent + "!.verif.test.", TypeBitMap: []uint16{dns.TypeA, dns.TypeRRSIG, dns.TypeNSEC}}
		resp.Ns = []dns.RR{soa("verif.test."), fakeSig("verif.test.", dns.TypeSOA), nsec, fakeSig(owner, dns.TypeNSEC)}
		middleware.MarkValidatedNegativeProofResponse(ctx, resp, middleware.ValidatedNegativeProof{
			Subject: parent + ".verif.test.", Zone: "verif.test.", Kind: middleware.ValidatedNegativeProofNSEC, Aggressive: true})
	case "signed":
		resp.Answer = []dns.RR{a(name, 2), fakeSig(name, dns.TypeA)}
		resp.AuthenticatedData = true
	case "nx":
		resp.Rcode = dns.RcodeNameError
		resp.Ns = []dns.RR{soa("verif.test.")}
	case "nodata":
		resp.Ns = []dns.RR{soa("verif.test.")}
	case "nxsig", "nodatasig":
		// validated denials whose only DNSSEC records sit in the authority section (signed SOA, NSEC + RRSIG); the
		// NSEC range is private to this name, so an aggressive-denial index cannot answer another behaviour's question
		lab := strings.ToLower(strings.SplitN(name, ".", 2)[0])
		owner, next, bitmap := name, "\\000."+strings.ToLower(name), []uint16{dns.TypeTXT, dns.TypeRRSIG, dns.TypeNSEC}
		if contentOf(name) == "nxsig" {
			resp.Rcode = dns.RcodeNameError
			owner, next, bitmap = lab[:len(lab)-1]+string(lab[len(lab)-1]-1)+"~.verif.test.", lab+"!.verif.test.", []uint16{dns.TypeA, dns.TypeRRSIG, dns.TypeNSEC}
		}
		nsec := &dns.NSEC{Hdr: dns.RR_Header{Name: owner, Rrtype: dns.TypeNSEC, Class: dns.ClassINET, Ttl: 120}, NextDomain: next, TypeBitMap: bitmap}
		resp.Ns = []dns.RR{soa("verif.test."), fakeSig("verif.test.", dns.TypeSOA), nsec, fakeSig(owner, dns.TypeNSEC)}
		resp.AuthenticatedData = true
	case "ede":
		resp.Answer = []dns.RR{a(name, 3)}
		o := &dns.OPT{Hdr: dns.RR_Header{Name: ".", Rrtype: dns.TypeOPT}}
		o.SetUDPSize(1232)
		o.Option = append(o.Option, &dns.EDNS0_EDE{InfoCode: dns.ExtendedErrorCodeStaleAnswer, ExtraText: "verif"})
		resp.Extra = []dns.RR{o}
	case "big":
		for i := 0; i < 90; i++ {
			resp.Answer = append(resp.Answer, a(name, byte(i)))
		}
	case "servfail":
		resp.Rcode = dns.RcodeServerFailure
	case "upecs":
		resp.Answer = []dns.RR{a(name, 4)}
		o := &dns.OPT{Hdr: dns.RR_Header{Name: ".", Rrtype: dns.TypeOPT}}
		o.SetUDPSize(1232)
		if ro := req.IsEdns0(); ro != nil {
			for _, opt := range ro.Option {
				if e, ok := opt.(*dns.EDNS0_SUBNET); ok {
					o.Option = append(o.Option, &dns.EDNS0_SUBNET{Code: dns.EDNS0SUBNET, Family: e.Family,
						SourceNetmask: e.SourceNetmask, SourceScope: e.SourceNetmask, Address: e.Address})
				}
			}
		}
		resp.Extra = []dns.RR{o}
	case "upcookie":
		resp.Answer = []dns.RR{a(name, 5)}
		o := &dns.OPT{Hdr: dns.RR_Header{Name: ".", Rrtype: dns.TypeOPT}}
		o.SetUDPSize(4096)
		o.Option = append(o.Option,
			&dns.EDNS0_COOKIE{Code: dns.EDNS0COOKIE, Cookie: "0123456789abcdef0123456789abcdef0123456789abcdef"},
			&dns.EDNS0_TCP_KEEPALIVE{Code: dns.EDNS0TCPKEEPALIVE, Timeout: 100},
			&dns.EDNS0_PADDING{Padding: make([]byte, 7)},
			&dns.EDNS0_SUBNET{Code: dns.EDNS0SUBNET, Family: 1, SourceNetmask: 24, SourceScope: 0, Address: net.IPv4(198, 51, 100, 0)})
		resp.Extra = []dns.RR{o}
	case "up2optf", "up2optl", "up2optb": // contentOf lower-cases
		// TWO OPT records in the additional section.  The one marked foreign carries what belongs to the upstream's
		// exchange with us (its cookie, its keepalive, padding, an ECS echo); the other one is bare.
		resp.Answer = []dns.RR{a(name, 7)}
		mk := func(foreign bool) dns.RR {
			o := &dns.OPT{Hdr: dns.RR_Header{Name: ".", Rrtype: dns.TypeOPT}}
			o.SetUDPSize(1232)
			if foreign {
				o.SetUDPSize(4096)
				o.Option = append(o.Option,
					&dns.EDNS0_COOKIE{Code: dns.EDNS0COOKIE, Cookie: "0123456789abcdef0123456789abcdef0123456789abcdef"},
					&dns.EDNS0_TCP_KEEPALIVE{Code: dns.EDNS0TCPKEEPALIVE, Timeout: 100},
					&dns.EDNS0_PADDING{Padding: make([]byte, 7)},
					&dns.EDNS0_SUBNET{Code: dns.EDNS0SUBNET, Family: 1, SourceNetmask: 24, SourceScope: 0, Address: net.IPv4(198, 51, 100, 0)})
			}
			return o
		}
		kind := contentOf(name)
		resp.Extra = []dns.RR{mk(kind != "up2optl"), mk(kind != "up2optf")}
	case "panic":
		panic("verif serve: scripted panic behind the cache")
	case "cnamesplit":
		// the alias alone, validated; the target ("tgt-...", content class of its own: plain, AD=0) is asked for in
		// a second exchange by the cache's alias completion, so the two are cached apart
		t := "tgt-" + name
		resp.Answer = []dns.RR{&dns.CNAME{Hdr: dns.RR_Header{Name: name, Rrtype: dns.TypeCNAME, Class: dns.ClassINET, Ttl: 300}, Target: t},
			fakeSig(name, dns.TypeCNAME)}
		resp.AuthenticatedData = true
	case "cname":
		t := "target-" + name
		resp.Answer = []dns.RR{&dns.CNAME{Hdr: dns.RR_Header{Name: name, Rrtype: dns.TypeCNAME, Class: dns.ClassINET, Ttl: 300}, Target: t}, a(t, 6)}
	default:
		resp.Answer = []dns.RR{a(name, 9)}
	}
	return resp
}

func newTwins(c absCfg, upstream string, withClock bool) (*twins, func()) {
	tw := &twins{cfg: c}
	var rel []func()
	epoch := time.Now()
	mk := func(name string) *twin {
		if upstream == "forwarder" {
			t, stop := newForwarderTwin(name, c)
			rel = append(rel, stop)
			return t
		}
		tail := &pipe.Tail{Respond: respond}
		t := &twin{name: name, tail: tail}
		s, release := pipe.NewServer(realConfig(c), tail, "failover")
		t.srv = s
		if withClock {
			// the cache handler of THIS twin is the one just set up in the (process-global) registry
			if h, ok := middleware.Get("cache").(interface{ VerifC05SetFailureNow(func() time.Time) }); ok {
				t.clock = &vclock{t: epoch}
				h.VerifC05SetFailureNow(t.clock.Now)
			}
		}
		// the registry is process-global; the Server keeps its own pipeline,
		// so releasing right away lets the next twin be built
		release()
		return t
	}
	tw.w, tw.m, tw.i = mk("wire"), mk("msg"), mk("inline")
	return tw, func() {
		for _, f := range rel {
			f()
		}
	}
}

// ---- packet construction ------------------------------------------------------

type built struct {
	raw     []byte
	id      uint16
	name    string
	ccookie []byte
	ecsOpt  []byte // rdata of the ECS option sent (nil if none)
}

func putName(b []byte, name string, r *rand.Rand, mix bool) []byte {
	if name == "." {
		return append(b, 0)
	}
	for _, l := range strings.Split(strings.TrimSuffix(name, "."), ".") {
		lb := []byte(l)
		if mix {
			for i := range lb {
				if r.Intn(2) == 0 && lb[i] >= 'a' && lb[i] <= 'z' {
					lb[i] -= 32
				}
			}
		}
		b = append(b, byte(len(lb)))
		b = append(b, lb...)
	}
	return append(b, 0)
}

func opt(code uint16, data []byte) []byte {
	b := make([]byte, 4, 4+len(data))
	binary.BigEndian.PutUint16(b[0:], code)
	binary.BigEndian.PutUint16(b[2:], uint16(len(data)))
	return append(b, data...)
}

func buildPacket(p absPkt, name string, clientIP net.IP, r *rand.Rand, variant int, ccookie []byte) built {
	out := built{name: name, ccookie: ccookie}
	out.id = uint16(r.Intn(65535) + 1)
	var flags uint16
	if p.QR {
		flags |= 0x8000
	}
	flags |= uint16(p.Opcode&0xF) << 11
	if p.RD {
		flags |= 0x0100
	}
	if p.AD {
		flags |= 0x0020
	}
	if p.CD {
		flags |= 0x0010
	}
	ar := 0
	switch p.Opt {
	case "ok", "ver1", "nonroot", "badrdlen", "extrcode":
		ar = 1
	case "dup":
		ar = 2
	}
	b := make([]byte, 12, 512)
	binary.BigEndian.PutUint16(b[0:], out.id)
	binary.BigEndian.PutUint16(b[2:], flags)
	binary.BigEndian.PutUint16(b[4:], uint16(p.QD))
	binary.BigEndian.PutUint16(b[6:], uint16(p.AN))
	binary.BigEndian.PutUint16(b[10:], uint16(ar))
	qt := map[string]uint16{"A": dns.TypeA, "RRSIG": dns.TypeRRSIG, "unknown": 65280}[p.Qtype]
	qc := map[string]uint16{"IN": dns.ClassINET, "unknown": 0xFF00}[p.Qclass]
	for i := 0; i < p.QD; i++ {
		b = putName(b, name, r, variant > 0)
		b = binary.BigEndian.AppendUint16(b, qt)
		b = binary.BigEndian.AppendUint16(b, qc)
	}
	for i := 0; i < p.AN; i++ {
		b = putName(b, name, r, false)
		b = binary.BigEndian.AppendUint16(b, dns.TypeA)
		b = binary.BigEndian.AppendUint16(b, dns.ClassINET)
		b = binary.BigEndian.AppendUint32(b, 60)
		b = binary.BigEndian.AppendUint16(b, 4)
		b = append(b, 192, 0, 2, 200)
	}
	if ar == 0 {
		out.raw = b
		return out
	}
	// options
	var opts [][]byte
	switch p.Cookie {
	case "c8":
		opts = append(opts, opt(dns.EDNS0COOKIE, ccookie))
	case "valid":
		sc := dnsutil.GenerateServerCookie(cookieSecret, clientIP.String(), hex.EncodeToString(ccookie))
		raw, _ := hex.DecodeString(sc)
		opts = append(opts, opt(dns.EDNS0COOKIE, raw))
	case "stale":
		raw := append(append([]byte{}, ccookie...), bytes.Repeat([]byte{0xAB}, 32)...)
		opts = append(opts, opt(dns.EDNS0COOKIE, raw))
	case "badlen":
		opts = append(opts, opt(dns.EDNS0COOKIE, ccookie[:7]))
	}
	if p.NSID {
		opts = append(opts, opt(dns.EDNS0NSID, nil))
	}
	if p.Keepalive {
		opts = append(opts, opt(dns.EDNS0TCPKEEPALIVE, nil))
	}
	switch p.ECS {
	case "v4_24":
		out.ecsOpt = []byte{0, 1, 24, 0, 198, 51, 100}
	case "v4_32":
		out.ecsOpt = []byte{0, 1, 32, 0, 198, 51, 100, 77}
	case "v6_56":
		out.ecsOpt = []byte{0, 2, 56, 0, 0x20, 0x01, 0x0d, 0xb8, 0x12, 0x34, 0x56}
	case "fam0":
		out.ecsOpt = []byte{0, 0, 0, 0}
	case "badfam":
		out.ecsOpt = []byte{0, 9, 8, 0, 1}
	}
	if out.ecsOpt != nil {
		opts = append(opts, opt(dns.EDNS0SUBNET, out.ecsOpt))
	}
	if p.Pad {
		opts = append(opts, opt(dns.EDNS0PADDING, make([]byte, 5)))
	}
	if p.Unk {
		opts = append(opts, opt(65001, []byte{1, 2, 3}))
	}
	if variant > 1 {
		r.Shuffle(len(opts), func(i, j int) { opts[i], opts[j] = opts[j], opts[i] })
	}
	var rdata []byte
	for _, o := range opts {
		rdata = append(rdata, o...)
	}
	size := uint16(p.Size)
	if variant > 0 && p.Size == 1232 {
		size = []uint16{1232, 1233, 1400}[r.Intn(3)]
	}
	if variant > 0 && p.Size == 4096 {
		size = []uint16{4096, 8192, 65535}[r.Intn(3)]
	}
	if variant > 0 && p.Size == 0 {
		size = []uint16{0, 100, 511}[r.Intn(3)]
	}
	one := func(owner []byte, version, ext byte, rdlenDelta int) {
		b = append(b, owner...)
		b = binary.BigEndian.AppendUint16(b, dns.TypeOPT)
		b = binary.BigEndian.AppendUint16(b, size)
		b = append(b, ext, version)
		var z uint16
		if p.DO {
			z = 0x8000
		}
		b = binary.BigEndian.AppendUint16(b, z)
		b = binary.BigEndian.AppendUint16(b, uint16(len(rdata)+rdlenDelta))
		b = append(b, rdata...)
	}
	switch p.Opt {
	case "ok":
		one([]byte{0}, 0, 0, 0)
	case "ver1":
		one([]byte{0}, 1, 0, 0)
	case "extrcode":
		one([]byte{0}, 0, 1, 0)
	case "badrdlen":
		one([]byte{0}, 0, 0, 9)
	case "nonroot":
		one([]byte{1, 'x', 0}, 0, 0, 0)
	case "dup":
		one([]byte{0}, 0, 0, 0)
		one([]byte{0}, 0, 0, 0)
	}
	out.raw = b
	return out
}

// ---- observation ------------------------------------------------------------

type obs struct {
	replies  [][]byte
	formerr  bool // engine-side FORMERR (ServeRaw returned false / Unpack failed)
	tail     int
	wirePath bool
}

func remote(p absPkt, ip net.IP, port int) net.Addr {
	if p.Proto == "tcp" {
		return &net.TCPAddr{IP: ip, Port: port}
	}
	return &net.UDPAddr{IP: ip, Port: port}
}

func (t *twin) serve(mode string, p absPkt, raw []byte, ip net.IP) obs {
	before := t.log().NCalls()
	var o obs
	switch mode {
	case "wire":
		job := &server.VerifStrictJob{Remote: remote(p, ip, 4242)}
		if !t.srv.ServeRaw(job, raw, time.Now()) {
			o.formerr = true
		}
		o.replies = job.Writes
		o.wirePath = job.VerifTookWirePath()
	case "inline":
		job := &server.VerifStrictJob{Remote: remote(p, ip, 4242)}
		if !t.srv.ServeRawInline(job, raw, time.Now()) {
			if !t.srv.ServeRawReplay(job, raw, time.Now()) {
				o.formerr = true
			}
		}
		o.replies = job.Writes
	case "msg":
		m := new(dns.Msg)
		if err := m.Unpack(raw); err != nil {
			o.formerr = true
			break
		}
		sink := &pipe.Sink{Remote: remote(p, ip, 4242)}
		t.srv.ServeMsg(context.Background(), sink, m)
		o.replies = sink.Writes
	}
	o.tail = t.log().NCalls() - before
	return o
}

// canonical decoded form for comparison
type canon struct {
	hdr  string
	q    string
	an   []string
	ns   []string
	ex   []string
	edns string
	ttl  map[string]uint32
}

func canonRR(rr dns.RR) (string, uint32) {
	h := rr.Header()
	ttl := h.Ttl
	c := dns.Copy(rr)
	c.Header().Ttl = 0
	c.Header().Name = strings.ToLower(c.Header().Name)
	s := c.String()
	switch rr.(type) {
	case *dns.NS, *dns.CNAME, *dns.SOA, *dns.PTR, *dns.MX, *dns.DNAME, *dns.SRV:
		// domain names inside rdata may be compressed against the question,
		// whose letter case is the client's (0x20): compared case-insensitively
		s = strings.ToLower(s)
	}
	return s, ttl
}

func canonMsg(b []byte) (*canon, *dns.Msg, error) {
	m := new(dns.Msg)
	if err := m.Unpack(b); err != nil {
		return nil, nil, err
	}
	c := &canon{ttl: map[string]uint32{}}
	c.hdr = fmt.Sprintf("id=%d qr=%v op=%d aa=%v tc=%v rd=%v ra=%v z=%v ad=%v cd=%v rcode=%d",
		m.Id, m.Response, m.Opcode, m.Authoritative, m.Truncated, m.RecursionDesired, m.RecursionAvailable, m.Zero, m.AuthenticatedData, m.CheckingDisabled, m.Rcode)
	for _, q := range m.Question {
		c.q += fmt.Sprintf("%s/%d/%d;", strings.ToLower(q.Name), q.Qtype, q.Qclass)
	}
	sec := func(rrs []dns.RR, tag string) []string {
		var out []string
		for _, rr := range rrs {
			if o, ok := rr.(*dns.OPT); ok {
				var os []string
				for _, e := range o.Option {
					os = append(os, fmt.Sprintf("%d:%s", e.Option(), e.String()))
				}
				sort.Strings(os) // option order inside the OPT is not part of the message's meaning
				c.edns = fmt.Sprintf("v=%d size=%d do=%v ext=%d opts=%v", o.Version(), o.UDPSize(), o.Do(), o.ExtendedRcode(), os)
				continue
			}
			s, ttl := canonRR(rr)
			out = append(out, s)
			c.ttl[tag+s] = ttl
		}
		sort.Strings(out)
		return out
	}
	c.an, c.ns, c.ex = sec(m.Answer, "an:"), sec(m.Ns, "ns:"), sec(m.Extra, "ex:")
	return c, m, nil
}

func diffCanon(a, b *canon) string {
	if a.hdr != b.hdr {
		return fmt.Sprintf("header differs: %s | %s", a.hdr, b.hdr)
	}
	if a.q != b.q {
		return fmt.Sprintf("question differs: %s | %s", a.q, b.q)
	}
	for _, s := range []struct {
		n    string
		x, y []string
	}{{"answer", a.an, b.an}, {"authority", a.ns, b.ns}, {"additional", a.ex, b.ex}} {
		if strings.Join(s.x, "\n") != strings.Join(s.y, "\n") {
			return fmt.Sprintf("%s section differs: %v | %v", s.n, s.x, s.y)
		}
	}
	if a.edns != b.edns {
		return fmt.Sprintf("EDNS differs: %s | %s", a.edns, b.edns)
	}
	for k, v := range a.ttl {
		w := b.ttl[k]
		d := int64(v) - int64(w)
		if d < -1 || d > 1 { // the twins are served a few ms apart: one-second boundary
			return fmt.Sprintf("TTL differs on %s: %d | %d", k, v, w)
		}
	}
	return ""
}

// ---- C06 contract on raw bytes --------------------------------------------------

func sentOPT(p absPkt) bool { return p.Opt != "none" }

// contract returns the violated clause ("" if none) for one reply.
func contract(p absPkt, q built, reply []byte) (string, string) {
	if len(reply) < 12 {
		return "short", "reply shorter than a DNS header"
	}
	id := binary.BigEndian.Uint16(reply[0:])
	fl := binary.BigEndian.Uint16(reply[2:])
	if fl&0x8000 == 0 {
		return "qr", "reply without QR"
	}
	if id != q.id {
		return "id", fmt.Sprintf("reply ID %d, query ID %d", id, q.id)
	}
	if int(fl>>11)&0xF != p.Opcode {
		return "opcode", fmt.Sprintf("reply opcode %d, query opcode %d", int(fl>>11)&0xF, p.Opcode)
	}
	rcodeLow := int(fl & 0xF)
	// a bare header claims no section: twelve bytes that announce a question or records they do not hold are
	// neither a bare-header rejection nor a message (they fall through to the decode below)
	bare := len(reply) == 12 && (rcodeLow == dns.RcodeFormatError || rcodeLow == dns.RcodeNotImplemented) &&
		binary.BigEndian.Uint64(reply[4:]) == 0
	if bare {
		return "", ""
	}
	m := new(dns.Msg)
	if err := m.Unpack(reply); err != nil {
		return "undecodable", "reply does not decode: " + err.Error()
	}
	// FORMERR replies built from an unusable question section are exempt from the echo
	if !(m.Rcode == dns.RcodeFormatError && p.QD != 1) {
		if len(m.Question) != 1 || !strings.EqualFold(m.Question[0].Name, q.name) {
			return "question", fmt.Sprintf("question not echoed: %v", m.Question)
		}
	}
	ropt := m.IsEdns0()
	// what counts as "the query carried an OPT": any OPT record in the additional section
	if ropt != nil && !sentOPT(p) {
		return "opt-unasked", "reply carries an OPT, the query had none"
	}
	do := sentOPT(p) && p.DO && p.Opt != "nonroot"
	if !(do || p.Qtype == "RRSIG") {
		for _, rr := range append(append([]dns.RR{}, m.Answer...), m.Ns...) {
			switch rr.(type) {
			case *dns.RRSIG, *dns.NSEC, *dns.NSEC3:
				return "dnssec-unasked", "DNSSEC record " + dns.TypeToString[rr.Header().Rrtype] + " sent without DO"
			}
		}
	}
	if m.AuthenticatedData && (p.CD || !(do || p.AD)) {
		return "ad", fmt.Sprintf("AD set toward a client with CD=%v DO=%v AD=%v", p.CD, do, p.AD)
	}
	// every OPT record of the reply, not only the one IsEdns0() selects (the last): a client reads them all.  The
	// server's own options live in ONE record, so whatever another OPT record carries came from somewhere else
	// (an upstream's exchange with us, or the client's own request)
	opts := allOPT(m)
	for i := 0; i+1 < len(opts); i++ {
		var names []string
		for _, o := range opts[i].Option {
			names = append(names, fmt.Sprintf("%d:%s", o.Option(), o.String()))
		}
		for _, o := range opts[i].Option {
			if v, ok := o.(*dns.EDNS0_SUBNET); ok {
				return "ecs-reflected", fmt.Sprintf("reply with %d OPT records: record %d carries a client-subnet option %s beside %v", len(opts), i+1, v.String(), names)
			}
		}
		if len(names) > 0 {
			return "foreign-option", fmt.Sprintf("reply with %d OPT records: record %d carries options that are not this server's: %v", len(opts), i+1, names)
		}
	}
	for _, ropt := range opts[max(len(opts)-1, 0):] {
		for _, o := range ropt.Option {
			switch v := o.(type) {
			case *dns.EDNS0_SUBNET:
				return "ecs-reflected", "client-subnet option in the reply: " + v.String()
			case *dns.EDNS0_COOKIE:
				if p.Cookie == "none" {
					return "cookie-unasked", "server cookie returned, no client cookie sent"
				}
				if len(v.Cookie) < 16 || !strings.EqualFold(v.Cookie[:16], hex.EncodeToString(q.ccookie)) {
					if p.Cookie == "badlen" {
						continue
					}
					return "cookie-foreign", "cookie in the reply does not start with the client cookie: " + v.Cookie
				}
			case *dns.EDNS0_TCP_KEEPALIVE:
				if !(p.Keepalive && p.Proto == "tcp") {
					return "keepalive", "keepalive option toward a client that did not ask over TCP"
				}
			case *dns.EDNS0_NSID:
				if !p.NSID {
					return "nsid-unasked", "NSID returned, not requested"
				}
			case *dns.EDNS0_EDE:
			case *dns.EDNS0_PADDING:
				return "foreign-option", "padding option reflected to the client"
			default:
				return "foreign-option", fmt.Sprintf("option %d in the reply", o.Option())
			}
		}
	}
	if p.Proto == "udp" {
		adv := 512
		if sentOPT(p) && p.Opt != "nonroot" {
			adv = p.Size
		}
		limit := adv
		if limit > 1232 {
			limit = 1232
		}
		if limit < 512 {
			limit = 512
		}
		if len(reply) > limit {
			if !(m.Truncated && len(m.Answer) == 0 && len(m.Ns) == 0 && (len(m.Extra) == 0 || (len(m.Extra) == 1 && ropt != nil))) {
				return "udp-size", fmt.Sprintf("UDP reply of %d bytes exceeds %d and is not a bare TC reply", len(reply), limit)
			}
		}
	}
	return "", ""
}

func allOPT(m *dns.Msg) []*dns.OPT {
	var out []*dns.OPT
	for _, rr := range m.Extra {
		if o, ok := rr.(*dns.OPT); ok {
			out = append(out, o)
		}
	}
	return out
}

// ---- C19 upstream side ----------------------------------------------------------

func upstreamECS(p absPkt, c absCfg, q built, up *dns.Msg) (string, string) {
	if up == nil {
		return "", ""
	}
	// every OPT record of the upstream query: a request that came in with two of them must not carry the second
	// one's options out either
	var all []dns.EDNS0
	for _, o := range allOPT(up) {
		all = append(all, o.Option...)
	}
	for _, e := range all {
		switch v := e.(type) {
		case *dns.EDNS0_SUBNET:
			if c.ECS != "on" {
				return "ecs-leaked", fmt.Sprintf("ECS option %s left toward upstream with forwarding %s", v.String(), c.ECS)
			}
			if q.ecsOpt == nil {
				return "ecs-invented", "ECS forwarded although the client sent none: " + v.String()
			}
			max := uint8(24)
			bits := 32
			if v.Family == 2 {
				max, bits = 56, 128
			}
			if v.SourceNetmask > max {
				return "ecs-too-long", fmt.Sprintf("forwarded prefix /%d exceeds the configured /%d", v.SourceNetmask, max)
			}
			ip := v.Address
			if v.Family == 1 {
				ip = ip.To4()
			} else {
				ip = ip.To16()
			}
			masked := ip.Mask(net.CIDRMask(int(v.SourceNetmask), bits))
			if !masked.Equal(ip) {
				return "ecs-hostbits", "forwarded ECS has host bits set: " + v.String()
			}
		default:
			return "client-option-leaked", fmt.Sprintf("EDNS option %d reached the upstream query", e.Option())
		}
	}
	return "", ""
}

// -------------------------------------------------------------------------------

func modelRcode(m *dns.Msg) string {
	switch m.Rcode {
	case dns.RcodeSuccess:
		return "noerror"
	case dns.RcodeNameError:
		return "nxdomain"
	case dns.RcodeServerFailure:
		return "servfail"
	case dns.RcodeFormatError:
		return "formerr"
	case dns.RcodeNotImplemented:
		return "notimp"
	case dns.RcodeBadVers:
		return "badvers"
	case dns.RcodeBadCookie:
		return "badcookie"
	case dns.RcodeRefused:
		return "refused"
	}
	return fmt.Sprint(m.Rcode)
}

func TestServeReplay(t *testing.T) {
	var in input
	vh.Input(t, &in)
	res := vh.NewResult()
	defer res.Write(t)
	r := vh.Rand()
	if in.Variants <= 0 {
		in.Variants = 1
	}
	byCfg := map[absCfg]*twins{}
	serial := 0
	ladder := in.Family == "ladder"
	report := func(prop, clause, what string, b behaviour, si int, q built, extra map[string]any) {
		if in.Focus != "" && in.Focus != prop {
			res.Count("other_property_"+prop+"_"+clause, 1)
			return
		}
		rep := map[string]any{"driver": "serve", "cfg": b.Cfg, "steps": b.Steps[:si+1], "query_hex": hex.EncodeToString(q.raw), "upstream": in.Upstream}
		for k, v := range extra {
			rep[k] = v
		}
		key := prop + "/" + clause + "/" + caseKey(b, si)
		if in.Upstream != "" && in.Upstream != "tail" {
			key = prop + "/" + clause + "/via-" + in.Upstream + "/" + caseKey(b, si)
			what = "[through the real " + in.Upstream + "] " + what
		}
		res.Violate(key, what, rep)
	}
	for bi, b := range in.Behaviours {
		tw := byCfg[b.Cfg]
		if tw == nil {
			var rel func()
			tw, rel = newTwins(b.Cfg, in.Upstream, ladder)
			defer rel()
			byCfg[b.Cfg] = tw
			if ladder && (tw.w.clock == nil || tw.m.clock == nil || tw.i.clock == nil) {
				res.Skip("ladder family: the failure-cache clock shim (verif_c05_shim.go) is not injected")
				return
			}
		}
		for v := 0; v < in.Variants; v++ {
			serial++
			ip := net.IPv4(203, 0, byte(113+serial>>8&0x3F), byte(serial&0xFF))
			ccookie := make([]byte, 8)
			r.Read(ccookie)
			nameFor := func(content string) string {
				if ladder {
					// own name and sibling share the parent g<n>.verif.test., private to this run of the behaviour
					return fmt.Sprintf("%s-%d.g%05d.verif.test.", content, serial, serial)
				}
				switch content {
				case "hosts":
					return "hosts-entry.verif.test."
				case "as112":
					return fmt.Sprintf("%d.%d.10.in-addr.arpa.", serial&0xFF, serial>>8&0xFF)
				}
				return fmt.Sprintf("%s-%d.verif.test.", content, serial)
			}
			own := nameFor(b.Steps[0].Content)
			for si, st := range b.Steps {
				if st.Env != "" {
					switch st.Env {
					case "elapse":
						// longer than the longest back-off the failure cache grants (5 min): every running one lapses
						for _, tt := range []*twin{tw.w, tw.m, tw.i} {
							if tt.clock != nil {
								tt.clock.Advance(6 * time.Minute)
							}
						}
					case "recover":
						recovered.Store(strings.ToLower(own), true)
					}
					res.Count("env_"+st.Env, 1)
					continue
				}
				name := own // one question per behaviour ...
				if st.Pkt.Name == "sib" {
					name = nameFor("cutnx") // ... and, in the ladder family, its sibling
				}
				q := buildPacket(st.Pkt, name, ip, rand.New(rand.NewSource(int64(serial)*131+int64(si))), v, ccookie)
				acc := server.VerifAcceptHeader(q.raw)
				res.Case(fmt.Sprintf("%v|%+v|%s|%d", b.Cfg, st.Pkt, st.Content, si))
				if acc != "ok" {
					// engine-level verdicts (C06 ingress clauses)
					want := ""
					switch {
					case st.Pkt.QR:
						want = "ignore"
					case st.Pkt.Opcode != 0 && st.Pkt.Opcode != 4:
						want = "notimp"
					case st.Pkt.QD != 1:
						want = "formerr"
					}
					if want != "" && acc != want {
						report("C06", "ingress", fmt.Sprintf("engine verdict %q for a packet that must get %q (%+v)", acc, want, st.Pkt), b, si, q, nil)
					}
					continue
				}
				if st.Pkt.QR {
					report("C06", "ingress", "a packet that is itself a response was accepted by the engine", b, si, q, nil)
				}
				ow := tw.w.serve("wire", st.Pkt, q.raw, ip)
				om := tw.m.serve("msg", st.Pkt, q.raw, ip)
				oi := tw.i.serve("inline", st.Pkt, q.raw, ip)
				if ow.wirePath {
					res.Count("wire_path_taken", 1)
				}
				if len(st.Cls) > 0 {
					confirmClasses(res, st, om)
				}
				// ---- C06 on every reply of every twin
				for _, o := range []struct {
					n string
					o obs
				}{{"wire", ow}, {"msg", om}, {"inline", oi}} {
					if len(o.o.replies) > 1 {
						report("C06", "two-replies", fmt.Sprintf("%s entry wrote %d replies to one query", o.n, len(o.o.replies)), b, si, q, nil)
					}
					for _, rep := range o.o.replies {
						// RFC 6891 6.1.1 (one OPT per message) is not a clause of the C06 statement in as many words: a
						// reply with two harmless OPT records is an observation (and a drift from the model's writer)
						if rm := new(dns.Msg); len(rep) > 12 && rm.Unpack(rep) == nil && len(allOPT(rm)) > 1 {
							res.Count("observation_reply_with_several_opt_records", 1)
							res.DriftNote("reply with %d OPT records (%s entry, pkt opt=%s, content %s)", len(allOPT(rm)), o.n, st.Pkt.Opt, b.Steps[0].Content)
						}
						if clause, what := contract(st.Pkt, q, rep); clause != "" {
							prop := "C06"
							report(prop, clause, fmt.Sprintf("[%s entry, cfg %+v, pkt %+v] %s", o.n, b.Cfg, st.Pkt, what), b, si, q,
								map[string]any{"reply_hex": hex.EncodeToString(rep), "entry": o.n})
							if clause == "ecs-reflected" {
								report("C19", clause, fmt.Sprintf("[%s entry, cfg %+v, pkt %+v] %s", o.n, b.Cfg, st.Pkt, what), b, si, q,
									map[string]any{"reply_hex": hex.EncodeToString(rep), "entry": o.n})
							}
						}
					}
					if st.Pkt.Opcode != 0 && len(o.o.replies) == 1 && len(o.o.replies[0]) >= 4 && !o.o.formerr {
						if rc := int(o.o.replies[0][3] & 0xF); rc != dns.RcodeNotImplemented {
							report("C06", "notimp", fmt.Sprintf("%s entry answered opcode %d with rcode %d", o.n, st.Pkt.Opcode, rc), b, si, q, nil)
						}
					}
				}
				// ---- C19 upstream side
				for _, tt := range []*twin{tw.w, tw.m, tw.i} {
					if clause, what := upstreamECS(st.Pkt, b.Cfg, q, tt.log().Last()); clause != "" && tt.log().NCalls() > 0 {
						report("C19", clause, fmt.Sprintf("[%s entry, cfg %+v, pkt %+v] %s", tt.name, b.Cfg, st.Pkt, what), b, si, q, nil)
					}
					tt.log().Reset()
				}
				// ---- C05: the three entries agree
				cmp := func(an string, a obs, bn string, bb obs) {
					if a.formerr != bb.formerr || len(a.replies) != len(bb.replies) {
						report("C05", "decision", fmt.Sprintf("%s entry: formerr=%v replies=%d; %s entry: formerr=%v replies=%d (cfg %+v pkt %+v content %s)",
							an, a.formerr, len(a.replies), bn, bb.formerr, len(bb.replies), b.Cfg, st.Pkt, b.Steps[0].Content), b, si, q, nil)
						return
					}
					if a.tail != bb.tail {
						report("C05", "side-effect", fmt.Sprintf("%s entry reached the upstream %d times, %s entry %d times (cfg %+v pkt %+v)", an, a.tail, bn, bb.tail, b.Cfg, st.Pkt), b, si, q, nil)
						return
					}
					for k := range a.replies {
						ca, _, ea := canonMsg(a.replies[k])
						cb, _, eb := canonMsg(bb.replies[k])
						if ea != nil || eb != nil {
							if (ea == nil) != (eb == nil) {
								report("C05", "decode", fmt.Sprintf("reply of %s entry decodes: %v, of %s entry: %v", an, ea, bn, eb), b, si, q, nil)
							}
							continue
						}
						if d := diffCanon(ca, cb); d != "" {
							report("C05", "reply", fmt.Sprintf("%s vs %s entry (cfg %+v pkt %+v content %s): %s", an, bn, b.Cfg, st.Pkt, b.Steps[0].Content, d), b, si, q,
								map[string]any{an + "_hex": hex.EncodeToString(a.replies[k]), bn + "_hex": hex.EncodeToString(bb.replies[k])})
						}
					}
				}
				cmp("wire", ow, "msg", om)
				cmp("inline+replay", oi, "msg", om)
				// ---- drift against the model's outcome
				got := absOut{Kind: "none"}
				if ow.formerr {
					got = absOut{Kind: "bare", Rcode: "formerr"}
				} else if len(ow.replies) == 1 {
					if _, m, err := canonMsg(ow.replies[0]); err == nil {
						got = absOut{Kind: "reply", Rcode: modelRcode(m), Opt: m.IsEdns0() != nil, Tc: m.Truncated, Ad: m.AuthenticatedData}
						if len(ow.replies[0]) == 12 {
							got = absOut{Kind: "bare", Rcode: modelRcode(m)}
						}
					}
				}
				exp := st.Exp
				if exp.Kind != got.Kind || (exp.Kind != "none" && exp.Rcode != got.Rcode) || (exp.Kind == "reply" && (exp.Opt != got.Opt || exp.Tc != got.Tc || exp.Ad != got.Ad)) {
					res.DriftNote("model %+v, code %+v for cfg %+v pkt %+v content %s step %d", exp, got, b.Cfg, st.Pkt, b.Steps[0].Content, si)
				}
				if st.ExpTail != (ow.tail > 0) {
					res.DriftNote("model tail=%v code tail=%d for cfg %+v pkt %+v step %d", st.ExpTail, ow.tail, b.Cfg, st.Pkt, si)
				}
			}
			// follow-up: a plain query for the same question from another client, decoded entry on every twin
			fq := new(dns.Msg)
			fq.SetQuestion(nameFor(b.Steps[0].Content), dns.TypeA)
			fq.Id = 4711
			var fu [3]obs
			for k, tt := range []*twin{tw.w, tw.m, tw.i} {
				raw, _ := fq.Pack()
				fu[k] = tt.serve("msg", absPkt{Proto: "tcp", QD: 1}, raw, net.IPv4(198, 18, 0, 9))
				tt.log().Reset()
			}
			for k := 0; k < 3; k += 2 {
				if fu[k].tail != fu[1].tail || len(fu[k].replies) != len(fu[1].replies) {
					report("C05", "later-visible", fmt.Sprintf("after the behaviour a follow-up query reaches upstream %d times on the %s twin and %d times on the msg twin (cfg %+v steps %+v)",
						fu[k].tail, []string{"wire", "", "inline"}[k], fu[1].tail, b.Cfg, b.Steps), b, len(b.Steps)-1, built{}, nil)
				}
			}
		}
		if bi < 3 {
			res.Sample(b)
		}
	}
}

// confirmClasses: the model says this query meets a given ladder situation; the DECODED twin's observation tells
// whether the real history produced it (counted; a miss is drift, and the check treats zero confirmations as vacuous).
func confirmClasses(res *vh.Result, st step, om obs) {
	var m *dns.Msg
	if len(om.replies) == 1 {
		_, m, _ = canonMsg(om.replies[0])
	}
	for _, c := range st.Cls {
		ok := false
		if m != nil {
			switch c {
			case "hit-truncated-under-cut": // the cached answer, truncated, although a cut covers the name
				ok = m.Rcode == dns.RcodeSuccess && m.Truncated && om.tail == 0
			case "lapsed-failure-asked": // the back-off ran out: resolved again
				ok = om.tail > 0
			case "cut-over-live-failure", "cut-served":
				ok = m.Rcode == dns.RcodeNameError && om.tail == 0
			case "failure-served":
				ok = m.Rcode == dns.RcodeServerFailure && om.tail == 0
			}
		}
		if ok {
			res.Count("confirmed_"+c, 1)
		} else {
			res.Count("unconfirmed_"+c, 1)
			res.DriftNote("ladder class %s not produced by the decoded twin (pkt %+v, tail=%d, replies=%d)", c, st.Pkt, om.tail, len(om.replies))
		}
	}
}

func caseKey(b behaviour, si int) string {
	p := b.Steps[si].Pkt
	return fmt.Sprintf("cfg=%v/%v/%s pkt=%v/%d/%d/%d/%v/%v/%v/%s/%s/%s/%v/%d/%s/%v/%v/%s/%v/%v/%s%s content=%s step=%d",
		b.Cfg.NSID, b.Cfg.Ratelimit, b.Cfg.ECS, p.QR, p.Opcode, p.QD, p.AN, p.RD, p.AD, p.CD, p.Qtype, p.Qclass, p.Opt, p.DO, p.Size,
		p.Cookie, p.NSID, p.Keepalive, p.ECS, p.Pad, p.Unk, p.Proto, map[bool]string{true: "/sib"}[p.Name == "sib"], b.Steps[0].Content, si)
}
