package xhosts

// fuzz_test.go: stage fuzz - random hosts files over a wider pool of names, patterns and address
// spellings than the model's universe, loaded by the real load(); every name of the pool is then asked
// on both entries and judged by the same documented predicates against the reference reading of the
// file.  (The TLA+ binding is the replay; this widens the parser's input space.)

import (
	"fmt"
	"math/rand"
	"os"
	"path/filepath"
	"strings"
	"testing"
	"time"

	"github.com/miekg/dns"
	"github.com/semihalev/sdns/config"
	"github.com/semihalev/sdns/middleware/hostsfile"
	"github.com/semihalev/sdns/verifharness/vh"
)

var fuzzNames = []string{"a.fz.lan", "b.fz.lan", "c.fz.lan", "x.a.fz.lan", "y.x.a.fz.lan", "bada.fz.lan", "fz.lan", "d",
	"e.other.lan", "xn--bcher-kva.fz.lan", "a-b.fz.lan", "1.fz.lan"}
var fuzzPats = []string{"*.a.fz.lan", "*.fz.lan", "*.other.lan"}
var fuzzAddrs = []string{"198.18.0.1", "198.18.0.2", "198.18.7.255", "::ffff:198.18.0.1", "198.18.0.2", "2001:db8:f::1", "2001:DB8:F::2",
	"2001:0db8:000f:0000:0000:0000:0000:0001", "fe80::7%eth1", "::198.18.0.9"}

func fuzzFile(rng *rand.Rand) []byte {
	var b strings.Builder
	n := 1 + rng.Intn(10)
	for i := 0; i < n; i++ {
		if rng.Intn(6) == 0 {
			b.WriteString(junkLines[rng.Intn(len(junkLines))])
			b.WriteString("\n")
			continue
		}
		b.WriteString(fuzzAddrs[rng.Intn(len(fuzzAddrs))])
		pat := rng.Intn(5) == 0
		k := 1 + rng.Intn(3)
		patAt := rng.Intn(k)
		for x := 0; x < k; x++ {
			b.WriteString([]string{" ", "\t", "   "}[rng.Intn(3)])
			if pat && x == patAt { // at most one pattern on a line: only the first one counts in the code
				b.WriteString(fuzzPats[rng.Intn(len(fuzzPats))])
			} else {
				b.WriteString(spellCase(rng, fuzzNames[rng.Intn(len(fuzzNames))]))
			}
		}
		if rng.Intn(5) == 0 {
			b.WriteString(" # " + fuzzNames[rng.Intn(len(fuzzNames))])
		}
		if i < n-1 || rng.Intn(2) == 0 {
			b.WriteString([]string{"\n", "\r\n"}[rng.Intn(2)])
		}
	}
	return []byte(b.String())
}

func fuzzOne(in *Input, j *judge, h *hostsfile.Hostsfile, c *hchain, path string, content []byte, rng *rand.Rand) bool {
	res := j.res
	if err := os.WriteFile(path, content, 0o644); err != nil {
		res.Skip("fuzz: %v", err)
		return false
	}
	if err := h.VerifLoad(); err != nil {
		res.Skip("fuzz: load of a well-formed file failed: %v", err)
		return false
	}
	f := &facts{lines: refParse(content)}
	res.Count("fuzz_files", 1)
	id := uint16(1 + rng.Intn(60000))
	type qn struct{ name, ptr string }
	var qs []qn
	for _, n := range fuzzNames {
		qs = append(qs, qn{n + ".", ""})
	}
	qs = append(qs, qn{"absent.fz.lan.", ""}, qn{"q.other.lan.", ""}, qn{"other.lan.", ""})
	seen := map[string]bool{}
	for _, l := range f.lines {
		if !seen[l.ip] {
			seen[l.ip] = true
			qs = append(qs, qn{reverseOf(l.ip), l.ip})
		}
	}
	qs = append(qs, qn{reverseOf("198.18.99.99"), "198.18.99.99"})
	for _, q0 := range qs {
		for _, qt := range []uint16{dns.TypeA, dns.TypeAAAA, dns.TypeCNAME, dns.TypePTR, otherTypes[rng.Intn(len(otherTypes))]} {
			name := q0.name
			if q0.ptr == "" && rng.Intn(2) == 0 {
				name = spellCase(rng, name)
			}
			id++
			q := qspec{name: name, qtype: qt, class: dns.ClassINET, rd: rng.Intn(2) == 0, cd: rng.Intn(3) == 0, id: id}
			var first outcome
			for pi, wire := range []bool{false, true} {
				o := c.ask(q, wire)
				res.Count("fuzz_queries", 1)
				if bad := j.check(f, q, o, q0.ptr); len(bad) > 0 {
					class := strings.SplitN(bad[0], ":", 2)[0]
					res.Violate("hosts/"+class, fmt.Sprintf("[fuzz, %s path] %s | query %s | file: %q", []string{"decoded", "wire"}[pi], strings.Join(bad, "; "), q, clip(content)),
						map[string]any{"driver": "fuzz", "file": string(content), "query": q.String()})
					return false
				}
				if pi == 0 {
					first = o
				} else if canon(first) != canon(o) {
					res.Violate("hosts/parity", fmt.Sprintf("[fuzz] decoded path %s / wire path %s for %s | file: %q", canon(first), canon(o), q, clip(content)),
						map[string]any{"driver": "fuzz", "file": string(content), "query": q.String()})
					return false
				}
			}
			res.Case("fuzz|" + first.kind + "|" + dns.TypeToString[qt])
		}
	}
	return true
}

func stageFuzz(t *testing.T, in *Input, j *judge) {
	path := filepath.Join(t.TempDir(), "hosts")
	_ = os.WriteFile(path, []byte("# empty\n"), 0o644)
	h := hostsfile.New(&config.Config{HostsFile: path})
	if h == nil {
		j.res.Skip("fuzz: New failed")
		return
	}
	h.VerifStopWatcher()
	c := newHChain(h)
	rng := rand.New(rand.NewSource(vh.Seed()*977 + 5))
	if in.FuzzFile != "" {
		fuzzOne(in, j, h, c, path, []byte(in.FuzzFile), rng)
		return
	}
	stop := time.Now().Add(in.budget("fuzz", 1500))
	for time.Now().Before(stop) {
		if !fuzzOne(in, j, h, c, path, fuzzFile(rng), rng) {
			return
		}
	}
}
