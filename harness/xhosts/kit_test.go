// Package xhosts binds tla/HostsFile/HostsFile.tla to middleware/hostsfile.
//
// kit_test.go: the universe (abstract names of the model -> real spellings), the
// renderer that turns an abstract file of the model into bytes (with the spelling
// dimensions that must not matter chosen at random), a reference reading of the
// documented hosts format, the predicates the documentation bears (mirrors of the
// operators of HostsFile.tla, evaluated on what the REAL code answered), and the
// two entries of the real handler (decoded and wire-born) in a chain with a
// scripted downstream that records pass-through.
package xhosts

import (
	"context"
	"fmt"
	"math/rand"
	"net"
	"sort"
	"strings"
	"sync"
	"time"

	"github.com/miekg/dns"
	"github.com/semihalev/sdns/config"
	"github.com/semihalev/sdns/internal/mock"
	"github.com/semihalev/sdns/middleware"
	"github.com/semihalev/sdns/middleware/defaults"
	"github.com/semihalev/sdns/middleware/hostsfile"
	"github.com/semihalev/sdns/server"
	"github.com/semihalev/sdns/verifharness/pipe"
	"github.com/semihalev/sdns/verifharness/vh"
)

const hostsTTL = 600 // "ttl: 600, // 10 minutes default TTL"

// ---------------------------------------------------------------------------
// input
// ---------------------------------------------------------------------------

type Line struct {
	A  string   `json:"a"`
	Ns []string `json:"ns"`
}

type Disk struct {
	St string `json:"st"`
	Ls []Line `json:"ls"`
}

type FwdExp struct {
	On bool     `json:"on"`
	V4 []string `json:"v4"`
	V6 []string `json:"v6"`
	Cn string   `json:"cn"`
}

type WildExp struct {
	Pat string   `json:"pat"`
	V4  []string `json:"v4"`
	V6  []string `json:"v6"`
}

type OutExp struct {
	K  string   `json:"k"`
	RR []string `json:"rr"`
}

// TabExp is one published table of the model with what every query of the universe gets from it.
type TabExp struct {
	Fwd  map[string]FwdExp   `json:"fwd"`
	Wild []WildExp           `json:"wild"`
	Rev  map[string][]string `json:"rev"`
	Obs  map[string]OutExp   `json:"obs"` // "name|TYPE"
}

type Step struct {
	Label     string `json:"label"`
	Act       string `json:"act"`
	Loader    int    `json:"loader"`
	Disk      Disk   `json:"disk"`
	Tab       string `json:"tab"`
	Quiescent bool   `json:"quiescent"`
	Cut       bool   `json:"cut"`
}

type History struct {
	ID       string `json:"id"`
	Source   string `json:"source"`
	Disabled bool   `json:"disabled"`
	Init     Step   `json:"init"`
	Steps    []Step `json:"steps"`
}

type Universe struct {
	Names  map[string]string `json:"names"`
	Pats   map[string]string `json:"pats"`
	Addrs  map[string]string `json:"addrs"`
	QNames []string          `json:"qnames"`
	QTypes []string          `json:"qtypes"`
}

type Input struct {
	U         Universe          `json:"universe"`
	Tabs      map[string]TabExp `json:"tabs"`
	Histories []History         `json:"histories"`
	Watch     []History         `json:"watch"`
	Stages    []string          `json:"stages"`
	Strict    bool              `json:"strict"`
	BudgetMs  map[string]int    `json:"budgetMs"`
	Readers   int               `json:"readers"`
	StaleRuns int               `json:"staleRuns"`
	FuzzFile  string            `json:"fuzzFile"`
}

func (in *Input) has(stage string) bool {
	for _, s := range in.Stages {
		if s == stage {
			return true
		}
	}
	return false
}

func (in *Input) budget(stage string, def int) time.Duration {
	if v, ok := in.BudgetMs[stage]; ok {
		return time.Duration(v) * time.Millisecond
	}
	return time.Duration(def) * time.Millisecond
}

func (u *Universe) realName(abs string) string {
	if s, ok := u.Names[abs]; ok {
		return s
	}
	if s, ok := u.Pats[abs]; ok {
		return s
	}
	return abs
}

var qtypeCode = map[string]uint16{"A": dns.TypeA, "AAAA": dns.TypeAAAA, "CNAME": dns.TypeCNAME, "PTR": dns.TypePTR, "MX": dns.TypeMX}

// otherTypes: "MX" of the model stands for every type the database cannot answer.
var otherTypes = []uint16{dns.TypeMX, dns.TypeTXT, dns.TypeNS, dns.TypeSOA, dns.TypeSRV, dns.TypeANY, dns.TypeHTTPS, dns.TypeDS}

// ---------------------------------------------------------------------------
// rendering an abstract file into bytes
// ---------------------------------------------------------------------------

type renderer struct {
	u   *Universe
	rng *rand.Rand
	// plain = no spelling games (the free-running stages want byte-stable files)
	plain bool
}

func spellCase(rng *rand.Rand, s string) string {
	switch rng.Intn(4) {
	case 0:
		return strings.ToUpper(s)
	case 1:
		b := []byte(s)
		for i := range b {
			if rng.Intn(2) == 0 && b[i] >= 'a' && b[i] <= 'z' {
				b[i] -= 'a' - 'A'
			}
		}
		return string(b)
	}
	return s
}

func (r *renderer) addr(abs string) string {
	ip := r.u.Addrs[abs]
	if r.plain {
		return ip
	}
	p := net.ParseIP(ip)
	if p.To4() != nil {
		switch r.rng.Intn(5) {
		case 0:
			return "::ffff:" + ip // v4-mapped: the loader treats it as the IPv4 address
		case 1:
			return "::FFFF:" + ip
		}
		return ip
	}
	switch r.rng.Intn(5) {
	case 0:
		return strings.ToUpper(ip)
	case 1:
		return ip + "%eth0" // zone identifiers are cut off
	case 2:
		p16 := p.To16()
		parts := make([]string, 8)
		for i := 0; i < 8; i++ {
			parts[i] = fmt.Sprintf("%04x", int(p16[2*i])<<8|int(p16[2*i+1]))
		}
		return strings.Join(parts, ":")
	}
	return ip
}

var junkLines = []string{"# a comment", "", "   \t ", "999.300.1.1 bad.lan", "192.0.2.200", "192.0.2.", "2001:db8:",
	"nonsense h1.lan", "#192.0.2.1 h2.lan", "192.0.2.1#h2.lan"}

func (r *renderer) line(l Line) string {
	if _, ok := r.u.Addrs[l.A]; !ok || len(l.Ns) == 0 {
		if r.plain {
			return "# junk"
		}
		return junkLines[r.rng.Intn(len(junkLines))]
	}
	seps := []string{" ", "\t", "  ", " \t "}
	sep := func() string {
		if r.plain {
			return " "
		}
		return seps[r.rng.Intn(len(seps))]
	}
	var b strings.Builder
	if !r.plain && r.rng.Intn(5) == 0 {
		b.WriteString(sep())
	}
	b.WriteString(r.addr(l.A))
	for _, n := range l.Ns {
		b.WriteString(sep())
		real := r.u.realName(n)
		if _, isPat := r.u.Pats[n]; !isPat && !r.plain {
			real = spellCase(r.rng, real)
		}
		b.WriteString(real)
	}
	if !r.plain {
		switch r.rng.Intn(6) {
		case 0:
			b.WriteString(" # trailing comment 192.0.2.9 nx.lan")
		case 1:
			b.WriteString("#glued comment")
		case 2:
			b.WriteString("  ")
		}
	}
	return b.String()
}

// file renders a whole abstract file. A file of the model whose last line was cut by a
// dying writer is rendered without the final newline half of the time (so is a whole one:
// the scanner must not care).
func (r *renderer) file(ls []Line) []byte {
	var b strings.Builder
	eol := "\n"
	if !r.plain && r.rng.Intn(4) == 0 {
		eol = "\r\n"
	}
	for i, l := range ls {
		b.WriteString(r.line(l))
		if i < len(ls)-1 || r.plain || r.rng.Intn(2) == 0 {
			b.WriteString(eol)
		}
	}
	return []byte(b.String())
}

// tooLong renders a file the scanner refuses: one line beyond bufio.MaxScanTokenSize.
func (r *renderer) tooLong(ls []Line) []byte {
	body := r.file(ls)
	if len(body) > 0 && body[len(body)-1] != '\n' {
		body = append(body, '\n')
	}
	long := "# " + strings.Repeat("x", 70000) + "\n"
	lines := strings.SplitAfter(string(body), "\n")
	at := r.rng.Intn(len(lines) + 1)
	var b strings.Builder
	for i, ln := range lines {
		if i == at {
			b.WriteString(long)
		}
		b.WriteString(ln)
	}
	if at >= len(lines) {
		b.WriteString(long)
	}
	return []byte(b.String())
}

// ---------------------------------------------------------------------------
// the reference reading of the documented format, and the facts the predicates need
// ---------------------------------------------------------------------------

type refLine struct {
	ip    string // canonical
	v4    bool
	names []string // lower case
	wild  bool
}

func refParse(content []byte) []refLine {
	var out []refLine
	for _, raw := range strings.Split(string(content), "\n") {
		if i := strings.IndexByte(raw, '#'); i >= 0 {
			raw = raw[:i]
		}
		f := strings.Fields(raw)
		if len(f) < 2 {
			continue
		}
		ipS := f[0]
		if i := strings.IndexByte(ipS, '%'); i >= 0 {
			ipS = ipS[:i]
		}
		ip := net.ParseIP(ipS)
		if ip == nil {
			continue
		}
		l := refLine{ip: ip.String(), v4: ip.To4() != nil}
		for _, n := range f[1:] {
			n = strings.ToLower(n)
			if strings.Contains(n, "*") {
				l.wild = true
			}
			l.names = append(l.names, n)
		}
		out = append(out, l)
	}
	return out
}

type facts struct {
	lines []refLine
}

func patCovers(pat, name string) bool {
	if !strings.HasPrefix(pat, "*.") {
		return false
	}
	suf := pat[2:]
	return name == suf || strings.HasSuffix(name, "."+suf)
}

func (f *facts) known(n string) bool {
	for _, l := range f.lines {
		if l.wild {
			continue
		}
		for _, x := range l.names {
			if x == n {
				return true
			}
		}
	}
	return false
}

func (f *facts) covered(n string) bool {
	for _, l := range f.lines {
		if !l.wild {
			continue
		}
		for _, x := range l.names {
			if patCovers(x, n) {
				return true
			}
		}
	}
	return false
}

func (f *facts) listed(n string, v4 bool) map[string]int {
	out := map[string]int{}
	for _, l := range f.lines {
		if l.wild || l.v4 != v4 {
			continue
		}
		for _, x := range l.names {
			if x == n {
				out[l.ip]++
				break
			}
		}
	}
	return out
}

func (f *facts) wildListed(n string, v4 bool) map[string]int {
	out := map[string]int{}
	for _, l := range f.lines {
		if !l.wild || l.v4 != v4 {
			continue
		}
		for _, x := range l.names {
			if patCovers(x, n) {
				out[l.ip]++
				break
			}
		}
	}
	return out
}

func (f *facts) onlyPrimary(n string) bool {
	seen := false
	for _, l := range f.lines {
		if l.wild {
			continue
		}
		for i, x := range l.names {
			if x == n {
				if i != 0 {
					return false
				}
				seen = true
			}
		}
	}
	return seen
}

func (f *facts) onlyAlias(n string) (bool, map[string]bool) {
	prim := map[string]bool{}
	seen := false
	for _, l := range f.lines {
		if l.wild {
			continue
		}
		if l.names[0] == n {
			return false, nil
		}
		for _, x := range l.names[1:] {
			if x == n {
				seen = true
				prim[l.names[0]] = true
			}
		}
	}
	return seen, prim
}

func (f *facts) addrSeq(n string, v4 bool) []string {
	var out []string
	for _, l := range f.lines {
		if !l.wild && l.v4 == v4 && l.names[0] == n {
			out = append(out, l.ip)
		}
	}
	return out
}

func (f *facts) namesAt(ip string) (all, prim map[string]bool) {
	all, prim = map[string]bool{}, map[string]bool{}
	for _, l := range f.lines {
		if l.wild || l.ip != ip {
			continue
		}
		prim[l.names[0]] = true
		for _, x := range l.names {
			all[x] = true
		}
	}
	return
}

// ---------------------------------------------------------------------------
// the real handler behind a real front, a scripted downstream behind it
// ---------------------------------------------------------------------------

// tailH stands where `views` would: it records what reaches it and refuses.
type tailH struct {
	mu    sync.Mutex
	calls int
	lastQ *dns.Msg
	qy    middleware.Queryer
	// answer, when set, makes the tail answer A questions with this address (the cache stage)
	answer string
}

func (t *tailH) Name() string                    { return "verif-tail" }
func (t *tailH) SetQueryer(q middleware.Queryer) { t.qy = q }
func (t *tailH) ServeDNS(ctx context.Context, ch *middleware.Chain) {
	ctx, req := ch.Materialize(ctx)
	if req == nil {
		return
	}
	t.mu.Lock()
	t.calls++
	t.lastQ = req.Copy()
	ans := t.answer
	t.mu.Unlock()
	resp := new(dns.Msg)
	if ans != "" && len(req.Question) == 1 && req.Question[0].Qtype == dns.TypeA {
		resp.SetReply(req)
		resp.RecursionAvailable = true
		resp.Answer = []dns.RR{&dns.A{Hdr: dns.RR_Header{Name: req.Question[0].Name, Rrtype: dns.TypeA, Class: dns.ClassINET, Ttl: 300},
			A: net.ParseIP(ans)}}
	} else {
		resp.SetRcode(req, dns.RcodeRefused)
	}
	_ = ch.Writer.WriteMsg(resp)
	ch.Cancel()
	_ = ctx
}

func (t *tailH) snapshot() (int, *dns.Msg) {
	t.mu.Lock()
	defer t.mu.Unlock()
	return t.calls, t.lastQ
}

// front is one real server chain (everything ahead of `stop`, hostsfile included) + the tail.
type front struct {
	srv  *server.Server
	tail *tailH
	h    *hostsfile.Hostsfile // nil when New refused to start (missing file)
}

var setupMu sync.Mutex

// newFront builds the real default chain up to (not including) `stop` with the tail behind it.
// The middleware registry is process-global; a Server keeps its own pipeline, so fronts coexist
// once built one after another.
func newFront(path, stop string) *front {
	setupMu.Lock()
	defer setupMu.Unlock()
	cfg := pipe.BaseConfig()
	cfg.HostsFile = path
	t := &tailH{}
	middleware.Reset()
	defaults.RegisterUpTo(stop)
	middleware.Register("verif-tail", func(*config.Config) middleware.Handler { return t })
	middleware.Setup(cfg)
	s := server.New(cfg)
	h, _ := middleware.Get("hostsfile").(*hostsfile.Hostsfile)
	middleware.Reset()
	return &front{srv: s, tail: t, h: h}
}

// ---------------------------------------------------------------------------
// one query, both entries
// ---------------------------------------------------------------------------

type qspec struct {
	name  string // as sent (fully qualified, client's spelling)
	qtype uint16
	class uint16
	rd    bool
	cd    bool
	ad    bool
	edns  bool
	do    bool
	tcp   bool
	id    uint16
}

func (q qspec) msg() *dns.Msg {
	m := new(dns.Msg)
	m.Id = q.id
	m.RecursionDesired = q.rd
	m.CheckingDisabled = q.cd
	m.AuthenticatedData = q.ad
	m.Question = []dns.Question{{Name: q.name, Qtype: q.qtype, Qclass: q.class}}
	if q.edns {
		m.SetEdns0(1232, q.do)
	}
	return m
}

func (q qspec) String() string {
	return fmt.Sprintf("%s %s %s rd=%v cd=%v ad=%v edns=%v do=%v tcp=%v", q.name, dns.TypeToString[q.qtype], dns.ClassToString[q.class],
		q.rd, q.cd, q.ad, q.edns, q.do, q.tcp)
}

// outcome is what one entry did with one query.
type outcome struct {
	kind  string   // "answer" | "nodata" | "pass" | "lost" | "other"
	rdata []string // canonical rdata of the answer section, in order
	msg   *dns.Msg
	tailQ *dns.Msg
	wire  bool // the request really was wire-born
}

func rdataOf(rr dns.RR) string {
	switch x := rr.(type) {
	case *dns.A:
		return x.A.String()
	case *dns.AAAA:
		return x.AAAA.String()
	case *dns.CNAME:
		return strings.ToLower(x.Target)
	case *dns.PTR:
		return strings.ToLower(x.Ptr)
	}
	return rr.String()
}

func classify(reply *dns.Msg, tailCalls int, tailQ *dns.Msg) outcome {
	o := outcome{msg: reply}
	switch {
	case tailCalls > 0:
		o.kind, o.tailQ = "pass", tailQ
	case reply == nil:
		o.kind = "lost"
	case reply.Rcode == dns.RcodeSuccess && len(reply.Answer) > 0:
		o.kind = "answer"
		for _, rr := range reply.Answer {
			o.rdata = append(o.rdata, rdataOf(rr))
		}
	case reply.Rcode == dns.RcodeSuccess:
		o.kind = "nodata"
	default:
		o.kind = "other"
	}
	return o
}

func proto(q qspec) string {
	if q.tcp {
		return "tcp"
	}
	return "udp"
}

const clientIP = "198.51.100.77"

func (f *front) askDecoded(q qspec) outcome {
	c0, _ := f.tail.snapshot()
	sink := &pipe.Sink{Remote: pipe.Addr(proto(q), clientIP, 40000)}
	f.srv.ServeMsg(context.Background(), sink, q.msg())
	c1, tq := f.tail.snapshot()
	var reply *dns.Msg
	if n := len(sink.Writes); n > 0 {
		reply = new(dns.Msg)
		if err := reply.Unpack(sink.Writes[n-1]); err != nil {
			reply = nil
		}
	}
	return classify(reply, c1-c0, tq)
}

func (f *front) askWire(q qspec) outcome {
	raw, err := q.msg().Pack()
	if err != nil {
		return outcome{kind: "lost"}
	}
	c0, _ := f.tail.snapshot()
	job := &server.VerifStrictJob{Remote: pipe.Addr(proto(q), clientIP, 40000)}
	f.srv.ServeRaw(job, raw, time.Now())
	c1, tq := f.tail.snapshot()
	var reply *dns.Msg
	if n := len(job.Writes); n > 0 {
		reply = new(dns.Msg)
		if err := reply.Unpack(job.Writes[n-1]); err != nil {
			reply = nil
		}
	}
	o := classify(reply, c1-c0, tq)
	o.wire = job.VerifTookWirePath()
	return o
}

// handler-level entries (free-running stages: one chain per goroutine, no server in front)
type hchain struct {
	h    *hostsfile.Hostsfile
	ch   *middleware.Chain
	pass *int
}

func newHChain(h *hostsfile.Hostsfile) *hchain {
	n := new(int)
	next := middleware.HandlerFunc(func(_ context.Context, ch *middleware.Chain) {
		*n++
		ch.Cancel()
	})
	return &hchain{h: h, ch: middleware.NewChain([]middleware.Handler{h, next}), pass: n}
}

func (c *hchain) ask(q qspec, wire bool) outcome {
	w := mock.NewWriter(proto(q), clientIP+":40000")
	p0 := *c.pass
	if wire {
		raw, _ := q.msg().Pack()
		req := new(middleware.Request)
		if !req.ParseWire(raw, time.Now(), nil) {
			return outcome{kind: "lost"}
		}
		c.ch.ResetWire(w, req)
	} else {
		c.ch.Reset(w, q.msg())
	}
	c.ch.Next(context.Background())
	var reply *dns.Msg
	if w.Written() {
		reply = w.Msg()
	}
	return classify(reply, *c.pass-p0, nil)
}

func canon(o outcome) string { return o.kind + ":" + strings.Join(o.rdata, ",") }

// ---------------------------------------------------------------------------
// the predicates the documentation bears, on one real outcome
// ---------------------------------------------------------------------------

type judge struct {
	res    *vh.Result
	u      *Universe
	strict bool
	obsMu  sync.Mutex
	obs    map[string]string // observation class -> first concrete input
}

func (j *judge) observe(class, what string, replay any) {
	if j.strict {
		j.res.Violate("hosts/"+class, "[strict] "+what, replay)
		return
	}
	j.obsMu.Lock()
	if _, ok := j.obs[class]; !ok {
		j.obs[class] = what
	}
	j.obsMu.Unlock()
	j.res.Count("observation_"+class, 1)
}

func keysOf(m map[string]int) []string {
	out := make([]string, 0, len(m))
	for k := range m {
		out = append(out, k)
	}
	sort.Strings(out)
	return out
}

func boolKeys(m map[string]bool) []string {
	out := make([]string, 0, len(m))
	for k := range m {
		out = append(out, k)
	}
	sort.Strings(out)
	return out
}

func multisetEq(got []string, want []string) bool {
	if len(got) != len(want) {
		return false
	}
	a, b := append([]string(nil), got...), append([]string(nil), want...)
	sort.Strings(a)
	sort.Strings(b)
	for i := range a {
		if a[i] != b[i] {
			return false
		}
	}
	return true
}

func lowerName(q string) string { return strings.TrimSuffix(strings.ToLower(q), ".") }

// check judges one outcome against the facts of the content that was LAST SUCCESSFULLY LOADED
// (nil facts: the handler never started - everything passes through). It returns the violated
// classes (empty = fine); the caller decides whether they are reported as hosts/<class> or, when the
// content on disk is newer than the loaded one, as hosts/reload-stale.
func (j *judge) check(f *facts, q qspec, o outcome, ptrIP string) []string {
	var bad []string
	fail := func(class, format string, a ...any) {
		bad = append(bad, class+": "+fmt.Sprintf(format, a...))
	}
	n := lowerName(q.name)
	if f == nil {
		f = &facts{}
	}
	if o.kind == "lost" || o.kind == "other" {
		rc := -1
		if o.msg != nil {
			rc = o.msg.Rcode
		}
		fail("reply", "neither a local NOERROR reply nor a pass-through (kind %s, rcode %d)", o.kind, rc)
		return bad
	}
	local := o.kind != "pass"
	// --- the reply of a local answer
	if local {
		m := o.msg
		if !m.Response || m.Id != q.id || m.Opcode != dns.OpcodeQuery || !m.Authoritative || !m.RecursionAvailable ||
			m.RecursionDesired != q.rd || m.CheckingDisabled != q.cd || m.AuthenticatedData || m.Truncated || m.Zero {
			fail("header", "qr=%v id=%d/%d opcode=%d aa=%v ra=%v rd=%v/%v cd=%v/%v ad=%v tc=%v z=%v", m.Response, m.Id, q.id, m.Opcode,
				m.Authoritative, m.RecursionAvailable, m.RecursionDesired, q.rd, m.CheckingDisabled, q.cd, m.AuthenticatedData, m.Truncated, m.Zero)
		}
		if len(m.Question) != 1 || m.Question[0].Name != q.name || m.Question[0].Qtype != q.qtype || m.Question[0].Qclass != q.class {
			fail("question", "question not echoed in the client's spelling: %v", m.Question)
		}
		if len(m.Ns) != 0 {
			fail("header", "authority section not empty")
		}
		for _, rr := range m.Answer {
			h := rr.Header()
			if !strings.EqualFold(h.Name, q.name) {
				fail("owner", "answer owner %q for question %q", h.Name, q.name)
			}
			if h.Ttl != hostsTTL {
				fail("ttl", "TTL %d, the documented default is %d", h.Ttl, hostsTTL)
			}
			if h.Class != dns.ClassINET {
				fail("owner", "class %d record", h.Class)
			}
			want := q.qtype
			if h.Rrtype != want {
				fail("answer-type", "record of type %s answers a %s question", dns.TypeToString[h.Rrtype], dns.TypeToString[q.qtype])
			}
		}
	} else if o.tailQ != nil {
		// --- untouched: what reaches the downstream is the client's question
		tq := o.tailQ
		if len(tq.Question) != 1 || tq.Question[0].Name != q.name || tq.Question[0].Qtype != q.qtype || tq.Question[0].Qclass != q.class ||
			tq.RecursionDesired != q.rd || tq.CheckingDisabled != q.cd || tq.Id != q.id {
			fail("pass-through", "the downstream saw %v rd=%v cd=%v id=%d for %s", tq.Question, tq.RecursionDesired, tq.CheckingDisabled, tq.Id, q)
		}
		if o.msg == nil || o.msg.Rcode != dns.RcodeRefused {
			fail("pass-through", "the client did not get the downstream's reply")
		}
	}
	if ptrIP != "" && q.qtype == dns.TypePTR {
		// --- PTR: only names the file gives that address, at least every first name
		all, prim := f.namesAt(ptrIP)
		if len(prim) == 0 {
			if local {
				fail("ptr", "PTR for %s answered %v, the loaded file has no such address", ptrIP, o.rdata)
			}
			return bad
		}
		if o.kind != "answer" {
			fail("ptr", "PTR for %s: %s, the loaded file names it %v", ptrIP, o.kind, boolKeys(prim))
			return bad
		}
		got := map[string]bool{}
		for _, t := range o.rdata {
			t = strings.TrimSuffix(t, ".")
			got[t] = true
			if !all[t] {
				fail("ptr", "PTR for %s names %q, the loaded file gives that address to %v", ptrIP, t, boolKeys(all))
			}
		}
		for p := range prim {
			if !got[p] {
				fail("ptr", "PTR for %s lacks the first name %q (got %v)", ptrIP, p, o.rdata)
			}
		}
		return bad
	}
	known, covered := f.known(n), f.covered(n)
	// --- names the file does not mention pass through, whatever is asked
	if !known && !covered {
		if local {
			fail("pass-through", "%s is neither in the loaded file nor under a pattern, yet answered locally: %s", n, canon(o))
		}
		return bad
	}
	switch q.qtype {
	case dns.TypeA, dns.TypeAAAA:
		v4 := q.qtype == dns.TypeA
		listed, wl := f.listed(n, v4), f.wildListed(n, v4)
		if o.kind == "answer" {
			for _, a := range o.rdata {
				if listed[a] == 0 && wl[a] == 0 {
					fail("answer-unlisted", "%s %s answered %s; the loaded file lists %v (patterns: %v)", n, dns.TypeToString[q.qtype], a, keysOf(listed), keysOf(wl))
				}
			}
		}
		if f.onlyPrimary(n) && len(listed) > 0 {
			want := f.addrSeq(n, v4)
			if o.kind != "answer" || !multisetEq(o.rdata, want) {
				fail("answer-incomplete", "%s %s: %s; the loaded file gives it %v", n, dns.TypeToString[q.qtype], canon(o), want)
			} else if strings.Join(o.rdata, ",") != strings.Join(want, ",") {
				j.res.Count("order_differs_from_file", 1)
			}
		}
		if !known && len(wl) > 0 {
			if o.kind != "answer" {
				fail("wildcard", "%s is covered by a pattern with %v, got %s", n, keysOf(wl), canon(o))
			}
		}
	case dns.TypeCNAME:
		if isAl, prim := f.onlyAlias(n); isAl {
			if o.kind != "answer" || len(o.rdata) != 1 || !prim[strings.TrimSuffix(o.rdata[0], ".")] {
				fail("alias-cname", "alias %s CNAME: %s; it stands next to %v", n, canon(o), boolKeys(prim))
			}
		}
	case dns.TypePTR:
		// a PTR question for a host name: nothing documented
	default:
		if known && o.kind != "nodata" {
			fail("nodata", "%s is in the loaded file; type %s must get NODATA, got %s", n, dns.TypeToString[q.qtype], canon(o))
		}
	}
	return bad
}

// ideal evaluates the hosts(5) predicates the as-built parser is known not to meet (observations).
func (j *judge) ideal(f *facts, q qspec, o outcome, ptrIP string, ask func(name string, t uint16) outcome, replay any) {
	if f == nil {
		return
	}
	n := lowerName(q.name)
	if ptrIP != "" {
		if q.qtype == dns.TypePTR && o.kind == "answer" {
			t := dns.TypeA
			if net.ParseIP(ptrIP).To4() == nil {
				t = dns.TypeAAAA
			}
			for _, target := range o.rdata {
				fo := ask(target, t)
				ok := false
				for _, a := range fo.rdata {
					if a == ptrIP {
						ok = true
					}
				}
				if !ok {
					j.observe("ptr-not-inverse", fmt.Sprintf("PTR %s -> %s but %s %s -> %s", ptrIP, target, target, dns.TypeToString[t], canon(fo)), replay)
				}
			}
		}
		return
	}
	if q.qtype == dns.TypeA || q.qtype == dns.TypeAAAA {
		listed := f.listed(n, q.qtype == dns.TypeA)
		if len(listed) > 0 {
			got := map[string]bool{}
			for _, a := range o.rdata {
				got[a] = true
			}
			for a := range listed {
				if !got[a] {
					j.observe("forward-incomplete", fmt.Sprintf("the loaded file lists %s for %s, the %s answer is %s", a, n, dns.TypeToString[q.qtype], canon(o)), replay)
					break
				}
			}
		} else if f.known(n) && o.kind == "pass" {
			j.observe("leak-to-resolver", fmt.Sprintf("%s is in the loaded file without an address of that family; its %s question is handed downstream", n, dns.TypeToString[q.qtype]), replay)
		}
	}
}
