package xhosts

// replay_test.go: TestXHosts, the one driver of bin/check XHOSTS.
//
//	replay   spec -> code: TLC behaviours of HostsFile.tla (every edge of the small as-built graph, simulated
//	         walks over every file of the universe incl. crash points of the writer, the counter-example of
//	         Neg_Stale) forced on the real Hostsfile.  A load() goroutine is held inside its read of the file by
//	         serving the path from a FIFO (LoadRead = the bytes are in the pipe, LoadStore = the writer closes), so
//	         overlapping loads are forced without a hook in the code.  After every step every question of the
//	         universe goes through the real front (ServeMsg and ServeRaw) and is judged.
//	watch    the real fsnotify watcher on real files: writes (rename into place, in place, in place and cut
//	         mid-line), removal, a refused file; after each one the tables must become the file's.
//	freerun  a writer renaming two files into place, a goroutine forcing loads, N readers: every reply is the
//	         old or the new table's answer, never a mixture; afterwards the tables converge to the last file.
//	stale    the overlapping-loads race with the real watcher and plain files (a large file, then a small one).
//	internal resolver-internal sub-queries (middleware.Queryer) go through the hosts file.
//	cache    with the cache behind it: a hosts answer is not cached, a cached upstream answer does not shadow it.
//	probes   scripted observations (behaviour the documentation does not cover).
//	fuzz     random files over a wider pool of names / patterns / address spellings (fuzz_test.go).

import (
	"bytes"
	"context"
	"errors"
	"fmt"
	"hash/fnv"
	"math/rand"
	"net"
	"os"
	"path/filepath"
	"reflect"
	"sort"
	"strings"
	"sync"
	"sync/atomic"
	"syscall"
	"testing"
	"time"

	"github.com/miekg/dns"
	"github.com/semihalev/sdns/config"
	"github.com/semihalev/sdns/middleware/hostsfile"
	"github.com/semihalev/sdns/verifharness/vh"
	"github.com/semihalev/zlog/v2"
)

// staleKey identifies ONE failing shape: two load() goroutines overlap and the one that read the older
// file stores last, so the tables stay those of a replaced file although nothing is pending.
const staleKey = "hosts/reload-stale/superseded-load-stores-last"

func quiet() {
	l := zlog.NewStructured()
	l.SetLevel(zlog.LevelFatal)
	zlog.SetDefault(l)
}

func TestXHosts(t *testing.T) {
	var in Input
	vh.Input(t, &in)
	res := vh.NewResult()
	defer res.Write(t)
	quiet()
	j := &judge{res: res, u: &in.U, strict: in.Strict, obs: map[string]string{}}
	stages := map[string]func(){
		"replay":   func() { stageReplay(t, &in, j) },
		"watch":    func() { stageWatch(t, &in, j) },
		"freerun":  func() { stageFreeRun(t, &in, j) },
		"stale":    func() { stageStale(t, &in, j) },
		"internal": func() { stageInternal(t, &in, j) },
		"cache":    func() { stageCache(t, &in, j) },
		"probes":   func() { stageProbes(t, &in, j) },
		"fuzz":     func() { stageFuzz(t, &in, j) },
	}
	var wg sync.WaitGroup
	for name, f := range stages {
		if !in.has(name) {
			continue
		}
		wg.Add(1)
		go func(name string, f func()) {
			defer wg.Done()
			defer func() {
				if r := recover(); r != nil {
					res.Skip("stage %s panicked: %v", name, r)
				}
			}()
			t0 := time.Now()
			f()
			res.Count("ms_"+name, int(time.Since(t0).Milliseconds()))
		}(name, f)
	}
	wg.Wait()
	classes := make([]string, 0, len(j.obs))
	for c := range j.obs {
		classes = append(classes, c)
	}
	sort.Strings(classes)
	for _, c := range classes {
		res.Sample(map[string]string{"observation": c, "what": j.obs[c]})
	}
	obsOut := map[string]string{}
	for _, c := range classes {
		obsOut[c] = j.obs[c]
	}
	if p := os.Getenv("XHOSTS_OBS_OUT"); p != "" {
		var b strings.Builder
		for _, c := range classes {
			fmt.Fprintf(&b, "%s\t%s\n", c, strings.ReplaceAll(j.obs[c], "\n", " "))
		}
		_ = os.WriteFile(p, []byte(b.String()), 0o644)
	}
}

// ---------------------------------------------------------------------------
// replay
// ---------------------------------------------------------------------------

type loaderState struct {
	w     *os.File
	done  chan error
	wrote chan struct{} // closed when the feeding write has returned
	bytes []byte
	ver   int
}

type replayer struct {
	t    *testing.T
	in   *Input
	j    *judge
	res  *vh.Result
	on   *front // the handler started (initial load fine)
	off  *front // New refused to start: no handler in the chain
	cur  *front
	dir  string
	path string

	rng         *rand.Rand
	loaders     map[int]*loaderState
	disk        Disk
	diskVer     int
	diskBytes   map[int][]byte
	loadedVer   int
	loadedFacts *facts
	loadedBytes []byte
	disabled    bool
	prevTab     string
	qid         uint16
	serialised  bool // the code does not let two loads overlap (the as-built schedules are not enabled)
}

var errSerialised = errors.New("the second load() does not open the file while the first is in flight")

func stageReplay(t *testing.T, in *Input, j *judge) {
	r := &replayer{t: t, in: in, j: j, res: j.res, loaders: map[int]*loaderState{}}
	boot := t.TempDir()
	bootPath := filepath.Join(boot, "hosts")
	if err := os.WriteFile(bootPath, []byte("192.0.2.250 boot.lan\n"), 0o644); err != nil {
		t.Fatal(err)
	}
	r.on = newFront(bootPath, "views")
	if r.on.h == nil {
		j.res.Skip("replay: hostsfile.New did not start on a readable file")
		return
	}
	r.on.h.VerifStopWatcher()
	r.dir = t.TempDir()
	r.path = filepath.Join(r.dir, "hosts")
	r.on.h.VerifSetPath(r.path)
	r.off = newFront(filepath.Join(boot, "absent"), "views")
	if r.off.h != nil {
		j.res.Skip("replay: hostsfile.New started without a file")
		return
	}
	deadline := time.Now().Add(in.budget("replay", 600000))
	for hi := range in.Histories {
		h := &in.Histories[hi]
		if time.Now().After(deadline) {
			j.res.Count("histories_cut_by_budget", len(in.Histories)-hi)
			break
		}
		if err := r.runHistory(h); err != nil {
			j.res.Skip("replay %s: %v", h.ID, err)
			break
		}
		j.res.Count("histories", 1)
		j.res.Count("histories_"+h.Source, 1)
	}
	r.drain()
}

func seedOf(id string) int64 {
	f := fnv.New64a()
	_, _ = f.Write([]byte(id))
	return int64(f.Sum64()&0x7fffffffffff) ^ vh.Seed()*7919
}

func (r *replayer) drain() {
	for l, ld := range r.loaders {
		_ = ld.w.Close()
		select {
		case <-ld.done:
		case <-time.After(5 * time.Second):
		}
		delete(r.loaders, l)
	}
}

// startLoader runs one load() whose open+read of the path is served from a fresh FIFO; it returns
// once the loader has the FIFO open (so a later loader gets its own) with the write end in hand.
func (r *replayer) startLoader() (*loaderState, error) {
	ld, err := r.startLoaderWithin(10 * time.Second)
	if err != nil && ld != nil && len(r.loaders) > 0 {
		// another load is in flight and this one does not reach its open: the code serialises loads.
		// Let the others finish, then serve this one so that nothing is left hanging.
		for l, o := range r.loaders {
			_ = r.finish(o)
			delete(r.loaders, l)
		}
		stop := time.Now().Add(10 * time.Second)
		for time.Now().Before(stop) {
			fd, e := syscall.Open(r.path, syscall.O_WRONLY|syscall.O_NONBLOCK, 0)
			if e == nil {
				_ = syscall.SetNonblock(fd, false)
				ld.w = os.NewFile(uintptr(fd), r.path)
				r.feed(ld, r.rendered())
				_ = r.finish(ld)
				return nil, errSerialised
			}
			time.Sleep(200 * time.Microsecond)
		}
		return nil, errors.New("the loader never opened the hosts path")
	}
	return ld, err
}

func (r *replayer) startLoaderWithin(patience time.Duration) (*loaderState, error) {
	if len(r.loaders) > 0 {
		patience = 500 * time.Millisecond
	}
	tmp := filepath.Join(r.dir, "fifo.new")
	_ = os.Remove(tmp)
	if err := syscall.Mkfifo(tmp, 0o600); err != nil {
		return nil, err
	}
	if err := os.Rename(tmp, r.path); err != nil {
		return nil, err
	}
	ld := &loaderState{done: make(chan error, 1)}
	go func() { ld.done <- r.on.h.VerifLoad() }()
	stop := time.Now().Add(patience)
	for {
		fd, err := syscall.Open(r.path, syscall.O_WRONLY|syscall.O_NONBLOCK, 0)
		if err == nil {
			_ = syscall.SetNonblock(fd, false)
			ld.w = os.NewFile(uintptr(fd), r.path)
			return ld, nil
		}
		if !errors.Is(err, syscall.ENXIO) {
			return nil, err
		}
		select {
		case e := <-ld.done:
			return nil, fmt.Errorf("load returned (%v) without opening the path", e)
		default:
		}
		if time.Now().After(stop) {
			return ld, errors.New("the loader never opened the hosts path")
		}
		time.Sleep(40 * time.Microsecond)
	}
}

func (r *replayer) feed(ld *loaderState, b []byte) {
	ld.bytes = b
	ld.wrote = make(chan struct{})
	if len(b) <= 60000 { // fits the pipe: the bytes are in the loader's hands when this returns
		_, _ = ld.w.Write(b)
		close(ld.wrote)
		return
	}
	go func() {
		_, _ = ld.w.Write(b) // returns early with EPIPE when the loader gives up on the file
		close(ld.wrote)
	}()
}

func (r *replayer) finish(ld *loaderState) error {
	if ld.wrote != nil {
		select {
		case <-ld.wrote:
		case <-time.After(10 * time.Second):
			return errors.New("the loader stopped reading without closing the file")
		}
	}
	_ = ld.w.Close()
	select {
	case err := <-ld.done:
		return err
	case <-time.After(10 * time.Second):
		return errors.New("load did not return")
	}
}

func (r *replayer) syncLoad(b []byte) error {
	ld, err := r.startLoader()
	if err != nil {
		return err
	}
	r.feed(ld, b)
	return r.finish(ld)
}

func (r *replayer) rendered() []byte {
	if b, ok := r.diskBytes[r.diskVer]; ok {
		return b
	}
	rd := &renderer{u: &r.in.U, rng: r.rng}
	var b []byte
	if r.disk.St == "toolong" {
		b = rd.tooLong(r.disk.Ls)
	} else {
		b = rd.file(r.disk.Ls)
	}
	r.diskBytes[r.diskVer] = b
	return b
}

func (r *replayer) runHistory(h *History) error {
	r.drain()
	r.rng = rand.New(rand.NewSource(seedOf(h.ID)))
	r.diskBytes = map[int][]byte{}
	r.diskVer, r.loadedVer = 0, 0
	r.disabled = h.Disabled
	r.disk = h.Init.Disk
	r.prevTab = ""
	if h.Disabled {
		r.cur = r.off
		r.loadedFacts, r.loadedBytes = nil, nil
	} else {
		r.cur = r.on
		b := r.rendered()
		if err := r.syncLoad(b); err != nil {
			return fmt.Errorf("initial load: %v", err)
		}
		r.loadedBytes, r.loadedFacts = b, &facts{lines: refParse(b)}
	}
	if !r.observe(h, -1, &h.Init) {
		return nil
	}
	for i := range h.Steps {
		st := &h.Steps[i]
		r.res.Count("steps", 1)
		r.res.Count("steps_"+st.Act, 1)
		switch st.Act {
		case "WriteFile", "RemoveFile", "WriteTooLong":
			r.disk = st.Disk
			r.diskVer++
		case "Fire", "Query":
		case "LoadRead":
			if _, busy := r.loaders[st.Loader]; busy {
				return fmt.Errorf("step %d: loader %d already reading", i, st.Loader)
			}
			if len(r.loaders) > 0 && r.serialised {
				r.res.Count("histories_cut_serialised", 1)
				return nil
			}
			overlapping := len(r.loaders) > 0
			ld, err := r.startLoader()
			if err == errSerialised {
				r.serialised = true
				r.res.Count("loads_serialised_by_code", 1)
				r.res.DriftNote("%s step %d: a second load() does not open the file while the first is in flight - the code serialises loads, the as-built schedules of HostsFile.tla (Serialized = FALSE) are not enabled", h.ID, i)
				return nil
			}
			if overlapping {
				r.res.Count("loads_overlapping", 1)
			}
			if err != nil {
				return fmt.Errorf("step %d %s: %v", i, st.Label, err)
			}
			ld.ver = r.diskVer
			r.feed(ld, r.rendered())
			r.loaders[st.Loader] = ld
		case "LoadFail":
			var err error
			b := r.rendered()
			if len(r.loaders) > 0 && r.serialised {
				r.res.Count("histories_cut_serialised", 1)
				return nil
			}
			if r.disk.St == "missing" {
				_ = os.Remove(r.path)
				done := make(chan error, 1)
				go func() { done <- r.on.h.VerifLoad() }()
				patience := 10 * time.Second
				if len(r.loaders) > 0 {
					patience = 500 * time.Millisecond
				}
				select {
				case err = <-done:
				case <-time.After(patience):
					for l, o := range r.loaders {
						_ = r.finish(o)
						delete(r.loaders, l)
					}
					select {
					case <-done:
						err = errSerialised
					case <-time.After(10 * time.Second):
						return fmt.Errorf("step %d: load() of a missing file does not return", i)
					}
				}
			} else {
				err = r.syncLoad(b)
			}
			if err == errSerialised {
				r.serialised = true
				r.res.Count("loads_serialised_by_code", 1)
				r.res.DriftNote("%s step %d: a second load() waits for the first - the code serialises loads, the as-built schedules of HostsFile.tla are not enabled", h.ID, i)
				return nil
			}
			if err == nil {
				r.res.DriftNote("%s step %d: the model's load fails on a %s file, the code's succeeded", h.ID, i, r.disk.St)
				r.loadedBytes, r.loadedFacts, r.loadedVer = b, &facts{lines: refParse(b)}, r.diskVer
			}
			r.res.Count("loads_failed_"+r.disk.St, 1)
		case "LoadStore":
			ld := r.loaders[st.Loader]
			if ld == nil {
				return fmt.Errorf("step %d: loader %d has nothing to store", i, st.Loader)
			}
			delete(r.loaders, st.Loader)
			if err := r.finish(ld); err != nil {
				r.res.DriftNote("%s step %d: the model's load succeeds, the code's returned %v", h.ID, i, err)
			} else {
				if ld.ver < r.loadedVer {
					r.res.Count("stores_of_a_superseded_read", 1)
				}
				r.loadedBytes, r.loadedFacts, r.loadedVer = ld.bytes, &facts{lines: refParse(ld.bytes)}, ld.ver
			}
		default:
			return fmt.Errorf("step %d: action %q is not in the driver", i, st.Act)
		}
		if !r.observe(h, i, st) {
			return nil
		}
	}
	return nil
}

func (r *replayer) replayObj(h *History, upto int, q string) map[string]any {
	hh := *h
	if upto+1 < len(hh.Steps) {
		hh.Steps = hh.Steps[:upto+1]
	}
	tabs := map[string]TabExp{hh.Init.Tab: r.in.Tabs[hh.Init.Tab]}
	for _, s := range hh.Steps {
		tabs[s.Tab] = r.in.Tabs[s.Tab]
	}
	return map[string]any{"driver": "replay", "history": hh, "tabs": tabs, "step": upto, "query": q,
		"loaded_bytes": string(clip(r.loadedBytes)), "disk_bytes": string(clip(r.diskBytes[r.diskVer]))}
}

func clip(b []byte) []byte {
	if len(b) > 2000 {
		return append(append([]byte(nil), b[:2000]...), "...[cut]"...)
	}
	return b
}

// reverse name of an address of the universe
func reverseOf(ip string) string {
	n, _ := dns.ReverseAddr(ip)
	return n
}

func (r *replayer) nextID() uint16 {
	r.qid = r.qid*31 + 7
	if r.qid == 0 {
		r.qid = 1
	}
	return r.qid
}

// project the real tables onto the model's shape (abstract names), for the drift comparison
func (r *replayer) tablesDiffer(exp TabExp) string {
	real := r.on.h.VerifTables()
	u := &r.in.U
	addrOf := func(ss []string) []string {
		out := []string{}
		for _, a := range ss {
			out = append(out, u.Addrs[a])
		}
		return out
	}
	seen := 0
	for abs, e := range exp.Fwd {
		rn := u.Names[abs]
		got, ok := real.Hosts[rn]
		if !e.On {
			if ok {
				return fmt.Sprintf("entry %s exists in the code only", rn)
			}
			continue
		}
		seen++
		if !ok {
			return fmt.Sprintf("entry %s missing in the code", rn)
		}
		if !reflect.DeepEqual(append([]string{}, got.V4...), addrOf(e.V4)) || !reflect.DeepEqual(append([]string{}, got.V6...), addrOf(e.V6)) {
			return fmt.Sprintf("entry %s: code %v %v, model %v %v", rn, got.V4, got.V6, addrOf(e.V4), addrOf(e.V6))
		}
		wantCn := ""
		if e.Cn != "-" {
			wantCn = u.Names[e.Cn] + "."
		}
		if got.CNAME != wantCn {
			return fmt.Sprintf("entry %s: cname code %q model %q", rn, got.CNAME, wantCn)
		}
	}
	if seen != len(real.Hosts) {
		return fmt.Sprintf("the code has %d entries %v, the model %d", len(real.Hosts), real.Names, seen)
	}
	if len(real.Wild) != len(exp.Wild) {
		return fmt.Sprintf("wildcards: code %d model %d", len(real.Wild), len(exp.Wild))
	}
	for i, w := range exp.Wild {
		g := real.Wild[i]
		if g.Pattern != u.Pats[w.Pat] || !reflect.DeepEqual(append([]string{}, g.V4...), addrOf(w.V4)) || !reflect.DeepEqual(append([]string{}, g.V6...), addrOf(w.V6)) {
			return fmt.Sprintf("wildcard %d: code %+v model %+v", i, g, w)
		}
	}
	n := 0
	for abs, names := range exp.Rev {
		if len(names) == 0 {
			continue
		}
		n++
		got := real.PTR[u.Addrs[abs]]
		want := []string{}
		for _, x := range names {
			want = append(want, u.Names[x]+".")
		}
		if !reflect.DeepEqual(append([]string{}, got...), want) {
			return fmt.Sprintf("ptr %s: code %v model %v", u.Addrs[abs], got, want)
		}
	}
	if n != len(real.PTR) {
		return fmt.Sprintf("ptr: code has %d addresses, model %d", len(real.PTR), n)
	}
	return ""
}

func (r *replayer) expOutcome(exp TabExp, absName, ty string) string {
	e, ok := exp.Obs[absName+"|"+ty]
	if !ok {
		return "?"
	}
	rr := []string{}
	for _, x := range e.RR {
		switch {
		case r.in.U.Addrs[x] != "":
			rr = append(rr, r.in.U.Addrs[x])
		default:
			rr = append(rr, r.in.U.Names[x]+".")
		}
	}
	return e.K + ":" + strings.Join(rr, ",")
}

// observe asks the universe's questions after a step and judges the replies. false = stop this history
// (a violation was recorded).
func (r *replayer) observe(h *History, i int, st *Step) bool {
	exp, ok := r.in.Tabs[st.Tab]
	if !ok {
		r.res.Skip("history %s step %d: table %q not in the input", h.ID, i, st.Tab)
		return false
	}
	suspect := st.Quiescent && !r.disabled && r.disk.St == "ok" && r.loadedVer != r.diskVer
	full := st.Tab != r.prevTab || st.Act == "LoadStore" || st.Act == "LoadFail" || i < 0 || suspect
	r.prevTab = st.Tab
	if !r.disabled && (full || r.rng.Intn(4) == 0) {
		if d := r.tablesDiffer(exp); d != "" {
			r.res.DriftNote("%s step %d (%s): published tables differ from the model's: %s", h.ID, i, st.Label, d)
			r.res.Count("table_mismatch", 1)
		} else {
			r.res.Count("tables_compared_equal", 1)
		}
	}
	type qa struct{ abs, ty string }
	var qs []qa
	if full {
		for _, n := range r.in.U.QNames {
			for _, ty := range r.in.U.QTypes {
				qs = append(qs, qa{n, ty})
			}
		}
	} else {
		for k := 0; k < 3; k++ {
			qs = append(qs, qa{r.in.U.QNames[r.rng.Intn(len(r.in.U.QNames))], r.in.U.QTypes[r.rng.Intn(len(r.in.U.QTypes))]})
		}
	}
	// the content on disk is newer than the loaded one and the watcher has nothing left to do
	var diskFacts *facts
	if suspect {
		diskFacts = &facts{lines: refParse(r.rendered())}
		r.res.Count("quiescent_with_older_tables", 1)
	}
	for _, x := range qs {
		ptrIP, name := "", ""
		if ip, isAddr := r.in.U.Addrs[x.abs]; isAddr {
			ptrIP, name = ip, reverseOf(ip)
		} else {
			name = r.in.U.Names[x.abs] + "."
		}
		qt := qtypeCode[x.ty]
		if x.ty == "MX" {
			qt = otherTypes[r.rng.Intn(len(otherTypes))]
		}
		spell := name
		if ptrIP == "" && r.rng.Intn(2) == 0 {
			spell = spellCase(r.rng, name)
		}
		q := qspec{name: spell, qtype: qt, class: dns.ClassINET, rd: r.rng.Intn(3) != 0, cd: r.rng.Intn(3) == 0, ad: r.rng.Intn(4) == 0,
			edns: r.rng.Intn(2) == 0, tcp: r.rng.Intn(4) == 0, id: r.nextID()}
		q.do = q.edns && r.rng.Intn(2) == 0
		od := r.cur.askDecoded(q)
		ow := r.cur.askWire(q)
		if ow.wire {
			r.res.Count("wire_born", 1)
		}
		r.res.Case(fmt.Sprintf("%s|%s|%s|%s", st.Tab, x.abs, x.ty, od.kind))
		r.res.Count("queries", 2)
		r.res.Count("outcome_"+od.kind, 1)
		for pi, o := range []outcome{od, ow} {
			pathName := []string{"decoded", "wire"}[pi]
			bad := r.j.check(r.loadedFacts, q, o, ptrIP)
			if len(bad) > 0 {
				class := strings.SplitN(bad[0], ":", 2)[0]
				r.j.res.Violate("hosts/"+class, fmt.Sprintf("[%s path, %s after %s] %s | query %s | loaded file: %q", pathName, h.ID, st.Label,
					strings.Join(bad, "; "), q, clip(r.loadedBytes)), r.replayObj(h, i, q.String()))
				return false
			}
			if diskFacts != nil {
				if badDisk := r.j.check(diskFacts, q, o, ptrIP); len(badDisk) > 0 {
					r.j.res.Violate(staleKey, fmt.Sprintf("[%s path, %s after %s] every load() has returned and no reload is pending, yet the "+
						"tables are those of a file that has been replaced (a load that started earlier stored last): %s | query %s | on disk: %q | served from: %q",
						pathName, h.ID, st.Label, strings.Join(badDisk, "; "), q, clip(r.rendered()), clip(r.loadedBytes)), r.replayObj(h, i, q.String()))
					diskFacts = nil
					r.res.Count("stale_tables_seen", 1)
				}
			}
		}
		if canon(od) != canon(ow) || !sameHeader(od.msg, ow.msg, od.kind) {
			r.j.res.Violate("hosts/parity", fmt.Sprintf("[%s after %s] decoded path %s / wire path %s for %s", h.ID, st.Label, describe(od), describe(ow), q),
				r.replayObj(h, i, q.String()))
			return false
		}
		if spell != name {
			ql := q
			ql.name, ql.id = name, r.nextID()
			ol := r.cur.askDecoded(ql)
			if canon(ol) != canon(od) {
				r.j.res.Violate("hosts/case", fmt.Sprintf("[%s after %s] %q gets %s, %q gets %s", h.ID, st.Label, spell, canon(od), name, canon(ol)),
					r.replayObj(h, i, q.String()))
				return false
			}
			r.res.Count("case_variants", 1)
		}
		if want := r.expOutcome(exp, x.abs, x.ty); want != canon(od) {
			r.res.DriftNote("%s step %d (%s): %s %s: the model says %s, the code %s", h.ID, i, st.Label, x.abs, x.ty, want, canon(od))
			r.res.Count("outcome_differs_from_model", 1)
		} else {
			r.res.Count("outcome_equals_model", 1)
		}
		r.j.ideal(r.loadedFacts, q, od, ptrIP, func(target string, t uint16) outcome {
			return r.cur.askDecoded(qspec{name: target, qtype: t, class: dns.ClassINET, rd: true, id: r.nextID()})
		}, nil)
	}
	return true
}

func sameHeader(a, b *dns.Msg, kind string) bool {
	if kind == "pass" || a == nil || b == nil {
		return (a == nil) == (b == nil)
	}
	x, y := a.MsgHdr, b.MsgHdr
	return x == y && len(a.Extra) == len(b.Extra) && len(a.Ns) == len(b.Ns) && reflect.DeepEqual(a.Question, b.Question)
}

func describe(o outcome) string {
	if o.msg == nil {
		return canon(o) + " (no reply)"
	}
	return fmt.Sprintf("%s hdr=%+v q=%v extra=%d", canon(o), o.msg.MsgHdr, o.msg.Question, len(o.msg.Extra))
}

// ---------------------------------------------------------------------------
// watch: the real watcher on real files
// ---------------------------------------------------------------------------

func putFile(rng *rand.Rand, dir, path string, b []byte, inPlaceOnly bool) string {
	mode := rng.Intn(3)
	if inPlaceOnly {
		mode = 1
	}
	switch mode {
	case 0: // rename from another directory of the same file system
		stage := filepath.Join(filepath.Dir(dir), "stage-"+filepath.Base(dir))
		_ = os.WriteFile(stage, b, 0o644)
		_ = os.Rename(stage, path)
		return "rename"
	case 2: // an editor: temporary file next to it, then rename
		tmp := path + ".swp"
		_ = os.WriteFile(tmp, b, 0o644)
		_ = os.Rename(tmp, path)
		return "editor"
	}
	_ = os.WriteFile(path, b, 0o644) // truncate + write in place
	return "inplace"
}

type sweepResult struct {
	bad   []string
	q     qspec
	path  string
	count int
}

// sweepHandler asks every question of the universe at handler level and judges it against f.
func sweepHandler(in *Input, j *judge, rng *rand.Rand, c *hchain, f *facts, withIdeal bool) sweepResult {
	out := sweepResult{}
	id := uint16(rng.Intn(60000) + 1)
	for _, abs := range in.U.QNames {
		for _, ty := range in.U.QTypes {
			ptrIP, name := "", ""
			if ip, isAddr := in.U.Addrs[abs]; isAddr {
				ptrIP, name = ip, reverseOf(ip)
			} else {
				name = in.U.Names[abs] + "."
				if rng.Intn(2) == 0 {
					name = spellCase(rng, name)
				}
			}
			qt := qtypeCode[ty]
			if ty == "MX" {
				qt = otherTypes[rng.Intn(len(otherTypes))]
			}
			id++
			q := qspec{name: name, qtype: qt, class: dns.ClassINET, rd: rng.Intn(2) == 0, cd: rng.Intn(3) == 0, id: id}
			for _, wire := range []bool{false, true} {
				o := c.ask(q, wire)
				if o.kind == "pass" {
					o.tailQ = nil
				}
				out.count++
				if bad := j.check(f, q, o, ptrIP); len(bad) > 0 && out.bad == nil {
					out.bad, out.q = bad, q
					out.path = map[bool]string{false: "decoded", true: "wire"}[wire]
				}
			}
		}
	}
	return out
}

func stageWatch(t *testing.T, in *Input, j *judge) {
	res := j.res
	deadline := time.Now().Add(in.budget("watch", 600000))
	for hi := range in.Watch {
		h := &in.Watch[hi]
		if time.Now().After(deadline) {
			res.Count("watch_histories_cut_by_budget", len(in.Watch)-hi)
			return
		}
		rng := rand.New(rand.NewSource(seedOf("watch" + h.ID)))
		rd := &renderer{u: &in.U, rng: rng}
		dir := t.TempDir()
		path := filepath.Join(dir, "hosts")
		cur := rd.file(h.Init.Disk.Ls)
		if err := os.WriteFile(path, cur, 0o644); err != nil {
			t.Fatal(err)
		}
		hf := hostsfile.New(&config.Config{HostsFile: path})
		if hf == nil {
			res.Skip("watch: New failed")
			return
		}
		c := newHChain(hf)
		loaded := cur
		res.Count("watch_histories", 1)
		for i := range h.Steps {
			st := &h.Steps[i]
			var how string
			var b []byte
			switch st.Act {
			case "WriteFile":
				b = rd.file(st.Disk.Ls)
				how = putFile(rng, dir, path, b, st.Cut)
				if st.Cut {
					how += "-cut"
				}
			case "RemoveFile":
				_ = os.Remove(path)
				how = "remove"
			case "WriteTooLong":
				b = rd.tooLong(st.Disk.Ls)
				how = putFile(rng, dir, path, b, false) + "-toolong"
			default:
				continue
			}
			res.Count("watch_steps", 1)
			res.Count("watch_"+how, 1)
			replay := map[string]any{"driver": "watch", "history": *h, "step": i, "bytes": string(clip(b)), "how": how}
			if st.Disk.St == "ok" {
				f := &facts{lines: refParse(b)}
				ok, last := false, sweepResult{}
				stop := time.Now().Add(4 * time.Second)
				for time.Now().Before(stop) {
					time.Sleep(30 * time.Millisecond)
					last = sweepHandler(in, j, rng, c, f, false)
					if last.bad == nil {
						ok = true
						break
					}
				}
				if !ok {
					// still the previous file's tables (no reload), or reloaded into something that is not the file?
					key := "hosts/reload-missed"
					if prev := sweepHandler(in, j, rng, c, &facts{lines: refParse(loaded)}, false); prev.bad != nil {
						key = "hosts/" + strings.SplitN(last.bad[0], ":", 2)[0]
					}
					res.Violate(key, fmt.Sprintf("[watch %s step %d, %s] 4 s after the file was replaced the tables are still not the file's: %s | query %s | file: %q | before: %q",
						h.ID, i, how, strings.Join(last.bad, "; "), last.q, clip(b), clip(loaded)), replay)
					return
				}
				loaded = b
				res.Count("watch_converged", 1)
				res.Case("watch|" + how + "|" + st.Tab)
			} else {
				// a missing / refused file: the previous tables stay
				time.Sleep(260 * time.Millisecond)
				f := &facts{lines: refParse(loaded)}
				if sr := sweepHandler(in, j, rng, c, f, false); sr.bad != nil {
					res.Violate("hosts/"+strings.SplitN(sr.bad[0], ":", 2)[0], fmt.Sprintf("[watch %s step %d, %s] after a load that cannot succeed the answers are no longer "+
						"those of the last successfully loaded file: %s | query %s | loaded: %q", h.ID, i, how, strings.Join(sr.bad, "; "), sr.q, clip(loaded)), replay)
					return
				}
				res.Count("watch_kept_on_"+st.Disk.St, 1)
				res.Case("watch|" + how + "|kept")
			}
		}
		hf.VerifStopWatcher()
	}
}

// ---------------------------------------------------------------------------
// freerun: old or new, never a mixture
// ---------------------------------------------------------------------------

func stageFreeRun(t *testing.T, in *Input, j *judge) {
	res := j.res
	dur := in.budget("freerun", 1500)
	readers := in.Readers
	if readers <= 0 {
		readers = 4
	}
	// two files over the same names with disjoint address sets; m0..m39 carry three / two addresses per family
	build := func(base int) []byte {
		var b bytes.Buffer
		for i := 0; i < 40; i++ {
			n := 3
			if base == 2 {
				n = 2
			}
			for k := 0; k < n; k++ {
				fmt.Fprintf(&b, "10.%d.%d.%d m%d.free.lan a%d.free.lan\n", base, i, k+1, i, i)
				fmt.Fprintf(&b, "fd00:%d::%d:%d m%d.free.lan\n", base, i, k+1, i)
			}
		}
		fmt.Fprintf(&b, "10.%d.200.1 *.wild.free.lan\n", base)
		for i := 0; i < 1500; i++ {
			fmt.Fprintf(&b, "10.%d.%d.%d pad%d.free.lan\n", base+100, i>>8, i&255, i)
		}
		return b.Bytes()
	}
	files := [][]byte{build(1), build(2)}
	type qk struct {
		name string
		t    uint16
	}
	var qs []qk
	for i := 0; i < 40; i += 3 {
		qs = append(qs, qk{fmt.Sprintf("m%d.free.lan.", i), dns.TypeA}, qk{fmt.Sprintf("M%d.Free.lan.", i), dns.TypeAAAA},
			qk{fmt.Sprintf("a%d.free.lan.", i), dns.TypeA}, qk{fmt.Sprintf("a%d.free.lan.", i), dns.TypeCNAME},
			qk{fmt.Sprintf("m%d.free.lan.", i), dns.TypeMX})
		qs = append(qs, qk{reverseOf(fmt.Sprintf("10.1.%d.2", i)), dns.TypePTR}, qk{reverseOf(fmt.Sprintf("10.2.%d.2", i)), dns.TypePTR})
	}
	qs = append(qs, qk{"x.wild.free.lan.", dns.TypeA}, qk{"pad7.free.lan.", dns.TypeA}, qk{"absent.free.lan.", dns.TypeA})
	// what each file answers (a reference instance per file, no watcher)
	want := make([]map[qk]string, 2)
	for fi, fb := range files {
		p := filepath.Join(t.TempDir(), "hosts")
		_ = os.WriteFile(p, fb, 0o644)
		ref := hostsfile.New(&config.Config{HostsFile: p})
		if ref == nil {
			res.Skip("freerun: reference instance did not start")
			return
		}
		ref.VerifStopWatcher()
		c := newHChain(ref)
		want[fi] = map[qk]string{}
		for _, q := range qs {
			want[fi][q] = canon(c.ask(qspec{name: q.name, qtype: q.t, class: dns.ClassINET, rd: true, id: 9}, false))
		}
	}
	differ := 0
	for _, q := range qs {
		if want[0][q] != want[1][q] {
			differ++
		}
	}
	if differ < len(qs)/2 {
		res.Skip("freerun: the two files answer alike (%d of %d differ)", differ, len(qs))
		return
	}
	dir := t.TempDir()
	path := filepath.Join(dir, "hosts")
	_ = os.WriteFile(path, files[0], 0o644)
	h := hostsfile.New(&config.Config{HostsFile: path})
	if h == nil {
		res.Skip("freerun: New failed")
		return
	}
	defer h.VerifStopWatcher()
	var stop, stopForce atomic.Bool
	var wg sync.WaitGroup
	var swaps, forced, asked atomic.Int64
	stage := filepath.Join(t.TempDir(), "stage")
	put := func(fi int) {
		_ = os.WriteFile(stage, files[fi], 0o644)
		_ = os.Rename(stage, path)
	}
	// the operator: whole files renamed into place, with pauses long enough for the debounce to fire
	wg.Add(1)
	go func() {
		defer wg.Done()
		rng := rand.New(rand.NewSource(vh.Seed()))
		fi := 0
		for !stopForce.Load() {
			fi = 1 - fi
			put(fi)
			swaps.Add(1)
			if rng.Intn(3) == 0 {
				time.Sleep(time.Duration(5+rng.Intn(30)) * time.Millisecond)
			} else {
				time.Sleep(time.Duration(120+rng.Intn(60)) * time.Millisecond)
			}
		}
	}()
	// loads forced back to back (what a burst of timers does)
	wg.Add(1)
	go func() {
		defer wg.Done()
		for !stopForce.Load() {
			_ = h.VerifLoad()
			forced.Add(1)
			time.Sleep(200 * time.Microsecond)
		}
	}()
	for ri := 0; ri < readers; ri++ {
		wg.Add(1)
		go func(ri int) {
			defer wg.Done()
			c := newHChain(h)
			rng := rand.New(rand.NewSource(vh.Seed()*131 + int64(ri)))
			for !stop.Load() {
				q := qs[rng.Intn(len(qs))]
				wire := rng.Intn(2) == 0
				got := canon(c.ask(qspec{name: q.name, qtype: q.t, class: dns.ClassINET, rd: true, id: uint16(rng.Intn(65000) + 1)}, wire))
				asked.Add(1)
				if got != want[0][q] && got != want[1][q] {
					res.Violate("hosts/mixture", fmt.Sprintf("[freerun] while whole files were being swapped, %s %s got %s - neither the old file's answer (%s) nor the new one's (%s)",
						q.name, dns.TypeToString[q.t], got, want[0][q], want[1][q]),
						map[string]any{"driver": "freerun", "query": q.name, "type": dns.TypeToString[q.t], "got": got, "old": want[0][q], "new": want[1][q]})
					stop.Store(true)
					return
				}
			}
		}(ri)
	}
	time.Sleep(dur)
	stopForce.Store(true)
	time.Sleep(250 * time.Millisecond) // let the watcher's last reload pass while the readers still run
	stop.Store(true)
	wg.Wait()
	res.Count("freerun_swaps", int(swaps.Load()))
	res.Count("freerun_forced_loads", int(forced.Load()))
	res.Count("freerun_replies", int(asked.Load()))
	res.Case("freerun|swaps")
	if res.NViolations() > 0 {
		return
	}
	// convergence: one last change, then the watcher alone
	final := 1
	put(final)
	c := newHChain(h)
	okAll := false
	var lastQ qk
	var lastGot string
	limit := time.Now().Add(5 * time.Second)
	for time.Now().Before(limit) && !okAll {
		time.Sleep(40 * time.Millisecond)
		okAll = true
		for _, q := range qs {
			if got := canon(c.ask(qspec{name: q.name, qtype: q.t, class: dns.ClassINET, rd: true, id: 5}, false)); got != want[final][q] {
				okAll, lastQ, lastGot = false, q, got
				break
			}
		}
	}
	if !okAll {
		res.Violate("hosts/reload-missed", fmt.Sprintf("[freerun] 5 s after the last file was renamed into place %s %s still gets %s (the file says %s)",
			lastQ.name, dns.TypeToString[lastQ.t], lastGot, want[final][lastQ]), map[string]any{"driver": "freerun", "phase": "convergence"})
		return
	}
	res.Count("freerun_converged", 1)
}

// ---------------------------------------------------------------------------
// stale: overlapping loads with the real watcher and plain files
// ---------------------------------------------------------------------------

// pathOpen: does this process hold the hosts path open (a load() is reading it)? A file that has been
// renamed over shows up as "<path> (deleted)".
func pathOpen(path string) bool {
	ents, err := os.ReadDir("/proc/self/fd")
	if err != nil {
		return false
	}
	for _, e := range ents {
		if l, err := os.Readlink("/proc/self/fd/" + e.Name()); err == nil && (l == path || l == path+" (deleted)") {
			return true
		}
	}
	return false
}

func stageStale(t *testing.T, in *Input, j *judge) {
	res := j.res
	runs := in.StaleRuns
	if runs <= 0 {
		runs = 1
	}
	lines := 60000
	var big []byte
	var loadTime time.Duration
	for try := 0; try < 3; try++ {
		var b bytes.Buffer
		for i := 0; i < lines; i++ {
			fmt.Fprintf(&b, "10.%d.%d.%d host%d.big.lan\n", i>>16&255, i>>8&255, i&255, i)
		}
		b.WriteString("192.0.2.1 ver.lan\n")
		big = b.Bytes()
		p := filepath.Join(t.TempDir(), "hosts")
		_ = os.WriteFile(p, big, 0o644)
		t0 := time.Now()
		ref := hostsfile.New(&config.Config{HostsFile: p})
		loadTime = time.Since(t0)
		if ref == nil {
			res.Skip("stale: reference load failed")
			return
		}
		ref.VerifStopWatcher()
		if loadTime > 300*time.Millisecond {
			break
		}
		lines *= 2
	}
	res.Count("stale_big_file_lines", lines)
	res.Count("stale_big_file_load_ms", int(loadTime.Milliseconds()))
	small := []byte("192.0.2.2 ver.lan\n")
	for run := 0; run < runs; run++ {
		dir := t.TempDir()
		path := filepath.Join(dir, "hosts")
		_ = os.WriteFile(path, []byte("192.0.2.9 init.lan\n"), 0o644)
		h := hostsfile.New(&config.Config{HostsFile: path})
		if h == nil {
			res.Skip("stale: New failed")
			return
		}
		c := newHChain(h)
		stage := filepath.Join(t.TempDir(), "stage")
		_ = os.WriteFile(stage, big, 0o644)
		_ = os.Rename(stage, path)
		opened := false
		for stop := time.Now().Add(3 * time.Second); time.Now().Before(stop); time.Sleep(time.Millisecond) {
			if pathOpen(path) {
				opened = true
				break
			}
		}
		if !opened {
			res.Count("stale_first_load_not_seen", 1)
			h.VerifStopWatcher()
			continue
		}
		_ = os.WriteFile(stage, small, 0o644)
		_ = os.Rename(stage, path)
		// wait until both loads have returned: the big one publishes `lines+1` entries or never
		ask := func() string {
			return canon(c.ask(qspec{name: "ver.lan.", qtype: dns.TypeA, class: dns.ClassINET, rd: true, id: 3}, false))
		}
		sawSmall, sawBigAfter := false, false
		limit := time.Now().Add(6*loadTime + 4*time.Second)
		closedSince := time.Time{}
		last := ""
		for time.Now().Before(limit) {
			time.Sleep(20 * time.Millisecond)
			last = ask()
			if last == "answer:192.0.2.2" {
				sawSmall = true
			}
			if sawSmall && last == "answer:192.0.2.1" {
				sawBigAfter = true // nothing is pending any more: the superseded load was the last to store
				time.Sleep(150 * time.Millisecond)
				last = ask()
				break
			}
			if pathOpen(path) {
				closedSince = time.Time{}
			} else if closedSince.IsZero() {
				closedSince = time.Now()
			}
			if sawSmall && !closedSince.IsZero() && time.Since(closedSince) > 250*time.Millisecond {
				break // both loads have returned
			}
		}
		h.VerifStopWatcher()
		res.Case(fmt.Sprintf("stale|%v|%v", sawSmall, sawBigAfter))
		if sawBigAfter && last == "answer:192.0.2.1" {
			res.Count("stale_reproduced", 1)
			res.Violate(staleKey, fmt.Sprintf("[real watcher, plain files] a %d-line hosts file ending in \"192.0.2.1 ver.lan\" was renamed into place; while its load() was reading it "+
				"(%d ms to load), the one-line file \"192.0.2.2 ver.lan\" was renamed over it. The second reload published 192.0.2.2 first, then the superseded first load stored its tables: "+
				"ver.lan A is answered %s for good while the file on disk says 192.0.2.2 (loads started by time.AfterFunc are not serialised; README: \"Auto reloads with fs watch\")",
				lines, loadTime.Milliseconds(), last), map[string]any{"driver": "stale", "lines": lines})
			return
		}
		res.Count("stale_not_reproduced", 1)
	}
}

// ---------------------------------------------------------------------------
// internal sub-queries, the cache behind the hosts file
// ---------------------------------------------------------------------------

func writeAndLoad(h *hostsfile.Hostsfile, path, content string) error {
	if err := os.WriteFile(path, []byte(content), 0o644); err != nil {
		return err
	}
	return h.VerifLoad()
}

func stageInternal(t *testing.T, in *Input, j *judge) {
	res := j.res
	path := filepath.Join(t.TempDir(), "hosts")
	_ = os.WriteFile(path, []byte("192.0.2.1 h1.lan al.lan\n2001:db8::1 h1.lan\n"), 0o644)
	f := newFront(path, "views")
	if f.h == nil || f.tail.qy == nil {
		res.Skip("internal: no handler / no queryer wired (%v, %v)", f.h != nil, f.tail.qy != nil)
		return
	}
	f.h.VerifStopWatcher()
	fc := &facts{lines: refParse([]byte("192.0.2.1 h1.lan al.lan\n2001:db8::1 h1.lan\n"))}
	for _, c := range []struct {
		name string
		t    uint16
	}{{"h1.lan.", dns.TypeA}, {"H1.LAN.", dns.TypeAAAA}, {"al.lan.", dns.TypeCNAME}, {"h1.lan.", dns.TypeTXT}, {"nx.lan.", dns.TypeA},
		{reverseOf("192.0.2.1"), dns.TypePTR}} {
		q := qspec{name: c.name, qtype: c.t, class: dns.ClassINET, rd: true, id: 77}
		c0, _ := f.tail.snapshot()
		reply, err := f.tail.qy.Query(context.Background(), q.msg())
		c1, tq := f.tail.snapshot()
		if err != nil {
			reply = nil
		}
		o := classify(reply, c1-c0, tq)
		ptr := ""
		if c.t == dns.TypePTR {
			ptr = "192.0.2.1"
		}
		res.Case("internal|" + c.name + "|" + o.kind)
		res.Count("internal_queries", 1)
		if bad := j.check(fc, q, o, ptr); len(bad) > 0 {
			res.Violate("hosts/internal", fmt.Sprintf("[internal sub-query through middleware.Queryer] %s | query %s (the sub-pipeline keeps the hosts file: pipeline.go, resolver.go internalExchange)",
				strings.Join(bad, "; "), q), map[string]any{"driver": "internal", "query": q.String()})
			return
		}
	}
}

func stageCache(t *testing.T, in *Input, j *judge) {
	res := j.res
	path := filepath.Join(t.TempDir(), "hosts")
	_ = os.WriteFile(path, []byte("192.0.2.1 c1.lan\n"), 0o644)
	f := newFront(path, "failover")
	if f.h == nil {
		res.Skip("cache: no handler")
		return
	}
	f.h.VerifStopWatcher()
	f.tail.answer = "203.0.113.50"
	id := uint16(100)
	ask := func(wire bool) string {
		id++
		q := qspec{name: "c1.lan.", qtype: dns.TypeA, class: dns.ClassINET, rd: true, id: id}
		var o outcome
		if wire {
			o = f.askWire(q)
		} else {
			o = f.askDecoded(q)
		}
		if o.msg == nil || o.msg.Rcode != dns.RcodeSuccess {
			return "none"
		}
		rr := []string{}
		for _, r := range o.msg.Answer {
			rr = append(rr, rdataOf(r))
		}
		return strings.Join(rr, ",")
	}
	type step struct {
		content, want, class, why string
	}
	steps := []step{
		{"192.0.2.1 c1.lan\n", "192.0.2.1", "answer-incomplete", "the file's address"},
		{"# empty\n", "203.0.113.50", "cached-hosts-answer", "the name left the file: the downstream's answer, not a remembered hosts answer"},
		{"# empty\n", "203.0.113.50", "cached-hosts-answer", "again (now from the cache)"},
		{"192.0.2.2 c1.lan\n", "192.0.2.2", "cache-shadows-hosts", "the name entered the file: the hosts file stands ahead of the cache"},
		{"# empty\n", "203.0.113.50", "cached-hosts-answer", "and left again"},
	}
	for i, s := range steps {
		if err := writeAndLoad(f.h, path, s.content); err != nil {
			res.Skip("cache: load: %v", err)
			return
		}
		for _, wire := range []bool{false, true} {
			got := ask(wire)
			res.Case(fmt.Sprintf("cache|%d|%v|%s", i, wire, got))
			res.Count("cache_queries", 1)
			if got != s.want {
				res.Violate("hosts/"+s.class, fmt.Sprintf("[cache behind the hosts file, step %d, wire=%v] c1.lan A got %q, expected %q (%s); file: %q",
					i, wire, got, s.want, s.why, s.content), map[string]any{"driver": "cache", "step": i})
				return
			}
		}
	}
}

// ---------------------------------------------------------------------------
// probes: observations
// ---------------------------------------------------------------------------

func stageProbes(t *testing.T, in *Input, j *judge) {
	res := j.res
	content := "192.0.2.1 h1.lan al.lan\n2001:db8::1 h1.lan al.lan\n192.0.2.7 *.Up.lan\n192.0.2.8 *.dom.lan beside.lan\n192.0.2.3 dot.lan.\n"
	path := filepath.Join(t.TempDir(), "hosts")
	_ = os.WriteFile(path, []byte(content), 0o644)
	f := newFront(path, "views")
	if f.h == nil {
		res.Skip("probes: no handler")
		return
	}
	f.h.VerifStopWatcher()
	ask := func(name string, ty, cl uint16) outcome {
		return f.askDecoded(qspec{name: name, qtype: ty, class: cl, rd: true, id: 4242})
	}
	rp := map[string]any{"driver": "probes", "file": content}
	if o := ask("al.lan.", dns.TypeA, dns.ClassINET); o.kind != "answer" {
		j.observe("alias-loses-family", fmt.Sprintf("file %q: al.lan A -> %s (the second line's alias entry replaced the first's; h1.lan keeps both families)", content[:51], canon(o)), rp)
	}
	if o := ask("x.up.lan.", dns.TypeA, dns.ClassINET); o.kind != "answer" {
		j.observe("wildcard-case", fmt.Sprintf("line \"192.0.2.7 *.Up.lan\": x.up.lan A -> %s (host names of the file are lower-cased, patterns are not)", canon(o)), rp)
	}
	if o := ask("beside.lan.", dns.TypeA, dns.ClassINET); o.kind != "answer" {
		j.observe("name-beside-pattern-dropped", fmt.Sprintf("line \"192.0.2.8 *.dom.lan beside.lan\": beside.lan A -> %s", canon(o)), rp)
	}
	if o := ask("dot.lan.", dns.TypeA, dns.ClassINET); o.kind != "answer" {
		j.observe("trailing-dot-name", fmt.Sprintf("line \"192.0.2.3 dot.lan.\": dot.lan A -> %s (keyed with the dot, looked up without)", canon(o)), rp)
	}
	if o := ask("h1.lan.", dns.TypeA, dns.ClassCHAOS); o.kind == "answer" {
		j.observe("class-ignored", fmt.Sprintf("h1.lan A in class CH is answered with the IN record %v", o.rdata), rp)
	}
	lo, up := ask(reverseOf("192.0.2.1"), dns.TypePTR, dns.ClassINET), ask(strings.ToUpper(reverseOf("192.0.2.1")), dns.TypePTR, dns.ClassINET)
	if canon(lo) != canon(up) {
		j.observe("ptr-case", fmt.Sprintf("%s PTR -> %s but %s PTR -> %s (IPFromReverseName matches the .in-addr.arpa. / .ip6.arpa. suffix case-sensitively; 0x20-randomising forwarders lose the hosts PTR)",
			reverseOf("192.0.2.1"), canon(lo), strings.ToUpper(reverseOf("192.0.2.1")), canon(up)), rp)
	}
	// start-up without a file: the handler is left out for good
	dir := t.TempDir()
	late := filepath.Join(dir, "hosts")
	h := hostsfile.New(&config.Config{HostsFile: late})
	if h == nil {
		_ = os.WriteFile(late, []byte("192.0.2.1 late.lan\n"), 0o644)
		time.Sleep(250 * time.Millisecond)
		c := newHChain(h)
		if o := c.ask(qspec{name: "late.lan.", qtype: dns.TypeA, class: dns.ClassINET, rd: true, id: 8}, false); o.kind == "pass" {
			j.observe("missing-at-startup-disables-for-good", "hostsfile.New returns nil when the file is missing at start-up: no watcher, a file created later is never served", rp)
		}
	}
	res.Case("probes|done")
	res.Count("probes", 7)
	_ = net.IPv4zero
}
